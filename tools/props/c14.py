"""C14 - Jet tables and foreign bindings match libsimplicity.

Proof: every statement of Props/C14.v is a finite fact about the complete jet tables / C tables / extern
declarations, which tools/xlate_jets.py regenerates from the sources on every run (vm_compute + forallb_forall).
Correspondence: the model functions evaluated on the generated tables (Jets/Run.v) against the real library
through harness_jets, for every Core and Elements jet (this validates the translator against rustc's view of
the same source, and the model of encode/decode/FromStr/TypeName against the implementation).
Search (the property on the implementation): round trips, prefix-freeness and names from observed values;
Rust cmr/cost/type roots against libsimplicity's (decodeMallocDag + mallocTypeInference through the test FFI).
Runtime complement (a TEST): every Core/Elements jet executed once on an all-zero input of its declared width."""
import json
import os
import sys

import vplib
from vplib import Case, coq_list

sys.path.insert(0, os.path.dirname(os.path.dirname(os.path.abspath(__file__))))
import xlate_jets as XJ  # noqa: E402
import xlate_jets_checks as XK  # noqa: E402

PROP = "C14"
LEVEL = "proof"
IMPORTS = ["Jets.Run"]
FAMS = (("core", "Core", 0, 368), ("elements", "Elements", 1, 471))


# ------------------------------------------------------------ generators
def gen_cases(rng, tier, T):
    cases = []
    k = [0]

    def add(kind, line, expr, meta):
        k[0] += 1
        cases.append(Case("j%d" % k[0], kind, line, expr, meta))

    names = {}
    for low, cap, fk, n in FAMS:
        for i in range(n):
            add("jet", "%s %d" % (low, i), "run_jet (fam_of %d) %d" % (fk, i), {"fam": low, "idx": i})
            add("tmr", "%s %d" % (low, i), None, {"fam": low, "idx": i})
            add("exec", "%s %d" % (low, i), None, {"fam": low, "idx": i})
        # one past the end: both sides must agree that there is no such jet
        add("jet", "%s %d" % (low, n), "run_jet (fam_of %d) %d" % (fk, n), {"fam": low, "idx": n})
        if T is not None:
            names[low] = [T["families"][cap]["display"][v] for v in T["families"][cap]["variants"]]
    for i in range(471):
        add("cjet", "%d" % i, None, {"idx": i})
    add("sanity", "", None, {})

    def dec(low, fk, bits):
        bits = bits + [0] * (-len(bits) % 8)
        add("dec", "%s %s" % (low, "".join(map(str, bits)) or "-"), "run_decode (fam_of %d) %s" % (fk, coq_list(
            "true" if b else "false" for b in bits)), {"fam": low, "bits": bits})
    for low, cap, fk, n in FAMS:
        for v in range(256):                       # every first byte
            dec(low, fk, [(v >> (7 - i)) & 1 for i in range(8)])
        for _ in range(300 if tier == "quick" else 6000):
            ln = rng.choice([8, 16, 16, 24])
            dec(low, fk, rng.bits(ln))
        if T is not None:
            # mutated codes: one bit flipped / truncated to the byte before the end
            o = T["families"][cap]
            vs = o["variants"]
            for _ in range(300 if tier == "quick" else 5000):
                v = rng.choice(vs)
                cn, cl = o["code"][v]
                bits = XK.bits_be(cn, cl) + rng.bits(rng.below(9))
                if rng.chance(2, 3) and bits:
                    bits[rng.below(len(bits))] ^= 1
                if rng.chance(1, 6):
                    bits = bits[:8 * (len(bits) // 8)]
                dec(low, fk, bits)
        dec(low, fk, [])

    def parse(low, fk, s):
        add("parse", "%s %s" % (low, s or "-"), "run_parse (fam_of %d) %s" % (fk, coq_list(ord(c) for c in s)),
            {"fam": low, "s": s})
    allnames = sorted(set(names.get("core", []) + names.get("elements", [])))
    if T is not None:
        allnames = sorted(set(allnames + [T["families"]["Bitcoin"]["display"][v] for v in T["families"]["Bitcoin"]["variants"]]))
    for low, cap, fk, n in FAMS:
        for s in allnames:
            parse(low, fk, s)
        for _ in range(150 if tier == "quick" else 3000):
            if not allnames:
                break
            s = rng.choice(allnames)
            r = rng.below(5)
            if r == 0:
                s = s[:-1]
            elif r == 1:
                s = s + rng.choice(["_", "8", "x"])
            elif r == 2:
                s = s.upper()
            elif r == 3 and len(s) > 2:
                j = rng.below(len(s))
                s = s[:j] + rng.choice("abcxyz_0189") + s[j + 1:]
            else:
                s = s.replace("_", "", 1)
            if s and all(c.isalnum() or c == "_" for c in s):
                parse(low, fk, s)
    return cases


# ------------------------------------------------------------ parsing harness results
def split_jet(r):
    """jet case result -> dict | None"""
    try:
        if r[0] != 0:
            return None
        d = {"len": r[1], "val": r[2]}
        p = 3
        if r[p] == 0:
            d["dec"] = (r[p + 1], r[p + 2])
            p += 3
        else:
            d["dec"] = ("err", r[p])
            p += 2 if r[p] == 9 else 1
        n = r[p]
        d["name"] = "".join(chr(c) for c in r[p + 1:p + 1 + n])
        p += 1 + n
        if r[p] == 0:
            d["parse"] = r[p + 1]
            p += 2
        else:
            d["parse"] = None
            p += 1
        n = r[p]
        d["cmr"] = r[p + 1:p + 1 + n]
        p += 1 + n
        for key in ("src", "tgt"):
            if r[p] != 0:
                d[key] = None
                p += 1
            else:
                n = r[p + 2]
                d[key] = (r[p + 1], tuple(r[p + 3:p + 3 + n]))
                p += 3 + n
        d["cost"] = r[p]
        d["code"] = XK.bits_be(d["val"], d["len"])
        return d
    except (IndexError, TypeError):
        return None


class Ctx:
    """values observed on the implementation, shared by the per-case and the global property checks"""

    def __init__(self):
        self.jets = {"core": {}, "elements": {}}     # idx -> split_jet
        self.tmr = {"core": {}, "elements": {}}
        self.cjet = {}


CTX = Ctx()


def prop_check(c, r):
    m = c.meta
    if r in ("CRASH", "TIMEOUT") or r is None or not isinstance(r, list):
        return ("crash", "implementation crashed or hung on `%s %s`" % (c.kind, c.line))
    if c.kind == "jet":
        n = dict((f[0], f[3]) for f in FAMS)[m["fam"]]
        if m["idx"] >= n:
            return None if r == [7] else ("table", "%s::ALL has an entry %d" % (m["fam"], m["idx"]))
        d = split_jet(r)
        if d is None:
            return ("panic", "%s jet %d: encode/cmr/type/cost panicked or printed garbage: %s" % (m["fam"], m["idx"], r[:12]))
        if d["dec"] != (m["idx"], d["len"]):
            return ("roundtrip", "%s jet %d (%s): decode(encode(j)) = %s, encode wrote %d bits %s"
                    % (m["fam"], m["idx"], d["name"], d["dec"], d["len"], "".join(map(str, d["code"]))))
        if d["parse"] != m["idx"]:
            return ("name", "%s jet %d: parse(%r) = %s" % (m["fam"], m["idx"], d["name"], d["parse"]))
        if d["src"] is None or d["tgt"] is None:
            return ("typename", "%s jet %d (%s): to_final/to_bit_width panics" % (m["fam"], m["idx"], d["name"]))
        if len(d["cmr"]) != 32:
            return ("panic", "%s jet %d: cmr() panicked" % (m["fam"], m["idx"]))
    elif c.kind == "tmr":
        if len(r) != 70 or r[0] != 1 or r[1] != 1 or r[35] != 1 or r[36] != 1:
            return ("typename", "%s jet %d: TypeName::tmr / to_bit_width disagree with to_final: %s" % (m["fam"], m["idx"], r[:3]))
    elif c.kind == "exec":
        # TEST (runtime complement): Ok with an output of the declared type, or JetFailed; never a panic
        if r[0] == 0 and r[1] == 1:
            return None
        if r[0] == 1:
            return None
        return ("exec", "%s jet %d executed on the all-zero input: result %s (0 ok, 1 JetFailed, 2 JetTypeMismatch, "
                        "3 input rejected, 4 limits, 5/6 finalize, 8 other error, 9 panic)" % (m["fam"], m["idx"], r))
    elif c.kind == "cjet":
        if r[0] != 0 or len(r) != 101 or r[1] != 1:
            return ("c-decode", "libsimplicity does not decode / type the one-jet program of Elements jet %d: %s" % (m["idx"], r[:4]))
    elif c.kind == "dec":
        # the decoder is the inverse of the encoder: it returns the unique jet whose code is a prefix of the input
        codes = CTX.jets[m["fam"]]
        bits = m["bits"]
        hit = [i for i, d in codes.items() if d is not None and d["code"] == bits[:d["len"]]]
        if len(hit) == 1:
            exp = [0, hit[0], codes[hit[0]]["len"]]
            if r != exp:
                return ("decode", "%s decode(%s) = %s, but the input starts with the code of jet %d (%s)"
                        % (m["fam"], "".join(map(str, bits)), r, hit[0], codes[hit[0]]["name"]))
        elif len(hit) == 0:
            if r and r[0] == 0:
                d = codes.get(r[1])
                return ("decode", "%s decode(%s) = jet %s (%s) although no jet's code %s is a prefix of the input"
                        % (m["fam"], "".join(map(str, bits)), r[1], d["name"] if d else "?", "".join(map(str, d["code"])) if d else ""))
            if r == [9, 0] or r == [7]:
                return ("panic", "%s decode(%s) panicked" % (m["fam"], "".join(map(str, bits))))
    elif c.kind == "parse":
        byname = dict((d["name"], i) for i, d in CTX.jets[m["fam"]].items() if d is not None)
        exp = [0, byname[m["s"]]] if m["s"] in byname else [1]
        if r != exp:
            return ("name", "%s parse(%r) = %s, expected %s" % (m["fam"], m["s"], r, exp))
    elif c.kind == "sanity":
        if r != [1]:
            return ("layout", "simplicity_sys::c_jets::sanity_checks() fails: Rust and C struct layouts differ")
    return None


def global_checks(rep):
    """properties that relate several observations; returns list of (class, text, replay object)"""
    out = []
    for fam in ("core", "elements"):
        js = CTX.jets[fam]
        good = sorted((i for i in js if js[i] is not None), key=lambda i: js[i]["code"])
        for a, b in zip(good, good[1:]):
            if js[b]["code"][:js[a]["len"]] == js[a]["code"]:
                out.append(("prefix", "%s: the code %s of jet %d (%s) is a prefix of the code %s of jet %d (%s)"
                            % (fam, "".join(map(str, js[a]["code"])), a, js[a]["name"], "".join(map(str, js[b]["code"])), b, js[b]["name"]),
                            {"family": fam, "jets": [a, b]}))
        seen = {}
        for i in sorted(js):
            if js[i] is None:
                continue
            if js[i]["name"] in seen:
                out.append(("name", "%s: jets %d and %d are both displayed as %r" % (fam, seen[js[i]["name"]], i, js[i]["name"]),
                            {"family": fam, "jets": [seen[js[i]["name"]], i]}))
            seen[js[i]["name"]] = i
    # Rust Elements vs libsimplicity
    for i, d in sorted(CTX.jets["elements"].items()):
        c = CTX.cjet.get(i)
        t = CTX.tmr["elements"].get(i)
        if d is None or c is None or t is None or len(c) != 101 or len(t) != 70:
            continue
        ccmr, ccost = c[2:34], c[34]
        cs_bits, cs_tmr, ct_bits, ct_tmr = c[35], c[36:68], c[68], c[69:101]
        rs_bits, rs_tmr, rt_bits, rt_tmr = t[2], t[3:35], t[37], t[38:70]
        what = []
        if d["cmr"] != ccmr:
            what.append(("c-cmr", "cmr: Rust %s, C %s" % (bytes(d["cmr"]).hex(), bytes(ccmr).hex())))
        if d["cost"] != ccost:
            what.append(("c-cost", "cost: Rust %d, C %d" % (d["cost"], ccost)))
        if (rs_bits, rs_tmr) != (cs_bits, cs_tmr):
            what.append(("c-type", "source type: Rust %d bits (type root %s), C %d bits (type root %s)"
                         % (rs_bits, bytes(rs_tmr).hex()[:16], cs_bits, bytes(cs_tmr).hex()[:16])))
        if (rt_bits, rt_tmr) != (ct_bits, ct_tmr):
            what.append(("c-type", "target type: Rust %d bits (type root %s), C %d bits (type root %s)"
                         % (rt_bits, bytes(rt_tmr).hex()[:16], ct_bits, bytes(ct_tmr).hex()[:16])))
        for cls, txt in what:
            out.append((cls, "Elements jet %d (%s): %s" % (i, d["name"], txt), {"family": "elements", "jets": [i]}))
    # Core vs Elements namesake
    ebyname = dict((d["name"], (i, d)) for i, d in CTX.jets["elements"].items() if d is not None)
    for i, d in sorted(CTX.jets["core"].items()):
        if d is None:
            continue
        if d["name"] not in ebyname:
            out.append(("core-elements", "Core jet %d (%s) has no Elements namesake" % (i, d["name"]), {"family": "core", "jets": [i]}))
            continue
        j, e = ebyname[d["name"]]
        if e["src"] != d["src"] or e["tgt"] != d["tgt"]:
            out.append(("core-elements", "Core jet %d / Elements jet %d (%s) have different types: %s -> %s bits vs %s -> %s bits"
                        % (i, j, d["name"], d["src"][0] if d["src"] else "?", d["tgt"][0] if d["tgt"] else "?",
                           e["src"][0] if e["src"] else "?", e["tgt"][0] if e["tgt"] else "?"),
                        {"family": "core", "jets": [i], "elements": [j]}))
        if e["code"] != [0] + d["code"]:
            out.append(("core-elements", "Core jet %d (%s) code %s, Elements jet %d code %s: not 0 followed by the Core code"
                        % (i, d["name"], "".join(map(str, d["code"])), j, "".join(map(str, e["code"]))),
                        {"family": "core", "jets": [i], "elements": [j]}))
    return out


def finding_match(c, r, cls):
    for f in vplib.open_findings(PROP):
        mt = f.get("match", {})
        if mt.get("class") == cls and (mt.get("kind") in (None, c.kind)):
            if "idx" in mt and mt["idx"] != c.meta.get("idx"):
                continue
            return f["id"]
    return None


def table_finding(cls, item):
    for f in vplib.open_findings(PROP):
        mt = f.get("match", {})
        if mt.get("class") == cls and mt.get("name") in (None, item.get("name"), item.get("jet")):
            return f
    return None


def nontrivial(c, r):
    if c.kind in ("jet", "exec", "cjet", "tmr"):
        return (c.kind, c.line)
    if c.kind == "dec":
        return ("dec", c.line) if isinstance(r, list) and r and r[0] == 0 else None
    if c.kind == "parse":
        return ("parse", c.line) if isinstance(r, list) and r and r[0] == 0 else None
    return None


def run(rep, tier, rng):
    proof_ok = vplib.proof_stage(rep, "Props/C14.v", extra_targets=["Jets/Run.vo"], translators=("xlate_jets.py",))
    rep.coverage["trusted_base"] = vplib.GENERIC_TRUSTED + [
        "translator tools/xlate_jets.py + xlate_jets_{rust,c,ffi}.py: line-oriented regex parsers of the machine-generated "
        "src/jet/init/*.rs, simplicity-sys/depend/simplicity/{elements/primitive*.inc, elements/decodeElementsJets.inc, decodeCoreJets.inc} "
        "and of the extern blocks / C prototypes; fail closed; counts asserted (368/471/428 jets, 497 fn + 91 static + 2 callback + "
        "3 exported extern items); validated against rustc's view of the Rust tables by the correspondence check and against the "
        "compiled C tables through decodeMallocDag/mallocTypeInference",
        "dictionary of FFI type classes in xlate_jets_ffi.py (Rust alias -> C type, Rust struct -> C struct); compatibility means equal "
        "ABI class on x86-64 LP64/glibc (pointer <-> pointer with compatible or void pointee, integer of equal width and signedness)",
        "types are compared as trees, the Rust library compares them by type Merkle root (TMR collision = gap)",
        "decodeUptoMaxInt (C) is taken to be the natural-number code modelled in Bits/Natural.v (its text is pinned by the translator)",
        "Bitcoin family: only codes, names and type names (cmr/cost/c_jet_ptr are unimplemented!() in this revision); not run through the "
        "harness (feature `bitcoin` is not enabled)",
    ]
    # python-side copy of the translated tables, for diagnosis
    T = None
    try:
        T = XJ.translate()
    except XJ.TranslateError as e:
        rep.notes.append("translator failed: %s" % e)
    table_issues, notes = ([], [])
    if T is not None:
        table_issues, notes = XK.diagnose(T)
    rep.coverage["ffi_notes"] = notes
    binary, out = vplib.harness_build("debug")
    if binary is None:
        raise vplib.Infra("harness build failed:\n" + out[-3000:])
    cases = gen_cases(rng, tier, T)
    # corpus first
    cdir = os.path.join(vplib.VERIF, "corpus", PROP)
    if os.path.isdir(cdir):
        for fn in sorted(os.listdir(cdir)):
            if fn.endswith(".case"):
                for ln in open(os.path.join(cdir, fn)):
                    t = ln.split()
                    if len(t) >= 2 and not ln.startswith("#"):
                        kind, line = t[0], " ".join(t[1:])
                        cases.insert(0, Case("k%d" % len(cases), kind, line, None, _meta_of(kind, t[1:])))
    model_cases = cases if (T is not None and rep.coverage.get("discharged") is not None and not getattr(rep, "proof_broken", None)) else \
        [Case(c.cid, c.kind, c.line, None, c.meta) for c in cases]
    if model_cases is not cases:
        rep.notes.append("model evaluation skipped: the generated tables do not compile or the proofs are broken")
    # first pass: fill the context from the jet/tmr/cjet observations (needed by dec/parse checks)
    impl, model = vplib.eval_cases(rep, binary, "jets", model_cases, IMPORTS, tag="c14", batch=400, harness_timeout=900)
    for c in model_cases:
        r = impl.get(c.cid)
        if c.kind == "jet" and isinstance(r, list):
            n = dict((f[0], f[3]) for f in FAMS)[c.meta["fam"]]
            if c.meta["idx"] < n:
                CTX.jets[c.meta["fam"]][c.meta["idx"]] = split_jet(r)
        elif c.kind == "tmr" and isinstance(r, list):
            CTX.tmr[c.meta["fam"]][c.meta["idx"]] = r
        elif c.kind == "cjet" and isinstance(r, list):
            CTX.cjet[c.meta["idx"]] = r
    pfail, mism = vplib.decide(rep, model_cases, impl, model, prop_check, finding_match, nontrivial,
                               what="correspondence Jets/Run.v (generated tables) vs the jet tables compiled into the library")
    found = len(pfail)
    for cls, text, obj in global_checks(rep):
        f = table_finding(cls, obj)
        if f:
            rep.known_finding("%s %s" % (f["id"], f["what"]))
            continue
        found += 1
        o = {"failure_class": cls, "observed_on": "implementation (harness_jets)", "replay_cases":
             ["jet %s %d" % (obj["family"], j) for j in obj.get("jets", [])] + (["cjet %d" % j for j in obj.get("jets", [])] if cls.startswith("c-") else [])}
        o.update(obj)
        rep.violation("property fails on the implementation: %s [%s]" % (text, cls), o, True)
    # the same statements over the translated tables: names the rows when a table proof fails
    by_cls = {}
    for it in table_issues:
        by_cls.setdefault(it["cls"], []).append(it)
    for cls, its in sorted(by_cls.items()):
        f = table_finding(cls, its[0])
        if f:
            rep.known_finding("%s %s (%d rows)" % (f["id"], f["what"], len(its)))
            continue
        found += 1
        rep.violation("table check fails on the sources: %s [%s] (%d rows)" % (its[0]["detail"], cls, len(its)),
                      {"failure_class": cls, "observed_on": "sources (translated tables)", "rows": its[:20], "failing_rows": len(its)}, True)
    rep.coverage["search"]["table_rows_checked"] = (368 + 471 + 428) if T is not None else 0
    rep.coverage["search"]["table_issues"] = len(table_issues)
    rep.coverage["rule"] = (
        "exhaustive: one `jet` (model vs library), `tmr` and `exec` case per Core and Elements jet, one `cjet` (libsimplicity) case per "
        "Elements jet; decode: every first byte, random 8-24 bit strings and mutated/truncated codes; parse: every jet name of all three "
        "families against both families plus mutated names.  Distinct = distinct case line; non-trivial = per-jet cases, and dec/parse "
        "cases that are accepted")
    ex = [c for c in model_cases if c.kind == "exec"]
    exr = {}
    for c in ex:
        r = impl.get(c.cid)
        key = {0: "ok", 1: "jet_failed"}.get(r[0] if isinstance(r, list) and r else -1, "other")
        exr[key] = exr.get(key, 0) + 1
    rep.coverage["runtime_complement_TEST"] = {
        "what": "each Core/Elements jet executed once through BitMachine (C jet through the FFI) on the all-zero input of its declared "
                "source width, in a guarded call; Elements jets in a dummy one-input environment.  This part is a test, not a proof.",
        "jets_executed": len(ex), "outcomes": exr}
    vg = memcheck(rep, binary, ex, impl)
    if vg is not None:
        rep.coverage["runtime_complement_TEST"]["valgrind_memcheck"] = vg["summary"]
        if vg["errors"]:
            found += 1
            rep.violation("runtime complement: valgrind memcheck reports errors while the jets execute: %s [exec-memcheck]" % vg["errors"][0][:300],
                          {"failure_class": "exec-memcheck", "valgrind": vg["errors"][:40], "replay_cases": vg.get("cases", [])[:5]}, True)
    rep.coverage["samples"] = [{"kind": c.kind, "args": c.line, "impl": (impl.get(c.cid) or [])[:40]} for c in model_cases[::max(1, len(model_cases) // 6)][:7]]
    rep.assumptions += ["FFI compatibility is ABI compatibility on x86-64 LP64 (see ffi_notes for declarations that differ by integer type name)",
                        "tolerated (reported, not failing): " + "; ".join(n for n in notes if "MISMATCH" in n)]
    if getattr(rep, "proof_broken", None) and found:
        rep.notes.append("proof obligation no longer checks: %s (concrete rows are reported above)" % rep.proof_broken)
        rep.proof_broken = None
    vplib.finish_proof_verdict(rep, found)


def memcheck(rep, binary, ex, impl):
    """all exec cases once more under valgrind memcheck (TEST): no invalid read/write, same results"""
    import shutil
    import subprocess
    if not shutil.which("valgrind") or not ex:
        return None
    path = os.path.join(rep.workdir(), "exec_valgrind.txt")
    open(path, "w").write("\n".join("%s %s %s" % (c.cid, c.kind, c.line) for c in ex) + "\n")
    try:
        p = subprocess.run(["valgrind", "-q", "--error-exitcode=99", binary, "jets", path], stdout=subprocess.PIPE,
                           stderr=subprocess.PIPE, timeout=1200)
    except subprocess.TimeoutExpired:
        return {"summary": "timeout", "errors": []}
    res = {}
    for l in p.stdout.decode("utf-8", "replace").split("\n"):
        t = l.split()
        if t:
            res[t[0]] = vplib._ints(t[1:])
    errs = [l for l in p.stderr.decode("utf-8", "replace").split("\n") if l.strip()]
    diff = [c for c in ex if res.get(c.cid) != impl.get(c.cid)]
    if p.returncode not in (0,) and not errs:
        errs = ["valgrind run exited with status %d after %d of %d cases" % (p.returncode, len(res), len(ex))]
    if diff and not errs:
        errs = ["results under valgrind differ from the plain run on %d cases, e.g. `%s %s`: %s vs %s"
                % (len(diff), diff[0].kind, diff[0].line, res.get(diff[0].cid), impl.get(diff[0].cid))]
    return {"summary": "%d jets executed under valgrind -q --error-exitcode=99: exit %d, %d error lines, %d results differ"
                       % (len(res), p.returncode, len(errs), len(diff)),
            "errors": errs, "cases": ["%s %s" % (c.kind, c.line) for c in diff]}


def _meta_of(kind, t):
    if kind in ("jet", "tmr", "exec"):
        return {"fam": t[0], "idx": int(t[1])}
    if kind == "cjet":
        return {"idx": int(t[0])}
    if kind == "dec":
        return {"fam": t[0], "bits": [int(ch) for ch in t[1]] if t[1] != "-" else []}
    if kind == "parse":
        return {"fam": t[0], "s": "" if t[1] == "-" else t[1]}
    return {}


def replay(obj):
    print(json.dumps(obj, indent=1)[:6000])
    binary, _ = vplib.harness_build("debug")
    lines = []
    c = obj.get("case")
    if c:
        lines.append("%s %s" % (c["kind"], c["harness_args"]))
    lines += obj.get("replay_cases", [])
    for row in obj.get("rows", [])[:5]:
        print("source row: %s %s (%s): %s" % (row.get("family"), row.get("jet"), row.get("name"), row.get("detail")))
    if not lines or binary is None:
        return 0
    rep = vplib.Report(PROP, "quick", 0)
    res = vplib.run_harness(binary, "jets", ["r%d %s" % (i, l) for i, l in enumerate(lines)], workdir=rep.workdir())
    for i, l in enumerate(lines):
        print("implementation: %-28s -> %s" % (l, res.get("r%d" % i)))
    if c and c.get("model_expr"):
        vals, logs = vplib.coq_eval(IMPORTS, [c["model_expr"]], workdir=rep.workdir(), tag="replay")
        print("model         :", vals[0] if vals else logs)
    return 0
