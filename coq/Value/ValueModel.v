(* Byte-faithful model of src/value.rs (Value / ValueRef) as the code stands at /repo HEAD
   (after "fix: Value equality, ordering and hash compare the compact encoding").

     Value { inner: Arc<[u8]>, bit_offset: usize, ty: Arc<Final> }   ==>   value {buf; off; vty}

   Every function below mirrors one Rust function: same case analysis, same offset
   arithmetic, same shifts and masks on u8, explicit stacks where the code has explicit
   stacks, [Panic] where the code indexes / unwraps / asserts.  ValueRef and Value are the
   same record here (a ValueRef is a borrowed (inner, bit_offset, ty) triple; [to_value]
   clones the Arc), so buffer sharing is simply "the same [buf] list".

   Widths: [bw t] is Final::bit_width, i.e. the cached *saturating* width [width_sat];
   all other usize arithmetic is unbounded [N] (the code's plain [+] would overflow only
   for buffers of 2^61 bytes).  The theorems (ValueRefine.v ...) are stated for types
   below saturation ([small t := width t <= usize_max]), where [bw t = width t].

   Type equality: the code compares TMRs ([Final: PartialEq]); the model compares the
   type trees structurally ([ty_eqb]).  Type ordering is a parameter of [v_cmp]. *)
From RS Require Import Lib.Tac Lib.Outcome Lib.Bits Lib.Sweep Ty.Ty.
Import ListNotations.
Local Open Scope N_scope.
Local Open Scope outcome_scope.

Record value : Type := mkV { buf : list N; off : N; vty : ty }.

(* EarlyEndOfStreamError is the only error value of the module *)
Inductive verr : Type := EarlyEOS.

Definition res (A : Type) : Type := outcome verr A.

(* Final::bit_width (cached; computed with saturating adds) *)
Definition bw (t : ty) : N := width_sat t.

Definition div_ceil8 (n : N) : N := (n + 7) / 8.

Definition get_byte (l : list N) (i : N) : option N := nth_error l (N.to_nat i).

Fixpoint set_nth (l : list N) (i : nat) (x : N) : list N :=
  match l, i with
  | [], _ => []
  | _ :: r, O => x :: r
  | a :: r, S k => a :: set_nth r k x
  end.
Definition set_byte (l : list N) (i : N) (x : N) : list N := set_nth l (N.to_nat i) x.

Definition zeros (n : N) : list N := repeat 0 (N.to_nat n).

(* u8 operations *)
Definition shl8 (x s : N) : N := (N.shiftl x s) mod 256.       (* x << s on u8, s < 8 *)
Definition not8 (x : N) : N := 255 - x.                        (* !x on u8 *)

(* ------------------------------------------------------------------ ValueRef accessors *)

(* ValueRef::first_bit *)
Definition first_bit (v : value) : option bool :=
  let mask := if off v mod 8 =? 0 then 128 else N.shiftl 1 (7 - off v mod 8) in
  match get_byte (buf v) (off v / 8) with
  | Some x => Some (N.land x mask =? mask)
  | None => None
  end.

(* ValueRef::as_left *)
Definition as_left (v : value) : option value :=
  match first_bit v with
  | Some false =>
      match vty v with
      | Sum lty rty =>
          let sum_width := 1 + N.max (bw lty) (bw rty) in
          Some (mkV (buf v) (off v + sum_width - bw lty) lty)
      | _ => None
      end
  | _ => None
  end.

(* ValueRef::as_right *)
Definition as_right (v : value) : option value :=
  match first_bit v with
  | Some true =>
      match vty v with
      | Sum lty rty =>
          let sum_width := 1 + N.max (bw lty) (bw rty) in
          Some (mkV (buf v) (off v + sum_width - bw rty) rty)
      | _ => None
      end
  | _ => None
  end.

(* ValueRef::as_product *)
Definition as_product (v : value) : option (value * value) :=
  match vty v with
  | Prod lty rty => Some (mkV (buf v) (off v) lty, mkV (buf v) (off v + bw lty) rty)
  | _ => None
  end.

(* ------------------------------------------------------------------ RawByteIter / iter_padded *)

(* one call of RawByteIter::next with yielded_bytes = k before the call
   (the caller has checked 8 * k < bit_width) *)
Definition raw_byte (v : value) (k : N) : res N :=
  let yielded := k + 1 in
  if off v mod 8 =? 0 then
    match get_byte (buf v) (off v / 8 + yielded - 1) with
    | Some b => Ok b
    | None => Panic 1
    end
  else
    match get_byte (buf v) (off v / 8 + yielded - 1) with
    | None => Panic 1
    | Some ret1 =>
        let ret2 := match get_byte (buf v) (off v / 8 + yielded) with Some b => b | None => 0 end in
        let bit_offset := off v mod 8 in
        Ok (N.lor (shl8 ret1 bit_offset) (N.shiftr ret2 (8 - bit_offset)))
    end.

Fixpoint raw_bytes_from (v : value) (k : N) (n : nat) : res (list N) :=
  match n with
  | O => Ok []
  | S m => b <- raw_byte v k ;; r <- raw_bytes_from v (k + 1) m ;; Ok (b :: r)
  end.

(* all bytes the iterator yields: while 8 * yielded_bytes < bit_width *)
Definition raw_bytes (v : value) : res (list N) :=
  raw_bytes_from v 0 (N.to_nat (div_ceil8 (bw (vty v)))).

(* ValueRef::iter_padded = BitIter::new(raw_byte_iter()).take(bit_width) *)
Definition iter_padded (v : value) : res (list bool) :=
  bs <- raw_bytes v ;; Ok (firstn (N.to_nat (bw (vty v))) (bits_of_bytes bs)).

(* ------------------------------------------------------------------ CompactBitsIter *)

Fixpoint tnodes (t : ty) : nat :=
  match t with One => 1 | Sum a b | Prod a b => S (tnodes a + tnodes b) end.

(* the loop of CompactBitsIter::next, run to exhaustion; [acc] = bits yielded so far (reversed) *)
Fixpoint compact_run (fuel : nat) (stack : list value) (acc : list bool) : res (list bool) :=
  match fuel with
  | O => OutOfFuel
  | S f =>
      match stack with
      | [] => Ok (rev acc)
      | v :: st =>
          if bw (vty v) =? 0 then compact_run f st acc
          else match as_left v with
               | Some l => compact_run f (l :: st) (false :: acc)
               | None =>
                   match as_right v with
                   | Some r => compact_run f (r :: st) (true :: acc)
                   | None =>
                       match as_product v with
                       | Some (l, r) => compact_run f (l :: r :: st) acc
                       | None => compact_run f st acc
                       end
                   end
               end
      end
  end.

Definition iter_compact (v : value) : res (list bool) :=
  compact_run (S (tnodes (vty v))) [v] [].

(* Value::compact_len / padded_len *)
Definition compact_len (v : value) : res N := c <- iter_compact v ;; Ok (N.of_nat (length c)).
Definition padded_len (v : value) : N := bw (vty v).

(* ------------------------------------------------------------------ right_shift_1 / copy_bits / product *)

Definition right_shift_1 (inner : list N) (bit_offset : N) (new_bit : bool) : res (list N * N) :=
  if 0 <? bit_offset then
    let new_bit_offset := bit_offset - 1 in
    let mask := N.shiftl 1 (7 - new_bit_offset mod 8) in
    match get_byte inner (new_bit_offset / 8) with
    | None => Panic 2
    | Some b =>
        let current_bit := negb (N.land b mask =? 0) in
        if Bool.eqb current_bit new_bit then Ok (inner, new_bit_offset)
        else if new_bit then Ok (set_byte inner (new_bit_offset / 8) (N.lor b mask), new_bit_offset)
        else Ok (set_byte inner (new_bit_offset / 8) (N.land b (not8 mask)), new_bit_offset)
    end
  else Ok (b2n new_bit :: inner, 7).

(* the loop body of copy_bits for index i *)
Definition copy_bit (src : list N) (src_offset : N) (dst : list N) (dst_offset : N) (i : N) : res (list N) :=
  match get_byte src ((src_offset + i) / 8) with
  | None => Panic 3
  | Some s =>
      let bit := N.land (N.shiftr s (7 - (src_offset + i) mod 8)) 1 in
      match get_byte dst ((dst_offset + i) / 8) with
      | None => Panic 3
      | Some d => Ok (set_byte dst ((dst_offset + i) / 8) (N.lor d (shl8 bit (7 - (dst_offset + i) mod 8))))
      end
  end.

Fixpoint copy_bits_from (src : list N) (src_offset : N) (dst : list N) (dst_offset : N)
         (i : N) (n : nat) : res (list N) :=
  match n with
  | O => Ok dst
  | S m => d <- copy_bit src src_offset dst dst_offset i ;;
           copy_bits_from src src_offset d dst_offset (i + 1) m
  end.

Definition copy_bits (src : list N) (src_offset : N) (dst : list N) (dst_offset nbits : N) : res (list N) :=
  copy_bits_from src src_offset dst dst_offset 0 (N.to_nat nbits).

(* fn product(left, left_bit_length, right, right_bit_length) *)
Definition product_raw (left : option (list N * N)) (left_bit_length : N)
           (right : option (list N * N)) (right_bit_length : N) : res (list N * N) :=
  if left_bit_length =? 0 then
    match right with
    | Some (r, right_bit_offset) => Ok (r, right_bit_offset)
    | None => if right_bit_length =? 0 then Ok ([], 0)
              else Ok (zeros (div_ceil8 right_bit_length), 0)
    end
  else if right_bit_length =? 0 then
    match left with
    | Some (lt, left_bit_offset) => Ok (lt, left_bit_offset)
    | None => Ok (zeros (div_ceil8 left_bit_length), 0)
    end
  else
    let bx := zeros (div_ceil8 (left_bit_length + right_bit_length)) in
    bx1 <- match left with
           | Some (l, left_bit_offset) => copy_bits l left_bit_offset bx 0 left_bit_length
           | None => Ok bx
           end ;;
    bx2 <- match right with
           | Some (r, right_bit_offset) => copy_bits r right_bit_offset bx1 left_bit_length right_bit_length
           | None => Ok bx1
           end ;;
    Ok (bx2, 0).

(* ------------------------------------------------------------------ constructors *)

Definition v_unit : value := mkV [] 0 One.

(* Value::left(inner, right) *)
Definition v_left (inner : value) (right : ty) : res value :=
  let total_width := N.max (bw (vty inner)) (bw right) in
  '(concat, concat_offset) <- product_raw None (total_width - bw (vty inner))
                                (Some (buf inner, off inner)) (bw (vty inner)) ;;
  '(new_inner, new_bit_offset) <- right_shift_1 concat concat_offset false ;;
  Ok (mkV new_inner new_bit_offset (Sum (vty inner) right)).

(* Value::right(left, inner) *)
Definition v_right (left : ty) (inner : value) : res value :=
  let total_width := N.max (bw left) (bw (vty inner)) in
  '(concat, concat_offset) <- product_raw None (total_width - bw (vty inner))
                                (Some (buf inner, off inner)) (bw (vty inner)) ;;
  '(new_inner, new_bit_offset) <- right_shift_1 concat concat_offset true ;;
  Ok (mkV new_inner new_bit_offset (Sum left (vty inner))).

(* Value::product(left, right) *)
Definition v_product (l r : value) : res value :=
  '(new_inner, new_bit_offset) <- product_raw (Some (buf l, off l)) (bw (vty l))
                                    (Some (buf r, off r)) (bw (vty r)) ;;
  Ok (mkV new_inner new_bit_offset (Prod (vty l) (vty r))).

Definition v_none (right : ty) : res value := v_left v_unit right.
Definition v_some (inner : value) : res value := v_right One inner.

(* Value::zero *)
Definition v_zero (t : ty) : value := mkV (zeros (div_ceil8 (bw t))) 0 t.

(* big-endian bytes of n (to_be_bytes of an integer of len bytes) *)
Fixpoint be_bytes (len : nat) (n : N) : list N :=
  match len with
  | O => []
  | S k => (n / 2 ^ (8 * N.of_nat k)) mod 256 :: be_bytes k n
  end.

(* Value::u1 u2 u4 (value : u8, asserted in range), u8 .. u128 (integer), k = log2 of the bit width *)
Definition v_word_int (k : nat) (n : N) : res value :=
  match k with
  | 0%nat => if n <=? 1 then Ok (mkV [n] 7 (word_ty 0)) else Panic 4
  | 1%nat => if n <=? 3 then Ok (mkV [n] 6 (word_ty 1)) else Panic 4
  | 2%nat => if n <=? 15 then Ok (mkV [n] 4 (word_ty 2)) else Panic 4
  | _ => Ok (mkV (be_bytes (2 ^ (k - 3)) n) 0 (word_ty k))
  end.

(* Value::u256 / u512: byte array taken as is *)
Definition v_word_bytes (k : nat) (bytes : list N) : value := mkV bytes 0 (word_ty k).

(* Value::from_byte_array *)
Fixpoint pair_up (l : list value) : res (list value) :=
  match l with
  | a :: b :: r => p <- v_product a b ;; rest <- pair_up r ;; Ok (p :: rest)
  | _ => Ok []
  end.

Fixpoint fba_loop (fuel : nat) (vals : list value) : res value :=
  match fuel with
  | O => OutOfFuel
  | S f =>
      match vals with
      | [] => Panic 6            (* values.into_iter().next().unwrap() *)
      | [v] => Ok v
      | _ => vs <- pair_up vals ;; fba_loop f vs
      end
  end.

Definition is_pow2 (n : N) : bool := match n with Npos p => (N.pos p =? 2 ^ N.log2 (N.pos p)) | N0 => false end.

Definition v_from_byte_array (bytes : list N) : res value :=
  if is_pow2 (N.of_nat (length bytes)) then
    fba_loop (S (length bytes)) (map (fun b => mkV [b] 0 (word_ty 3)) bytes)
  else Panic 7.

(* Final::buffer8_two_n_plus_one *)
Fixpoint buffer_ty (n : nat) : ty :=
  match n with
  | O => option_ty (word_ty 3)
  | S k => Prod (option_ty (word_ty (S k + 3))) (buffer_ty k)
  end.

(* the loop of Value::buffer8_two_n_plus_one; [n] counts down to 0 inclusive *)
Fixpoint buffer8_loop (n : nat) (data : list N) (dest : list N) (dest_offset : N) : res (list N * N) :=
  let n_bytes := 2 ^ N.of_nat n in
  '(dest1, data1) <-
     (if negb (N.land (N.of_nat (length data)) n_bytes =? 0) then
        let first := firstn (N.to_nat n_bytes) data in
        let rest := skipn (N.to_nat n_bytes) data in
        d1 <- copy_bits [128] 0 dest dest_offset 1 ;;
        d2 <- copy_bits first 0 d1 (dest_offset + 1) (8 * n_bytes) ;;
        Ok (d2, rest)
      else Ok (dest, data)) ;;
  let dest_offset1 := dest_offset + 1 + 8 * n_bytes in
  match n with
  | O => Ok (dest1, dest_offset1)
  | S k => buffer8_loop k data1 dest1 dest_offset1
  end.

(* result: None = Err(SliceTooLarge) *)
Definition v_buffer8 (n : nat) (data : list N) : res (option value) :=
  let t := buffer_ty n in
  if 2 * 2 ^ N.of_nat n - 1 <? N.of_nat (length data) then Ok None
  else
    '(dest, dest_offset) <- buffer8_loop n data (zeros (div_ceil8 (bw t))) 0 ;;
    if dest_offset =? bw t then Ok (Some (mkV dest 0 t)) else Panic 8.

(* ------------------------------------------------------------------ decoders
   The BitIter argument is modelled by the queue of its remaining bits (C13: the
   cached-byte reader refines the bit queue; read_u8 fails without consuming). *)

Fixpoint read_u8s (n : nat) (bits : list bool) (acc : list N) : option (list N * list bool) :=
  match n with
  | O => Some (rev acc, bits)
  | S k =>
      match bits with
      | b0 :: b1 :: b2 :: b3 :: b4 :: b5 :: b6 :: b7 :: r =>
          read_u8s k r (val_be [b0; b1; b2; b3; b4; b5; b6; b7] :: acc)
      | _ => None
      end
  end.

Fixpoint read_last (n : nat) (i : N) (bits : list bool) (last : N) : option (N * list bool) :=
  match n with
  | O => Some (last, bits)
  | S k =>
      match bits with
      | [] => None
      | b :: r => read_last k (i + 1) r (if b then N.lor last (N.shiftl 1 (7 - i)) else last)
      end
  end.

(* Value::from_padded_bits: returns the value and the unread bits *)
Definition from_padded_bits (bits : list bool) (t : ty) : res (value * list bool) :=
  match read_u8s (N.to_nat (bw t / 8)) bits [] with
  | None => Err EarlyEOS
  | Some (blob, bits1) =>
      match read_last (N.to_nat (bw t mod 8)) 0 bits1 0 with
      | None => Err EarlyEOS
      | Some (last, bits2) => Ok (mkV (blob ++ [last]) 0 t, bits2)
      end
  end.

Inductive fc_state : Type :=
| FProcess (t : ty)
| FSumL (r : ty)
| FSumR (l : ty)
| FProduct.

(* Value::from_compact_bits: the explicit-stack loop *)
Fixpoint fc_run (fuel : nat) (stack : list fc_state) (rs : list value) (bits : list bool)
  : res (list value * list bool) :=
  match fuel with
  | O => OutOfFuel
  | S f =>
      match stack with
      | [] => Ok (rs, bits)
      | FProcess t :: st =>
          if has_padding t then
            match t with
            | One => fc_run f st (v_unit :: rs) bits
            | Sum l r =>
                match bits with
                | [] => Err EarlyEOS
                | false :: b => fc_run f (FProcess l :: FSumL r :: st) rs b
                | true :: b => fc_run f (FProcess r :: FSumR l :: st) rs b
                end
            | Prod l r => fc_run f (FProcess l :: FProcess r :: FProduct :: st) rs bits
            end
          else
            '(v, b) <- from_padded_bits bits t ;; fc_run f st (v :: rs) b
      | FSumL r :: st =>
          match rs with
          | [] => Panic 5
          | v :: rs' => x <- v_left v r ;; fc_run f st (x :: rs') bits
          end
      | FSumR l :: st =>
          match rs with
          | [] => Panic 5
          | v :: rs' => x <- v_right l v ;; fc_run f st (x :: rs') bits
          end
      | FProduct :: st =>
          match rs with
          | vr :: vl :: rs' => x <- v_product vl vr ;; fc_run f st (x :: rs') bits
          | _ => Panic 5
          end
      end
  end.

Definition from_compact_bits (bits : list bool) (t : ty) : res (value * list bool) :=
  '(rs, rest) <- fc_run (S (2 * tnodes t)) [FProcess t] [] bits ;;
  match rs with
  | [v] => Ok (v, rest)
  | _ => Panic 5          (* debug_assert_eq!(len, 1) / pop().unwrap() *)
  end.

(* ------------------------------------------------------------------ prune *)

Inductive ptask : Type :=
| TPrune (v : value) (t : ty)
| TMakeLeft (r : ty)
| TMakeRight (l : ty)
| TMakeProduct.

(* result None = the function returned None through `?` *)
Fixpoint prune_run (fuel : nat) (stack : list ptask) (out : list value) : res (option (list value)) :=
  match fuel with
  | O => OutOfFuel
  | S f =>
      match stack with
      | [] => Ok (Some out)
      | TPrune v t :: st =>
          if ty_eqb (vty v) t then prune_run f st (v :: out)
          else
            match t with
            | One => prune_run f st (v_unit :: out)
            | Sum l_ty r_ty =>
                match as_left v with
                | Some l_value => prune_run f (TPrune l_value l_ty :: TMakeLeft r_ty :: st) out
                | None =>
                    match as_right v with
                    | None => Ok None
                    | Some r_value => prune_run f (TPrune r_value r_ty :: TMakeRight l_ty :: st) out
                    end
                end
            | Prod l_ty r_ty =>
                match as_product v with
                | None => Ok None
                | Some (l_value, r_value) =>
                    prune_run f (TPrune l_value l_ty :: TPrune r_value r_ty :: TMakeProduct :: st) out
                end
            end
      | TMakeLeft r_ty :: st =>
          match out with
          | [] => Panic 10
          | l_value :: o => x <- v_left l_value r_ty ;; prune_run f st (x :: o)
          end
      | TMakeRight l_ty :: st =>
          match out with
          | [] => Panic 10
          | r_value :: o => x <- v_right l_ty r_value ;; prune_run f st (x :: o)
          end
      | TMakeProduct :: st =>
          match out with
          | r_value :: l_value :: o => x <- v_product l_value r_value ;; prune_run f st (x :: o)
          | _ => Panic 10
          end
      end
  end.

Definition prune (v : value) (pruned_ty : ty) : res (option value) :=
  r <- prune_run (S (2 * tnodes pruned_ty)) [TPrune v pruned_ty] [] ;;
  match r with
  | None => Ok None
  | Some [x] => Ok (Some x)
  | Some _ => Panic 11       (* debug_assert_eq!(output.len(), 1) *)
  end.

(* ------------------------------------------------------------------ PartialEq / Ord / Hash (as fixed) *)

(* impl PartialEq: self.ty == other.ty && self.iter_compact().eq(other.iter_compact()) *)
Definition v_eq (a b : value) : res bool :=
  if ty_eqb (vty a) (vty b) then
    ca <- iter_compact a ;; cb <- iter_compact b ;; Ok (list_beq Bool.eqb ca cb)
  else Ok false.

(* Iterator::cmp on bool items: lexicographic, false < true, a proper prefix is smaller *)
Fixpoint bits_cmp (a b : list bool) : comparison :=
  match a, b with
  | [], [] => Eq
  | [], _ :: _ => Lt
  | _ :: _, [] => Gt
  | x :: a', y :: b' =>
      match x, y with
      | false, true => Lt
      | true, false => Gt
      | _, _ => bits_cmp a' b'
      end
  end.

(* impl Ord: self.ty.cmp(&other.ty).then_with(|| iter_compact().cmp(..));
   the order on types (TMR bytes in the code) is a parameter *)
Definition v_cmp (tcmp : ty -> ty -> comparison) (a b : value) : res comparison :=
  match tcmp (vty a) (vty b) with
  | Eq => ca <- iter_compact a ;; cb <- iter_compact b ;; Ok (bits_cmp ca cb)
  | c => Ok c
  end.

(* impl Hash: the sequence fed to the hasher after the constant tag: the type, then each compact bit *)
Definition v_hash (v : value) : res (ty * list bool) :=
  c <- iter_compact v ;; Ok (vty v, c).

(* The comparison the code used before the fix (raw bytes of the padded form). Kept to
   document the refutation of C11 for the old code (ValueEq.v: eq_raw_not_semantic). *)
Definition eq_raw (a b : value) : res bool :=
  if ty_eqb (vty a) (vty b) then
    ra <- raw_bytes a ;; rb <- raw_bytes b ;; Ok (list_beq N.eqb ra rb)
  else Ok false.

(* A structural total order on types: an executable instance for the [tcmp] parameter of
   [v_cmp] (the code's order is the byte order of the TMRs).  The harness reports 3 for
   pairs of different types after checking that the code answers Final::cmp, so this
   particular order never reaches the comparison with the implementation. *)
Fixpoint ty_cmp (a b : ty) : comparison :=
  match a, b with
  | One, One => Eq
  | One, _ => Lt
  | _, One => Gt
  | Sum a1 a2, Sum b1 b2 => match ty_cmp a1 b1 with Eq => ty_cmp a2 b2 | c => c end
  | Sum _ _, Prod _ _ => Lt
  | Prod _ _, Sum _ _ => Gt
  | Prod a1 a2, Prod b1 b2 => match ty_cmp a1 b1 with Eq => ty_cmp a2 b2 | c => c end
  end.
