"""C04 phase 2 - generator families aimed at the order-dependent corners of the Rust union-bound code
(types/context.rs bind / unify, types/incomplete.rs occurs check):

  hubs      DAGs in which ONE type variable class occurs at >= 3 leaves of a bound (repeated children:
            pair x x, pair (take x) (drop x), case x x, comp x x ...), with the constraint that grounds the
            class (a word, a jet, unit, the program root) arriving FIRST / in the MIDDLE / LAST in the
            construction order;
  almost    "almost well-typed" programs: the source (target) of a jet or a pair of words - a COMPLETE,
            asymmetric sum/product - is unified with an INCOMPLETE bound with repeated variables that is
            derived from the same type by cutting sub-terms into variables: consistent cuts give a
            well-typed twin, one inconsistent identification (A x A against T1 x T2, T1 <> T2) gives a
            program in which exactly one unification deep inside a complete-vs-incomplete bind must fail;
  enum      every DAG of <= 5 nodes over a small alphabet x every topological order.

All functions are pure and draw randomness from the given vplib.Rng only."""
import proggen as pg

U = pg.U
UN = ("injl", "injr", "take", "drop")
BIN = ("comp", "case", "pair")
W0 = ("word", 0, [1])
W3 = ("word", 3, [1, 0, 1, 0, 0, 1, 0, 1])
ENUM_JET = ("jet", "c", "full_add_8")          # 2 x 2^16 -> 2 x 2^8: asymmetric source and target
ENUM_LEAVES = [("iden",), ("unit",), W0, W3, ENUM_JET]


# ------------------------------------------------------------------ tables, orders, canonical forms
def node_choices(k, leaves=ENUM_LEAVES):
    out = list(leaves)
    for c in range(k):
        for u in UN:
            out.append((u, c))
        out.append(("disc", c, None))
        for d in range(k):
            for b in BIN:
                out.append((b, c, d))
    return out


def tables(n, leaves=ENUM_LEAVES):
    """every node table with n nodes (each is one DAG in one topological order)"""
    def rec(tab, k):
        if k == n:
            yield list(tab)
            return
        for x in node_choices(k, leaves):
            tab.append(x)
            yield from rec(tab, k + 1)
            tab.pop()
    yield from rec([], 0)


def relabel(tab, order):
    """the table constructed in the given order (order[k] = old index of the k-th node)"""
    pos = {o: k for k, o in enumerate(order)}
    out = []
    for o in order:
        n = tab[o]
        k = n[0]
        if k in UN:
            out.append((k, pos[n[1]]))
        elif k in BIN:
            out.append((k, pos[n[1]], pos[n[2]]))
        elif k == "disc":
            out.append((k, pos[n[1]], None if n[2] is None else pos[n[2]]))
        else:
            out.append(n)
    return out


def topo_orders(tab, limit=None):
    n = len(tab)
    ch = [set(pg.children(x)) for x in tab]
    out = []

    def rec(done, order):
        if limit is not None and len(out) >= limit:
            return
        if len(order) == n:
            out.append(list(order))
            return
        for i in range(n):
            if i not in done and ch[i] <= done:
                done.add(i)
                order.append(i)
                rec(done, order)
                order.pop()
                done.discard(i)

    rec(set(), [])
    return out


def nkey(n):
    return tuple(str(x) for x in n)


def tkey(tab):
    return tuple(nkey(x) for x in tab)


def is_postorder(tab):
    """single sink (all nodes reachable from the last one) and numbered in left-to-right DFS post-order:
    a canonical labelling of single-sink DAGs"""
    n = len(tab)
    num = {}
    cnt = 0
    st = [(n - 1, 0)]
    while st:
        i, ph = st.pop()
        if i in num:
            continue
        ch = pg.children(tab[i])
        if ph < len(ch):
            st.append((i, ph + 1))
            if ch[ph] not in num:
                st.append((ch[ph], 0))
        else:
            if i != cnt:
                return False
            num[i] = cnt
            cnt += 1
    return cnt == n


def postorder_of(tab):
    """the DFS post-order (left to right) of a single-sink table as a construction order, or None"""
    n = len(tab)
    seen = set()
    order = []
    st = [(n - 1, 0)]
    while st:
        i, ph = st.pop()
        if i in seen:
            continue
        ch = pg.children(tab[i])
        if ph < len(ch):
            st.append((i, ph + 1))
            if ch[ph] not in seen:
                st.append((ch[ph], 0))
        else:
            seen.add(i)
            order.append(i)
    return order if len(order) == n else None


def random_class(rng, n, leaves=ENUM_LEAVES):
    """a random single-sink DAG with n nodes in canonical (post-order) numbering"""
    while True:
        tab = [rng.choice(node_choices(k, leaves)) for k in range(n)]
        o = postorder_of(tab)
        if o is not None:
            return relabel(tab, o)


def canon(tab):
    """canonical representative of the DAG of a table (any number of sinks): the least relabelling"""
    best = None
    for o in topo_orders(tab):
        t = relabel(tab, o)
        k = tkey(t)
        if best is None or k < best[0]:
            best = (k, t)
    return best[1]


def distinct_orders(tab, limit=None):
    """topological orders of the table that give pairwise different constructions (identity first)"""
    seen = set()
    out = []
    for o in topo_orders(tab, limit):
        k = tkey(relabel(tab, o))
        if k not in seen:
            seen.add(k)
            out.append(o)
    return out


def enum_classes(n, leaves=ENUM_LEAVES, single_sink=True):
    """canonical representatives of all DAGs with n nodes; single_sink: only those whose last node reaches
    every node (canonical = DFS post-order), otherwise all (canonical = least relabelling; n <= 4)"""
    if single_sink:
        for t in tables(n, leaves):
            if is_postorder(t):
                yield t
    else:
        seen = set()
        for t in tables(n, leaves):
            c = canon(t)
            k = tkey(c)
            if k not in seen:
                seen.add(k)
                yield c


# ------------------------------------------------------------------ priority orders (first / middle / last)
def order_with_priority(tab, first):
    """a topological order that constructs the nodes of `first` (and what they need) as early as possible"""
    n = len(tab)
    need = set()
    st = list(first)
    while st:
        i = st.pop()
        if i not in need:
            need.add(i)
            st.extend(pg.children(tab[i]))
    ch = [set(pg.children(x)) for x in tab]
    done = set()
    order = []
    while len(order) < n:
        ready = [i for i in range(n) if i not in done and ch[i] <= done]
        pri = [i for i in ready if i in need]
        i = (pri or ready)[0]
        done.add(i)
        order.append(i)
    return order


def order_with_delay(tab, last):
    """a topological order that constructs the nodes of `last` (and what only they need) as late as possible"""
    n = len(tab)
    users = [set() for _ in range(n)]
    for i, x in enumerate(tab):
        for c in pg.children(x):
            users[c].add(i)
    late = set(last)
    changed = True
    while changed:
        changed = False
        for i in range(n):
            if i not in late and users[i] and users[i] <= late:
                late.add(i)
                changed = True
    ch = [set(pg.children(x)) for x in tab]
    done = set()
    order = []
    while len(order) < n:
        ready = [i for i in range(n) if i not in done and ch[i] <= done]
        pri = [i for i in ready if i not in late]
        i = (pri or ready)[0]
        done.add(i)
        order.append(i)
    return order


def random_topo(tab, rng):
    n = len(tab)
    ch = [set(pg.children(x)) for x in tab]
    done = set()
    order = []
    while len(order) < n:
        ready = [i for i in range(n) if i not in done and ch[i] <= done]
        i = rng.choice(ready)
        done.add(i)
        order.append(i)
    return order


def spread_orders(tab, special, rng, k):
    """identity + `special` nodes first + `special` nodes last + random ones (up to k different orders);
    all orders when there are at most k"""
    al = topo_orders(tab, k + 1)
    if len(al) <= k:
        ident = list(range(len(tab)))
        return [ident] + [o for o in al if o != ident]
    out = [list(range(len(tab)))]
    cand = [order_with_priority(tab, special), order_with_delay(tab, special)]
    for _ in range(4 * k):
        cand.append(random_topo(tab, rng))
    for o in cand:
        if o not in out:
            out.append(o)
        if len(out) >= k:
            break
    return out


# ------------------------------------------------------------------ (i) hubs
class B:
    def __init__(self):
        self.n = []

    def add(self, *node):
        self.n.append(tuple(node))
        return len(self.n) - 1


def amp_dup(b, x):
    return b.add("pair", x, x)


def amp_sq(b, x):
    return b.add("pair", b.add("take", x), b.add("drop", x))


def amp_tt(b, x):
    return b.add("pair", b.add("take", x), b.add("take", x))


def amp_cs(b, x):
    return b.add("case", x, x)


def amp_cc(b, x):
    return b.add("comp", x, x)


def amp_csq(b, x):
    return b.add("case", b.add("take", x), b.add("drop", x))


def amp_un(kind):
    return lambda b, x: b.add(kind, x)


def amp_pi(b, x):
    return b.add("pair", x, b.add("iden"))


def amp_ci(b, x):
    return b.add("comp", x, b.add("iden"))


def amp_dn(b, x):
    return b.add("disc", x, None)


def amp_dy(b, x):
    return b.add("disc", x, b.add("iden"))


def amp_dw(b, x):
    return b.add("disc", x, b.add("wit", None))


AMPS = [("dn", amp_dn, 3), ("dy", amp_dy, 1), ("dw", amp_dw, 1), ("dup", amp_dup, 4), ("sq", amp_sq, 4), ("tt", amp_tt, 1), ("cs", amp_cs, 4), ("cc", amp_cc, 1), ("csq", amp_csq, 2),
        ("take", amp_un("take"), 2), ("drop", amp_un("drop"), 2), ("injl", amp_un("injl"), 1), ("injr", amp_un("injr"), 1),
        ("pi", amp_pi, 1), ("ci", amp_ci, 1)]
AMP_BAG = [a for a in AMPS for _ in range(a[2])]

BASES = [
    lambda b: b.add("iden"),
    lambda b: b.add("iden"),
    lambda b: b.add("take", b.add("iden")),
    lambda b: b.add("drop", b.add("iden")),
    lambda b: b.add("unit"),
    lambda b: b.add("wit", None),
    lambda b: b.add("injl", b.add("iden")),
    lambda b: amp_dup(b, b.add("iden")),
    lambda b: amp_sq(b, b.add("iden")),
]


def grounders(jets):
    """list of (name, fn(b, y, rng) -> set of new 'special' nodes)"""
    def g_word_src(b, y, rng):
        k = rng.choice([0, 1, 3])
        w = b.add("word", k, rng.bits(2 ** k))
        return {b.add("comp", w, y)}

    def g_unit_src(b, y, rng):
        return {b.add("comp", b.add("unit"), y)}

    def g_unit_tgt(b, y, rng):
        return {b.add("comp", y, b.add("unit"))}

    def g_pair_word(b, y, rng):
        k = rng.choice([0, 3])
        w = b.add("word", k, rng.bits(2 ** k))
        return {b.add("pair", y, w) if rng.chance(1, 2) else b.add("pair", w, y)}

    def g_jet_src(b, y, rng):
        j = rng.choice(jets)
        return {b.add("comp", b.add("jet", j[0], j[1]), y)}

    def g_jet_tgt(b, y, rng):
        j = rng.choice(jets)
        return {b.add("comp", y, b.add("jet", j[0], j[1]))}

    def g_words_src(b, y, rng):
        ka = rng.choice([0, 1, 3])
        kc = rng.choice([0, 1, 3])
        a = b.add("word", ka, rng.bits(2 ** ka))
        c = b.add("word", kc, rng.bits(2 ** kc))
        return {b.add("comp", b.add("pair", a, c), y)}

    out = [("word-src", g_word_src), ("word-src", g_word_src), ("unit-src", g_unit_src), ("unit-tgt", g_unit_tgt),
           ("pair-word", g_pair_word), ("words-src", g_words_src)]
    if jets:
        out += [("jet-src", g_jet_src), ("jet-tgt", g_jet_tgt)]
    return out


def hub_program(rng, jets):
    """-> (table, special nodes = the grounding constructions, description)"""
    b = B()
    x = rng.choice(BASES)(b)
    xs = [x]
    desc = []
    for _ in range(rng.range(1, 3)):
        name, fn, _w = rng.choice(AMP_BAG)
        x = fn(b, x)
        xs.append(x)
        desc.append(name)
    special = set()
    gs = grounders(jets)
    for _ in range(rng.range(1, 2)):
        name, fn = rng.choice(gs)
        # ground the base most of the time (the class then sits at every leaf), otherwise an intermediate node
        y = xs[0] if rng.chance(3, 5) else rng.choice(xs)
        special |= fn(b, y, rng)
        desc.append(name)
    tab = b.n
    # half of the time the top of the amplifier chain is the last (root) node of the canonical table
    if rng.chance(1, 2):
        o = order_with_delay(tab, {xs[-1]})
        pos = {old: k for k, old in enumerate(o)}
        tab = relabel(tab, o)
        special = {pos[s] for s in special}
    return tab, special, "+".join(desc)


def hub_systematic(jets_small):
    """deterministic core of the hub family: base x amplifier x amplifier x grounder-of-the-base"""
    out = []
    bases = [lambda b: b.add("iden"), lambda b: b.add("take", b.add("iden")), lambda b: b.add("unit")]
    amps = [amp_dup, amp_sq, amp_cs, amp_csq, amp_un("take"), amp_un("injl"), amp_dn]
    bases.append(lambda b: b.add("wit", None))
    for bi, base in enumerate(bases):
        for a1 in amps:
            for a2 in amps:
                for g in range(4):
                    b = B()
                    s = base(b)
                    top = a2(b, a1(b, s))
                    if g == 0:
                        sp = set()
                    elif g == 1:
                        sp = {b.add("comp", b.add("word", 3, W3[2]), s)}
                    elif g == 2:
                        sp = {b.add("comp", b.add("unit"), s)}
                    else:
                        sp = {b.add("comp", s, b.add("jet", "c", "full_add_8"))}
                    out.append((b.n, sp))
    return out


# ------------------------------------------------------------------ (ii) almost well-typed
def top_asym(t):
    return t[0] in "sp" and t[1] != t[2]


def asym(t):
    return t[0] in "sp" and (t[1] != t[2] or asym(t[1]) or asym(t[2]))


def cut_pattern(rng, t, depth, cuts, top=True):
    """pattern over the complete type t: ('v', k) a cut (k indexes `cuts`, which records the sub-type),
    ('p', a, b), ('il', a) = a + fresh, ('ir', b), ('u',), ('w', n) a constant word"""
    w = pg.as_word(t)
    r = rng.below(10)
    if not top and (depth <= 0 or r < 3):
        cuts.append(t)
        return ("v", len(cuts) - 1)
    if t[0] == "u":
        if r < 6:
            return ("u",)
        cuts.append(t)
        return ("v", len(cuts) - 1)
    if w is not None and w <= 6 and r < 5 and not top:
        return ("w", w)
    if t[0] == "p":
        return ("p", cut_pattern(rng, t[1], depth - 1, cuts, False), cut_pattern(rng, t[2], depth - 1, cuts, False))
    if rng.chance(1, 2):
        return ("il", cut_pattern(rng, t[1], depth - 1, cuts, False))
    return ("ir", cut_pattern(rng, t[2], depth - 1, cuts, False))


def assign_vars(rng, cuts, conflict):
    """variable id per cut.  consistent: cuts of the same type share a variable half of the time;
    conflict: additionally ONE pair of cuts of different types is identified.  -> (ids, did_conflict)"""
    ids = []
    by_ty = {}
    nxt = 0
    for t in cuts:
        if t in by_ty and rng.chance(2, 3):
            ids.append(rng.choice(by_ty[t]))
        else:
            ids.append(nxt)
            by_ty.setdefault(t, []).append(nxt)
            nxt += 1
    did = False
    if conflict:
        pairs = [(i, j) for i in range(len(cuts)) for j in range(i + 1, len(cuts)) if cuts[i] != cuts[j]]
        if pairs:
            i, j = rng.choice(pairs)
            old = ids[j]
            ids = [ids[i] if v == old else v for v in ids]
            did = True
    # renumber densely
    ren = {}
    out = []
    for v in ids:
        if v not in ren:
            ren[v] = len(ren)
        out.append(ren[v])
    return out, did


def mutate_const(rng, pat):
    """replace one constant word of the pattern by a word of another size (None if there is none)"""
    found = []

    def walk(p, path):
        if p[0] == "w":
            found.append(path)
        elif p[0] == "p":
            walk(p[1], path + (1,))
            walk(p[2], path + (2,))
        elif p[0] in ("il", "ir"):
            walk(p[1], path + (1,))

    walk(pat, ())
    if not found:
        return None
    tgt = rng.choice(found)

    def rebuild(p, path):
        if path == tgt:
            return ("w", p[1] + 1 if p[1] < 6 and rng.chance(1, 2) else max(0, p[1] - 1) if p[1] > 0 else 1)
        if p[0] == "p":
            return ("p", rebuild(p[1], path + (1,)), rebuild(p[2], path + (2,)))
        if p[0] in ("il", "ir"):
            return (p[0], rebuild(p[1], path + (1,)))
        return p

    return rebuild(pat, ())


class PB(B):
    """builder with the projections V_i of a source V_0 x (V_1 x (... x V_{k-1}))"""

    def __init__(self, nvars, rng, share=True):
        B.__init__(self)
        self.k = nvars
        self.rng = rng
        self.share = share
        self.memo = {}

    def proj(self, i):
        if self.share and i in self.memo:
            return self.memo[i]
        x = self.add("iden")
        if self.k > 1:
            if i < self.k - 1:
                x = self.add("take", x)
            for _ in range(i):
                x = self.add("drop", x)
        self.memo[i] = x
        return x

    def target(self, pat, ids):
        """a node whose TARGET is the pattern"""
        k = pat[0]
        if k == "v":
            return self.proj(ids[pat[1]])
        if k == "u":
            return self.add("unit")
        if k == "w":
            return self.add("comp", self.add("unit"), self.add("word", pat[1], self.rng.bits(2 ** pat[1])))
        if k == "p":
            l = self.target(pat[1], ids)
            r = self.target(pat[2], ids)
            return self.add("pair", l, r)
        if k == "il":
            return self.add("injl", self.target(pat[1], ids))
        return self.add("injr", self.target(pat[1], ids))


def path_proj(b, path):
    """take/drop chain over a fresh iden: its source has a variable at `path` (0 = left, 1 = right), its
    target is that variable"""
    x = b.add("iden")
    for d in reversed(path):
        x = b.add("take" if d == 0 else "drop", x)
    return x


def leaves_of(pat, path=()):
    if pat[0] == "p":
        return leaves_of(pat[1], path + (0,)) + leaves_of(pat[2], path + (1,))
    return [(path, pat)]


def source_prog(b, rng, pat, ids, word_jets):
    """a node whose SOURCE is (an instance of) the product pattern: variables with the same id are forced
    equal through `comp (pair p_i p_j) (pair (take iden) (drop iden))`, constant words through a jet whose
    source is that word.  Sums in the pattern are treated as cuts."""
    lv = leaves_of(pat)
    parts = []
    byvar = {}
    for path, p in lv:
        if p[0] == "v":
            byvar.setdefault(ids[p[1]], []).append(path)
        elif p[0] == "w" and p[1] in word_jets:
            j = rng.choice(word_jets[p[1]])
            parts.append(b.add("comp", path_proj(b, path), b.add("jet", j[0], j[1])))
        elif p[0] == "u":
            parts.append(b.add("comp", path_proj(b, path), b.add("comp", b.add("iden"), b.add("unit"))))
        else:
            parts.append(path_proj(b, path))
    for v, paths in sorted(byvar.items()):
        if len(paths) == 1:
            parts.append(path_proj(b, paths[0]))
        else:
            for a, c in zip(paths, paths[1:]):
                pr = b.add("pair", path_proj(b, a), path_proj(b, c))
                i = b.add("iden")
                eq = b.add("pair", b.add("take", i), b.add("drop", i))      # V x V -> V x V
                parts.append(b.add("comp", pr, eq))
    parts = rng.shuffle(parts)
    x = parts[0]
    for y in parts[1:]:
        x = b.add("pair", x, y) if rng.chance(1, 2) else b.add("pair", y, x)
    return x


def almost_cases(rng, jets_all, tier):
    """-> list of (family, table, special nodes).  jets_all: list of (fam, name, src, tgt) of one family"""
    out = []
    word_jets = {}
    for j in jets_all:
        w = pg.as_word(j[2])
        if w is not None and w <= 6:
            word_jets.setdefault(w, []).append(j)
    src_asym = [j for j in jets_all if asym(j[2])]
    tgt_asym = [j for j in jets_all if asym(j[3])]

    def variants(t, side, mk):
        for mode in ("ok", "conflict", "conflict", "const"):
            r = rng.fork("%s%d" % (mode, len(out)))
            cuts = []
            pat = cut_pattern(r, t, r.range(1, 3), cuts)
            if mode == "const":
                pat2 = mutate_const(r, pat)
                if pat2 is None:
                    continue
                pat = pat2
            ids, did = assign_vars(r, cuts, mode == "conflict")
            if mode == "conflict" and not did:
                continue
            tab, special = mk(r, pat, ids)
            if len(tab) <= 40:
                out.append(("almost-%s-%s" % (side, mode), tab, special))

    # A. comp (program with target pattern) jet
    for j in src_asym:
        def mk(r, pat, ids, j=j):
            b = PB(max(ids) + 1 if ids else 1, r, share=r.chance(3, 4))
            e = b.target(pat, ids)
            jn = b.add("jet", j[0], j[1])
            c = b.add("comp", e, jn)
            return b.n, {jn, c}
        variants(j[2], "A", mk)
    # B. comp jet (program with source pattern)
    for j in tgt_asym:
        def mk(r, pat, ids, j=j):
            b = B()
            e = source_prog(b, r, pat, ids, word_jets)
            jn = b.add("jet", j[0], j[1])
            c = b.add("comp", jn, e)
            return b.n, {jn, c}
        variants(j[3], "B", mk)
    # C. pairs of words (complete through eager completion) against source patterns, and against target patterns via case
    sizes = [0, 1, 2, 3, 4]
    for a in sizes:
        for c in sizes:
            if a == c:
                continue
            t = pg.P(pg.word(a), pg.word(c))
            def mk(r, pat, ids, a=a, c=c):
                b = B()
                wa = b.add("word", a, r.bits(2 ** a))
                wc = b.add("word", c, r.bits(2 ** c))
                pw = b.add("pair", wa, wc)
                e = source_prog(b, r, pat, ids, word_jets)
                top = b.add("comp", pw, e)
                return b.n, {wa, wc, pw, top}
            variants(t, "C", mk)
            t2 = pg.P(pg.P(pg.word(a), pg.word(c)), pg.word(a))
            def mk2(r, pat, ids, a=a, c=c):
                b = B()
                wa = b.add("word", a, r.bits(2 ** a))
                wc = b.add("word", c, r.bits(2 ** c))
                pw = b.add("pair", b.add("pair", wa, wc), wa)
                e = source_prog(b, r, pat, ids, word_jets)
                top = b.add("comp", pw, e)
                return b.n, {wa, wc, pw, top}
            variants(t2, "C", mk2)
    # D. bind_product: case (comp jet unit) (program with source pattern -> 1); disconnect of jets
    for j in src_asym:
        if j[2][0] != "p":
            continue
        def mk(r, pat, ids, j=j):
            b = B()
            jn = b.add("jet", j[0], j[1])
            l = b.add("comp", jn, b.add("unit"))
            e = source_prog(b, r, pat, ids, word_jets)
            rr = b.add("comp", e, b.add("unit"))
            top = b.add("case", l, rr) if r.chance(1, 2) else b.add("case", rr, l)
            return b.n, {jn, l, top}
        variants(j[2], "D", mk)
        b = B()
        jn = b.add("jet", j[0], j[1])
        out.append(("almost-disc", b.n + [("disc", jn, None)], {jn}))
    return out


# ------------------------------------------------------------------ hand-written witnesses of the two corners
SEED_SHAPES = [
    # one class at three leaves of the not yet completed source (V + V) x V of `case n n`
    "iden,take.0,drop.0,pair.1.2,case.3.3",
    "iden,take.0,drop.0,pair.1.2,case.3.3,word.3.10100101,comp.5.0",
    "word.3.10100101,iden,comp.0.1,take.1,drop.1,pair.3.4,case.5.5",
    "iden,pair.0.0,pair.1.0",
    "iden,pair.0.0,pair.1.1,pair.2.0",
    "iden,take.0,drop.0,pair.1.2,pair.3.3,case.4.4",
    # complete asymmetric product against A x A
    "iden,pair.0.0,jet.c.full_add_8,comp.1.2",
    "jet.c.full_add_8,iden,pair.1.1,comp.2.0",
    "word.0.1,word.3.10100101,pair.0.1,iden,take.3,drop.3,pair.4.5,comp.2.6",
    "unit,word.0.1,word.3.10100101,comp.0.1,comp.0.2,pair.3.4,take.5,iden,take.7,pair.8.8,take.9,case.6.10",
    "jet.c.full_add_8,iden,take.1,drop.1,pair.2.3,comp.0.4",
    "jet.c.left_shift_8,unit,comp.0.1,iden,take.3,drop.3,pair.4.5,comp.6.1,case.2.7",
]
