(* C18 - "that very occurrence": an item of a node without sharing id is the child index of at
   most one (item, side): every occurrence of an unshared node is yielded for its own parent. *)
From RS Require Import Lib.Tac Lib.Outcome Dag.DagModel Dag.PostOrderSpec Dag.PostOrderProps Dag.VisitFacts.
Import ListNotations.
Local Open Scope N_scope.

Section Keyless.
Variable children : nat -> dagnode.
Variable key : nat -> option N.
Hypothesis Hwf : wfc children.

Notation visit := (visit children key).
Notation ochild := (ochild children key).
Notation inv := (inv children key).

Definition optl (o : option N) : list N := match o with Some x => [x] | None => [] end.
Definition ptrs (it : po_item) : list N := optl (it_left it) ++ optl (it_right it).
Definition allptrs (l : list po_item) : list N := flat_map ptrs l.
Definition cnt (l : list N) (q : N) : nat := count_occ N.eq_dec l q.

Definition keyed_at (all : list po_item) (j : N) : Prop :=
  exists it, item_at all j = Some it /\ key (it_node it) <> None.
Definition keyless_at (all : list po_item) (j : N) : Prop :=
  exists it, item_at all j = Some it /\ key (it_node it) = None.

Lemma allptrs_app a b : allptrs (a ++ b) = allptrs a ++ allptrs b.
Proof. apply flat_map_app. Qed.

Lemma cnt_app a b q : cnt (a ++ b) q = (cnt a q + cnt b q)%nat.
Proof. apply count_occ_app. Qed.

Lemma cnt_zero l q : ~ In q l -> cnt l q = 0%nat.
Proof. apply count_occ_not_In. Qed.

Lemma keyed_not_keyless all j : keyed_at all j -> keyless_at all j -> False.
Proof. intros (a & Ha & Ka) (b & Hb & Kb). rewrite Ha in Hb. injection Hb as <-. contradiction. Qed.

Lemma keyed_at_app all ext j : keyed_at all j -> keyed_at (all ++ ext) j.
Proof. intros (a & Ha & Ka). exists a. split; [apply item_at_app1; exact Ha|exact Ka]. Qed.

Lemma keyless_at_prefix all ext j : j < len all -> keyless_at (all ++ ext) j -> keyless_at all j.
Proof.
  intros Hj (a & Ha & Ka). exists a. split; [|exact Ka].
  unfold item_at, len in *. rewrite nth_error_app1 in Ha by lia. exact Ha.
Qed.

Lemma keyless_at_lt all j : keyless_at all j -> j < len all.
Proof. intros (a & Ha & _). apply (item_at_lt _ _ _ Ha). Qed.

(* every pointer of an item of a well-formed run is below the item's index, which is its position *)
Lemma ptrs_lt m all : inv m all -> forall q, In q (allptrs all) -> q < len all.
Proof.
  intros I q Hq. unfold allptrs in Hq. apply in_flat_map in Hq. destruct Hq as (it & Hin & Hq).
  destruct (inv_items _ _ _ _ I it Hin) as [Hl Hr].
  destruct (In_nth_error _ _ Hin) as (i & Hi). pose proof (inv_index _ _ _ _ I _ _ Hi) as Hidx.
  assert (Hil : (i < length all)%nat) by (apply nth_error_Some; rewrite Hi; discriminate).
  unfold ptrs in Hq. apply in_app_or in Hq. unfold child_ok in *.
  destruct Hq as [Hq|Hq].
  - destruct (it_left it) as [j|]; cbn in Hq; [|contradiction]. destruct Hq as [<-|[]].
    destruct (left_child_of (children (it_node it))); [|contradiction]. destruct Hl as [Hl _]. unfold len. lia.
  - destruct (it_right it) as [j|]; cbn in Hq; [|contradiction]. destruct Hq as [<-|[]].
    destruct (right_child_of (children (it_node it))); [|contradiction]. destruct Hr as [Hr _]. unfold len. lia.
Qed.

Lemma ptrs_lt_part m pre out : inv m (pre ++ out) -> forall q, In q (allptrs out) -> q < len (pre ++ out).
Proof. intros I q Hq. apply (ptrs_lt m _ I). rewrite allptrs_app. apply in_or_app. right. exact Hq. Qed.

(* result index of a visit: an item with an id, or the fresh last item nobody inside points at *)
Definition ci_fresh_or_keyed (pre out : list po_item) (ci : N) : Prop :=
  keyed_at (pre ++ out) ci \/
  (ci + 1 = len (pre ++ out) /\ len pre <= ci /\ ~ In ci (allptrs out)).

Lemma visit_ptrs : forall h n, (n < h)%nat -> forall pre m, inv m pre ->
  let R := visit h n (len pre) m in
  ci_fresh_or_keyed pre (r_out R) (r_ci R) /\
  (forall q, In q (allptrs (r_out R)) -> keyless_at (pre ++ r_out R) q -> len pre <= q) /\
  (forall q, keyless_at (pre ++ r_out R) q -> (cnt (allptrs (r_out R)) q <= 1)%nat).
Proof.
  induction h as [|h IH]; intros n Hn pre m I; [lia|].
  cbv zeta. rewrite (visit_unfold children key Hwf) by exact Hn.
  destruct (seen_before key m n) as [si|] eqn:Hs.
  { cbn [r_out r_ci]. unfold ci_fresh_or_keyed. rewrite !app_nil_r. split; [|split].
    - left. unfold seen_before in Hs. destruct (key n) as [k|]; [|discriminate].
      destruct (inv_sound _ _ _ _ I _ _ Hs) as (it & Hi & Hk). exists it. split; [exact Hi|congruence].
    - intros q [].
    - intros q _. cbn. lia. }
  cbv zeta.
  (* one child slot *)
  assert (Hoc : forall oc pre0 m0, (match oc with Some c => (c < h)%nat | None => True end) ->
            inv m0 pre0 ->
            let C := ochild h oc (len pre0) m0 in
            inv (c_trk C) (pre0 ++ c_out C) /\ c_index C = len (pre0 ++ c_out C) /\
            (forall j, c_i C = Some j -> ci_fresh_or_keyed pre0 (c_out C) j) /\
            (forall q, In q (allptrs (c_out C)) -> keyless_at (pre0 ++ c_out C) q -> len pre0 <= q) /\
            (forall q, keyless_at (pre0 ++ c_out C) q -> (cnt (allptrs (c_out C)) q <= 1)%nat)).
  { intros [c|] pre0 m0 Hc I0; cbv zeta; cbn [VisitFacts.ochild c_trk c_out c_index c_i].
    - destruct (visit_inv children key Hwf h c Hc pre0 m0 I0) as (I1 & Hi1 & _).
      destruct (IH c Hc pre0 m0 I0) as (B & A & C).
      split; [exact I1|]. split; [exact Hi1|]. split; [|split; [exact A|exact C]].
      intros j [= <-]. exact B.
    - rewrite app_nil_r. split; [exact I0|]. split; [reflexivity|]. split; [|split].
      + intros j H. discriminate.
      + intros q [].
      + intros q _. cbn. lia. }
  pose proof (Hwf n) as Hok.
  assert (Hlb : match left_child_of (children n) with Some c => (c < h)%nat | None => True end)
    by (destruct (children n); cbn in Hok |- *; try exact Logic.I; lia).
  assert (Hrb : match right_child_of (children n) with Some c => (c < h)%nat | None => True end)
    by (destruct (children n); cbn in Hok |- *; try exact Logic.I; lia).
  destruct (Hoc _ pre m Hlb I) as (I1 & Hi1 & B1 & A1 & C1).
  set (l := ochild h (left_child_of (children n)) (len pre) m) in *.
  rewrite Hi1.
  destruct (Hoc _ (pre ++ c_out l) (c_trk l) Hrb I1) as (I2 & Hi2 & B2 & A2 & C2).
  set (r := ochild h (right_child_of (children n)) (len (pre ++ c_out l)) (c_trk l)) in *.
  rewrite Hi2.
  set (pre1 := pre ++ c_out l) in *. set (pre2 := pre1 ++ c_out r) in *.
  assert (L01 : len pre <= len pre1) by (subst pre1; rewrite len_app; lia).
  assert (L12 : len pre1 <= len pre2) by (subst pre2; rewrite len_app; lia).
  (* pointers of the two child parts *)
  assert (P1 : forall q, In q (allptrs (c_out l)) -> q < len pre1) by (apply (ptrs_lt_part _ _ _ I1)).
  assert (P2 : forall q, In q (allptrs (c_out r)) -> q < len pre2) by (apply (ptrs_lt_part _ _ _ I2)).
  (* the indices handed to the parent point below the respective ends *)
  assert (Q1 : forall j, c_i l = Some j -> j < len pre1).
  { intros j Hj. destruct (B1 j Hj) as [(it & Hit & _)|(H & _)]; [apply (item_at_lt _ _ _ Hit)|fold pre1 in H; lia]. }
  assert (Q2 : forall j, c_i r = Some j -> j < len pre2).
  { intros j Hj. destruct (B2 j Hj) as [(it & Hit & _)|(H & _)]; [apply (item_at_lt _ _ _ Hit)|fold pre2 in H; lia]. }
  (* facts about a keyless target q, for the children parts and the two indices *)
  assert (K : forall ext q, keyless_at (pre2 ++ ext) q ->
            (cnt (allptrs (c_out l)) q + cnt (allptrs (c_out r)) q
             + cnt (optl (c_i l)) q + cnt (optl (c_i r)) q <= 1)%nat /\
            (In q (allptrs (c_out l) ++ allptrs (c_out r) ++ optl (c_i l) ++ optl (c_i r)) -> len pre <= q)).
  { intros ext q Kq.
    assert (Hl_key : forall j, c_i l = Some j -> j = q ->
              j + 1 = len pre1 /\ len pre <= j /\ ~ In j (allptrs (c_out l))).
    { intros j Hj ->. destruct (B1 q Hj) as [Hk|Hf]; [|exact Hf]. exfalso.
      apply (keyed_not_keyless (pre2 ++ ext) q); [|exact Kq].
      subst pre2. rewrite <- app_assoc. apply keyed_at_app. exact Hk. }
    assert (Hr_key : forall j, c_i r = Some j -> j = q ->
              j + 1 = len pre2 /\ len pre1 <= j /\ ~ In j (allptrs (c_out r))).
    { intros j Hj ->. destruct (B2 q Hj) as [Hk|Hf]; [|exact Hf]. exfalso.
      apply (keyed_not_keyless (pre2 ++ ext) q); [|exact Kq]. apply keyed_at_app. exact Hk. }
    assert (Hin1 : In q (allptrs (c_out l)) -> len pre <= q /\ q < len pre1).
    { intros Hq. split; [|apply P1; exact Hq]. apply A1; [exact Hq|].
      apply keyless_at_prefix with (ext := c_out r ++ ext); [apply P1; exact Hq|].
      subst pre2 pre1. rewrite <- !app_assoc in Kq. rewrite <- app_assoc. exact Kq. }
    assert (Hin2 : In q (allptrs (c_out r)) -> len pre1 <= q /\ q < len pre2).
    { intros Hq. split; [|apply P2; exact Hq]. apply A2; [exact Hq|].
      apply keyless_at_prefix with (ext := ext); [apply P2; exact Hq|exact Kq]. }
    assert (Cl : (cnt (allptrs (c_out l)) q <= 1)%nat).
    { destruct (N.lt_ge_cases q (len pre1)) as [Hlt|Hge].
      - apply C1. apply keyless_at_prefix with (ext := c_out r ++ ext); [exact Hlt|].
        subst pre2. rewrite <- app_assoc in Kq. exact Kq.
      - rewrite cnt_zero; [lia|]. intros Hq. apply P1 in Hq. lia. }
    assert (Cr : (cnt (allptrs (c_out r)) q <= 1)%nat).
    { destruct (N.lt_ge_cases q (len pre2)) as [Hlt|Hge].
      - apply C2. apply keyless_at_prefix with (ext := ext); [exact Hlt|exact Kq].
      - rewrite cnt_zero; [lia|]. intros Hq. apply P2 in Hq. lia. }
    assert (Z12 : In q (allptrs (c_out l)) -> cnt (allptrs (c_out r)) q = 0%nat).
    { intros Hq. apply cnt_zero. intros Hq2. apply Hin1 in Hq. apply Hin2 in Hq2. lia. }
    split.
    - (* at most one pointer in total *)
      destruct (c_i l) as [jl|] eqn:El; destruct (c_i r) as [jr|] eqn:Er; cbn [optl cnt count_occ];
        repeat match goal with |- context [N.eq_dec ?a ?b] => destruct (N.eq_dec a b) end; subst;
        try (destruct (Hl_key _ eq_refl eq_refl) as (Hl1 & Hl2 & Hl3));
        try (destruct (Hr_key _ eq_refl eq_refl) as (Hr1 & Hr2 & Hr3));
        try (rewrite (cnt_zero _ _ Hl3));
        try (rewrite (cnt_zero _ _ Hr3));
        try lia.
      all: try (assert (cnt (allptrs (c_out r)) q = 0%nat) by (apply cnt_zero; intros Hq2; apply Hin2 in Hq2; lia); lia).
      all: try (assert (cnt (allptrs (c_out l)) q = 0%nat) by (apply cnt_zero; intros Hq1; apply Hin1 in Hq1; lia); lia).
      all: destruct (in_dec N.eq_dec q (allptrs (c_out l))) as [Hq|Hq];
        [rewrite (Z12 Hq); lia|rewrite (cnt_zero _ _ Hq); lia].
    - intros Hq. apply in_app_or in Hq. destruct Hq as [Hq|Hq]; [apply Hin1, Hq|].
      apply in_app_or in Hq. destruct Hq as [Hq|Hq]; [apply Hin2 in Hq; lia|].
      apply in_app_or in Hq. destruct Hq as [Hq|Hq].
      + destruct (c_i l) as [jl|] eqn:El; cbn in Hq; [|contradiction]. destruct Hq as [->|[]].
        destruct (Hl_key _ eq_refl eq_refl) as (_ & H & _). exact H.
      + destruct (c_i r) as [jr|] eqn:Er; cbn in Hq; [|contradiction]. destruct Hq as [->|[]].
        destruct (Hr_key _ eq_refl eq_refl) as (_ & H & _). lia. }
  (* the node itself *)
  unfold finish, record, ci_fresh_or_keyed.
  destruct (key n) as [k|] eqn:Hk; [destruct (tm_get (c_trk r) k) as [i|] eqn:Hg|];
    cbn [r_ci r_out r_index r_trk].
  - (* recorded meanwhile (only for keys that give a node the id of a descendant): no item *)
    rewrite app_nil_r. replace (pre ++ c_out l ++ c_out r) with pre2 by (subst pre2 pre1; rewrite app_assoc; reflexivity).
    split; [|split].
    + left. destruct (inv_sound _ _ _ _ I2 _ _ Hg) as (it & Hi & Hkk). exists it. split; [exact Hi|congruence].
    + intros q Hq Kq. rewrite allptrs_app in Hq. rewrite <- (app_nil_r pre2) in Kq.
      apply (proj2 (K [] q Kq)). apply in_app_or in Hq. apply in_or_app.
      destruct Hq as [Hq|Hq]; [left; exact Hq|right; apply in_or_app; left; exact Hq].
    + intros q Kq. rewrite allptrs_app, cnt_app. rewrite <- (app_nil_r pre2) in Kq.
      pose proof (proj1 (K [] q Kq)). lia.
  - (* fresh id: the item is yielded *)
    set (item := mk_item n (len pre2) (c_i l) (c_i r)).
    replace (pre ++ c_out l ++ c_out r ++ [item]) with (pre2 ++ [item])
      by (subst pre2 pre1; rewrite <- !app_assoc; reflexivity).
    assert (Hall : allptrs (c_out l ++ c_out r ++ [item]) =
                   allptrs (c_out l) ++ allptrs (c_out r) ++ optl (c_i l) ++ optl (c_i r)).
    { rewrite !allptrs_app. cbn. unfold ptrs. cbn. rewrite app_nil_r. reflexivity. }
    rewrite Hall. split; [|split].
    + right. split; [rewrite len_app; cbn; lia|]. split; [lia|].
      intros Hq. apply in_app_or in Hq. destruct Hq as [Hq|Hq]; [apply P1 in Hq; lia|].
      apply in_app_or in Hq. destruct Hq as [Hq|Hq]; [apply P2 in Hq; lia|].
      apply in_app_or in Hq. destruct Hq as [Hq|Hq].
      * destruct (c_i l) as [j|] eqn:E; cbn in Hq; [|contradiction]. destruct Hq as [->|[]].
        specialize (Q1 _ eq_refl). lia.
      * destruct (c_i r) as [j|] eqn:E; cbn in Hq; [|contradiction]. destruct Hq as [->|[]].
        specialize (Q2 _ eq_refl). lia.
    + intros q Hq Kq. apply (proj2 (K [item] q Kq)). exact Hq.
    + intros q Kq. rewrite !cnt_app. pose proof (proj1 (K [item] q Kq)). lia.
  - (* no id: the item is yielded *)
    set (item := mk_item n (len pre2) (c_i l) (c_i r)).
    replace (pre ++ c_out l ++ c_out r ++ [item]) with (pre2 ++ [item])
      by (subst pre2 pre1; rewrite <- !app_assoc; reflexivity).
    assert (Hall : allptrs (c_out l ++ c_out r ++ [item]) =
                   allptrs (c_out l) ++ allptrs (c_out r) ++ optl (c_i l) ++ optl (c_i r)).
    { rewrite !allptrs_app. cbn. unfold ptrs. cbn. rewrite app_nil_r. reflexivity. }
    rewrite Hall. split; [|split].
    + right. split; [rewrite len_app; cbn; lia|]. split; [lia|].
      intros Hq. apply in_app_or in Hq. destruct Hq as [Hq|Hq]; [apply P1 in Hq; lia|].
      apply in_app_or in Hq. destruct Hq as [Hq|Hq]; [apply P2 in Hq; lia|].
      apply in_app_or in Hq. destruct Hq as [Hq|Hq].
      * destruct (c_i l) as [j|] eqn:E; cbn in Hq; [|contradiction]. destruct Hq as [->|[]].
        specialize (Q1 _ eq_refl). lia.
      * destruct (c_i r) as [j|] eqn:E; cbn in Hq; [|contradiction]. destruct Hq as [->|[]].
        specialize (Q2 _ eq_refl). lia.
    + intros q Hq Kq. apply (proj2 (K [item] q Kq)). exact Hq.
    + intros q Kq. rewrite !cnt_app. pose proof (proj1 (K [item] q Kq)). lia.
Qed.

(* THEOREM: an item of a node without sharing id is the left or right child index of at most one
   item (counting both sides of one item): it is that very occurrence of the child *)
Theorem po_keyless_once : forall root q it,
  item_at (po_spec children key root) q = Some it -> key (it_node it) = None ->
  (cnt (allptrs (po_spec children key root)) q <= 1)%nat.
Proof.
  intros root q it Hi Hk. unfold po_spec in *.
  destruct (visit_ptrs (S root) root ltac:(lia) [] [] (inv_nil children key)) as (_ & _ & C).
  apply C. exists it. split; [exact Hi|exact Hk].
Qed.

End Keyless.
