(* C13 - Bit streams and natural numbers code exactly.
   Only pinned statements (`Check name : statement`), `Theorem .. exact lemma` and
   `Print Assumptions`.  Models: Bits/Natural.v, Bits/BitIter.v, Bits/BitWriter.v. *)
From RS Require Import Lib.Tac Lib.Outcome Lib.Bits Lib.ByteSweep
  Bits.Natural Bits.BitIter Bits.BitWriter Bits.ReaderNat Bits.ReaderFail Bits.WriterFlush Bits.ReaderNth.
Import ListNotations.
Local Open Scope N_scope.

(* 1. every natural of the code's range decodes back, consuming exactly its bits *)
Theorem C13_read_encode : forall ty_max bound n rest,
  1 <= n -> n < 2 ^ 32 -> n <= ty_max ->
  (match bound with Some b => n <= b | None => True end) ->
  read_nat ty_max bound (encode_nat n ++ rest) = Ok (n, rest).
Proof. exact read_encode. Qed.
Print Assumptions C13_read_encode.

(* 2. every accepted bit string is the encoding of the number returned, followed by
   the unread bits: at most one number, no second encoding, prefix-free *)
Theorem C13_encode_read : forall ty_max bound l n rest,
  read_nat ty_max bound l = Ok (n, rest) ->
  l = encode_nat n ++ rest /\ 1 <= n /\ n <= ty_max /\
  (match bound with Some b => n <= b | None => True end).
Proof. exact encode_read. Qed.
Print Assumptions C13_encode_read.

Theorem C13_read_range : forall ty_max bound l n rest,
  read_nat ty_max bound l = Ok (n, rest) -> n < 2 ^ 32.
Proof. exact read_nat_range. Qed.
Print Assumptions C13_read_range.

(* 3. rejection, never truncation *)
Theorem C13_reject_large : forall ty_max bound n rest,
  2 ^ 32 <= n -> read_nat ty_max bound (encode_nat n ++ rest) = Err Overflow.
Proof. exact read_encode_overflow. Qed.
Print Assumptions C13_reject_large.

Theorem C13_reject_type : forall ty_max bound n rest,
  1 <= n -> n < 2 ^ 32 -> ty_max < n ->
  read_nat ty_max bound (encode_nat n ++ rest) = Err Overflow.
Proof. exact read_encode_type_overflow. Qed.
Print Assumptions C13_reject_type.

Theorem C13_reject_bound : forall ty_max b n rest,
  1 <= n -> n < 2 ^ 32 -> n <= ty_max -> b < n ->
  read_nat ty_max (Some b) (encode_nat n ++ rest) = Err (BadIndex n b).
Proof. exact read_encode_bad_index. Qed.
Print Assumptions C13_reject_bound.

Theorem C13_read_total : forall ty_max bound l,
  match read_nat ty_max bound l with Panic _ | OutOfFuel => False | _ => True end.
Proof. exact read_nat_total. Qed.
Print Assumptions C13_read_total.

(* 4. the cached-byte reader refines the bit queue *)
Theorem C13_reader_next : forall it, bi_inv it ->
  match bi_remaining it with
  | [] => bi_next it = None
  | b :: tl => exists it', bi_next it = Some (b, it') /\ bi_remaining it' = tl /\
                           bi_inv it' /\ bi_total it' = bi_total it + 1
  end.
Proof. exact bi_next_spec. Qed.
Print Assumptions C13_reader_next.

Theorem C13_reader_u8 : forall it, bi_inv it ->
  let l := bi_remaining it in
  if Nat.leb 8 (length l) then
    exists v it', bi_read_u8 it = Ok (v, it') /\ v < 256 /\ bits_be 8 v = firstn 8 l /\
                  bi_remaining it' = skipn 8 l /\ bi_inv it' /\
                  bi_total it' = bi_total it + 8
  else bi_read_u8 it = Err EarlyEndOfStream.
Proof. exact bi_read_u8_spec. Qed.
Print Assumptions C13_reader_u8.

(* 5. writes followed by flush read back as the same bits plus < 8 zero bits *)
Theorem C13_writer_reader : forall l,
  let w := bw_flush_all (bw_write_bits bw_new l) in
  exists pad, (pad < 8)%nat /\
    bytes_ok (bw_out w) /\
    bw_total w = N.of_nat (length l) /\
    bi_remaining (biter_of_bytes (bw_out w)) = l ++ repeat false pad /\
    (length (bw_out w) * 8 = length l + pad)%nat.
Proof. exact writer_reader. Qed.
Print Assumptions C13_writer_reader.

(* 6. close *)
Theorem C13_close_iff : forall it, bi_inv it ->
  (bi_close it = Ok tt <->
   bi_rest it = [] /\ Forall (fun b => b = false) (bi_remaining it)) /\
  (forall b, bi_close it = Err (TrailingBytes b) <-> exists r, bi_rest it = b :: r) /\
  (forall c, bi_close it <> Panic c) /\ bi_close it <> OutOfFuel.
Proof. exact bi_close_iff. Qed.
Print Assumptions C13_close_iff.

(* 7. window: exact for byte-aligned ends; in general it runs on to the byte
   boundary (finding F-C13, refuted for the code as it stands) *)
Theorem C13_window_aligned : forall sl s e,
  bytes_ok sl -> s <= e -> e <= 8 * N.of_nat (length sl) -> e mod 8 = 0 ->
  exists it, bi_window sl s e = Ok it /\ bi_inv it /\ bi_total it = 0 /\
             bi_remaining it = bit_range sl s e.
Proof. exact bi_window_aligned. Qed.
Print Assumptions C13_window_aligned.

Theorem C13_window_general : forall sl s e,
  bytes_ok sl -> s <= e -> e <= 8 * N.of_nat (length sl) ->
  exists it, bi_window sl s e = Ok it /\ bi_inv it /\ bi_total it = 0 /\
             bi_remaining it = bit_range sl s (8 * div_ceil8 e).
Proof. exact bi_window_general. Qed.
Print Assumptions C13_window_general.

Theorem C13_window_exact_refuted :
  exists sl s e it, s <= e /\ e <= 8 * N.of_nat (length sl) /\ bytes_ok sl /\
    bi_window sl s e = Ok it /\ bi_remaining it <> bit_range sl s e.
Proof. exact bi_window_overrun_refuted. Qed.
Print Assumptions C13_window_exact_refuted.

(* 8. read_natural through the cached-byte reader = the abstract decoder on the bits still
   to come; position and counter advance by exactly the encoding's length *)
Theorem C13_reader_natural : forall ty_max bound it, bi_inv it ->
  match read_nat ty_max bound (bi_remaining it) with
  | Ok (n, rest) =>
      exists it', bi_read_natural ty_max bound it = Ok (n, it') /\
                  bi_remaining it' = rest /\ bi_inv it' /\
                  bi_total it' = bi_total it + N.of_nat (length (encode_nat n))
  | Err e => bi_read_natural ty_max bound it = Err e
  | Panic c => False
  | OutOfFuel => False
  end.
Proof. exact bi_read_natural_spec. Qed.
Print Assumptions C13_reader_natural.

(* 9. collect_bits packs the bits followed by fewer than 8 zeros and reports the bit count *)
Theorem C13_collect_bits : forall l,
  let '(bytes, n) := collect_bits l in
  bytes_ok bytes /\ n = N.of_nat (length l) /\
  exists pad, (pad < 8)%nat /\ bits_of_bytes bytes = l ++ repeat false pad /\
              (length bytes * 8 = length l + pad)%nat.
Proof. exact collect_bits_spec. Qed.
Print Assumptions C13_collect_bits.

(* 10. failed reads: a failing read_natural / read_u2 has consumed exactly the bits it looked
   at (the unread bits are [nat_rest], nothing when the stream ran out), counters included *)
Theorem C13_nat_rest_ok : forall ty_max bound l n rest,
  read_nat ty_max bound l = Ok (n, rest) -> nat_rest l = Some rest.
Proof. exact nat_rest_ok. Qed.
Print Assumptions C13_nat_rest_ok.

Theorem C13_nat_rest_none : forall ty_max bound l,
  nat_rest l = None <-> read_nat ty_max bound l = Err EndOfStream.
Proof. exact nat_rest_none. Qed.
Print Assumptions C13_nat_rest_none.

Theorem C13_nat_rest_suffix : forall l r, nat_rest l = Some r -> exists p, l = p ++ r.
Proof. exact nat_rest_suffix. Qed.
Print Assumptions C13_nat_rest_suffix.

Theorem C13_reader_natural_state : forall ty_max bound it, bi_inv it ->
  let l := bi_remaining it in
  let '(res, st) := bi_read_natural_st ty_max bound it in
  exists it', st = Some it' /\ bi_inv it' /\
    bi_remaining it' = match nat_rest l with Some r => r | None => [] end /\
    bi_total it' = bi_total it + N.of_nat (length l - length (bi_remaining it')) /\
    res = match read_nat ty_max bound l with
          | Ok (n, _) => Ok n | Err e => Err e | Panic c => Panic c | OutOfFuel => OutOfFuel
          end.
Proof. exact bi_read_natural_st_spec. Qed.
Print Assumptions C13_reader_natural_state.

Theorem C13_reader_u2_state : forall it, bi_inv it ->
  let l := bi_remaining it in
  let '(res, it') := bi_read_u2_st it in
  bi_inv it' /\
  match l with
  | b1 :: b2 :: tl => res = Some (2 * b2n b1 + b2n b2) /\ bi_remaining it' = tl /\
                      bi_total it' = bi_total it + 2
  | [_] => res = None /\ bi_remaining it' = [] /\ bi_total it' = bi_total it + 1
  | [] => res = None /\ it' = it
  end.
Proof. exact bi_read_u2_st_spec. Qed.
Print Assumptions C13_reader_u2_state.

(* flush_all in the middle of a stream: the cached bits go out padded to a whole byte, nothing stays cached,
   the counter does not count the padding *)
Theorem C13_flush_all_mid_stream : forall w, bw_inv w ->
  let w' := bw_flush_all w in
  bw_inv w' /\ bw_cache_len w' = 0 /\ bw_total w' = bw_total w /\
  bw_bits w' = bw_bits w ++ repeat false (pad_of (bw_cache_len w)).
Proof. exact bw_flush_all_bits. Qed.
Print Assumptions C13_flush_all_mid_stream.

(* any number of write sequences, each followed by flush_all, read back through the bit reader: the
   segments in order, each padded with zeros to a whole byte *)
Theorem C13_writer_segments_reader : forall segs,
  let w := write_segments segs bw_new in
  bytes_ok (bw_out w) /\
  bw_total w = N.of_nat (length (concat segs)) /\
  bi_remaining (biter_of_bytes (bw_out w)) = concat (map pad8 segs).
Proof. exact writer_segments_reader. Qed.
Print Assumptions C13_writer_segments_reader.

(* Iterator::nth on the reader: the k-th remaining bit; exactly the bits skipped and the bit returned are consumed,
   past the end everything is, and the counter says so *)
Theorem C13_reader_nth : forall k it, bi_inv it ->
  let l := bi_remaining it in
  let '(res, it') := bi_nth k it in
  bi_inv it' /\
  res = nth_error l k /\
  bi_remaining it' = skipn (S k) l /\
  bi_total it' = bi_total it + N.of_nat (Nat.min (S k) (length l)).
Proof. exact bi_nth_spec. Qed.
Print Assumptions C13_reader_nth.
