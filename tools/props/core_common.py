"""Shared machinery of the Bit Machine checks C05 (execution = semantics) and C07 (static bounds).

Case kinds of harness command `core` (harness_core/src/core.rs):
  exec <program> <pdl> <input>      -> see core.rs for the result layout
Model entry points: coq/Core/Run.v (run_limits), coq/Jets/JetSpecAll3.v (run_exec3, run_eval3, run_exec_v3, run_jet_names3: the
functions of coq/Core/Run2.v / RunV.v over the jet dispatcher extended with the secp256k1 point and signature jets of
coq/Jets/JetSpecSecp.v / JetSpecSecpSig.v).
"""
import os

import proggen as pg
import vplib
from vplib import Case

try:
    from props import core_jets
except ImportError:  # pragma: no cover
    core_jets = None

CRATE = None  # merged into the main harness crate
IMPORTS = ["Lib.Outcome", "Ty.Ty", "Core.Prog", "Core.Term", "Core.Bounds", "Core.Machine", "Core.Run", "Core.Run2", "Core.RunV", "Jets.JetSpecAll3"]
# Print Assumptions of the theorems about the extended jet dispatcher lists the Uint63 primitives of Merkle/Sha256.v;
# coqchk (thorough tier) lists every primitive and axiom of Coq.Numbers.Cyclic.Int63 in the closure of the library,
# whether used or not: the same list as C09 (tools/props/c09.py)
try:
    from props import c09 as _c09
    UINT63_PRIMS = list(_c09.UINT63_PRIMS)
except Exception:  # pragma: no cover
    UINT63_PRIMS = ["int", "add", "sub", "land", "lor", "lxor", "lsl", "lsr", "eqb",
                    "PrimInt63.int", "PrimInt63.add", "PrimInt63.sub", "PrimInt63.land",
                    "PrimInt63.lor", "PrimInt63.lxor", "PrimInt63.lsl", "PrimInt63.lsr", "PrimInt63.eqb"]
EXTRA_TARGETS = ["Core/Run.vo", "Core/Run2.vo", "Core/RunV.vo", "Jets/JetSpecAll3.vo"]
MAX_CELLS = 2 * 1024 * 1024 * 1024 - 1
MAX_FRAMES = 1024 * 1024
USIZE_MAX = 2**64 - 1
U32_MAX = 2**32 - 1
OVERHEAD = 100


def build(profile="debug"):
    binary, out = vplib.harness_build(profile, crate=CRATE)
    if binary is None:
        raise vplib.Infra("harness_core build (%s) failed:\n%s" % (profile, out[-3000:]))
    return binary


# ------------------------------------------------------------------ harness helpers
def harness_info(binary, progs, workdir, program=False):
    """progs: list of node tables -> list of (arrows, cmrs) | ('err', code)"""
    lines = ["i%d info %d %s" % (k, 1 if program else 0, pg.prog_pdl(p)) for k, p in enumerate(progs)]
    res = vplib.run_harness(binary, "core", lines, workdir=workdir)
    out = []
    for k in range(len(progs)):
        out.append(parse_info(res.get("i%d" % k)))
    return out


def parse_info(nums):
    if not isinstance(nums, list) or not nums:
        return ("err", -1)
    if nums[0] != 0:
        return ("err", nums[1] if len(nums) > 1 else -1)
    arrows = []
    cmrs = {}
    pos = 1
    while pos < len(nums):
        if nums[pos] == 5:
            arrows.append(None)
            pos += 1
        elif nums[pos] == 4:
            a, pos = pg.ty_from_nums(nums, pos + 1)
            b, pos = pg.ty_from_nums(nums, pos)
            arrows.append((a, b))
        elif nums[pos] == 8:
            cmrs[nums[pos + 1]] = nums[pos + 2:pos + 34]
            pos += 34
        else:
            return ("err", -2)
    return (arrows, cmrs)


_jet_state = {}


def jet_tables(binary, workdir):
    """(jets, costs): Core jets (index, name, src, tgt) and their costs, from the implementation"""
    if binary not in _jet_state:
        jl = pg.jet_list(binary, "c", workdir)
        res = vplib.run_harness(binary, "core", ["jc jetcosts"], workdir=workdir)
        costs = res.get("jc")
        if not isinstance(costs, list) or len(costs) != len(jl):
            raise vplib.Infra("jetcosts failed: %r" % (costs,))
        _jet_state[binary] = (jl, costs)
    return _jet_state[binary]


_spec_names = {}


def specified_jets(workdir):
    """ids and names of the jets specified in coq/Jets/JetSpec.v, JetSpecSha.v, JetSpecSecp.v and JetSpecSecpSig.v (evaluated in Coq)"""
    if "v" not in _spec_names:
        vals, logs = vplib.coq_eval(IMPORTS, ["List.concat (map (fun l => N.of_nat (List.length l) :: l) run_jet_names3)"],
                                    workdir=workdir, tag="jetnames")
        if vals[0] is None:
            raise vplib.Infra("cannot evaluate run_jet_names3:\n" + logs[0][-2000:])
        flat = vals[0]
        out = {}
        pos = 0
        while pos < len(flat):
            ln = flat[pos]
            ent = flat[pos + 1:pos + 1 + ln]
            out[ent[0]] = bytes(ent[1:]).decode()
            pos += 1 + ln
        _spec_names["v"] = out
    return _spec_names["v"]


# ------------------------------------------------------------------ rendering for Coq
_ty_str_cache = {}


def _cached(fn, t):
    """pg.ty_coq / pg.ty_pdl hash the (nested tuple) type at every level; the jet types (CTX8, 4096-bit words) are shared
    objects, so the strings are cached by object identity (the object is kept alive in the cache)"""
    k = (fn.__name__, id(t))
    e = _ty_str_cache.get(k)
    if e is None or e[0] is not t:
        e = (t, fn(t))
        _ty_str_cache[k] = e
    return e[1]


def ty_coq(t):
    return _cached(pg.ty_coq, t)


def ty_pdl(t):
    return _cached(pg.ty_pdl, t)


def coq_arrow(ar):
    return "None" if ar is None else "(Some (%s, %s))" % (ty_coq(ar[0]), ty_coq(ar[1]))


def node_coq(n, jet_ids):
    if n[0] == "disc":
        # (proggen.node_coq prints `Some k` which is read as an N literal inside N_scope)
        return "(NDisconnect %d%%nat %s)" % (n[1], "None" if n[2] is None else "(Some %d%%nat)" % n[2])
    return pg.node_coq(n, jet_ids)


def coq_typed_prog(prog, arrows, jet_ids):
    return "[" + "; ".join("(%s, %s)" % (node_coq(n, jet_ids), coq_arrow(a)) for n, a in zip(prog, arrows)) + "]"


def coq_cmrs(cm):
    return "[" + "; ".join("(%d%%nat, %s)" % (i, vplib.coq_list(c)) for i, c in sorted(cm.items())) + "]"


def coq_costs(prog, jet_ids, costs):
    used = sorted({jet_ids[(n[1], n[2])] for n in prog if n[0] == "jet"})
    return "[" + "; ".join("(%d, %d)" % (j, costs[j]) for j in used) + "]"


def coq_input(inp):
    if inp is None:
        return "None"
    t, bits = inp
    return "(Some (%s, %s))" % (ty_coq(t), vplib.coq_list(bits))


def rand_padded(rng, t, v, dirty=True):
    """padded bits of v : t with random padding contents"""
    if t[0] == "u":
        return []
    if t[0] == "s":
        w = max(pg.width(t[1]), pg.width(t[2]))
        if v[0] == "L":
            n = w - pg.width(t[1])
            return [0] + (rng.bits(n) if dirty else [0] * n) + rand_padded(rng, t[1], v[1], dirty)
        n = w - pg.width(t[2])
        return [1] + (rng.bits(n) if dirty else [0] * n) + rand_padded(rng, t[2], v[1], dirty)
    return rand_padded(rng, t[1], v[1], dirty) + rand_padded(rng, t[2], v[2], dirty)


def has_padding(t):
    if t[0] == "u":
        return False
    if t[0] == "s":
        return has_padding(t[1]) or has_padding(t[2]) or pg.width(t[1]) != pg.width(t[2])
    return has_padding(t[1]) or has_padding(t[2])


# ------------------------------------------------------------------ independent reference: bounds
def sat(x):
    return min(x, USIZE_MAX)


def cadd(a, b):
    return min(a + b, U32_MAX)


def py_bounds(prog, widths, costs, jet_ids):
    """NodeBounds per node from the formulas of the tech report / analysis.rs, written independently:
    widths[i] = (src width, tgt width) saturated.  Returns list of (cells, frames, cost) | None"""
    out = []
    for i, n in enumerate(prog):
        k = n[0]
        sw, tw = widths[i] if widths[i] is not None else (0, 0)
        if k == "hid":
            out.append(None)
        elif k == "iden":
            out.append((0, 0, cadd(OVERHEAD, sw % 2**32)))
        elif k == "unit":
            out.append((0, 0, OVERHEAD))
        elif k in ("injl", "injr", "take", "drop"):
            c = out[n[1]]
            out.append((c[0], c[1], cadd(OVERHEAD, c[2])))
        elif k == "comp":
            l, r = out[n[1]], out[n[2]]
            mid = widths[n[1]][1]
            out.append((sat(mid + max(l[0], r[0])), 1 + max(l[1], r[1]),
                        cadd(cadd(cadd(OVERHEAD, mid % 2**32), l[2]), r[2])))
        elif k == "case":
            l, r = out[n[1]], out[n[2]]
            if l is None:
                out.append((r[0], r[1], cadd(OVERHEAD, r[2])))
            elif r is None:
                out.append((l[0], l[1], cadd(OVERHEAD, l[2])))
            else:
                out.append((max(l[0], r[0]), max(l[1], r[1]), cadd(OVERHEAD, max(l[2], r[2]))))
        elif k == "pair":
            l, r = out[n[1]], out[n[2]]
            out.append((max(l[0], r[0]), max(l[1], r[1]), cadd(cadd(OVERHEAD, l[2]), r[2])))
        elif k == "disc":
            l, r = out[n[1]], out[n[2]]
            lsw, ltw = widths[n[1]]
            bw = ltw - widths[n[2]][0]
            c = OVERHEAD
            for x in (lsw, lsw, ltw, bw):
                c = cadd(c, x % 2**32)
            out.append((sat(sat(lsw + ltw) + max(l[0], r[0])), 2 + max(l[1], r[1]), cadd(cadd(c, l[2]), r[2])))
        elif k == "wit":
            out.append((tw, 0, cadd(OVERHEAD, tw % 2**32)))
        elif k == "fail":
            out.append((0, 0, 0))
        elif k == "jet":
            out.append((0, 0, cadd(OVERHEAD, costs[jet_ids[(n[1], n[2])]])))
        elif k == "word":
            out.append((0, 0, cadd(OVERHEAD, (2 ** n[1]) % 2**32)))
        else:
            raise ValueError(k)
    return out


def py_limit(sw, tw, ec, ef):
    """expected LimitError (kind, got, which) or None: the seven comparisons of limits.rs"""
    for which, (kind, got) in enumerate([(0, sw), (0, tw), (0, ec), (0, sw + tw), (0, sw + tw + ec), (1, ef), (1, ef + 2)]):
        if got > (MAX_CELLS if kind == 0 else MAX_FRAMES):
            return (kind, got, which)
    return None


# ------------------------------------------------------------------ independent reference: semantics
def jet_fn(fam, name, v):
    if core_jets is None or fam != "c":
        raise pg.EvalFail("nojet")
    return core_jets.eval_jet(name, v)


def reference_eval(prog, arrows, cmrs, inp_value):
    """('ok', value) | ('pruned', bytes) | ('fail', bytes) | ('jet',) | ('skip', why)"""
    try:
        v = pg.eval_prog(prog, arrows, len(prog) - 1, inp_value, jet_fn, lambda i: cmrs[i])
        return ("ok", v)
    except pg.EvalFail as e:
        if e.kind == "pruned":
            return ("pruned", [int(e.data[i:i + 2], 16) for i in range(0, 64, 2)])
        if e.kind == "fail":
            return ("fail", [int(e.data[i:i + 2], 16) for i in range(0, 128, 2)])
        if e.kind == "jet":
            return ("jet",)
        return ("skip", e.kind)


def split_exec(r):
    """decompose a `core exec` result: dict with keys tag, sw, tw, ec, ef, cost, capc, capf, verdict..."""
    d = {"raw": r}
    if not isinstance(r, list) or not r:
        d["tag"] = "crash"
        return d
    if r[0] == 9:
        d["tag"] = "panic-early"
        return d
    if r[0] == 3:
        d["tag"] = "build"
        d["code"] = r[1] if len(r) > 1 else -1
        return d
    d.update(zip(("sw", "tw", "ec", "ef", "cost"), r[1:6]))
    if r[0] == 2:
        d["tag"] = "limit"
        d["limit"] = tuple(r[6:10])
        return d
    d["capc"], d["capf"] = r[6], r[7]
    if len(r) == 8:
        d["tag"] = "accepted"      # kind `limits`: for_program only
        return d
    d["wt"] = r[8]
    v = r[9:]
    if v[0] == 9:
        d["tag"] = "panic"
        return d
    d["hwc"], d["hwf"] = v[1], v[2]
    if v[0] == 0:
        d["tag"] = "ok"
        n = v[3]
        d["compact"] = v[4:4 + n]
        m = v[4 + n]
        d["padded"] = v[5 + n:5 + n + m]
    else:
        d["tag"] = "err"
        d["err"] = v[3]
        d["data"] = v[4:]
    return d


def split_execv(r):
    """decompose a `core execv` result (Value-level observation of the same run)"""
    d = {"raw": r}
    if not isinstance(r, list) or not r:
        d["tag"] = "crash"
        return d
    if r[0] == 9:
        d["tag"] = "panic-early"
        return d
    if r[0] == 3:
        d["tag"] = "build"
        d["code"] = r[1] if len(r) > 1 else -1
        return d
    d.update(zip(("sw", "tw", "ec", "ef", "cost"), r[1:6]))
    if r[0] == 2:
        d["tag"] = "limit"
        return d
    d["capc"], d["capf"], d["wt"] = r[6], r[7], r[8]
    v = r[9:]
    if v[0] == 9:
        d["tag"] = "panic"
        return d
    d["hwc"], d["hwf"] = v[1], v[2]
    if v[0] == 0:
        d["tag"] = "ok"
        d["in_off"], n = v[3], v[4]
        d["in_bytes"] = v[5:5 + n]
        pos = 5 + n
        d["out_off"], m = v[pos], v[pos + 1]
        d["out_bytes"] = v[pos + 2:pos + 2 + m]
        d["is_target_ty"], d["is_unit_ty"] = v[pos + 2 + m], v[pos + 3 + m]
    else:
        d["tag"] = "err"
        d["err"] = v[3]
        d["data"] = v[4:]
    return d


def value_layout(bits):
    """buffer bytes of Value::from_padded_bits on a bit string: the whole bytes, then always one more byte holding the
    remaining bits left-aligned"""
    n = len(bits) // 8
    out = []
    for i in range(n):
        x = 0
        for b in bits[8 * i:8 * i + 8]:
            x = 2 * x + b
        out.append(x)
    last = 0
    for i, b in enumerate(bits[8 * n:]):
        if b:
            last |= 1 << (7 - i)
    return out + [last]


def bits_at(bytes_, off, n):
    return [(bytes_[(off + i) // 8] >> (7 - (off + i) % 8)) & 1 for i in range(n)]


PAD_TYPES = [pg.U, pg.BIT, pg.word(1), pg.S(pg.U, pg.word(1)), pg.P(pg.BIT, pg.word(2)), pg.word(3), pg.P(pg.word(3), pg.BIT),
             pg.word(2), pg.P(pg.word(1), pg.word(2)), pg.P(pg.P(pg.BIT, pg.word(1)), pg.word(2))]   # widths 0 1 2 3 5 8 9 4 6 7


def typed_copy_programs():
    """programs `pair iden A : T -> T * 1` for T = a word 2^(2^n) or a product of two words, where A : T -> 1 is an
    anchor (one `case` per bit) that fixes T by inference without writing anything: the output is a copy of the input.
    Returns [(node table, T)] with widths 1 2 3 4 5 6 8 9 10 12 16 17 18 20 24."""
    out = []

    def anchor(nodes, n):
        nodes.append(("iden",))
        nodes.append(("unit",))
        nodes.append(("pair", len(nodes) - 2, len(nodes) - 1))
        pi = len(nodes) - 1
        nodes.append(("unit",))
        nodes.append(("case", len(nodes) - 1, len(nodes) - 1))
        nodes.append(("comp", pi, len(nodes) - 1))
        a = len(nodes) - 1
        for _ in range(n):
            nodes.append(("take", a))
            nodes.append(("drop", a))
            nodes.append(("pair", len(nodes) - 2, len(nodes) - 1))
            a = len(nodes) - 1
        return a

    shapes = [(n,) for n in range(0, 5)] + [(0, 1), (0, 2), (1, 2), (0, 3), (1, 3), (2, 3), (0, 4), (1, 4), (2, 4), (3, 4)]
    for sh in shapes:
        nodes = []
        if len(sh) == 1:
            a = anchor(nodes, sh[0])
            ty = pg.word(sh[0])
        else:
            a1 = anchor(nodes, sh[0])
            a2 = anchor(nodes, sh[1])
            nodes.append(("take", a1))
            nodes.append(("drop", a2))
            nodes.append(("pair", len(nodes) - 2, len(nodes) - 1))
            a = len(nodes) - 1
            ty = pg.P(pg.word(sh[0]), pg.word(sh[1]))
        nodes.append(("iden",))
        nodes.append(("pair", len(nodes) - 1, a))
        out.append((pg.compact_prog(nodes), ty))
    return out


def make_execv_case(cid, prog, arrows, cmrs, inp, padty, padbits, jet_ids, costs, prof=0, meta=None):
    """Value-level case: inp = None | (type, padded bits); the input Value is the right component of a Value of type
    padty * type decoded from padbits ++ bits (padty = unit: no product)"""
    if inp is None:
        line = "0 %s -" % pg.prog_pdl(prog)
        coq_in = "None"
    else:
        line = "0 %s %s:%s:%s:%s" % (pg.prog_pdl(prog), ty_pdl(padty), pg.bstr(padbits), ty_pdl(inp[0]), pg.bstr(inp[1]))
        raw = value_layout(list(padbits) + list(inp[1]))
        coq_in = "(Some (%s, %d, %s))" % (vplib.coq_list(raw), pg.width(padty), ty_coq(inp[0]))
    expr = "run_exec_v3 %d %s %s %s %s" % (prof, coq_typed_prog(prog, arrows, jet_ids), coq_cmrs(cmrs),
                                          coq_costs(prog, jet_ids, costs), coq_in)
    m = {"prog": prog, "arrows": arrows, "cmrs": cmrs, "inp": inp, "padty": padty}
    m.update(meta or {})
    return Case(cid, "execv", line, expr, m)


# ------------------------------------------------------------------ generation
def gen_types(rng, deep):
    return pg.rand_ty(rng, rng.range(0, 3 if deep else 2))


def gen_structures(rng, count, opts=None, depth=5, jets=None):
    """type-directed structures (witness nodes without values); some built around a jet"""
    out = []
    for k in range(count):
        o = dict(opts or {})
        a = gen_types(rng, True)
        b = gen_types(rng, True)
        if rng.chance(1, 3):
            # product sources / sum components: take, drop and case become applicable at the root
            a = pg.P(pg.S(gen_types(rng, False), gen_types(rng, False)) if rng.chance(1, 2) else gen_types(rng, False), a)
        if jets and rng.chance(1, 4):
            j = rng.choice(jets)
            bld = pg.Builder(rng, o)
            x = bld.gen(a, j[2], rng.range(1, 3))
            jn = bld.add(("jet", "c", j[1]))
            y = bld.gen(j[3], b, rng.range(1, 3))
            c1 = bld.add(("comp", x, jn))
            bld.add(("comp", c1, y))
            out.append(pg.compact_prog(bld.nodes))
        else:
            out.append(pg.gen_program(rng, a, b, rng.range(1, depth), o))
    return out


def shape_key(prog):
    return tuple((n[0],) + tuple(x for x in n[1:] if isinstance(x, int)) for n in prog)


def interesting(prog, arrows):
    """the `distinct non-trivial` rule: a case, or a comp through a padded type"""
    for n, ar in zip(prog, arrows):
        if n[0] == "case":
            return True
        if n[0] == "comp" and arrows[n[1]] is not None and has_padding(arrows[n[1]][1]):
            return True
    return False


def make_exec_case(cid, prog, arrows, cmrs, inp, jet_ids, costs, prof=0, meta=None, model=True):
    """inp: None | (type, padded bits)"""
    line = "0 %s %s" % (pg.prog_pdl(prog), "-" if inp is None else "%s:%s" % (ty_pdl(inp[0]), pg.bstr(inp[1])))
    expr = None
    if model:
        expr = "run_exec3 %d %s %s %s %s" % (prof, coq_typed_prog(prog, arrows, jet_ids), coq_cmrs(cmrs),
                                            coq_costs(prog, jet_ids, costs), coq_input(inp))
    m = {"prog": prog, "arrows": arrows, "cmrs": cmrs, "inp": inp}
    m.update(meta or {})
    return Case(cid, "exec", line, expr, m)


def load_corpus(prop):
    """corpus files: one case per line `<kind> <harness args...>` (comments with #); run first, implementation only"""
    d = os.path.join(vplib.VERIF, "corpus", prop)
    out = []
    if os.path.isdir(d):
        for fn in sorted(os.listdir(d)):
            if not fn.endswith(".case"):
                continue
            for ln, line in enumerate(open(os.path.join(d, fn))):
                line = line.strip()
                if not line or line.startswith("#"):
                    continue
                kind, rest = line.split(None, 1)
                out.append((fn, ln, kind, rest))
    return out


# ------------------------------------------------------------------ systematic templates
SMALL_TYPES = [pg.U, pg.BIT, pg.word(1), pg.S(pg.U, pg.BIT), pg.S(pg.BIT, pg.word(1)), pg.P(pg.BIT, pg.S(pg.U, pg.word(1))),
               pg.S(pg.P(pg.BIT, pg.BIT), pg.U)]


def _iden_like(nodes, t):
    """a term t -> t that really walks the value (re-encodes sums, rebuilds products)"""
    if t[0] == "u":
        nodes.append(("unit",))
    elif t[0] == "p":
        a = len(nodes)
        nodes.append(("iden",))
        nodes.append(("take", a))
        l = len(nodes) - 1
        nodes.append(("iden",))
        nodes.append(("drop", len(nodes) - 1))
        r = len(nodes) - 1
        nodes.append(("pair", l, r))
    else:
        nodes.append(("iden",))
    return len(nodes) - 1


def template_programs(rng, count_disc=6):
    """hand-picked shapes that exercise the cursor discipline (read after drop / case, rewritten sums,
    frames reused by consecutive comps, disconnect passing the CMR to the output); structures without
    witnesses, each paired with a source type hint (the real arrows come from the implementation)"""
    out = []

    def prog(build):
        nodes = []
        build(nodes)
        out.append(nodes)

    def I(nodes):
        nodes.append(("iden",))
        return len(nodes) - 1

    def swap(nodes):
        a = I(nodes)
        nodes.append(("drop", a))
        d = len(nodes) - 1
        b = I(nodes)
        nodes.append(("take", b))
        t = len(nodes) - 1
        nodes.append(("pair", d, t))
        return len(nodes) - 1

    # the source types are fixed by composing with a typed witness-free producer? they are not: free
    # variables become unit.  So every template is preceded by `comp (pair of words / injections)`
    # built from an explicit value of the wanted source type.
    def const_of(nodes, t, v):
        """a term 1 -> t producing v (from words and injections)"""
        if t[0] == "u":
            nodes.append(("unit",))
        elif t[0] == "s":
            if pg.as_word(t) == 0:
                nodes.append(("word", 0, [1 if v[0] == "R" else 0]))
            else:
                c = const_of(nodes, t[1] if v[0] == "L" else t[2], v[1])
                nodes.append(("injl" if v[0] == "L" else "injr", c))
        else:
            a = const_of(nodes, t[1], v[1])
            b = const_of(nodes, t[2], v[2])
            nodes.append(("pair", a, b))
        return len(nodes) - 1

    def with_source(t, body):
        """programs `comp (const v) body` for every value v of t (at most 6)"""
        for v in pg.all_values(t, 6):
            nodes = []
            c = const_of(nodes, t, v)
            b = body(nodes)
            nodes.append(("comp", c, b))
            out.append(nodes)

    for A in SMALL_TYPES:
        for B in SMALL_TYPES[:5]:
            AB = pg.P(A, B)
            with_source(AB, swap)                                   # read after drop
            with_source(AB, lambda n: (swap(n), swap(n), n.append(("comp", len(n) - 6, len(n) - 1)), len(n) - 1)[-1])

            def twice(nodes):
                a = I(nodes)
                nodes.append(("drop", a))
                d1 = len(nodes) - 1
                b = I(nodes)
                nodes.append(("drop", b))
                d2 = len(nodes) - 1
                nodes.append(("pair", d1, d2))
                return len(nodes) - 1
            with_source(AB, twice)                                  # two reads of the same component
        if A[0] == "s":
            for C in SMALL_TYPES[:4]:
                def recase(nodes):
                    # case (injl (take iden)) (injr (take iden)) paired with the context: ((A1+A2)*C) -> (A1+A2)*C
                    a = I(nodes)
                    nodes.append(("take", a))
                    nodes.append(("injl", len(nodes) - 1))
                    l = len(nodes) - 1
                    b = I(nodes)
                    nodes.append(("take", b))
                    nodes.append(("injr", len(nodes) - 1))
                    r = len(nodes) - 1
                    nodes.append(("case", l, r))
                    cs = len(nodes) - 1
                    c = I(nodes)
                    nodes.append(("drop", c))
                    d = len(nodes) - 1
                    nodes.append(("pair", cs, d))                   # read after case
                    return len(nodes) - 1
                with_source(pg.P(A, C), recase)
    # disconnect: the CMR of the right branch reaches the output
    for k in range(count_disc):
        A = rng.choice(SMALL_TYPES)
        for v in pg.all_values(A, 3):
            nodes = []
            c = const_of(nodes, A, v)
            i = I(nodes)                                            # left : 2^256 * A -> 2^256 * A
            r = _iden_like(nodes, A) if k % 2 else I(nodes)         # right : A -> A (different CMRs)
            if k % 3 == 2:
                nodes.append(("injl", r))
                r = len(nodes) - 1
            nodes.append(("disc", i, r))
            nodes.append(("comp", c, len(nodes) - 1))
            out.append(nodes)
    out += disc_width_programs(rng, const_of)
    out += aligned_copy_programs(rng, (1, 2, 4, 9) if count_disc <= 6 else (1, 2, 3, 4, 5, 8, 9, 16, 32, 33))
    out += guard_after_write_programs(rng, count_disc <= 6)
    out += guard_after_copy_programs(rng, count_disc <= 6)
    # dirty memory: the same program after scratch work that filled 512 cells with ones and released them
    # (`comp (comp <word of 512 ones> unit) P`): a primitive that ORs into stale cells instead of writing them shows.
    # Every program with a disconnect (its CMR is written byte-wise), every fourth of the others.
    dirty = []
    for i, n in enumerate(out):
        if any(x[0] == "disc" for x in n) or i % 4 == 0:
            m = list(n)
            body = len(m) - 1
            m.append(("word", 9, [1] * 512))
            m.append(("unit",))
            m.append(("comp", len(m) - 2, len(m) - 1))
            m.append(("comp", len(m) - 1, body))
            dirty.append(m)
    out += dirty
    return [pg.compact_prog(n) for n in out]


def words_of_width(nodes, w, rng):
    """append a term 1 -> T with width(T) = w made of word constants with random bits (binary decomposition of w,
    largest word first); returns its index"""
    if w == 0:
        nodes.append(("unit",))
        return len(nodes) - 1
    parts = []
    for n in range(w.bit_length() - 1, -1, -1):
        if (w >> n) & 1:
            nodes.append(("word", n, rng.bits(2 ** n)))
            parts.append(len(nodes) - 1)
    t = parts[-1]
    for p in reversed(parts[:-1]):
        nodes.append(("pair", p, t))
        t = len(nodes) - 1
    return t


def aligned_copy_programs(rng, ks):
    """copies (iden, take iden, drop iden) of 8k + r bits, r = 1..7 and 0, whose source cursor AND destination cursor are
    multiples of 8: the output frame starts at cell 0 (no input), is padded to whole bytes, and the comp frame holding the
    data starts right after it.  The data are random word constants, so the first and the last r bits differ with high
    probability: a block copy that mishandles the tail of a byte-aligned copy yields a wrong output value."""
    out = []
    for k in ks:
        for r in range(0, 8):
            w = 8 * k + r
            pad = (8 - r) % 8
            for shape in ("iden", "take", "drop"):
                nodes = []
                x = words_of_width(nodes, w, rng)
                if shape == "iden":
                    src = x
                    nodes.append(("iden",))
                    body = len(nodes) - 1
                elif shape == "take":
                    y = words_of_width(nodes, pad or 8, rng)
                    nodes.append(("pair", x, y))
                    src = len(nodes) - 1
                    nodes.append(("iden",))
                    nodes.append(("take", len(nodes) - 1))
                    body = len(nodes) - 1
                else:
                    y = words_of_width(nodes, 8, rng)
                    nodes.append(("pair", y, x))
                    src = len(nodes) - 1
                    nodes.append(("iden",))
                    nodes.append(("drop", len(nodes) - 1))
                    body = len(nodes) - 1
                nodes.append(("comp", src, body))
                c = len(nodes) - 1
                if pad:
                    p = words_of_width(nodes, pad, rng)
                    nodes.append(("pair", c, p))
                out.append(nodes)
    return out


def guard_after_write_programs(rng, quick, with_expect=False):
    """comp (const bits : B) (pair X (pair W G)) with no input: the output frame starts at cell 0 and the comp's intermediate
    frame (holding B = 2 * (2 * ... * 1), 10 bits) starts in the cell right behind it.  X (0..9 bits of word constants)
    puts the write cursor at every alignment, W is a word constant or a typed witness of 8 / 16 / 32 bits and the LAST
    data written into the output frame, and G : B -> 1 then asserts every bit of the intermediate frame (assertl / assertr
    per bit, no writes).  A write primitive that spills over the end of the write frame, or a read cursor that is moved by
    the write, turns one of the assertions into a failure (or lets a failing one pass: one bit of G is wrong in every
    fourth program, where the run must fail)."""
    out = []
    hid = "%064x" % 0x5eed
    k = 10
    for xw in range(0, 10):
        for n in ((3, 5) if quick else (3, 4, 5)):
            for kind in ("word", "wit"):
                for pat in range(3 if quick else 6):
                    bits = [1] * k if pat == 0 else ([0] * k if pat == 1 else rng.bits(k))
                    wrong = (xw + n + pat) % 4 == 3
                    nodes = []
                    # const : 1 -> B
                    nodes.append(("unit",))
                    t = len(nodes) - 1
                    for b in reversed(bits):
                        nodes.append(("word", 0, [b]))
                        nodes.append(("pair", len(nodes) - 1, t))
                        t = len(nodes) - 1
                    const = t
                    # G : B -> 1 * (1 * ...)
                    nodes.append(("unit",))
                    g = len(nodes) - 1
                    exp = list(bits)
                    if wrong:
                        exp[rng.below(k)] ^= 1
                    for b in reversed(exp):
                        nodes.append(("drop", g))
                        d = len(nodes) - 1
                        nodes.append(("unit",))
                        u = len(nodes) - 1
                        nodes.append(("hid", hid))
                        h = len(nodes) - 1
                        nodes.append(("case", h, u) if b else ("case", u, h))     # assertr: the bit is 1 / assertl: it is 0
                        nodes.append(("pair", len(nodes) - 1, d))
                        g = len(nodes) - 1
                    # X and W : B -> words (through unit)
                    nodes.append(("unit",))
                    u0 = len(nodes) - 1
                    x = words_of_width(nodes, xw, rng)
                    nodes.append(("comp", u0, x))
                    xc = len(nodes) - 1
                    if kind == "word":
                        nodes.append(("word", n, rng.bits(2 ** n)))
                        w = len(nodes) - 1
                    else:
                        # a witness node has a free target type: the same node is also composed with an anchor
                        # 2^(2^n) -> 1 (a case per bit) inside X, which fixes its type without writing anything
                        nodes.append(("wit", ("t", pg.word(n), rng.bits(2 ** n))))
                        w = len(nodes) - 1
                        nodes.append(("iden",))
                        nodes.append(("unit",))
                        nodes.append(("pair", len(nodes) - 2, len(nodes) - 1))
                        pi = len(nodes) - 1
                        nodes.append(("unit",))
                        nodes.append(("case", len(nodes) - 1, len(nodes) - 1))
                        nodes.append(("comp", pi, len(nodes) - 1))
                        a = len(nodes) - 1                                         # 2 -> 1
                        for _lvl in range(n):
                            nodes.append(("take", a))
                            nodes.append(("drop", a))
                            nodes.append(("pair", len(nodes) - 2, len(nodes) - 1))
                            a = len(nodes) - 1
                        nodes.append(("comp", w, a))
                        nodes.append(("comp", u0, len(nodes) - 1))
                        nodes.append(("pair", xc, len(nodes) - 1))
                        xc = len(nodes) - 1
                    nodes.append(("comp", u0, w))
                    wc = len(nodes) - 1
                    nodes.append(("pair", wc, g))
                    nodes.append(("pair", xc, len(nodes) - 1))
                    nodes.append(("comp", const, len(nodes) - 1))
                    out.append((nodes, wrong) if with_expect else nodes)
    return out


def guard_after_copy_programs(rng, quick, with_expect=False):
    """comp (const (g, d) : G * D) (pair X (pair (drop iden) (take A))): like guard_after_write_programs, but the last data
    written into the output frame is a COPY (iden) of the n-bit word data d out of the comp's intermediate frame, which
    starts in the cell right behind the output frame and begins with the k guard bits g that A : G -> 1 asserts
    afterwards.  X has xw bits.  The write cursor of the copy is at cell xw, its read cursor at cell xw + n + k: the
    combinations where both are multiples of 8 and n is not (the fast path of a byte-wise copy) are all generated,
    the others sampled.  One asserted bit is wrong in every fourth program, where the run must fail."""
    out = []
    hid = "%064x" % 0x5eed
    combos = []
    for xw in range(0, 17):
        for n in range(1, 20):
            for k in range(1, 17):
                aligned = xw % 8 == 0 and (xw + n + k) % 8 == 0 and n % 8 != 0
                if aligned and (not quick or (k <= 8 and n <= 12)):
                    combos.append((xw, n, k))
                elif rng.chance(1, 200 if quick else 40):
                    combos.append((xw, n, k))
    for idx, (xw, n, k) in enumerate(combos):
        for pat in range(2):
            bits = ([1] * k if pat == 0 else rng.bits(k))
            wrong = (idx + pat) % 4 == 3
            nodes = []
            nodes.append(("unit",))
            t = len(nodes) - 1
            for b in reversed(bits):
                nodes.append(("word", 0, [b]))
                nodes.append(("pair", len(nodes) - 1, t))
                t = len(nodes) - 1
            gconst = t                                                   # 1 -> G = 2 * (2 * ... * 1)
            dconst = words_of_width(nodes, n, rng)                       # 1 -> D, n bits
            nodes.append(("pair", gconst, dconst))
            const = len(nodes) - 1
            nodes.append(("unit",))
            g = len(nodes) - 1
            exp = list(bits)
            if wrong:
                exp[rng.below(k)] ^= 1
            for b in reversed(exp):
                nodes.append(("drop", g))
                d = len(nodes) - 1
                nodes.append(("unit",))
                u = len(nodes) - 1
                nodes.append(("hid", hid))
                h = len(nodes) - 1
                nodes.append(("case", h, u) if b else ("case", u, h))
                nodes.append(("pair", len(nodes) - 1, d))
                g = len(nodes) - 1
            nodes.append(("take", g))
            guard = len(nodes) - 1                                       # G * D -> 1 * ...
            nodes.append(("unit",))
            u0 = len(nodes) - 1
            x = words_of_width(nodes, xw, rng)
            nodes.append(("comp", u0, x))
            xc = len(nodes) - 1
            nodes.append(("iden",))
            nodes.append(("drop", len(nodes) - 1))
            cp = len(nodes) - 1                                          # G * D -> D : the copy
            nodes.append(("pair", cp, guard))
            nodes.append(("pair", xc, len(nodes) - 1))
            nodes.append(("comp", const, len(nodes) - 1))
            out.append((nodes, wrong) if with_expect else nodes)
    return out


def disc_width_programs(rng, const_of):
    """disconnect (left : 2^256 * A -> B * C) (right : C -> D) with |C| != |D| in both directions and B of non-zero width,
    the result read afterwards: the width of B is |B * C| - |C| (not - |D|), and the bound on the cells is taken from the
    left child's target B * C (not from the node's own target B * D)"""
    out = []
    for A in SMALL_TYPES[1:]:
        for v in pg.all_values(A, 2):
            for lshape in ("AA", "WA"):
                rights = ["dup", "unit", "injl", "injr"] + (["take", "drop"] if A[0] == "p" else [])
                for rshape in rights:
                    nodes = []
                    c = const_of(nodes, A, v)
                    nodes.append(("iden",))
                    nodes.append(("drop", len(nodes) - 1))
                    d1 = len(nodes) - 1                                  # drop iden : 2^256 * A -> A
                    if lshape == "AA":
                        nodes.append(("iden",))
                        nodes.append(("drop", len(nodes) - 1))
                        b = len(nodes) - 1                               # B = A
                    else:
                        nodes.append(("iden",))
                        nodes.append(("take", len(nodes) - 1))
                        b = len(nodes) - 1                               # B = 2^256 (the CMR of the right branch)
                    nodes.append(("pair", b, d1))
                    left = len(nodes) - 1
                    nodes.append(("iden",))
                    i = len(nodes) - 1
                    if rshape == "dup":
                        nodes.append(("iden",))
                        nodes.append(("pair", i, len(nodes) - 1))        # D = A * A (wider)
                    elif rshape == "unit":
                        nodes.append(("unit",))                          # D = 1 (narrower)
                    elif rshape in ("injl", "injr", "take", "drop"):
                        nodes.append((rshape, i))                        # D = A + 1 / 1 + A (one cell wider), a component (narrower)
                    right = len(nodes) - 1
                    nodes.append(("disc", left, right))
                    nodes.append(("comp", c, len(nodes) - 1))
                    out.append(nodes)
    return out
