(* C12 connected to C01 (Codec/*.v): the witness stream of this family IS the witness stream of the codec
   family, and "own serialisation decodes" covers the program stream too.
     Finalize.decode_witnesses / witness_stream / decode_stream      (C12: values carry their type)
     Codec.WitnessCodec.read_witnesses / enc_witnesses / witness_rt   (C01: bare values)
     Codec.Main.canonical_roundtrip                                    (C01: the program bits)
   Codec files are imported read-only. *)
From RS Require Import Lib.Tac Lib.Outcome Lib.Bits Lib.ListExtra Ty.Ty Core.Prog
  Bits.Natural Codec.NodeCodec Codec.ProgCodec Codec.Linearise Codec.Decode Codec.Structure Codec.Main
  Codec.WitnessCodec Codec.Rules Codec.RealJets Jets.JetTable Jets.CheckElements Generated.Jets_elements Redeem.Finalize.
Import ListNotations.
Local Open Scope N_scope.

(* ------------------------------------------------------------------ the two witness codecs are one *)

Fixpoint with_types (tys : list ty) (vs : list sval) : list cval :=
  match tys, vs with
  | t :: tr, v :: vr => CV t v :: with_types tr vr
  | _, _ => []
  end.

Lemma decode_witnesses_read : forall tys bits,
  decode_witnesses tys bits =
  match read_witnesses tys bits with
  | Some (vs, rest) => Ok (with_types tys vs, rest)
  | None => Err DEndOfStream
  end.
Proof.
  induction tys as [|t tl IH]; intros bits; cbn [decode_witnesses read_witnesses]; [reflexivity|].
  destruct (of_compact t bits) as [[v r]|]; [|reflexivity].
  rewrite IH. destruct (read_witnesses tl r) as [[vs r']|]; reflexivity.
Qed.

Lemma witness_stream_enc cs : Finalize.witness_stream cs = enc_witnesses (map cv_val cs).
Proof. unfold Finalize.witness_stream, enc_witnesses. rewrite flat_map_concat_map, map_map. reflexivity. Qed.

Lemma wit_ok_all_typed : forall cs tys, Forall2 (fun c t => wit_ok c t = true) cs tys ->
  all_typed (map cv_val cs) tys = true /\ with_types tys (map cv_val cs) = cs.
Proof.
  induction 1 as [|c t cs tys Hc F [IH1 IH2]]; [split; reflexivity|].
  unfold wit_ok, is_of_type in Hc. apply andb_true_iff in Hc. destruct Hc as [Ht Hv]. apply ty_eqb_eq in Ht.
  cbn [map all_typed with_types]. rewrite Hv, IH1, IH2. split; [reflexivity|].
  destruct c as [ct cv]. cbn in *. subst. reflexivity.
Qed.

(* C12_typed_encodes is C01_witness_rt, transported *)
Theorem typed_encodes_via_codec cs targets rest :
  Forall2 (fun c t => wit_ok c t = true) cs targets ->
  decode_witnesses targets (Finalize.witness_stream cs ++ rest) = Ok (cs, rest).
Proof.
  intros F. destruct (wit_ok_all_typed _ _ F) as [T W].
  rewrite decode_witnesses_read, witness_stream_enc, (witness_rt _ _ rest T), W. reflexivity.
Qed.

(* C01_witness_unique for typed values: a witness stream determines the witnesses (values AND types) *)
Theorem witness_stream_determines cs ds targets :
  Forall2 (fun c t => wit_ok c t = true) cs targets ->
  Forall2 (fun c t => wit_ok c t = true) ds targets ->
  Finalize.witness_stream cs = Finalize.witness_stream ds -> cs = ds.
Proof.
  intros Fc Fd E. destruct (wit_ok_all_typed _ _ Fc) as [Tc Wc]. destruct (wit_ok_all_typed _ _ Fd) as [Td Wd].
  rewrite !witness_stream_enc in E. rewrite <- Wc, <- Wd. f_equal. eapply witness_unique; eauto.
Qed.

(* C01_witness_canon: whatever the witness decoder accepts is the stream of the values it returns followed
   by fewer than 8 zero bits - no second byte string decodes to the same program *)
Theorem decode_stream_canonical targets stream cs :
  decode_stream targets stream = Ok cs ->
  exists rest, stream = Finalize.witness_stream cs ++ rest /\
               Forall (fun b => b = false) rest /\ (length rest < 8)%nat.
Proof.
  unfold decode_stream, obind. rewrite decode_witnesses_read.
  destruct (read_witnesses targets stream) as [[vs rest]|] eqn:R; [|discriminate].
  destruct (witness_canon _ _ _ _ R) as [-> T].
  unfold close_check. destruct (Nat.ltb _ _) eqn:L; [discriminate|]. apply Nat.ltb_ge in L.
  destruct (forallb negb rest) eqn:Z; [|discriminate]. intros H. injection H as <-.
  exists rest. split.
  - f_equal. rewrite witness_stream_enc. f_equal.
    clear - T. revert targets T. induction vs as [|v vs IH]; intros [|t tys] T; cbn in T; try discriminate; [reflexivity|].
    apply andb_true_iff in T. cbn [with_types map cv_val]. f_equal. apply IH. tauto.
  - split.
    + rewrite forallb_forall in Z. apply Forall_forall. intros b Hb. specialize (Z b Hb). destruct b; [discriminate|reflexivity].
    + assert (((8 - (length (enc_witnesses vs ++ rest) - length rest) mod 8) mod 8 < 8)%nat) by (apply Nat.mod_upper_bound; lia).
      lia.
Qed.

(* ------------------------------------------------------------------ program bits and witness bits together *)

Section Jets.
Variable jet : Type.
Variable jet_okb : jet -> bool.
Variable jet_enc : jet -> list bool.
Variable jet_dec : list bool -> outcome NodeCodec.dec_err (jet * list bool).
Hypothesis jet_dec_enc : forall j r, jet_okb j = true -> jet_dec (jet_enc j ++ r) = Ok (j, r).
Hypothesis jet_enc_dec : forall l j r, jet_dec l = Ok (j, r) -> l = jet_enc j ++ r /\ jet_okb j = true.
Hypothesis jet_dec_total : forall l, match jet_dec l with Panic _ | OutOfFuel => False | _ => True end.

(* A redemption program in the form every decoded program has (canonical order, one node per identity
   class) whose witness nodes carry typed values: BOTH byte streams that encode_with_witness writes decode -
   the program bits to the same node list, the witness bits (padded to bytes) to the same values at the same
   types, attached to the witness nodes in the order in which both sides traverse the program. *)
Theorem typed_program_roundtrip (ns : list (dnode jet)) r (key : N -> option N) (kf : N -> N)
    (wval : N -> cval) (target : N -> ty) :
  wf_prog jet jet_okb ns -> dec_struct ns = Ok tt ->
  (forall p, p < N.of_nat (length ns) -> key p = Some (kf p)) ->
  (forall p q, p < N.of_nat (length ns) -> q < N.of_nat (length ns) -> kf p = kf q -> p = q) ->
  (forall n, In n (witness_order ns key) -> wit_ok (wval n) (target n) = true) ->
  let order := witness_order ns key in
  dec_prog jet jet_dec (enc_prog jet jet_enc (linearise ns key) ++ r) = Ok (ns, r) /\
  WitnessCodec.witness_stream ns key (fun n => compact_enc (cv_val (wval n))) =
    Finalize.witness_stream (map wval order) /\
  decode_stream (map target order) (pad_to_byte (Finalize.witness_stream (map wval order))) = Ok (map wval order).
Proof.
  intros Hwf Hs Hk Hi Hw order. split; [|split].
  - exact (canonical_roundtrip jet jet_okb jet_enc jet_dec jet_dec_enc jet_enc_dec jet_dec_total ns r key kf Hwf Hs Hk Hi).
  - unfold WitnessCodec.witness_stream, Finalize.witness_stream. fold order.
    rewrite flat_map_concat_map, map_map. reflexivity.
  - apply typed_stream_decodes. fold order in Hw. clear - Hw.
    induction order as [|n tl IH]; [constructor|]. cbn [map]. constructor.
    + apply Hw. left. reflexivity.
    + apply IH. intros m Hm. apply Hw. right. exact Hm.
Qed.

End Jets.

(* the same for the real Elements jet family (code table and decode tree of src/jet/init/elements.rs) *)
Theorem typed_program_roundtrip_elements (ns : list (dnode N)) r (key : N -> option N) (kf : N -> N)
    (wval : N -> cval) (target : N -> ty) :
  wf_prog N elements_okb ns -> dec_struct ns = Ok tt ->
  (forall p, p < N.of_nat (length ns) -> key p = Some (kf p)) ->
  (forall p q, p < N.of_nat (length ns) -> q < N.of_nat (length ns) -> kf p = kf q -> p = q) ->
  (forall n, In n (witness_order ns key) -> wit_ok (wval n) (target n) = true) ->
  let order := witness_order ns key in
  dec_prog N elements_dec (enc_prog N elements_enc (linearise ns key) ++ r) = Ok (ns, r) /\
  WitnessCodec.witness_stream ns key (fun n => compact_enc (cv_val (wval n))) =
    Finalize.witness_stream (map wval order) /\
  decode_stream (map target order) (pad_to_byte (Finalize.witness_stream (map wval order))) = Ok (map wval order).
Proof.
  apply (typed_program_roundtrip N elements_okb elements_enc elements_dec).
  - intros j r0. apply (fam_dec_enc elements_family elements_rt' elements_decode_complete elements_idx').
  - intros l j r0. apply (fam_enc_dec elements_family elements_rt' elements_decode_complete).
  - apply fam_dec_total.
Qed.

(* satisfiable: `comp (pair witness witness) unit` with a bit and a byte *)
Definition ex_ns : list (dnode N) := [DWitness; DWitness; DPair 0 1; DUnit; DComp 2 3].
Definition ex_wval (n : N) : cval :=
  if n =? 0 then CV Bit (SR SU) else CV (word_ty 1) (SP (SL SU) (SR SU)).
Definition ex_target (n : N) : ty := if n =? 0 then Bit else word_ty 1.

Example typed_program_roundtrip_ex :
  wf_prog N elements_okb ex_ns /\ dec_struct ex_ns = Ok tt /\
  witness_order ex_ns key_ptr = [0; 1] /\
  (forall n, In n (witness_order ex_ns key_ptr) -> wit_ok (ex_wval n) (ex_target n) = true) /\
  pad_to_byte (Finalize.witness_stream (map ex_wval [0; 1])) = [true; false; true; false; false; false; false; false] /\
  decode_stream [Bit; word_ty 1] [true; false; true; false; false; false; false; false]
    = Ok [CV Bit (SR SU); CV (word_ty 1) (SP (SL SU) (SR SU))].
Proof.
  split; [split; [discriminate|]; split; [vm_compute; reflexivity|]; apply wf_nodesb_ok; vm_compute; reflexivity|].
  split; [vm_compute; reflexivity|]. split; [vm_compute; reflexivity|].
  split; [|split; vm_compute; reflexivity].
  intros n Hn. assert (E : witness_order ex_ns key_ptr = [0; 1]) by (vm_compute; reflexivity). rewrite E in Hn.
  destruct Hn as [<-|[<-|[]]]; vm_compute; reflexivity.
Qed.
