(* Typing rules of Simplicity terms, over the final arrows carried by the tree.
     src/types/arrow.rs   Arrow::for_{iden,unit,injl,injr,take,drop,comp,case,pair,disconnect,...}
   As a boolean checker [wt] and as an inductive relation [typed]; [wt_typed] relates them. *)
From RS Require Import Lib.Tac Lib.Outcome Lib.Bits Ty.Ty Core.Prog Core.Term.
Import ListNotations.
Local Open Scope N_scope.

Definition arrow_eqb (x y : arrow) : bool := ty_eqb (fst x) (fst y) && ty_eqb (snd x) (snd y).

Lemma arrow_eqb_eq x y : arrow_eqb x y = true <-> x = y.
Proof.
  destruct x as [a b], y as [c d]. unfold arrow_eqb. cbn [fst snd].
  rewrite andb_true_iff, !ty_eqb_eq. split; [intros [-> ->]; reflexivity|intros H; injection H; auto].
Qed.

Lemma ty_eqb_refl a : ty_eqb a a = true.
Proof. apply ty_eqb_eq. reflexivity. Qed.

(* the 256-bit word type in front of the input of a disconnected expression *)
Definition W256 : ty := word_ty 8.

Section Typing.
  (* type of each jet (source, target); None = unknown id *)
  Variable jet_ty : N -> option arrow.

  Inductive typed : term -> ty -> ty -> Prop :=
  | T_iden A : typed (Iden (A, A)) A A
  | T_unit A : typed (Unit (A, One)) A One
  | T_injl A B C t : typed t A B -> typed (InjL (A, Sum B C) t) A (Sum B C)
  | T_injr A B C t : typed t A C -> typed (InjR (A, Sum B C) t) A (Sum B C)
  | T_take A B C t : typed t A C -> typed (Take (Prod A B, C) t) (Prod A B) C
  | T_drop A B C t : typed t B C -> typed (Drop (Prod A B, C) t) (Prod A B) C
  | T_comp A B C s t : typed s A B -> typed t B C -> typed (Comp (A, C) s t) A C
  | T_case A B C D s t : typed s (Prod A C) D -> typed t (Prod B C) D ->
      typed (Case (Prod (Sum A B) C, D) s t) (Prod (Sum A B) C) D
  | T_assertl A B C D s h : typed s (Prod A C) D ->
      typed (AssertL (Prod (Sum A B) C, D) s h) (Prod (Sum A B) C) D
  | T_assertr A B C D h t : typed t (Prod B C) D ->
      typed (AssertR (Prod (Sum A B) C, D) h t) (Prod (Sum A B) C) D
  | T_pair A B C s t : typed s A B -> typed t A C -> typed (Pair (A, Prod B C) s t) A (Prod B C)
  | T_disconnect A B C D s t c : typed s (Prod W256 A) (Prod B C) -> typed t C D ->
      length c = 32%nat ->
      typed (Disconnect (A, Prod B D) s t c) A (Prod B D)
  | T_witness A B bits : length bits = N.to_nat (width B) -> typed (Witness (A, B) bits) A B
  | T_fail A B e : typed (Fail (A, B) e) A B
  | T_jet A B j : jet_ty j = Some (A, B) -> typed (Jet (A, B) j) A B
  | T_word n bits : length bits = N.to_nat (width (word_ty n)) ->
      typed (Word (One, word_ty n) n bits) One (word_ty n).

  Fixpoint wt (t : term) : bool :=
    match t with
    | Iden (A, B) => ty_eqb A B
    | Unit (A, B) => ty_eqb B One
    | InjL (A, T) t => match T with Sum B C => arrow_eqb (arrow_of t) (A, B) && wt t | _ => false end
    | InjR (A, T) t => match T with Sum B C => arrow_eqb (arrow_of t) (A, C) && wt t | _ => false end
    | Take (SS, C) t => match SS with Prod A B => arrow_eqb (arrow_of t) (A, C) && wt t | _ => false end
    | Drop (SS, C) t => match SS with Prod A B => arrow_eqb (arrow_of t) (B, C) && wt t | _ => false end
    | Comp (A, C) s t =>
        ty_eqb (src s) A && ty_eqb (tgt s) (src t) && ty_eqb (tgt t) C && wt s && wt t
    | Case (SS, D) s t =>
        match SS with
        | Prod (Sum A B) C =>
            arrow_eqb (arrow_of s) (Prod A C, D) && arrow_eqb (arrow_of t) (Prod B C, D) && wt s && wt t
        | _ => false
        end
    | AssertL (SS, D) s _ =>
        match SS with
        | Prod (Sum A B) C => arrow_eqb (arrow_of s) (Prod A C, D) && wt s
        | _ => false
        end
    | AssertR (SS, D) _ t =>
        match SS with
        | Prod (Sum A B) C => arrow_eqb (arrow_of t) (Prod B C, D) && wt t
        | _ => false
        end
    | Pair (A, T) s t =>
        match T with
        | Prod B C => arrow_eqb (arrow_of s) (A, B) && arrow_eqb (arrow_of t) (A, C) && wt s && wt t
        | _ => false
        end
    | Disconnect (A, T) s t c =>
        match T, tgt s with
        | Prod B D, Prod B' C =>
            ty_eqb (src s) (Prod W256 A) && ty_eqb B' B && arrow_eqb (arrow_of t) (C, D)
            && Nat.eqb (length c) 32 && wt s && wt t
        | _, _ => false
        end
    | Witness (A, B) bits => Nat.eqb (length bits) (N.to_nat (width B))
    | Fail _ _ => true
    | Jet ar j => match jet_ty j with Some ar' => arrow_eqb ar' ar | None => false end
    | Word (A, B) n bits =>
        ty_eqb A One && ty_eqb B (word_ty n) && Nat.eqb (length bits) (N.to_nat (width (word_ty n)))
    end.

  Lemma typed_arrow t A B : typed t A B -> arrow_of t = (A, B).
  Proof. destruct 1; reflexivity. Qed.

  Ltac bool_hyps :=
    repeat match goal with
    | H : _ && _ = true |- _ => apply andb_true_iff in H; destruct H
    | H : ty_eqb _ _ = true |- _ => apply ty_eqb_eq in H
    | H : arrow_eqb _ _ = true |- _ => apply arrow_eqb_eq in H
    | H : Nat.eqb _ _ = true |- _ => apply Nat.eqb_eq in H
    end.

  Lemma wt_typed t : wt t = true -> typed t (src t) (tgt t).
  Proof.
    induction t as [[A B]|[A B]|[A T] t IH|[A T] t IH|[SS C] t IH|[SS C] t IH|[A C] s IHs t IHt
                   |[SS D] s IHs t IHt|[SS D] s IHs h|[SS D] h t IHt|[A T] s IHs t IHt
                   |[A T] s IHs t IHt c|[A B] bits|[A B] e|[A B] j|[A B] n bits];
      unfold src, tgt; cbn [arrow_of fst snd wt]; intros H.
    - bool_hyps. subst. constructor.
    - bool_hyps. subst. constructor.
    - destruct T as [|B C|]; try discriminate. bool_hyps. specialize (IH H0).
      unfold src, tgt in IH. rewrite H in IH. constructor. exact IH.
    - destruct T as [|B C|]; try discriminate. bool_hyps. specialize (IH H0).
      unfold src, tgt in IH. rewrite H in IH. constructor. exact IH.
    - destruct SS as [| |A B]; try discriminate. bool_hyps. specialize (IH H0).
      unfold src, tgt in IH. rewrite H in IH. constructor. exact IH.
    - destruct SS as [| |A B]; try discriminate. bool_hyps. specialize (IH H0).
      unfold src, tgt in IH. rewrite H in IH. constructor. exact IH.
    - bool_hyps. specialize (IHs H1). specialize (IHt H0). subst.
      econstructor; [exact IHs|]. rewrite H3. exact IHt.
    - destruct SS as [| |[|A B|] C]; try discriminate. bool_hyps.
      specialize (IHs H1). specialize (IHt H0). unfold src, tgt in *. rewrite H in IHs. rewrite H2 in IHt.
      constructor; assumption.
    - destruct SS as [| |[|A B|] C]; try discriminate. bool_hyps.
      specialize (IHs H0). unfold src, tgt in *. rewrite H in IHs. constructor; assumption.
    - destruct SS as [| |[|A B|] C]; try discriminate. bool_hyps.
      specialize (IHt H0). unfold src, tgt in *. rewrite H in IHt. constructor; assumption.
    - destruct T as [| |B C]; try discriminate. bool_hyps.
      specialize (IHs H1). specialize (IHt H0). unfold src, tgt in *. rewrite H in IHs. rewrite H2 in IHt.
      constructor; assumption.
    - destruct T as [| |B D]; try discriminate.
      destruct (tgt s) as [| |B' C] eqn:Ets; try discriminate. bool_hyps.
      specialize (IHs H1). specialize (IHt H0). rewrite H in IHs. unfold src, tgt in IHt.
      rewrite H3 in IHt. subst B'. econstructor; eassumption.
    - bool_hyps. constructor. exact H.
    - constructor.
    - destruct (jet_ty j) as [ar'|] eqn:E; [|discriminate]. bool_hyps. subst. constructor. exact E.
    - bool_hyps. subst. constructor. exact H0.
  Qed.

  Lemma typed_wt t A B : typed t A B -> wt t = true.
  Proof.
    induction 1; cbn [wt];
      repeat match goal with H : typed _ _ _ |- _ => apply typed_arrow in H end;
      unfold src, tgt;
      repeat match goal with H : arrow_of _ = _ |- _ => rewrite H; clear H end;
      cbn [fst snd]; unfold arrow_eqb; cbn [fst snd]; rewrite ?ty_eqb_refl, ?IHtyped, ?IHtyped1, ?IHtyped2;
      cbn [andb]; try reflexivity.
    - rewrite H1. reflexivity.
    - rewrite H. apply Nat.eqb_refl.
    - rewrite H. cbn [fst snd]. rewrite !ty_eqb_refl. reflexivity.
    - rewrite H. apply Nat.eqb_refl.
  Qed.

  Theorem wt_iff t : wt t = true <-> typed t (src t) (tgt t).
  Proof. split; [apply wt_typed|apply typed_wt]. Qed.
End Typing.
