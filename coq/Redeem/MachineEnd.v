(* C08 composed with C05: the Bit Machine model (Core/Machine.v), run on the pruned and re-typed program,
   returns the same output as on the original program (pruned to the new target type; the unit value for
   programs).  Chain:
     PruneProg/PruneFix   pruning keeps the run                     (tables, trace)
     RetypeInfer/Retype   re-inference + Value::prune keep the run   (tables, trace)
     CoreBridge           table run = Core big-step semantics        (terms)
     Core.ExecCorrect     big-step semantics = Bit Machine           (exec_master) *)
From RS Require Import Lib.Tac Lib.Outcome Lib.Bits Ty.Ty Core.Prog Core.Term Core.Typing Core.Sem
  Core.Bounds Core.Limits Core.Machine Core.ExecCorrect
  Redeem.Finalize Redeem.PruneProg Redeem.PruneFix Redeem.Retype Redeem.CoreBridge
  Redeem.Routes Redeem.RetypeEx Infer.Constraints Infer.Infer Redeem.RetypeInfer Redeem.RetypeEnd.
Import ListNotations.
Local Open Scope nat_scope.

Section Machine.
Variable HS : hashes.
Variable jet_sem : N -> N -> sval -> option sval.
Variable jt : jet_table.
Variable fam : N.
Hypothesis jet_typed : forall f j s t v o, jet_ty_of jt f j = Some (s, t) ->
  has_ty v s = true -> jet_sem f j v = Some o -> has_ty o t = true.

Notation jty := (jet_ty_of jt).
Notation jty1 := (jet_ty1 jty fam).
Notation jsem1 := (jet_sem1 fam jet_sem).
Notation reval := (PruneProg.eval jet_sem hash_val_core).

Lemma jets_typed1 : jets_typed jty1 jsem1.
Proof. intros j A B a b H Ha Hb. unfold jet_ty1 in H. unfold jet_sem1 in Hb. eapply jet_typed; eauto. Qed.

(* what a successful table run means for the machine *)
Definition machine_returns (t0 : term) (s t : ty) (v o : sval) : Prop :=
  forall prof jet_cost,
    check_program prof (bw s) (bw t) (bounds jet_cost t0) = Ok tt ->
    forall m0, length m0 = N.to_nat (machine_cells jet_cost t0) ->
      (forall pbits, padded_of s v pbits ->
         exists st bits, machine_exec prof jet_cost jsem1 t0 m0 (Some (s, pbits)) = Ok (st, bits) /\
                         of_padded t bits = o /\ length bits = N.to_nat (width t)) /\
      (width s = 0%N ->
         exists st bits, machine_exec prof jet_cost jsem1 t0 m0 None = Ok (st, bits) /\
                         of_padded t bits = o /\ length bits = N.to_nat (width t)).

Lemma machine_returns_def t0 s t v o :
  machine_returns t0 s t v o <->
  (forall prof jet_cost,
    check_program prof (bw s) (bw t) (bounds jet_cost t0) = Ok tt ->
    forall m0, length m0 = N.to_nat (machine_cells jet_cost t0) ->
      (forall pbits, padded_of s v pbits ->
         exists st bits, machine_exec prof jet_cost jsem1 t0 m0 (Some (s, pbits)) = Ok (st, bits) /\
                         of_padded t bits = o /\ length bits = N.to_nat (width t)) /\
      (width s = 0%N ->
         exists st bits, machine_exec prof jet_cost jsem1 t0 m0 None = Ok (st, bits) /\
                         of_padded t bits = o /\ length bits = N.to_nat (width t))).
Proof. reflexivity. Qed.

Lemma machine_of_eval q ar root C fuel v o E s t :
  rwf q = true -> root < length q -> typed_from jty q ar root -> fam_ok fam q root ->
  ar root = Some (s, t) -> has_ty v s = true ->
  reval fuel q C root v = Ok (o, E) ->
  exists t0, unfold_r (length q) q ar C root = Some t0 /\ typed jty1 t0 s t /\
             Sem.eval jsem1 t0 v = ROk o /\ machine_returns t0 s t v o.
Proof.
  intros W Hr Ht Hf Ha Hv H.
  destruct (unfold_typed jty fam q ar root C W Hr Ht Hf (length q) root Hr (reach_refl _ _))
    as (t0 & s0 & t0' & A0 & U0 & T0).
  rewrite Ha in A0. injection A0 as <- <-.
  pose proof (eval_agree jty fam jet_sem q ar root C Ht Hf fuel (length q) root v t0 (reach_refl _ _) U0) as Ag.
  rewrite H in Ag.
  exists t0. split; [exact U0|]. split; [exact T0|]. split; [exact Ag|].
  intros prof jet_cost Hc m0 Hm. split.
  - intros pbits Hp.
    pose proof (exec_master prof jty1 jet_cost jsem1 t0 s t jets_typed1 T0 Hc v pbits m0 Hp Hm) as M.
    rewrite Ag in M. destruct M as (st & bits & E1 & E2 & E3 & _). eauto.
  - intros Hw0.
    pose proof (exec_master_noinput prof jty1 jet_cost jsem1 t0 s t jets_typed1 T0 Hc v m0 Hw0 Hv Hm) as M.
    rewrite Ag in M. destruct M as (st & bits & E1 & E2 & E3 & _). eauto.
Qed.

(* C12's last clause on the machine: a typed table (every reachable node obeys its typing rule, every reachable
   witness has exactly its target type) unfolds to a well-typed term, so the Bit Machine model neither panics nor
   runs out of fuel on it, whatever the input value, its padding and the initial buffer contents, and stays within
   the static bounds: no witness is ever written with a width other than that of its target type *)
Theorem typed_table_machine_safe q ar root C s t :
  rwf q = true -> root < length q -> typed_from jty q ar root -> fam_ok fam q root ->
  ar root = Some (s, t) ->
  exists t0, unfold_r (length q) q ar C root = Some t0 /\ typed jty1 t0 s t /\
    (forall prof jet_cost,
      check_program prof (bw s) (bw t) (bounds jet_cost t0) = Ok tt ->
      forall a pbits m0, padded_of s a pbits -> length m0 = N.to_nat (machine_cells jet_cost t0) ->
        match machine_exec prof jet_cost jsem1 t0 m0 (Some (s, pbits)) with
        | Ok (st, _) | Err (_, st) =>
            N.le (hwc st) (width s + width t + extra_cells (bounds jet_cost t0))%N /\
            N.le (hwc st) (msize m0) /\
            N.le (hwf st) (extra_frames (bounds jet_cost t0) + IO_EXTRA_FRAMES)%N
        | Panic _ | OutOfFuel => False
        end).
Proof.
  intros W Hr Ht Hf Ha.
  destruct (unfold_typed jty fam q ar root C W Hr Ht Hf (length q) root Hr (reach_refl _ _))
    as (t0 & s0 & t0' & A0 & U0 & T0).
  rewrite Ha in A0. injection A0 as <- <-.
  exists t0. split; [exact U0|]. split; [exact T0|].
  intros prof jet_cost Hc a pbits m0 Hp Hm.
  exact (exec_no_panic prof jty1 jet_cost jsem1 t0 s t jets_typed1 T0 Hc a pbits m0 Hp Hm).
Qed.

(* jets are untouched by pruning and shrinking *)
Lemma prune_struct_jet ident p T i f j :
  nth_error (prune_struct HS ident p T) i = Some (RJet f j) -> nth_error p i = Some (RJet f j).
Proof.
  rewrite prune_nth. destruct (nth_error p i) as [n0|]; [|discriminate]. cbn [option_map].
  destruct n0; cbn [pnode]; try (intros H; exact H).
  destruct (taken ident T i false), (taken ident T i true); discriminate.
Qed.

Lemma prune_rounds_jet ids : forall p T i f j,
  nth_error (prune_rounds HS ids p T) i = Some (RJet f j) -> nth_error p i = Some (RJet f j).
Proof.
  induction ids as [|id tl IH]; intros p T i f j H; cbn [prune_rounds fold_left] in H; [exact H|].
  fold (prune_rounds HS tl (prune_struct HS id p T) T) in H. apply IH in H. eapply prune_struct_jet. exact H.
Qed.

Lemma fam_ok_pruned ids p T ar' root : fam_ok fam p root ->
  fam_ok fam (shrink ar' (prune_rounds HS ids p T)) root.
Proof.
  intros H i f j R E. apply reach_unshrink in R. rewrite shrink_nth in E.
  destruct (nth_error (prune_rounds HS ids p T) i) as [n|] eqn:En; [|discriminate]. cbn in E.
  assert (n = RJet f j).
  { destruct n; cbn [shrink_node] in E; try congruence.
    destruct (ar' i) as [[s t]|]; [destruct (value_prune c t)|]; discriminate. }
  subst n. eapply H; [eapply reach_prune_rounds; exact R|eapply prune_rounds_jet; exact En].
Qed.

(* ------------------------------------------------------------------ any entry point, any input *)

(* If the table evaluates node [root] on [v] to [o], the Bit Machine model returns [o] on the unfolded
   original and - after pruning, re-inference and witness shrinking - the pruned value [o'] = Value::prune
   of [o] to the re-inferred target type, on the pruned input [v']. *)
Theorem pruned_machine_eval ids p ar root fuel v o E s t T :
  rwf p = true -> root < length p ->
  typed_from jty p ar root -> words_small p root -> fam_ok fam p root ->
  ar root = Some (s, t) -> has_ty v s = true ->
  reval fuel p (cmrs HS p) root v = Ok (o, E) -> incl E T ->
  let q := prune_rounds HS ids p T in
  exists ar' s' t' v' o' t0 t1,
    infer_arrows jt false q root = Some ar' /\ ar' root = Some (s', t') /\
    ty_le s' s = true /\ ty_le t' t = true /\ sprune v s' = Some v' /\ sprune o t' = Some o' /\
    unfold_r (length p) p ar (cmrs HS p) root = Some t0 /\ typed jty1 t0 s t /\
    unfold_r (length p) (shrink ar' q) ar' (cmrs HS p) root = Some t1 /\ typed jty1 t1 s' t' /\
    machine_returns t0 s t v o /\ machine_returns t1 s' t' v' o'.
Proof.
  intros W Hr Ht Hw Hf Ha Hv H Hin q.
  destruct (prune_retype_eval HS jet_sem hash_val_core jt jet_typed hash_val_core_typed ids p ar root fuel v o E s t T
              W Hr Ht Hw Ha Hv H Hin) as (ar' & s' & t' & v' & o' & I & Le & T' & Ar' & Ls & Lt & Sv & So & Ev & Cm).
  fold q in I, Le, T', Ev, Cm.
  destruct (machine_of_eval p ar root (cmrs HS p) fuel v o E s t W Hr Ht Hf Ha Hv H) as (t0 & U0 & T0 & _ & M0).
  assert (Lq : length (shrink ar' q) = length p) by (rewrite shrink_length; apply prune_rounds_length).
  assert (Wq : rwf (shrink ar' q) = true).
  { assert (G : forall r i, rwf_from i r = true -> rwf_from i (shrink_from ar' i r) = true).
    { induction r as [|n tl IH]; intros i Hq; cbn [shrink_from rwf_from] in *; [reflexivity|].
      apply andb_true_iff in Hq. destruct Hq as [A B]. rewrite shrink_children, A. cbn. apply IH. exact B. }
    apply G. apply prune_rounds_rwf. exact W. }
  destruct (machine_of_eval (shrink ar' q) ar' root (cmrs HS p) fuel v' o' E s' t' Wq ltac:(lia) T'
              (fam_ok_pruned ids p T ar' root Hf) Ar' (sprune_has_ty _ _ _ Sv) Ev) as (t1 & U1 & T1 & _ & M1).
  rewrite Lq in U1.
  exists ar', s', t', v', o', t0, t1. repeat (split; [assumption|]). exact M1.
Qed.

(* ------------------------------------------------------------------ programs *)

(* A program (1 -> 1) that runs: the machine returns the unit value (no output bits) on the original
   program and on the pruned, re-typed program; no input frame is needed. *)
Theorem pruned_machine_run ids p ar o E :
  let root := length p - 1 in
  rwf p = true -> p <> []%list ->
  typed_from jty p ar root -> words_small p root -> fam_ok fam p root -> ar root = Some (One, One) ->
  run HS jet_sem hash_val_core p = Ok (o, E) ->
  let q := prune_rounds HS ids p E in
  exists ar' t0 t1,
    infer_arrows jt true q root = Some ar' /\ arrows_le q root ar' ar /\
    root_cmr HS (shrink ar' q) = root_cmr HS p /\
    run HS jet_sem hash_val_core (shrink ar' q) = Ok (SU, E) /\
    unfold_r (length p) p ar (cmrs HS p) root = Some t0 /\ typed jty1 t0 One One /\
    unfold_r (length p) (shrink ar' q) ar' (cmrs HS p) root = Some t1 /\ typed jty1 t1 One One /\
    forall prof jet_cost,
      (check_program prof (bw One) (bw One) (bounds jet_cost t0) = Ok tt ->
       forall m0, length m0 = N.to_nat (machine_cells jet_cost t0) ->
         exists st, machine_exec prof jet_cost jsem1 t0 m0 None = Ok (st, []%list)) /\
      (check_program prof (bw One) (bw One) (bounds jet_cost t1) = Ok tt ->
       forall m0, length m0 = N.to_nat (machine_cells jet_cost t1) ->
         exists st, machine_exec prof jet_cost jsem1 t1 m0 None = Ok (st, []%list)).
Proof.
  intros root W Ne Ht Hw Hf Ha R q.
  assert (Hr : root < length p) by (destruct p; [congruence|cbn; lia]).
  destruct (prune_retype_run HS jet_sem hash_val_core jt jet_typed hash_val_core_typed ids p ar o E W Ne Ht Hw Ha R)
    as (ar' & I & Le & T' & Ar' & Rn & Cm).
  fold root in I, Le, T', Ar', Cm. fold q in I, Le, T', Rn, Cm.
  assert (Lq : length (shrink ar' q) = length p) by (rewrite shrink_length; apply prune_rounds_length).
  assert (Cq : cmrs HS (shrink ar' q) = cmrs HS p) by (rewrite cmrs_shrink; apply prune_rounds_cmrs; exact W).
  assert (Wq : rwf (shrink ar' q) = true).
  { assert (G : forall r i, rwf_from i r = true -> rwf_from i (shrink_from ar' i r) = true).
    { induction r as [|n tl IH]; intros i Hq; cbn [shrink_from rwf_from] in *; [reflexivity|].
      apply andb_true_iff in Hq. destruct Hq as [A B]. rewrite shrink_children, A. cbn. apply IH. exact B. }
    apply G. apply prune_rounds_rwf. exact W. }
  unfold run in R, Rn. rewrite Lq, Cq in Rn. fold root in R, Rn.
  destruct (machine_of_eval p ar root (cmrs HS p) (length p) SU o E One One W Hr Ht Hf Ha eq_refl R)
    as (t0 & U0 & T0 & _ & M0).
  destruct (machine_of_eval (shrink ar' q) ar' root (cmrs HS p) (length p) SU SU E One One Wq ltac:(lia) T'
              (fam_ok_pruned ids p E ar' root Hf) Ar' eq_refl Rn) as (t1 & U1 & T1 & _ & M1).
  rewrite Lq in U1.
  exists ar', t0, t1. split; [exact I|]. split; [exact Le|]. split; [exact Cm|].
  split; [unfold run; rewrite Lq, Cq; exact Rn|].
  split; [exact U0|]. split; [exact T0|]. split; [exact U1|]. split; [exact T1|].
  intros prof jet_cost. split; intros Hc m0 Hm.
  - destruct (M0 prof jet_cost Hc m0 Hm) as [_ N0]. destruct (N0 eq_refl) as (st & bits & E1 & _ & E3).
    exists st. destruct bits; [exact E1|discriminate].
  - destruct (M1 prof jet_cost Hc m0 Hm) as [_ N1]. destruct (N1 eq_refl) as (st & bits & E1 & _ & E3).
    exists st. destruct bits; [exact E1|discriminate].
Qed.

End Machine.

(* ------------------------------------------------------------------ the premises are satisfiable *)

Definition ex_cost (j : N) : N := 100%N.

(* The program of finding F-C08 once more, now on the machine: the original and the pruned, re-typed
   program both pass the limit check and run to completion with no output bit; the pruned one needs
   fewer cells (the shared node no longer carries 2^8). *)
Example shared_prog_machine :
  let root := 13 in
  fam_ok 1%N shared_prog root /\
  exists o E, run sym_hashes ex_jet_sem hash_val_core shared_prog = Ok (o, E) /\
    let q := prune_rounds sym_hashes [fun i => i; fun i => i] shared_prog E in
    exists ar' t0 t1,
      infer_arrows ex_jt true q root = Some ar' /\
      unfold_r 14 shared_prog shared_arrows_old (cmrs sym_hashes shared_prog) root = Some t0 /\
      unfold_r 14 (shrink ar' q) ar' (cmrs sym_hashes shared_prog) root = Some t1 /\
      check_program Debug (bw One) (bw One) (bounds ex_cost t0) = Ok tt /\
      check_program Debug (bw One) (bw One) (bounds ex_cost t1) = Ok tt /\
      (exists st, machine_exec Debug ex_cost (jet_sem1 1%N ex_jet_sem) t0
                    (repeat true (N.to_nat (machine_cells ex_cost t0))) None = Ok (st, []%list)) /\
      (exists st, machine_exec Debug ex_cost (jet_sem1 1%N ex_jet_sem) t1
                    (repeat true (N.to_nat (machine_cells ex_cost t1))) None = Ok (st, []%list)) /\
      (extra_cells (bounds ex_cost t1) < extra_cells (bounds ex_cost t0))%N.
Proof.
  intros root.
  assert (Hf : fam_ok 1%N shared_prog root).
  { intros i f j _ E. do 14 (destruct i as [|i]; [cbn in E; congruence|]). destruct i; discriminate. }
  split; [exact Hf|].
  assert (W : rwf shared_prog = true) by (vm_compute; reflexivity).
  assert (T0 : typed_from (jet_ty_of ex_jt) shared_prog shared_arrows_old root)
    by (apply typed_onb_from with (idx := seq 0 14); vm_compute; reflexivity).
  assert (Hw : words_small shared_prog root) by (apply words_smallb_ok; vm_compute; reflexivity).
  destruct (run sym_hashes ex_jet_sem hash_val_core shared_prog) as [[o E]| | |] eqn:R; try (vm_compute in R; discriminate).
  exists o, E. split; [reflexivity|]. intros q.
  destruct (pruned_machine_run sym_hashes ex_jet_sem ex_jt 1%N ex_jt_typed [fun i => i; fun i => i]
              shared_prog shared_arrows_old o E W ltac:(discriminate) T0 Hw Hf eq_refl R)
    as (ar' & t0 & t1 & I & _ & _ & _ & U0 & _ & U1 & _ & M).
  fold q in I, U1. change (length shared_prog - 1) with root in I, U0, U1. change (length shared_prog) with 14 in U0, U1.
  exists ar', t0, t1. split; [exact I|]. split; [exact U0|]. split; [exact U1|].
  (* make everything concrete *)
  assert (C : exists a u0 u1, infer_arrows ex_jt true q root = Some a /\
     unfold_r 14 shared_prog shared_arrows_old (cmrs sym_hashes shared_prog) root = Some u0 /\
     unfold_r 14 (shrink a q) a (cmrs sym_hashes shared_prog) root = Some u1 /\
     check_program Debug (bw One) (bw One) (bounds ex_cost u0) = Ok tt /\
     check_program Debug (bw One) (bw One) (bounds ex_cost u1) = Ok tt /\
     (extra_cells (bounds ex_cost u1) < extra_cells (bounds ex_cost u0))%N).
  { clear I U0 U1 M. subst q. vm_compute in R. injection R as <- <-.
    unfold infer_arrows.
    destruct (infer ex_jt (rootopt true root) (tr (prune_rounds sym_hashes [fun i => i; fun i => i] shared_prog _) root))
      as [tau| | |] eqn:Ei; try (vm_compute in Ei; discriminate).
    vm_compute in Ei. injection Ei as <-.
    eexists. eexists. eexists. split; [reflexivity|]. split; [vm_compute; reflexivity|].
    split; [vm_compute; reflexivity|]. vm_compute. auto. }
  destruct C as (a & u0 & u1 & Ia & V0 & V1 & C0 & C1 & Lt).
  rewrite I in Ia. injection Ia as <-. rewrite U0 in V0. injection V0 as <-. rewrite U1 in V1. injection V1 as <-.
  split; [exact C0|]. split; [exact C1|].
  destruct (M Debug ex_cost) as [M0 M1].
  split; [apply (M0 C0); rewrite repeat_length; reflexivity|].
  split; [apply (M1 C1); rewrite repeat_length; reflexivity|exact Lt].
Qed.
