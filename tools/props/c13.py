"""C13 - Bit streams and natural numbers code exactly."""
import vplib
from vplib import Case, coq_list, coq_opt

PROP = "C13"
LEVEL = "proof"
IMPORTS = ["Bits.Run"]
TYPES = {"u8": 255, "u16": 65535, "u32": 2**32 - 1, "i32": 2**31 - 1, "u64": 2**64 - 1,
         "i64": 2**63 - 1, "usize": 2**64 - 1}
TYNAMES = sorted(TYPES)


# ------------------------------------------------------------ python reference (the specification)
def enc_py(n):
    """The natural-number code of the Simplicity tech report."""
    assert n >= 1
    if n == 1:
        return [0]
    ln = n.bit_length() - 1
    sub = enc_py(ln)
    # prefix 1 + encoding of ln, then the ln low bits of n -- flattened form:
    # all unary bits first is the same string because enc(ln) starts with its own unary part
    return [1] + sub + [(n >> i) & 1 for i in range(ln - 1, -1, -1)]


def dec_py(bits):
    """Reference decoder: returns (n, consumed) | ('eos', consumed) | ('huge', consumed).  No size limits
    except that a length above 31 stops the decoding (the number would exceed 32 bits)."""
    pos = 0
    depth = 0
    while True:
        if pos >= len(bits):
            return ("eos", len(bits))
        b = bits[pos]
        pos += 1
        if b:
            depth += 1
        else:
            break
    n = 1
    for _ in range(depth):
        ln = n
        if ln > 31:
            return ("huge", pos)
        if pos + ln > len(bits):
            return ("eos", len(bits))
        v = 1
        for i in range(ln):
            v = 2 * v + bits[pos + i]
        pos += ln
        n = v
    return (n, pos)


def expected_nat(n_cons, tymax, bound):
    """Expected harness result for a reference decode result (without the position after an error)."""
    if n_cons[0] == "eos":
        return [1]
    if n_cons[0] == "huge":
        return [2]
    n, cons = n_cons
    if n >= 2**32:
        return [2]
    if n > tymax:
        return [2]
    if bound is not None and n > bound:
        return [3, n, bound]
    return [0, n, cons]


def pack_py(bits):
    out = []
    for i in range(0, len(bits), 8):
        ch = bits[i:i + 8]
        ch = ch + [0] * (8 - len(ch))
        v = 0
        for b in ch:
            v = 2 * v + b
        out.append(v)
    return out


def bits_of_bytes(bs):
    return [(b >> (7 - i)) & 1 for b in bs for i in range(8)]


def bstr(bits):
    return "".join(str(b) for b in bits) if bits else "-"


def hexs(bs):
    return "".join("%02x" % b for b in bs) if bs else "-"


# ------------------------------------------------------------ generators
def gen_cases(rng, tier):
    cases = []
    k = [0]

    def add(kind, line, expr, meta):
        k[0] += 1
        cases.append(Case("c%d" % k[0], kind, line, expr, meta))

    def nat_case(n, ty, bound, extra):
        add("nat", "%d %s %s %s" % (n, ty, "-" if bound is None else bound, bstr(extra)),
            "run_nat %d %d %s %s" % (n, TYPES[ty], coq_opt(bound), coq_list(extra)),
            {"n": n, "ty": ty, "bound": bound, "extra": extra})

    small = 3000 if tier == "quick" else 70000
    ns = list(range(1, small + 1))
    for kk in range(1, 34):
        for d in (-2, -1, 0, 1, 2):
            v = 2**kk + d
            if v >= 1:
                ns.append(v)
    ns += [2**63, 2**64 - 1, 2**40 + 12345]
    for _ in range(200 if tier == "quick" else 3000):
        ns.append(rng.range(1, 2**rng.range(1, 64)))
    for i, n in enumerate(ns):
        ty = TYNAMES[i % len(TYNAMES)] if n > 300 or i % 3 else rng.choice(TYNAMES)
        bsel = (i // 7) % 6
        bound = [None, n - 1, n, n + 1, 0, None][bsel]
        if bound is not None and bound > TYPES[ty]:
            bound = TYPES[ty]
        if bound is not None and bound < 0:
            bound = 0
        extra = rng.bits(rng.below(10))
        nat_case(n, ty, bound, extra)

    # every bit string up to a length, and random longer ones
    maxlen = 10 if tier == "quick" else 15
    for ln in range(0, maxlen + 1):
        for v in range(2**ln):
            bits = [(v >> (ln - 1 - i)) & 1 for i in range(ln)]
            ty = TYNAMES[(v + ln) % len(TYNAMES)]
            bound = [None, 3, 1, 200][(v // 3) % 4]
            add("dec", "%s %s %s" % (ty, "-" if bound is None else bound, bstr(bits)),
                "run_dec %d %s %s" % (TYPES[ty], coq_opt(bound), coq_list(bits)),
                {"bits": bits, "ty": ty, "bound": bound})
    for _ in range(400 if tier == "quick" else 6000):
        # structured: a valid-looking prefix with mutations
        n = rng.range(1, 2**rng.range(1, 40))
        bits = enc_py(n) + rng.bits(rng.below(12))
        for _m in range(rng.below(3)):
            if bits:
                j = rng.below(len(bits))
                bits[j] ^= 1
        if rng.chance(1, 5):
            bits = bits[:rng.below(len(bits) + 1)]
        ty = rng.choice(TYNAMES)
        bound = rng.choice([None, None, n, n - 1 if n > 1 else 0, 5])
        if bound is not None and bound > TYPES[ty]:
            bound = TYPES[ty]
        add("dec", "%s %s %s" % (ty, "-" if bound is None else bound, bstr(bits)),
            "run_dec %d %s %s" % (TYPES[ty], coq_opt(bound), coq_list(bits)),
            {"bits": bits, "ty": ty, "bound": bound})

    # reader op sequences
    for _ in range(600 if tier == "quick" else 8000):
        nb = rng.below(9)
        bs = rng.bytes(nb)
        if rng.chance(1, 3) and nb:
            # plant an encoded natural somewhere so that `n` ops often succeed
            n = rng.range(1, 300)
            bits = rng.bits(rng.below(8)) + enc_py(n) + rng.bits(rng.below(16))
            bs = pack_py(bits)
        if rng.chance(1, 3) and bs:
            bs[-1] &= (0xFF << rng.below(9)) & 0xFF
        ops = []
        for _o in range(rng.below(14)):
            r = rng.below(10)
            if r < 4:
                ops.append(("b",))
            elif r < 6:
                ops.append(("2",))
            elif r < 9:
                ops.append(("8",))
            else:
                ty = rng.choice(TYNAMES)
                bound = rng.choice([None, None, 3, 100])
                ops.append(("n", ty, bound))
        hl = " ".join(o[0] if o[0] != "n" else "n:%s:%s" % (o[1], "-" if o[2] is None else o[2]) for o in ops)
        ce = "[" + "; ".join({"b": "RBit", "2": "RU2", "8": "RU8"}.get(o[0]) or
                             "RNat %d %s" % (TYPES[o[1]], coq_opt(o[2])) for o in ops) + "]"
        add("ops", "%s %s" % (hexs(bs), hl), "run_ops %s %s" % (coq_list(bs), ce), {"bytes": bs, "ops": ops})

    # writer op sequences
    for _ in range(400 if tier == "quick" else 6000):
        ops = []
        for _o in range(rng.below(12)):
            r = rng.below(10)
            if r < 5:
                ops.append(("b", rng.below(2)))
            elif r < 8:
                ln = rng.choice([0, 1, 3, 5, 7, 8, 9, 13, 16, 31, 32, 33, 63, 64])
                ops.append(("be", rng.next() & (2**64 - 1) if rng.chance(1, 2) else rng.below(2**(ln or 1)), ln))
            else:
                ops.append(("by", rng.bytes(rng.below(4))))
            # flush_all / io::Write::flush in the middle of the stream (every second sequence)
            if _ % 2 and rng.chance(1, 4):
                ops.append(("fl",) if rng.chance(2, 3) else ("fs",))
        hl = " ".join({"b": lambda o: "b%d" % o[1], "be": lambda o: "be:%d:%d" % (o[1], o[2]),
                       "by": lambda o: "by:" + hexs(o[1]), "fl": lambda o: "fl", "fs": lambda o: "fs"}[o[0]](o) for o in ops)
        ce = "[" + "; ".join({"b": lambda o: "WBit %d" % o[1], "be": lambda o: "WBe %d %d" % (o[1], o[2]),
                              "by": lambda o: "WBytes " + coq_list(o[1]), "fl": lambda o: "WFlush",
                              "fs": lambda o: "WSync"}[o[0]](o) for o in ops) + "]"
        add("wr", hl, "run_wr %s" % ce, {"ops": ops})

    # windows: every (s, e) over 3-byte slices, two byte patterns; random larger
    pats = [[0xFF, 0xFF, 0xFF], [0x12, 0xA3, 0x5C]]
    for p in pats:
        for s in range(0, 25):
            for e in range(s, 25):
                add("win", "%s %d %d" % (hexs(p), s, e), "run_win %s %d %d" % (coq_list(p), s, e),
                    {"bytes": p, "s": s, "e": e})
    for _ in range(150 if tier == "quick" else 3000):
        nb = rng.range(0, 12)
        bs = rng.bytes(nb)
        e = rng.range(0, 8 * nb)
        s = rng.range(0, e)
        if rng.chance(1, 12):
            s, e = e + 1, s  # start > end: must panic (assert)
        if rng.chance(1, 12):
            e = 8 * nb + rng.range(1, 9)  # beyond the slice: must panic
        add("win", "%s %d %d" % (hexs(bs), s, e), "run_win %s %d %d" % (coq_list(bs), s, e),
            {"bytes": bs, "s": s, "e": e})

    # windows with byte-aligned end followed by reader operations and close
    for _ in range(300 if tier == "quick" else 5000):
        nb = rng.range(1, 6)
        bs = rng.bytes(nb)
        if rng.chance(1, 2):
            bs[rng.below(nb)] = 0
        e = 8 * rng.range(0, nb)
        s0 = rng.range(0, e)
        ops = []
        for _o in range(rng.below(8)):
            r = rng.below(10)
            ops.append(("b",) if r < 6 else ("2",) if r < 8 else ("8",))
        hl = " ".join(o[0] for o in ops)
        ce = "[" + "; ".join({"b": "RBit", "2": "RU2", "8": "RU8"}[o[0]] for o in ops) + "]"
        add("winops", "%s %d %d %s" % (hexs(bs), s0, e, hl), "run_winops %s %d %d %s" % (coq_list(bs), s0, e, ce),
            {"bytes": bs, "s": s0, "e": e, "ops": ops})

    # reader op sequences with Iterator::nth (skip k bits, return the next; also past the end, then go on reading)
    rn = rng.fork("nthops")
    for _ in range(250 if tier == "quick" else 4000):
        bs = rn.bytes(rn.range(0, 5))
        total = 8 * len(bs)
        ops = []
        for _o in range(rn.range(1, 7)):
            r = rn.below(10)
            if r < 5:
                ops.append(("nth", rn.choice([0, 1, 2, 7, 8, 9, 15, 16, max(0, total - 1), total, total + 1, rn.below(total + 3)])))
            elif r < 7:
                ops.append(("b",))
            elif r < 8:
                ops.append(("2",))
            else:
                ops.append(("8",))
        hl = " ".join("nth:%d" % o[1] if o[0] == "nth" else o[0] for o in ops)
        ce = "[" + "; ".join("RNth %d" % o[1] if o[0] == "nth" else {"b": "RBit", "2": "RU2", "8": "RU8"}[o[0]] for o in ops) + "]"
        add("ops", "%s %s" % (hexs(bs), hl), "run_ops %s %s" % (coq_list(bs), ce), {"bytes": bs, "ops": ops})

    # collect_bits
    for _ in range(120 if tier == "quick" else 2000):
        bits = rng.bits(rng.below(40))
        add("col", bstr(bits), "run_col %s" % coq_list(bits), {"bits": bits})
    return cases


# ------------------------------------------------------------ the property, tested directly on the implementation
def prop_check(c, r):
    m = c.meta
    if r in ("CRASH", "TIMEOUT") or r is None:
        return ("crash", "implementation crashed or hung on %s %s" % (c.kind, c.line))
    if c.kind == "nat":
        n = m["n"]
        tymax = TYPES[m["ty"]]
        enc = enc_py(n)
        if 2 not in r:
            return ("panic", "encode/decode of %d panicked" % n)
        i = len(enc)
        if r[:i] != enc or r[i] != 2:
            return ("encode", "encode_natural(%d) is not the specified code" % n)
        exp = expected_nat((n, len(enc)), tymax, m["bound"])
        if r[i + 1:] != exp:
            return ("roundtrip", "read_natural::<%s>(%s) after encode_natural(%d): got %s, expected %s"
                    % (m["ty"], m["bound"], n, r[i + 1:], exp))
    elif c.kind == "dec":
        bits = m["bits"]
        stream = bits_of_bytes(pack_py(bits))
        ref = dec_py(stream)
        exp = expected_nat(ref, TYPES[m["ty"]], m["bound"])
        if r != exp:
            return ("decode", "read_natural on %s: got %s, expected %s" % (bstr(bits), r, exp))
        if r and r[0] == 0:
            # uniqueness: the consumed bits are the encoding of the number returned
            if enc_py(r[1]) != stream[:r[2]]:
                return ("non-canonical", "accepted a non-canonical encoding of %d" % r[1])
    elif c.kind == "ops":
        exp = ops_ref(m["bytes"], m["ops"])
        if exp is not None and r != exp:
            return ("reader", "reader ops on %s: got %s, expected %s" % (hexs(m["bytes"]), r, exp))
    elif c.kind == "winops":
        exp = ops_ref(m["bytes"], m["ops"], m["s"], m["e"])
        if exp is not None and r != exp:
            return ("window-reader", "window(%d,%d) over %s then %s: got %s, expected %s"
                    % (m["s"], m["e"], hexs(m["bytes"]), [o[0] for o in m["ops"]], r, exp))
    elif c.kind == "wr":
        bits = []
        done = []       # bytes written out by a flush_all in the middle of the stream
        total = 0
        for o in m["ops"]:
            if o[0] == "b":
                bits.append(o[1])
            elif o[0] == "be":
                bits += [(o[1] >> i) & 1 for i in range(o[2] - 1, -1, -1)]
            elif o[0] == "by":
                bits += bits_of_bytes(o[1])
            elif o[0] == "fl":
                # the written bits go out padded with zeros to a whole byte; the counter does not count padding
                total += len(bits)
                done += pack_py(bits)
                bits = []
        total += len(bits)
        exp = [total, total] + done + pack_py(bits)
        if r != exp:
            return ("writer", "writer ops: got %s, expected %s" % (r, exp))
    elif c.kind == "win":
        bs, s, e = m["bytes"], m["s"], m["e"]
        if s > e or e > 8 * len(bs):
            if r != [9]:
                return ("window-assert", "window(%d,%d) over %d bytes did not panic" % (s, e, len(bs)))
            return None
        allb = bits_of_bytes(bs)
        exp = [e - s] + allb[s:e]
        if r != exp:
            e2 = 8 * ((e + 7) // 8)
            if e % 8 != 0 and r == [e2 - s] + allb[s:e2]:
                return ("window_overrun", "byte_slice_window(%s,%d,%d) yields %d bits (to the byte boundary), not %d"
                        % (hexs(bs), s, e, e2 - s, e - s))
            return ("window", "byte_slice_window(%s,%d,%d): got %s, expected %s" % (hexs(bs), s, e, r, exp))
    elif c.kind == "col":
        bits = m["bits"]
        exp = [len(bits)] + pack_py(bits)
        if r != exp:
            return ("collect", "collect_bits: got %s expected %s" % (r, exp))
    return None


def ops_ref(bs, ops, s=0, e=None):
    """Bit-queue reference for reader op sequences over bits [s, e) of the byte string
    (a plain reader: s = 0, e = 8*len(bs); a window: byte-aligned e)."""
    allb = bits_of_bytes(bs)
    if e is None:
        e = len(allb)
    q = allb[s:e]
    pos = 0
    out = []
    for o in ops:
        if o[0] == "b":
            if pos < len(q):
                pos += 1
                out += [0, q[pos - 1], pos]
            else:
                out += [1, pos]
        elif o[0] == "2":
            if pos + 2 <= len(q):
                pos += 2
                out += [0, 2 * q[pos - 2] + q[pos - 1], pos]
            else:
                pos = min(len(q), pos + 2)  # the bits that exist are consumed
                out += [1, pos]
        elif o[0] == "8":
            if pos + 8 <= len(q):
                v = 0
                for b in q[pos:pos + 8]:
                    v = 2 * v + b
                pos += 8
                out += [0, v, pos]
            else:
                out += [1, pos]
        elif o[0] == "nth":
            # Iterator::nth(k): k bits skipped, the next returned; past the end everything is consumed
            if pos + o[1] < len(q):
                pos += o[1] + 1
                out += [0, q[pos - 1], pos]
            else:
                pos = len(q)
                out += [1, pos]
        else:
            ref = dec_py(q[pos:])
            exp = expected_nat(ref, TYPES[o[1]], o[2])
            pos += ref[1]
            if exp[0] != 0:
                out += exp + [pos]
            else:
                out += [0, exp[1], pos]
    out.append(7)
    # close: succeeds exactly when every byte of the range has been pulled and the unread bits
    # of the current byte are zero
    p = s + pos
    if p == s and s % 8 == 0:
        pulled = s // 8
    else:
        pulled = (p + 7) // 8
    if pulled * 8 < e:
        out += [1, bs[pulled]]
    else:
        rest = allb[p:pulled * 8]
        if any(rest):
            v = 0
            for b in rest:
                v = 2 * v + b
            out += [2, v, len(rest)]
        else:
            out += [0]
    return out


def finding_match(c, r, cls):
    if cls == "window_overrun":
        for f in vplib.open_findings(PROP):
            if f.get("match", {}).get("kind") == "window_overrun" and c.meta["e"] % 8 != 0:
                return f["id"]
    return None


def nontrivial(c, r):
    m = c.meta
    if c.kind == "nat":
        return ("nat", m["n"].bit_length(), m["ty"], m["bound"] is None, tuple(r[-3:]) if isinstance(r, list) and r and r[-3:-2] != [0] else "ok") if m["n"] > 3 else None
    if c.kind == "dec":
        return ("dec", tuple(m["bits"])) if len(m["bits"]) >= 3 else None
    if c.kind == "ops":
        return ("ops", tuple(m["bytes"]), tuple(m["ops"])) if len(m["ops"]) >= 2 and m["bytes"] else None
    if c.kind == "winops":
        return ("winops", tuple(m["bytes"]), m["s"], m["e"], tuple(m["ops"])) if m["s"] % 8 else None
    if c.kind == "wr":
        return ("wr", str(m["ops"])) if len(m["ops"]) >= 2 else None
    if c.kind == "win":
        return ("win", tuple(m["bytes"]), m["s"], m["e"]) if m["s"] % 8 or m["e"] % 8 else None
    if c.kind == "col":
        return ("col", tuple(m["bits"])) if len(m["bits"]) % 8 else None
    return None


def run(rep, tier, rng):
    proof_ok = vplib.proof_stage(rep, "Props/C13.v", extra_targets=["Bits/Run.vo"])
    rep.coverage["trusted_base"] = vplib.GENERIC_TRUSTED + [
        "models Bits/Natural.v, Bits/BitIter.v, Bits/BitWriter.v written by hand from bititer.rs, bitwriter.rs, encode.rs",
        "io::Write failures are not modelled (writes to a Vec never fail)",
    ]
    rep.coverage["refuted_lemmas"] = ["C13_window_exact_refuted"]
    binary, out = vplib.harness_build("debug")
    if binary is None:
        raise vplib.Infra("harness build failed:\n" + out[-3000:])
    cases = gen_cases(rng, tier)
    impl, model = vplib.eval_cases(rep, binary, "bits", cases, IMPORTS, tag="c13")
    pfail, mism = vplib.decide(rep, cases, impl, model, prop_check, finding_match, nontrivial,
                               what="correspondence Bits/Run.v vs bit_encoding")
    # the refuted lemma must be matched by an open finding; it must also still be observable
    hits = rep.coverage["search"]["known_finding_hits"]
    if not vplib.open_findings(PROP):
        rep.violation("C13_window_exact_refuted compiled but no open finding lists it", {}, False)
    rep.coverage["rule"] = ("naturals exhaustive up to a bound, around every power of two and random, x 7 result types x bounds; "
                            "all bit strings up to a length and mutated encodings; random reader/writer op sequences; all windows "
                            "of 3-byte slices and random ones.  Distinct = distinct input; non-trivial = natural > 3 / bit string "
                            ">= 3 bits / >= 2 ops / unaligned window or length")
    rep.coverage["samples"] = [{"kind": c.kind, "args": c.line, "impl": impl.get(c.cid)} for c in cases[::max(1, len(cases) // 5)][:6]]
    vplib.finish_proof_verdict(rep, pfail)
    rep.assumptions += ["window cases with end %% 8 != 0 are the known finding F-C13 (hits this run: %d)" % hits]


def replay(obj):
    import json
    print(json.dumps(obj, indent=1))
    c = obj.get("case")
    if not c:
        return 0
    binary, _ = vplib.harness_build("debug")
    case = Case(c["id"], c["kind"], c["harness_args"], c["model_expr"], c.get("meta"))
    rep = vplib.Report(PROP, "quick", 0)
    impl, model = vplib.eval_cases(rep, binary, "bits", [case], IMPORTS, tag="replay")
    print("implementation:", impl.get(case.cid))
    print("model         :", model.get(case.cid))
    print("property      :", prop_check(case, impl.get(case.cid)))
    return 0
