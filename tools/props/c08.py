"""C08 - Pruning preserves commitment and behaviour and satisfies anti-DoS."""
import json
import os

import proggen as pg
import vplib
from vplib import Case
from props import redeem_common as rc

PROP = "C08"
LEVEL = "proof"
IMPORTS = ["Ty.Ty", "Core.Prog", "Redeem.Finalize", "Redeem.Run"]
IMPORTS_FULL = ["Ty.Ty", "Core.Prog", "Redeem.Finalize", "Redeem.Run", "Redeem.RunIhr"]
FULL_MAX_NODES = 90      # the end-to-end model (SHA-256 identity roots in Coq) is evaluated on programs up to this size

CLAUSES = ["prune", "cmr_eq", "exec_pruned", "out_eq", "reprune", "alltyped", "c_pruned", "c_unpruned", "selfdec",
           "c_cmr_eq", "principal"]


# ------------------------------------------------------------ cases
def make_case(cid, env, prog, arrows, gen):
    """prog carries its witnesses (wit.c / wit.t); the reference run is computed here"""
    wv = {}
    for i, n in enumerate(prog):
        if n[0] == "wit" and n[1] is not None and arrows[i] is not None:
            tv = rc.wit_value(n, arrows[i][1])
            v = rc.sprune(tv[1], arrows[i][1])     # finalize_unpruned coerces to the inferred type
            if v is not None:
                wv[i] = v
        elif n[0] == "wit" and arrows[i] is not None:
            wv[i] = pg.zero_value(arrows[i][1])
    ref = rc.run_prog(prog, wv, rc.make_jet_fn(env))
    line = "%s %s" % (rc.env_str(env), pg.prog_pdl(prog))
    return Case(cid, "c08", line, None, {"prog": prog, "arrows": arrows, "env": env, "wv": wv, "ref": ref, "gen": gen})


def model_expr(c, full):
    m = c.meta
    d = rc.parse_c08(full)
    n = len(m["prog"])
    rounds = [list(range(n))]
    if d and d.get("stage") == 0 and d.get("rounds"):
        rounds = [[x if x < n else i for i, x in enumerate(rd)] for rd in d["rounds"]]
    lockh, final, lt = rc.env_params(m["env"])
    return "run_c08 %d %d %d %s [%s]" % (lockh, final, lt, rc.tprog_coq(m["prog"], m["arrows"]),
                                         "; ".join(rc.nat_list(rd) for rd in rounds))


def full_expr(c, jet_idx):
    m = c.meta
    lockh, final, lt = rc.env_params(m["env"])
    jm = "; ".join("(%d, %d)" % (rc.JETS[name][0], jet_idx[name]) for name in sorted(rc.JETS))
    return "run_c08_full %d %d %d %s [%s]" % (lockh, final, lt, rc.tprog_coq(m["prog"], m["arrows"]), jm)


def project_full(r):
    """what Redeem/RunIhr.v run_c08_full prints, from the harness output"""
    d = rc.parse_c08(r)
    if d is None:
        return r
    if d["stage"] in (1, 2):
        return [d["stage"], d["code"]]
    if not d.get("complete"):
        return r
    n = len(d[50])
    out = [0, 58, 0, 56, len(d[56])]
    for rd in d["rounds"]:
        out += [x if x < n else i for i, x in enumerate(rd)]
    out += [55, n] + list(d[55]) + [54, len(d[54])]
    for (i, a, b) in d[54]:
        out += [i] + pg.ty_nums(a) + pg.ty_nums(b)
    out += [53, len(d[53])]
    for (i, _typed, bits) in d[53]:
        out += [i, len(bits)] + list(bits)
    return out


def uses_env(prog):
    return any(n[0] == "jet" and n[2] in ("tx_lock_height", "check_lock_height", "tx_is_final", "lock_time") for n in prog)


def gen_cases(rng, tier, binary, workdir):
    cases = []
    stats = {"generated": 0, "ill_typed_structures": 0, "run_fails": 0}
    # corpus first
    for name, kind, args, fn in rc.load_corpus(PROP):
        if kind != "c08":
            continue
        env = tuple(int(x) for x in args[0].split(":"))
        prog = rc.parse_pdl(args[1])
        ar = rc.get_arrows(binary, [prog], workdir)[0]
        if isinstance(ar, tuple):
            continue
        cases.append(make_case("corpus_%s" % name, env, prog, ar, "corpus:" + fn))
    n = 320 if tier == "quick" else 4500
    structs = []
    for k in range(n):
        r = rng.fork("s%d" % k)
        depth = r.choice([3, 4, 4, 5, 5, 6])
        opts = {}
        if k % 5 == 0:
            opts = {"share": 45, "twin": 15}
        if k % 7 == 0:
            opts = dict(opts, witness=25)
        p = rc.gen_structure(r, depth, opts)
        if len(p) <= 160:
            structs.append((k, p))
    # the shape of finding F-C08 with a witness under the shared node: re-typing must shrink the witness
    nsh = 30 if tier == "quick" else 400
    for k in range(nsh):
        structs.append((100000 + k, rc.gen_shared_witness(rng.fork("sh%d" % k))))
    stats["shared_witness_structures"] = nsh
    arrows = rc.get_arrows(binary, [p for _k, p in structs], workdir)
    for (k, p), ar in zip(structs, arrows):
        stats["generated"] += 1
        if isinstance(ar, tuple):
            stats["ill_typed_structures"] += 1
            continue
        r = rng.fork("w%d" % k)
        envs = [rc.ENV0]
        if uses_env(p) or k % 9 == 0:
            envs = [rc.ENV0, rc.ENV1] if k % 2 else [rc.ENV1]
            if k % 3 == 0:
                envs.append(rc.ENVS[2 + (k // 3) % 3])
        for env in envs:
            wv, ref = rc.choose_witnesses(r, p, ar, env)
            if ref[0] != "ok":
                stats["run_fails"] += 1
                if r.below(4):
                    continue          # keep some failing runs: differential test of the reference run
            prog = rc.with_compact_witnesses(p, wv)
            cases.append(make_case("g%d_%d" % (k, env[0]), env, prog, ar, "gen"))
    return cases, stats


# ------------------------------------------------------------ the property, tested on the implementation
def own_side(events, i, side):
    return any(j == i and s == side for (j, s) in events)


def is_full_case(prog, i):
    n = prog[i]
    return n[0] == "case" and prog[n[1]][0] != "hid" and prog[n[2]][0] != "hid"


def twin_predicate(prog, events, ident):
    """two distinct full case nodes of one identity class (same IHR) that ran on opposite sides only"""
    n = len(prog)
    for i in range(n):
        if not is_full_case(prog, i):
            continue
        li, ri = own_side(events, i, 0), own_side(events, i, 1)
        if li == ri:
            continue
        for j in range(n):
            if j != i and ident[j] == ident[i] and is_full_case(prog, j):
                lj, rj = own_side(events, j, 0), own_side(events, j, 1)
                if (li and rj and not lj) or (ri and lj and not rj):
                    return (i, j)
    return None


def shared_predicate(prog, codes):
    """a node object kept by one pruning pass that is also reachable from a dropped node"""
    dropped = [i for i, c in enumerate(codes) if c == 0]
    if not dropped:
        return None
    below = rc.descendants(prog, dropped)
    shared = [i for i, c in enumerate(codes) if c in (1, 2, 3) and i in below]
    return shared or None


def expected_c_unpruned(prog, events, ident):
    """libsimplicity on the maximally shared unpruned program: every class executed, every case class both sides"""
    executed = {ident[j] for (j, _s) in events}
    for i, nd in enumerate(prog):
        if nd[0] == "hid":
            continue
        if ident[i] not in executed:
            return 42
        if is_full_case(prog, i) and not (rc.taken(events, ident, i, 0) and rc.taken(events, ident, i, 1)):
            return 42
    return 0


def check_full(c, r):
    m = c.meta
    prog, arrows, ref = m["prog"], m["arrows"], m["ref"]
    if r in ("CRASH", "TIMEOUT") or r is None:
        return ("crash", "implementation crashed or hung on %s" % c.line[:200])
    if r == [9]:
        return ("panic", "harness panicked outside the guarded stages")
    d = rc.parse_c08(r)
    if d is None:
        return ("format", "unparsable harness output %s" % r[:20])
    if d["stage"] == 1:
        return ("finalize-failed", "witnesses of the inferred types were refused by finalize_unpruned (code %d)" % d["code"])
    if d["stage"] == 2:
        if ref[0] == "ok":
            return ("exec-differs", "the reference run succeeds, the Bit Machine fails with code %d" % d["code"])
        if ref[1] != d["code"]:
            return ("exec-differs", "the reference run fails with %d, the Bit Machine with %d" % (ref[1], d["code"]))
        return None
    if ref[0] != "ok":
        return ("exec-differs", "the Bit Machine runs a program that the reference run rejects (%d)" % ref[1])
    events = ref[2]
    if d["prune"] != 0:
        return ("prune-failed", "program runs but RedeemNode::prune returns %s" % {9: "a panic"}.get(d["prune"], "error %d" % d["prune"]))
    if not d.get("complete"):
        return ("format", "incomplete harness output (header %s)" % r[:13])
    n = len(prog)
    ident = [x if x < n else i for i, x in enumerate(d[52])]
    fails = []
    if d["cmr_eq"] != 1:
        fails.append(("cmr-changed", "pruning changed the commitment root"))
    if d["exec_pruned"] != 0:
        fails.append(("pruned-fails", "the pruned program does not run (code %d)" % d["exec_pruned"]))
    elif d["out_eq"] != 1:
        fails.append(("output-differs", "the pruned program returns another output"))
    if d["alltyped"] != 1:
        fails.append(("ill-typed-witness", "the pruned program has a witness that is not of its node's target type"))
    if d["c_pruned"] != 0:
        fails.append(("c-rejects-pruned", "libsimplicity rejects the serialised pruned program: %s"
                      % c_err_name(d["c_pruned"])))
    exp_un = expected_c_unpruned(prog, events, ident)
    if d["c_unpruned"] != exp_un:
        fails.append(("c-oracle", "libsimplicity on the unpruned program: %s, expected %s"
                      % (c_err_name(d["c_unpruned"]), c_err_name(exp_un))))
    if d["selfdec"] != 1:
        fails.append(("self-decode", "the serialisation of the pruned program does not decode (RedeemNode::decode: %d)" % d["selfdec"]))
    if d["c_cmr_eq"] != 1 and d["c_pruned"] < 1000:
        fails.append(("c-cmr", "libsimplicity computes another commitment root for the pruned program"))
    if d["principal"] != 1:
        fails.append(("not-principal", "the types of the pruned program are not the ones its structure infers"))
    if d["reprune"] != 0:
        fails.append(("reprune-differs", "pruning the pruned program again for the same environment %s"
                      % {1: "changes it", 2: "fails", 9: "panics"}.get(d["reprune"], "?")))
    # structure of one pass vs the reference pruning
    exp_codes = rc.prune_ref(prog, events, ident)
    if list(d[50]) != exp_codes:
        fails.append(("structure", "one pruning pass keeps/hides other nodes than the executed path says: %s vs %s"
                      % (list(d[50]), exp_codes)))
    for (i, l, rr) in d[51]:
        if (l, rr) != (int(rc.taken(events, ident, i, 0)), int(rc.taken(events, ident, i, 1))):
            fails.append(("tracker", "tracker content of case node %d is (%d,%d), the run took (%d,%d)"
                          % (i, l, rr, rc.taken(events, ident, i, 0), rc.taken(events, ident, i, 1))))
            break
    # final result: every remaining node executed, both sides of every remaining case taken - as
    # libsimplicity sees it on the maximally shared serialisation, i.e. per identity class (IHR) of the final program
    fin = d["rounds"][-1] if d.get("rounds") else ident
    fin = [x if x < n else i for i, x in enumerate(fin)]
    exec_cls = {fin[j] for (j, _s) in events}
    for i, code in enumerate(d[55]):
        if code in (1, 2, 3) and fin[i] not in exec_cls:
            fails.append(("unexecuted-node", "node %d remains in the pruned program but neither it nor a node with the same IHR "
                          "was executed" % i))
            break
        if code == 1 and is_full_case(prog, i) and not (rc.taken(events, fin, i, 0) and rc.taken(events, fin, i, 1)):
            fails.append(("unexecuted-branch", "case node %d remains with a branch that neither it nor a node with the same IHR took" % i))
            break
    # re-typing: arrows shrink, witnesses are the old ones pruned to the new types
    new_tgt = {}
    for (i, s, t) in d[54]:
        new_tgt[i] = t
        if arrows[i] is not None and not (pg.ty_le(s, arrows[i][0]) and pg.ty_le(t, arrows[i][1])):
            fails.append(("retype-not-smaller", "node %d is re-typed %s -> %s, not below %s -> %s"
                          % (i, pg.ty_str(s), pg.ty_str(t), pg.ty_str(arrows[i][0]), pg.ty_str(arrows[i][1]))))
            break
    for (i, typed, bits) in d[53]:
        if typed != 1:
            fails.append(("ill-typed-witness", "witness %d of the pruned program is not of its target type" % i))
            break
        if i in m["wv"] and i in new_tgt:
            e = rc.sprune(m["wv"][i], new_tgt[i])
            if e is None or pg.compact_bits(e) != list(bits):
                fails.append(("witness-shrink", "witness %d is not the original value pruned to the new type" % i))
                break
    if not fails:
        return None
    names = [f[0] for f in fails]
    tw = twin_predicate(prog, events, ident)
    if tw and set(names) <= {"c-rejects-pruned", "reprune-differs", "unexecuted-node", "unexecuted-branch"} and d["c_pruned"] in (0, 42):
        return ("twin-case", "case nodes %d and %d are distinct nodes with the same IHR and ran on opposite sides; after "
                "pruning: %s" % (tw[0], tw[1], "; ".join(f[1] for f in fails)))
    sh = shared_predicate(prog, list(d[50]))
    if sh and "not-principal" in names and set(names) <= {"c-rejects-pruned", "reprune-differs", "self-decode", "not-principal", "c-cmr"}:
        return ("shared-retype", "node(s) %s are shared between a kept and a dropped branch and keep the type constraints of "
                "the dropped one: %s" % (sh[:6], "; ".join(f[1] for f in fails)))
    return fails[0]


C_ERR = {0: "NoError", 42: "AntiDoS", 40: "ExecAssert", 38: "ExecJet", 6: "FailCode", 9: "panic", 7: "not reached"}


def c_err_name(code):
    if code >= 1000:
        return "run_program error before evaluation (-%d: %s)" % (code - 1000, {12: "BitstreamEof", 14: "BitstreamTrailingBytes", 16: "BitstreamIllegalPadding", 24: "WitnessEof", 30: "UnsharedSubexpression"}.get(code - 1000, "?"))
    return C_ERR.get(code, "error -%d" % code)


def finding_match(c, r, cls):
    for f in vplib.open_findings(PROP):
        if f.get("match", {}).get("kind") == cls:
            return f["id"]
    return None


# ------------------------------------------------------------ driver
def run(rep, tier, rng):
    vplib.proof_stage(rep, "Props/C08.v", extra_targets=["Redeem/Run.vo", "Redeem/RunIhr.vo"],
                      translators=("xlate_consts.py", "xlate_ivs.py"))
    rep.coverage["trusted_base"] = vplib.GENERIC_TRUSTED + [
        "models Redeem/Finalize.v, Redeem/PruneProg.v written by hand from node/redeem.rs (prune_with_tracker: Pruner, "
        "Finalizer), node/mod.rs (convert, Hide), bit_machine/tracker.rs (SetTracker) and bit_machine/mod.rs (what a run executes)",
        "Redeem/PruneFix.v (first model, run_c08) models RedeemNode::prune as rounds of the one-pass function with the number of "
        "rounds and the identity classes of every round read from the implementation (replayed with prune_with_tracker).  "
        "Redeem/PruneLoop.v + PruneIhr.v (second model, run_c08_full) model the loop itself: classes = equal IHR computed in Coq "
        "(Merkle/Ihr.v, SHA-256 on Uint63 primitives, constants regenerated by tools/xlate_ivs.py), one pass re-infers over the "
        "nodes it was given, stop test = equal structure, equal sharing classes and equal zero-padded witness stream in "
        "post-order; C08_prune_full_sound is proved for this loop with arbitrary classes/hashes.  Not modelled: the bit-level "
        "program encoding inside the stop test (C01's subject)",
        "re-typing after pruning: Redeem/RetypeInfer.v defines the re-inferred arrows as the result of C04's reference inference "
        "(Infer.infer) on the retained nodes of the pruned table and proves from infer_sound/complete/least that they exist, are "
        "principal and lie below the original arrows; Redeem/RetypeEnd.v composes this with `evaluation commutes with Value::prune` "
        "(Redeem/Retype.v).  That Rust's union-find inference computes the reference result is C04's correspondence; here the "
        "re-inferred arrows and shrunk witnesses of the pruned program are in addition compared with the model on every case",
        "Redeem/CoreBridge.v + MachineEnd.v: the table semantics of this family (with traces) is proved equal to Core/Sem.v's "
        "big-step semantics on the unfolded term and composed with C05's exec_correct: statements about the Bit Machine MODEL "
        "(Core/Machine.v), which C05 ties to bit_machine/mod.rs by its own correspondence",
        "hashes are abstract functions; jets are a Section variable (typing hypothesis in Retype.v), 16 jets instantiated in "
        "Redeem/Run.v and in the python reference (tools/props/redeem_common.py)",
        "libsimplicity (C) is an oracle: its anti-DoS verdict on the serialised programs is compared, not modelled",
        "Rust harness crate /verif/harness_redeem",
    ]
    rep.coverage["refuted_lemmas"] = ["C08_all_executed_twins_refuted", "C08_one_pass_refuted_twins",
                                      "C08_one_pass_types_not_principal (all three: one pruning pass, the code before commits "
                                      "5d14513/edace38; the fixed-point loop is covered by C08_fixpoint_all_executed)"]
    rep.coverage["statements_not_proved"] = []
    rep.coverage["statements_settled"] = ["C08_retype_le_statement: proved for the reference inference (C08_retype_le, "
                                          "C08_retype_le_reference); as written in phase 1 it quantified over an arbitrary "
                                          "inference function and is false in that form (C08_retype_le_statement_too_strong)"]
    binary = rc.harness_binary()
    cases, stats = gen_cases(rng, tier, binary, rep.workdir())
    import time
    t0 = time.time()
    full = vplib.run_harness(binary, rc.COMMAND, ["%s %s %s" % (c.cid, c.kind, c.line) for c in cases],
                             workdir=rep.workdir(), timeout=900)
    t1 = time.time()
    for c in cases:
        c.expr = model_expr(c, full.get(c.cid))
    vals, logs = vplib.coq_eval(IMPORTS, [c.expr for c in cases], workdir=rep.workdir(), tag="c08",
                                batch=max(40, min(250, (len(cases) + 11) // 12)))
    t2 = time.time()
    bad = [l for l in logs if l]
    if bad:
        raise vplib.Infra("model evaluation failed in Coq:\n" + bad[0][-3000:])
    model = {c.cid: v for c, v in zip(cases, vals) if v is not None}
    impl = {c.cid: rc.project_c08(full.get(c.cid)) for c in cases}
    # second model: RedeemNode::prune end to end (identity classes of every round computed in Coq with SHA-256,
    # re-inference by the reference of C04, witness shrinking), on the programs that are small enough
    jet_idx = {name: idx for idx, name, _s, _t in pg.jet_list(binary, "e", rep.workdir())}
    max_nodes = 64 if tier == "quick" else FULL_MAX_NODES
    sample = [c for k, c in enumerate(cases) if len(c.meta["prog"]) <= max_nodes
              and (tier != "quick" or c.cid.startswith("g1000") or c.cid.startswith("corpus") or k % 2 == 0)]
    if len(sample) > 2500:      # thorough tier: bound the evaluation time; corpus and shared-witness cases first
        first = [c for c in sample if c.cid.startswith("g1000") or c.cid.startswith("corpus")]
        rest = [c for c in sample if not (c.cid.startswith("g1000") or c.cid.startswith("corpus"))]
        sample = (first + rest[::max(1, len(rest) // max(1, 2500 - len(first)))])[:2500]
    vals2, logs2 = vplib.coq_eval(IMPORTS_FULL, [full_expr(c, jet_idx) for c in sample], workdir=rep.workdir(), tag="c08f",
                                  batch=max(8, min(60, (len(sample) + 15) // 16)))
    t3 = time.time()
    bad2 = [l for l in logs2 if l]
    if bad2:
        raise vplib.Infra("evaluation of the end-to-end model failed in Coq:\n" + bad2[0][-3000:])
    rounds_total = rounds_recomputed = 0
    for c in cases:
        d = rc.parse_c08(full.get(c.cid))
        if d and d.get("stage") == 0 and d.get("rounds"):
            rounds_total += len(d["rounds"])
    for c, v in zip(sample, vals2):
        if v is None or c.cid not in model:
            continue
        d = rc.parse_c08(full.get(c.cid))
        if d and d.get("stage") == 0 and d.get("rounds"):
            rounds_recomputed += len(d["rounds"])
        model[c.cid] = list(model[c.cid]) + [777] + list(v)
        impl[c.cid] = list(impl[c.cid]) + [777] + list(project_full(full.get(c.cid)))
    cor = rep.coverage.setdefault("correspondence", {})
    cor["impl_eval_s"] = round(t1 - t0, 2)
    cor["model_eval_s"] = round(t2 - t1, 2)
    cor["end_to_end_model_eval_s"] = round(t3 - t2, 2)
    cor["end_to_end_model"] = {
        "what": "Redeem/RunIhr.v run_c08_full: the rounds of RedeemNode::prune with the identity classes of every round "
                "COMPUTED in Coq (Merkle/Ihr.v + SHA-256, real commitment roots for the hidden sides), types re-inferred by "
                "Infer.infer over the nodes the pass saw, witnesses shrunk; compared: classes of every round, final structure, "
                "final arrows of every retained node, final witness bits",
        "cases": len(sample), "of": len(cases), "rule": "programs with at most %d nodes%s" % (max_nodes, " (quick tier: every corpus and shared-witness case, every second "
                                                                "other case)" if tier == "quick" else ""),
        "rounds_recomputed": rounds_recomputed, "rounds_total": rounds_total,
        "fraction_of_rounds_recomputed": round(rounds_recomputed / rounds_total, 3) if rounds_total else None,
    }

    def pc(c, _r):
        return check_full(c, full.get(c.cid))

    def nontrivial(c, _r):
        d = rc.parse_c08(full.get(c.cid))
        if d and d.get("stage") == 0 and d.get("changed") == 1:
            return c.line
        return None

    pfail, mism = vplib.decide(rep, cases, impl, model, pc, finding_match, nontrivial,
                               what="correspondence Redeem/Run.v (run_c08) vs RedeemNode::prune")
    hist = {"runs_ok": 0, "run_fails": 0, "changed": 0, "with_twins": 0, "env1": 0, "shared_case_both_sides": 0}
    for c in cases:
        d = rc.parse_c08(full.get(c.cid))
        if not d:
            continue
        if d.get("stage") == 2:
            hist["run_fails"] += 1
        if d.get("stage") == 0:
            hist["runs_ok"] += 1
            hist["changed"] += 1 if d.get("changed") == 1 else 0
            if 52 in d and any(x != i and x < len(d[52]) for i, x in enumerate(d[52]) if is_case_node(c.meta["prog"], i)):
                hist["with_twins"] += 1
            if c.meta["ref"][0] == "ok":
                ev = c.meta["ref"][2]
                if any(own_side(ev, i, 0) and own_side(ev, i, 1) for i in range(len(c.meta["prog"])) if is_full_case(c.meta["prog"], i)):
                    hist["shared_case_both_sides"] += 1
        if c.meta["env"] != rc.ENV0:
            hist["env1"] += 1
    stats.update(hist)
    rep.coverage["population"] = stats
    rep.coverage["rule"] = ("type-directed 1 -> 1 programs `comp (1 -> T) (T -> 1)` with nested cases over witness-chosen sums, DAG "
                            "sharing (one node object used in several places, so the same case node is reached with different "
                            "choices), twins (copies: distinct nodes, same IHR), words, 16 jets incl. lock-height jets under two "
                            "environments, assertions; witnesses chosen by the python reference run so that the program succeeds "
                            "(a quarter of the failing ones kept as a differential test of the run).  Distinct non-trivial = distinct "
                            "(environment, program) whose pruning changes the program")
    rep.coverage["samples"] = [{"kind": c.kind, "args": c.line[:300], "impl": (full.get(c.cid) or [])[:13]}
                               for c in cases[::max(1, len(cases) // 5)][:6]]
    vplib.finish_proof_verdict(rep, pfail)


def is_case_node(prog, i):
    return prog[i][0] == "case"


def replay(obj):
    print(json.dumps(obj, indent=1)[:6000])
    c = obj.get("case")
    if not c:
        return 0
    binary = rc.harness_binary()
    t = c["harness_args"].split()
    env = tuple(int(x) for x in t[0].split(":"))
    prog = rc.parse_pdl(t[1])
    wd = os.path.join(vplib.WORK, PROP)
    os.makedirs(wd, exist_ok=True)
    ar = rc.get_arrows(binary, [prog], wd)[0]
    case = make_case(c["id"], env, prog, ar, "replay")
    full = vplib.run_harness(binary, rc.COMMAND, ["%s %s %s" % (case.cid, case.kind, case.line)], workdir=wd)
    r = full.get(case.cid)
    vals, logs = vplib.coq_eval(IMPORTS, [model_expr(case, r)], workdir=wd, tag="replay")
    print("implementation:", r)
    print("projected     :", rc.project_c08(r))
    print("model         :", vals[0] if vals else logs)
    jet_idx = {name: idx for idx, name, _s, _t in pg.jet_list(binary, "e", wd)}
    vals2, logs2 = vplib.coq_eval(IMPORTS_FULL, [full_expr(case, jet_idx)], workdir=wd, tag="replayf")
    print("projected (end-to-end model):", project_full(r))
    print("end-to-end model            :", vals2[0] if vals2 else logs2)
    print("property      :", check_full(case, r))
    return 0
