(* C01 - the general structure theorem (all sizes): for ANY well-formed node table and ANY assignment of
   sharing ids in which no node carries the id of one of its proper descendants (true of every id that is
   a hash of the structure below the node), the node list that encode_program writes
       lin = linearise ns key
   is well formed, is in the decoder's canonical order (pointer post-order of lin from its last node yields
   0, 1, 2, ...), passes the decoder's second pass when it contains no hidden node, and is re-encoded as
   itself.  Until now this was proved for tables of up to 4 nodes by evaluation (Codec/Rules.v).

   Route: Codec/DagBridge.v identifies the codec's traversal with the C18 specification; C18's theorems
   give indices / children first / child indices / root last; Codec/PostOrderCanon.v proves that pointer
   iteration over the yielded items reproduces them in order; Codec/Structure.v does the rest. *)
From RS Require Import Lib.Tac Lib.Outcome Lib.Bits Lib.ListExtra Lib.Sweep Bits.Natural Bits.BitIter.
From RS Require Import Dag.DagModel Dag.PostOrderSpec Dag.PostOrderProps Dag.VisitFacts Dag.Acyclic.
From RS Require Import Codec.NodeCodec Codec.Linearise Codec.Decode Codec.Structure Codec.DagBridge Codec.PostOrderCanon.
Import ListNotations.
Local Open Scope N_scope.

Section General.
Variable jet : Type.
Variable jet_okb : jet -> bool.
Notation dnode := (dnode jet).
Notation tch := (tch jet).

Lemma dchildren_arity (d : dnode) : (length (dchildren d) <= 2)%nat.
Proof. destruct d; cbn; lia. Qed.

Lemma relabel_children (d : dnode) cis : length cis = length (dchildren d) -> dchildren (relabel d cis) = cis.
Proof.
  destruct d; destruct cis as [|a [|b [|c r]]]; cbn; intros H; try discriminate; reflexivity.
Qed.

Lemma relabel_wf (d : dnode) cis idx i : wf_node jet jet_okb idx d -> length cis = length (dchildren d) ->
  (forall c, In c cis -> c < i) -> wf_node jet jet_okb i (relabel d cis).
Proof.
  intros W L C.
  destruct d; destruct cis as [|a [|b [|c r]]]; cbn in L; try discriminate; cbn [relabel wf_node] in *; auto;
    try (apply C; left; reflexivity);
    try (split; apply C; [left|right; left]; reflexivity).
Qed.

Lemma relabel_not_hidden (d : dnode) cis h : relabel d cis = DHidden h -> d = DHidden h.
Proof. destruct d; destruct cis as [|a [|b [|c r]]]; cbn; intros E; try discriminate; exact E. Qed.

Lemma wf_nodes_of_nth (l : list dnode) : forall index,
  (forall m, (m < length l)%nat -> wf_node jet jet_okb (index + N.of_nat m) (nth m l DUnit)) ->
  wf_nodes jet jet_okb index l.
Proof.
  induction l as [|d l IH]; intros index H; [exact I|]. split.
  - specialize (H 0%nat ltac:(cbn; lia)). cbn [nth] in H. replace (index + N.of_nat 0) with index in H by lia. exact H.
  - apply IH. intros m Hm. specialize (H (S m) ltac:(cbn; lia)). cbn [nth] in H.
    replace (index + 1 + N.of_nat m) with (index + N.of_nat (S m)) by lia. exact H.
Qed.

Variable ns : list dnode.
Variable key : N -> option N.
Hypothesis ns_wf : wf_nodes jet jet_okb 0 ns.
Hypothesis ns_ne : ns <> [].

Let ch := tch ns.
Let root := N.of_nat (length ns) - 1.
Let dch := dag_of ch.
Let dkey := key_of key.
Let all := po_spec dch dkey (N.to_nat root).
Let lin := linearise ns key.

Hypothesis key_ac : key_acyclic dch dkey.

Lemma ch_wf : forall n c, In c (ch n) -> c < n.
Proof. exact (tch_wf jet jet_okb ns ns_wf). Qed.
Lemma ch_arity : forall n, (length (ch n) <= 2)%nat.
Proof. intros n. apply dchildren_arity. Qed.
Lemma dch_wfc : wfc dch.
Proof. exact (dag_of_wfc ch key ch_wf ch_arity). Qed.

Lemma root_nat : N.to_nat root = (length ns - 1)%nat.
Proof. unfold root. lia. Qed.

Lemma lin_items : lin = map (fun it => relabel (node_at ns (fst (conv it))) (snd (conv it))) all.
Proof.
  unfold lin, linearise. fold root.
  change (fun n : N => dchildren (node_at ns n)) with ch.
  rewrite (traverse_bridge ch key ch_wf ch_arity root). rewrite map_map. reflexivity.
Qed.

Lemma lin_length : length lin = length all.
Proof. rewrite lin_items, map_length. reflexivity. Qed.

(* what C18 says about the i-th item *)
Lemma item_facts i it : nth_error all i = Some it ->
  it_index it = N.of_nat i /\ (it_node it < length ns)%nat /\
  length (snd (conv it)) = length (ch (N.of_nat (it_node it))) /\
  (forall c, In c (snd (conv it)) -> c < N.of_nat i).
Proof.
  intros E.
  pose proof (po_indices dch dkey dch_wfc (N.to_nat root) i it E) as Hi.
  pose proof (po_children dch dkey dch_wfc (N.to_nat root) it (nth_error_In _ _ E)) as [Hl Hr].
  pose proof (po_only_reachable dch dkey dch_wfc (N.to_nat root) it (nth_error_In _ _ E)) as Hreach.
  apply (reach_le dch dch_wfc) in Hreach.
  split; [exact Hi|]. split.
  { rewrite root_nat in Hreach. destruct ns; [congruence|cbn [length] in *; lia]. }
  rewrite Hi in Hl, Hr. unfold child_ok in Hl, Hr. unfold conv. cbn [snd].
  unfold dch, dag_of in Hl, Hr. pose proof (ch_arity (N.of_nat (it_node it))) as Har.
  destruct (ch (N.of_nat (it_node it))) as [|a [|b [|c r]]]; cbn [length] in Har; try lia;
    cbn [left_child_of right_child_of] in Hl, Hr;
    destruct (it_left it) as [x|], (it_right it) as [y|]; try contradiction; cbn [length]; (split; [reflexivity|]);
    intros c' Hc'; cbn [In] in Hc'.
  - destruct Hc'.
  - destruct Hc' as [<-|[]]. tauto.
  - destruct Hc' as [<-|[<-|[]]]; tauto.
Qed.

Lemma lin_nth i it : nth_error all i = Some it ->
  nth i lin DUnit = relabel (node_at ns (N.of_nat (it_node it))) (snd (conv it)).
Proof.
  intros E. rewrite lin_items. apply nth_error_nth.
  rewrite (map_nth_error _ _ _ E). unfold conv. cbn [fst snd]. reflexivity.
Qed.

(* 1. the written list is well formed: children first, payloads untouched *)
Theorem lin_wf : wf_nodes jet jet_okb 0 lin.
Proof.
  apply wf_nodes_of_nth. intros m Hm. rewrite N.add_0_l.
  rewrite lin_length in Hm. destruct (nth_error all m) as [it|] eqn:E; [|apply nth_error_None in E; lia].
  rewrite (lin_nth m it E). destruct (item_facts m it E) as (_ & Hn & Hlen & Hlt).
  pose proof (wf_nodes_at jet jet_okb ns 0 ns_wf (it_node it) Hn) as W. rewrite N.add_0_l in W.
  unfold node_at. rewrite Nat2N.id.
  apply (relabel_wf _ _ (N.of_nat (it_node it)) _ W); [|exact Hlt].
  rewrite Hlen. unfold ch, Structure.tch, node_at. rewrite Nat2N.id. reflexivity.
Qed.

(* 2. read as a DAG, the written list is the DAG of the yielded items *)
Lemma lin_dag_eq : forall i, dag_of (tch lin) i = lin_dag all i.
Proof.
  intros i. unfold dag_of, Structure.tch, node_at, lin_dag. rewrite Nat2N.id.
  destruct (nth_error all i) as [it|] eqn:E.
  - rewrite (lin_nth i it E). destruct (item_facts i it E) as (_ & _ & Hlen & _).
    rewrite relabel_children.
    + unfold conv, item_node. cbn [snd]. destruct (it_left it), (it_right it); reflexivity.
    + rewrite Hlen. unfold ch, Structure.tch, node_at. rewrite Nat2N.id. reflexivity.
  - rewrite nth_overflow; [reflexivity|]. rewrite lin_length. apply nth_error_None. exact E.
Qed.

Lemma all_ne : all <> [].
Proof. exact (proj1 (canon_order dch dkey dch_wfc key_ac all (lin_dag_wfc dch dkey (N.to_nat root) dch_wfc) (N.to_nat root) eq_refl)). Qed.

Lemma lin_ne : lin <> [].
Proof. intros E. apply all_ne. apply length_zero_iff_nil. rewrite <- lin_length, E. reflexivity. Qed.

(* 3. canonical order: the decoder's pointer post-order of the written list is 0, 1, 2, ... *)
Theorem lin_canonical_order : order_of lin key_ptr = upto (length lin).
Proof.
  unfold order_of.
  rewrite (traverse_bridge (tch lin) key_ptr (tch_wf jet jet_okb lin lin_wf) (fun n => dchildren_arity _)).
  replace (N.to_nat (N.of_nat (length lin) - 1)) with (length all - 1)%nat by (rewrite lin_length; lia).
  rewrite (po_spec_ext (dag_of (tch lin)) (lin_dag all) (key_of key_ptr) DagModel.key_ptr lin_dag_eq (fun n => eq_refl)).
  rewrite (proj2 (canon_order dch dkey dch_wfc key_ac all (lin_dag_wfc dch dkey (N.to_nat root) dch_wfc) (N.to_nat root) eq_refl)).
  rewrite !map_map. rewrite lin_length. unfold upto.
  apply nth_ext with (d := 0) (d' := 0).
  - rewrite !map_length, seq_length. reflexivity.
  - intros i Hi. rewrite map_length in Hi.
    destruct (nth_error all i) as [it|] eqn:E; [|apply nth_error_None in E; lia].
    rewrite (nth_error_nth _ _ 0 (map_nth_error (fun x => fst (conv (id_item x))) _ _ E)).
    assert (Es : nth_error (seq 0 (length all)) i = Some i).
    { pose proof (@seq_nth (length all) 0 i 0%nat Hi) as Sn. cbn [Nat.add] in Sn. rewrite <- Sn at 2.
      apply nth_error_nth'. rewrite seq_length. exact Hi. }
    rewrite (nth_error_nth _ _ 0 (map_nth_error N.of_nat _ _ Es)).
    unfold conv, id_item. cbn [fst it_node]. rewrite N2Nat.id. apply (proj1 (item_facts i it E)).
Qed.

(* 4. the second pass of the decoder accepts a written list without hidden nodes *)
Lemma conv_loop_plain : forall m k,
  (forall i, (i < m)%nat -> forall h, node_at lin (k + N.of_nat i) <> DHidden h) ->
  (forall i, (i < m)%nat -> forall c, In c (dchildren (node_at lin (k + N.of_nat i))) -> c < k + N.of_nat i) ->
  conv_loop lin (map (fun i => k + N.of_nat i) (seq 0 m)) k (repeat true (N.to_nat k)) [] =
  Ok (repeat true (N.to_nat k + m)).
Proof.
  induction m as [|m IH]; intros k Hh Hc.
  - cbn [seq map conv_loop]. rewrite Nat.add_0_r. reflexivity.
  - cbn [seq map conv_loop]. rewrite N.add_0_r, N.eqb_refl. cbn [negb].
    pose proof (Hh 0%nat ltac:(lia)) as Hh0. pose proof (Hc 0%nat ltac:(lia)) as Hc0.
    rewrite N.add_0_r in Hh0, Hc0.
    assert (Hget : forall c, c < k -> nth_error (repeat true (N.to_nat k)) (N.to_nat c) = Some true).
    { intros c Hck. rewrite nth_error_repeat by lia. reflexivity. }
    assert (Hnode : conv_node (node_at lin k) (repeat true (N.to_nat k)) [] = Ok (true, [])).
    { destruct (node_at lin k) eqn:En; cbn [conv_node dchildren] in *; try reflexivity;
        unfold conv_get;
        try (rewrite (Hget i (Hc0 i (or_introl eq_refl))));
        try (rewrite (Hget j (Hc0 j (or_intror (or_introl eq_refl)))));
        try reflexivity.
      exfalso. apply (Hh0 cmr). reflexivity. }
    rewrite Hnode.
    replace (repeat true (N.to_nat k) ++ [true]) with (repeat true (N.to_nat (k + 1))).
    2:{ replace (N.to_nat (k + 1)) with (N.to_nat k + 1)%nat by lia. rewrite repeat_app. reflexivity. }
    rewrite <- seq_shift, map_map.
    rewrite (map_ext (fun x => k + N.of_nat (S x)) (fun x => k + 1 + N.of_nat x)) by (intros x; lia).
    rewrite IH.
    + f_equal. f_equal. lia.
    + intros i Hi h. replace (k + 1 + N.of_nat i) with (k + N.of_nat (S i)) by lia. apply Hh. lia.
    + intros i Hi c. replace (k + 1 + N.of_nat i) with (k + N.of_nat (S i)) by lia. apply Hc. lia.
Qed.

Theorem lin_accepted : (forall d, In d lin -> forall h, d <> DHidden h) -> dec_struct lin = Ok tt.
Proof.
  intros Hnh. unfold dec_struct.
  destruct (Nat.eqb_spec (length lin) 0) as [E0|E0]; [exfalso; apply lin_ne, length_zero_iff_nil, E0|].
  rewrite lin_canonical_order. unfold upto.
  rewrite (map_ext N.of_nat (fun i => 0 + N.of_nat i)) by (intros; lia).
  change (@nil bool) with (repeat true (N.to_nat 0)).
  rewrite conv_loop_plain.
  - cbn [N.to_nat Nat.add]. unfold conv_get. rewrite nth_error_repeat by lia. reflexivity.
  - intros i Hi h. rewrite N.add_0_l. apply Hnh. unfold node_at. rewrite Nat2N.id. apply nth_In. exact Hi.
  - intros i Hi c Hc. rewrite N.add_0_l in *. apply (tch_wf jet jet_okb lin lin_wf _ _ Hc).
Qed.

(* 5. ... and re-encodes it as itself *)
Theorem lin_fixed : (forall d, In d lin -> forall h, d <> DHidden h) -> linearise lin key_ptr = lin.
Proof.
  intros Hnh.
  apply (reencode_id jet jet_okb lin key_ptr (fun p => p) lin_wf (fun p _ => eq_refl) (fun p q _ _ E => E) (lin_accepted Hnh)).
Qed.

End General.
