(* C18 - hooks in post-order, failing conversions: when a hook returns Err the log is a prefix of
   the post-order hook sequence (nothing is called after the failing hook, nothing out of order
   before it). *)
From RS Require Import Lib.Tac Lib.Outcome Dag.DagModel Dag.PostOrderSpec Dag.PostOrderProps
  Dag.VisitFacts Dag.Convert Dag.ConvertProps Dag.ConvertOrder.
Import ListNotations.
Local Open Scope N_scope.

Section Err.
Context {X W D X' W' D' St Er : Type}.
Variable cv : @converter X W X' W' D' St Er.
Variable t : list (@snode X W D).

Ltac log_steps conv :=
  repeat (first
    [ progress cbn [idx_inner unwrap_idx omap obind wit_inner disc_inner clone_inner prune_inner lift_hook
                    logging cv_visit cv_witness cv_disconnect cv_prune cv_data fst snd] in *
    | progress unfold clone_idx, maybe_converted in *
    | match goal with
      | H : context [match nth_error conv ?i with _ => _ end] |- _ => destruct (nth_error conv i) eqn:?
      | H : context [snd (cv_witness ?a ?b ?c ?d)] |- _ => destruct (cv_witness a b c d) as [? [?|?]]
      | H : context [snd (cv_disconnect ?a ?b ?c ?d ?e ?f)] |- _ => destruct (cv_disconnect a b c d e f) as [? [?|?]]
      | H : context [snd (cv_prune ?a ?b ?c ?d ?e ?f)] |- _ => destruct (cv_prune a b c d e f) as [? [?|?]]
      | H : context [snd (cv_data ?a ?b ?c ?d ?e)] |- _ => destruct (cv_data a b c d e) as [? [?|?]]
      end ]).

Lemma conv_item_log_err it sn s lg conv s' lg' e :
  nth_error t (it_node it) = Some sn ->
  conv_item (logging cv) t it (s, lg) conv = Err ((s', lg'), e) ->
  exists k, map ev_key lg' = map ev_key lg ++ firstn k (hooks_at t it).
Proof.
  intros Hn H. unfold hooks_at. rewrite Hn. unfold conv_item in H. rewrite Hn in H.
  destruct (sn_inner sn) as [| |c|c|c|c|l r|l r|c h|h c|l r|c x|w|e0|j|w] eqn:Ei;
    destruct (it_left it) as [li|]; destruct (it_right it) as [ri|];
    log_steps conv; try discriminate.
  all: injection H as <- <- <-; cbn [hooks_of map]; rewrite ?map_app, <- ?app_assoc; cbn [map app].
  all: first [ exists 1%nat; reflexivity | exists 2%nat; reflexivity | exists 3%nat; reflexivity ].
Qed.

Lemma firstn_app_l {A} (a b : list A) : firstn (length a) (a ++ b) = a.
Proof. rewrite firstn_app, Nat.sub_diag, firstn_O, app_nil_r. apply firstn_all. Qed.

Lemma conv_items_log_err : forall items s lg conv s' lg' e,
  conv_items (logging cv) t items (s, lg) conv = Err ((s', lg'), e) ->
  exists k, map ev_key lg' = map ev_key lg ++ firstn k (flat_map (hooks_at t) items).
Proof.
  induction items as [|it rest IH]; intros s lg conv s' lg' e H; cbn [conv_items] in H.
  - unfold conv_finish in H. destruct conv; discriminate.
  - destruct (nth_error t (it_node it)) as [sn|] eqn:Hn.
    2:{ unfold conv_item in H. rewrite Hn in H. discriminate. }
    destruct (conv_item (logging cv) t it (s, lg) conv) as [[[s1 lg1] n]|[[s1 lg1] e1]| |] eqn:Ec; try discriminate.
    + cbn [obind] in H. apply IH in H. destruct H as (k & Hk).
      pose proof (conv_item_log cv t it sn s lg conv s1 lg1 n Hn Ec) as H1.
      exists (length (hooks_at t it) + k)%nat. rewrite Hk, H1, <- app_assoc. f_equal.
      cbn [flat_map]. rewrite firstn_app.
      rewrite (@firstn_all2 _ (length (hooks_at t it) + k) (hooks_at t it)) by lia. f_equal.
      replace (length (hooks_at t it) + k - length (hooks_at t it))%nat with k by lia. reflexivity.
    + cbn [obind] in H. injection H as <- <- <-.
      destruct (conv_item_log_err it sn s lg conv s1 lg1 e1 Hn Ec) as (k & Hk).
      exists (Nat.min k (length (hooks_at t it))). rewrite Hk. f_equal. cbn [flat_map].
      rewrite firstn_app. replace (Nat.min k (length (hooks_at t it)) - length (hooks_at t it))%nat with O by lia.
      rewrite firstn_O, app_nil_r.
      destruct (Nat.le_gt_cases k (length (hooks_at t it))).
      * rewrite Nat.min_l by lia. reflexivity.
      * rewrite Nat.min_r by lia. rewrite (@firstn_all2 _ k (hooks_at t it)) by lia.
        rewrite (@firstn_all2 _ (length (hooks_at t it)) (hooks_at t it)) by lia. reflexivity.
Qed.
End Err.

(* THEOREM: a failing conversion stopped inside the post-order hook sequence *)
Theorem convert_order_err {X W D X' W' D' St Er : Type} (dis : X -> option nat)
    (cv : @converter X W X' W' D' St Er) key (t : list (@snode X W D)) :
  swf dis t -> forall root, (root < length t)%nat -> forall fuel s s' lg e,
  (po_fuel (src_children dis t) root <= fuel)%nat ->
  convert dis (logging cv) key t fuel root (s, []) = Err ((s', lg), e) ->
  exists k, map ev_key lg = firstn k (flat_map (hooks_at t) (po_spec (src_children dis t) key root)).
Proof.
  intros Hwf root Hroot fuel s s' lg e Hf H.
  rewrite (convert_items dis (logging cv) key t Hwf root Hroot fuel (s, []) Hf) in H.
  apply conv_items_log_err in H. exact H.
Qed.
