(* C01 - "decodes to the same node list up to the sharing quotient", made explicit, at the level of programs.
   decoded_prog p keys (Codec/RunRoots.v) is the program the decoder rebuilds from what encode_program writes:
   the yielded items of the post-order iteration of p under the sharing ids, children = yielded indices,
   payload (and witness value) of the first-yielded node of every class.

   THEOREM decoded_is_quotient: if the program consists of the nodes reachable from its root, every node has
   a sharing id (redemption time), and the ids are
     congruent            same id => same arity, pairwise children the same node or of the same id
     payload-respecting   same id => same constructor and payload (jet, word, fail entropy, witness value, CMR)
   then the decoded program is the quotient of p by  phi = class_idx  (Codec/Reinfer.v quotient_of) and is
   well formed.  With Codec/Reinfer.v and Codec/RootsRT.v: same arrows after re-inference, same IHR and AMR.
   Identity hashes that commit to the children's identity hashes are congruent; the identity hash of the
   library commits to the children's IMRs only, which is how the twins of finding F-C01 arise (Codec/Twins.v). *)
From RS Require Import Lib.Tac Lib.Outcome Lib.Bits Lib.ListExtra Ty.Ty Core.Prog.
From RS Require Import Dag.DagModel Dag.PostOrderSpec Dag.PostOrderProps Dag.VisitFacts Dag.Coverage Dag.Acyclic.
From RS Require Import Infer.Constraints Infer.Infer Infer.Order.
From RS Require Import Codec.NodeCodec Codec.Linearise Codec.Structure Codec.WitnessCodec Codec.Run Codec.DagBridge
  Codec.ClassMap Codec.Reinfer Codec.DecodedProg.
Import ListNotations.
Local Open Scope N_scope.

Lemma pdl_children nd : dchildren (pdl_node true nd) = map N.of_nat (children nd).
Proof. destruct nd; try reflexivity. destruct r; reflexivity. Qed.

Lemma relabel_rename f nd : relabel_node nd (map f (children nd)) = rename_node f nd.
Proof. destruct nd; try reflexivity. destruct r; reflexivity. Qed.

(* constructor and payload of a node *)
Definition skeleton (nd : node) : node := rename_node (fun _ => 0%nat) nd.

Lemma rename_of_skeleton f a b : skeleton a = skeleton b -> map f (children a) = map f (children b) ->
  rename_node f a = rename_node f b.
Proof.
  unfold skeleton.
  destruct a as [ | |c|c|c|c|l r|l r|l r|l ro|h|e|fm n|n bs|w], b as [ | |c'|c'|c'|c'|l' r'|l' r'|l' r'|l' ro'|h'|e'|fm' n'|n' bs'|w'];
    cbn [rename_node children map]; intros S C; try discriminate S; try reflexivity;
    try (destruct ro as [r|], ro' as [r'|]; cbn [option_map children map] in *; try discriminate S);
    try (injection C; intros; congruence);
    try (injection S; intros; subst; reflexivity).
Qed.

Lemma wf_from_of_topo : forall (q : prog) k,
  (forall j c, (j < length q)%nat -> In c (children (nth j q NIden)) -> (c < k + j)%nat) -> wf_from k q = true.
Proof.
  induction q as [|nd q IH]; intros k H; [reflexivity|]. cbn [wf_from]. apply andb_true_iff. split.
  - apply forallb_forall. intros c Hc. apply Nat.ltb_lt. specialize (H 0%nat c ltac:(cbn; lia) Hc). lia.
  - apply IH. intros j c Hj Hc. specialize (H (S j) c ltac:(cbn; lia) Hc). lia.
Qed.

Section Quot.
Variable p : prog.
Variable keys : list (option N).
Hypothesis Wp : wf_from 0 p = true.
Hypothesis p_ne : p <> [].

Let ns : list dn := map (pdl_node true) p.
Let ch := tch N ns.
Let key := key_list keys.
Let root := N.of_nat (length ns) - 1.
Let dch := dag_of ch.
Let dkey := key_of key.
Let rootn := N.to_nat root.

Lemma ns_len : length ns = length p. Proof. apply map_length. Qed.

Lemma ch_eq n : ch (N.of_nat n) = map N.of_nat (children (nth n p NUnit)).
Proof.
  unfold ch, Structure.tch, node_at, ns. rewrite Nat2N.id.
  change (@DUnit N) with (pdl_node true NUnit). rewrite map_nth. apply pdl_children.
Qed.

Lemma nth_unit_iden n : (n < length p)%nat -> nth n p NUnit = nth n p NIden.
Proof. intros H. apply nth_indep. exact H. Qed.

Lemma chq_wf : forall n c, In c (ch n) -> c < n.
Proof.
  intros n c Hc. rewrite <- (N2Nat.id n) in Hc. rewrite ch_eq in Hc. apply in_map_iff in Hc.
  destruct Hc as (c0 & <- & Hc0).
  destruct (Nat.lt_ge_cases (N.to_nat n) (length p)) as [Hlt|Hge].
  - rewrite nth_unit_iden in Hc0 by exact Hlt. pose proof (wf_prog_topo _ Wp _ _ Hlt Hc0). lia.
  - rewrite nth_overflow in Hc0 by exact Hge. destruct Hc0.
Qed.

Lemma chq_arity : forall n, (length (ch n) <= 2)%nat.
Proof. intros n. unfold ch, Structure.tch. destruct (node_at ns n); cbn; lia. Qed.

Lemma dchq_wfc : wfc dch.
Proof. exact (dag_of_wfc ch key chq_wf chq_arity). Qed.

(* the children of a node of the DAG are the children of the PDL node *)
Lemma dch_children n :
  children (nth n p NUnit) =
  match left_child_of (dch n), right_child_of (dch n) with
  | Some a, Some b => [a; b] | Some a, None => [a] | None, _ => [] end.
Proof.
  unfold dch, dag_of. rewrite ch_eq. pose proof (chq_arity (N.of_nat n)) as Har. rewrite ch_eq, map_length in Har.
  destruct (children (nth n p NUnit)) as [|a [|b [|c r]]]; cbn [length] in Har; try lia;
    cbn [map left_child_of right_child_of]; rewrite ?Nat2N.id; reflexivity.
Qed.

Hypothesis Hreach : forall i, (i < length p)%nat -> reach dch rootn i.
Hypothesis Htot : forall i, (i < length p)%nat -> dkey i <> None.
Hypothesis Hcong : key_congruent dch dkey.
Hypothesis Hpay : forall a b, (a < length p)%nat -> (b < length p)%nat -> dkey a = dkey b ->
  skeleton (nth a p NUnit) = skeleton (nth b p NUnit).

Lemma rootn_eq : rootn = (length p - 1)%nat.
Proof. unfold rootn, root. rewrite ns_len. lia. Qed.

Lemma reach_lt x : reach dch rootn x -> (x < length p)%nat.
Proof.
  intros H. apply (reach_le dch dchq_wfc) in H. rewrite rootn_eq in H. destruct p; [congruence|cbn [length] in *; lia].
Qed.

Lemma Htot' : forall x, reach dch rootn x -> dkey x <> None.
Proof. intros x H. apply Htot, reach_lt, H. Qed.

Notation phi := (class_idx dch dkey rootn).
Notation all := (cm_all dch dkey rootn).

Definition item_prog_node (it : po_item) : node :=
  relabel_node (nth (it_node it) p NUnit) (map N.to_nat (snd (conv it))).

Lemma decoded_items : decoded_prog p keys = map item_prog_node all.
Proof.
  unfold decoded_prog. fold ns. change (fun n : N => dchildren (node_at ns n)) with ch. fold key. fold root.
  rewrite (traverse_bridge ch key chq_wf chq_arity root). rewrite map_map. fold dch dkey rootn.
  apply map_ext. intros it. unfold item_prog_node, conv. cbn [fst snd]. rewrite Nat2N.id. reflexivity.
Qed.

(* the node written for an item is its PDL node with the children renamed by phi *)
Lemma item_node_rename i it : nth_error all i = Some it ->
  item_prog_node it = rename_node phi (nth (it_node it) p NUnit).
Proof.
  intros E. unfold item_prog_node. rewrite <- relabel_rename. f_equal.
  destruct (item_children dch dkey rootn dchq_wfc Htot' i it E) as [El Er].
  unfold conv. cbn [snd]. rewrite El, Er. rewrite dch_children.
  destruct (left_child_of (dch (it_node it))) as [a|], (right_child_of (dch (it_node it))) as [b|];
    cbn [option_map map]; rewrite ?Nat2N.id; reflexivity.
Qed.

Theorem decoded_is_quotient :
  quotient_of phi p (decoded_prog p keys) /\ wf_from 0 (decoded_prog p keys) = true.
Proof.
  rewrite decoded_items. split.
  - constructor.
    + intros i Hi. rewrite map_length.
      destruct (class_idx_reach dch dkey rootn dchq_wfc Hcong Htot' i (Hreach i Hi)) as (it & Hit & Hk).
      split; [apply nth_error_Some; congruence|].
      rewrite (nth_error_nth _ _ NIden (map_nth_error item_prog_node _ _ Hit)).
      rewrite (item_node_rename _ _ Hit).
      pose proof (item_reach dch dkey rootn dchq_wfc it (nth_error_In _ _ Hit)) as Hr. pose proof (reach_lt _ Hr) as Ln.
      rewrite <- (nth_unit_iden i Hi).
      apply rename_of_skeleton; [apply Hpay; assumption|].
      destruct (class_children dch dkey rootn Hcong (it_node it) i Hk (Htot _ Ln)) as [Cl Cr].
      rewrite !dch_children.
      destruct (left_child_of (dch (it_node it))) as [a|], (left_child_of (dch i)) as [a'|]; cbn [option_map] in Cl; try discriminate;
        destruct (right_child_of (dch (it_node it))) as [b|], (right_child_of (dch i)) as [b'|]; cbn [option_map] in Cr; try discriminate;
        cbn [map]; congruence.
    + intros j Hj. rewrite map_length in Hj.
      destruct (nth_error all j) as [it|] eqn:E; [|apply nth_error_None in E; lia].
      exists (it_node it). split.
      * apply reach_lt. apply (item_reach dch dkey rootn dchq_wfc it (nth_error_In _ _ E)).
      * apply (class_idx_item dch dkey rootn dchq_wfc Htot' j it E).
  - apply wf_from_of_topo. intros j c Hj Hc. rewrite map_length in Hj. cbn [Nat.add].
    destruct (nth_error all j) as [it|] eqn:E; [|apply nth_error_None in E; lia].
    rewrite (nth_error_nth _ _ NIden (map_nth_error item_prog_node _ _ E)) in Hc.
    rewrite (item_node_rename _ _ E), children_rename in Hc.
    destruct (item_children dch dkey rootn dchq_wfc Htot' j it E) as [El Er].
    destruct (item_child_lt dch dkey rootn dchq_wfc j it E) as [Bl Br].
    rewrite dch_children in Hc.
    destruct (left_child_of (dch (it_node it))) as [a|]; cbn [option_map] in El;
      destruct (right_child_of (dch (it_node it))) as [b|]; cbn [option_map] in Er; cbn [map In] in Hc.
    + destruct Hc as [<-|[<-|[]]]; [specialize (Bl _ El)|specialize (Br _ Er)]; lia.
    + destruct Hc as [<-|[]]. specialize (Bl _ El). lia.
    + destruct Hc.
    + destruct Hc.
Qed.

(* under acyclic ids the root is yielded last: the root of the decoded program is the image of the root *)
Theorem decoded_root : Acyclic.key_acyclic dch dkey ->
  phi (length p - 1)%nat = (length (decoded_prog p keys) - 1)%nat.
Proof.
  intros Hac. rewrite decoded_items, map_length.
  destruct (Acyclic.po_root_last_no_orphans dch dkey dchq_wfc Hac rootn) as (o & it & Ho & Hn & _ & _).
  fold all in Ho.
  assert (E : nth_error all (length o) = Some it).
  { rewrite Ho. rewrite nth_error_app2 by lia. rewrite Nat.sub_diag. reflexivity. }
  pose proof (class_idx_item dch dkey rootn dchq_wfc Htot' _ _ E) as X. rewrite Hn in X.
  rewrite <- rootn_eq, X, Ho, app_length. cbn [length]. lia.
Qed.

End Quot.

(* ------------------------------------------------------------------ end to end *)
From RS Require Import Merkle.Tagged Merkle.Cmr Merkle.Ihr Codec.RootsRT.

(* THEOREM (C01, structure + types + identity and annotated roots): for a redemption-time program that consists
   of the nodes reachable from its root, typed with its principal arrows, under sharing ids that are present
   on every node, acyclic, congruent, payload-respecting and arrow-respecting (all true of an identity hash that
   commits to constructor, payload, witness value, arrow and the children's identity hashes), the program that
   the decoder rebuilds from the encoder's node list - re-typed by inference from scratch, its roots recomputed
   with any compression function - has, at the image of every node, the same arrow, AMR, IMR and IHR. *)
Theorem decoded_fixed_point
  (H : Type) (compress : H -> H * H -> H) (iv ivi : tag -> H) (zero : H) (of_weight : N -> H) (bit_cmr : bool -> H)
  (tmr_unit : H) (tmr_two_two_n : list H) (jet_cmr : N -> N -> H) (h_of_bytes : list N -> H)
  (compact_value : list bool -> H)
  (jt : jet_table) (p : prog) (keys : list (option N)) (tau : list (option tarrow)) :
  let dch := dag_of (tch N (map (pdl_node true) p)) in
  let dkey := key_of (key_list keys) in
  let rootn := (length p - 1)%nat in
  let phi := class_idx dch dkey rootn in
  let p' := decoded_prog p keys in
  wf_from 0 p = true -> p <> [] ->
  (forall i, (i < length p)%nat -> reach dch rootn i) ->
  (forall i, (i < length p)%nat -> dkey i <> None) ->
  key_congruent dch dkey -> key_acyclic dch dkey ->
  (forall a b, (a < length p)%nat -> (b < length p)%nat -> dkey a = dkey b ->
     skeleton (nth a p NUnit) = skeleton (nth b p NUnit)) ->
  infer jt (Some rootn) p = Ok tau ->
  (forall a b, (a < length p)%nat -> (b < length p)%nat -> dkey a = dkey b -> nth a tau None = nth b tau None) ->
  quotient_of phi p p' /\
  exists tau', infer jt (Some (length p' - 1)%nat) p' = Ok tau' /\
    (forall i, (i < length p)%nat -> nth (phi i) tau' None = nth i tau None) /\
    forall t, redeem_table H compress iv ivi zero of_weight bit_cmr tmr_unit tmr_two_two_n jet_cmr h_of_bytes
                compact_value (combine p tau) = Ok t ->
      exists t', redeem_table H compress iv ivi zero of_weight bit_cmr tmr_unit tmr_two_two_n jet_cmr h_of_bytes
                   compact_value (combine p' tau') = Ok t' /\
        forall i, (i < length p)%nat -> nth_error t' (phi i) = nth_error t i.
Proof.
  intros dch dkey rootn phi p' Wp Hne Hreach Htot Hcong Hac Hpay E Harr.
  assert (Er : N.to_nat (N.of_nat (length (map (pdl_node true) p)) - 1) = rootn).
  { unfold rootn. rewrite map_length. lia. }
  pose proof (decoded_is_quotient p keys Wp Hne) as Q. cbv zeta in Q. rewrite Er in Q.
  specialize (Q Hreach Htot Hcong Hpay). destruct Q as [Q Wq]. fold dch dkey phi p' in Q, Wq.
  pose proof (decoded_root p keys Wp Hne) as R. cbv zeta in R. rewrite Er in R.
  specialize (R Hreach Htot Hcong Hpay Hac). fold dch dkey phi p' in R.
  split; [exact Q|].
  assert (Hroot : (rootn < length p)%nat) by (unfold rootn; destruct p; [congruence|cbn [length]; lia]).
  assert (Hcls : forall i j, (i < length p)%nat -> (j < length p)%nat -> phi i = phi j -> nth i tau None = nth j tau None).
  { intros i j Hi Hj Eij. apply Harr; try assumption.
    assert (Htot' : forall x, reach dch rootn x -> dkey x <> None).
    { intros x Hx. apply Htot. apply (reach_le dch) in Hx.
      - unfold rootn in Hx. destruct p; [congruence|cbn [length] in *; lia].
      - pose proof (dchq_wfc p keys Wp) as W. cbv zeta in W. exact W. }
    pose proof (dchq_wfc p keys Wp) as W. cbv zeta in W.
    destruct (class_idx_reach dch dkey rootn W Hcong Htot' i (Hreach i Hi)) as (it1 & H1 & K1).
    destruct (class_idx_reach dch dkey rootn W Hcong Htot' j (Hreach j Hj)) as (it2 & H2 & K2).
    fold phi in H1, H2. rewrite Eij in H1. rewrite H1 in H2. injection H2 as <-. congruence. }
  destruct (roundtrip_fixed_point H compress iv ivi zero of_weight bit_cmr tmr_unit tmr_two_two_n jet_cmr h_of_bytes
              compact_value jt phi p p' rootn tau Wp Wq Q Hroot E Hcls) as (tau' & E' & Hs & Ht).
  exists tau'. rewrite <- R. auto.
Qed.
