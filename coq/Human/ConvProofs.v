(* C17 - the parser model applied to the output of the renderer model, part 2: step 3 of the
   parser (construction of the named nodes, `conv`) rebuilds the rendered DAG node by node.
   Invariant `invA`: a map M from the nodes of d converted so far to the nodes built for them. *)
From RS Require Import Lib.Tac Lib.Outcome Human.Namer Human.Render Human.Resolve
  Human.RenderProofs Human.ResolveProofs.
Import ListNotations.
Local Open Scope N_scope.

(* ------------------------------------------------------------------ index maps *)
Definition lift (M : list (nat * nat)) (o : option nat) : option nat :=
  match o with Some c => map_get M c | None => None end.

Definition extends (M M' : list (nat * nat)) : Prop :=
  forall c jc, map_get M c = Some jc -> map_get M' c = Some jc.

Lemma extends_refl M : extends M M.
Proof. intros c jc H. exact H. Qed.

Lemma extends_trans M1 M2 M3 : extends M1 M2 -> extends M2 M3 -> extends M1 M3.
Proof. intros H1 H2 c jc H. apply H2, H1, H. Qed.

Lemma map_get_cons a j M c :
  map_get ((a, j) :: M) c = if Nat.eqb a c then Some j else map_get M c.
Proof. reflexivity. Qed.

Lemma extends_cons a j M : map_get M a = None -> extends M ((a, j) :: M).
Proof.
  intros H c jc Hc. rewrite map_get_cons. destruct (Nat.eqb a c) eqn:E.
  - apply Nat.eqb_eq in E. subst. congruence.
  - exact Hc.
Qed.

Lemma map_get_keys M a j : map_get M a = Some j -> In a (map fst M).
Proof.
  induction M as [|[b k] r IH]; [discriminate|]. rewrite map_get_cons.
  destruct (Nat.eqb b a) eqn:E.
  - apply Nat.eqb_eq in E. subst. intros _. left. reflexivity.
  - intros H. right. apply IH. exact H.
Qed.

Lemma map_get_none_keys M a : map_get M a = None -> ~ In a (map fst M).
Proof.
  induction M as [|[b k] r IH]; [intros _ []|]. rewrite map_get_cons.
  destruct (Nat.eqb b a) eqn:E; [discriminate|].
  intros H [Hb|Hin]; [cbn in Hb; subst; rewrite Nat.eqb_refl in E; discriminate | exact (IH H Hin)].
Qed.

Definition hole_node (h : name) : nnode := mk_nn KWitness [] None None h (Some h).

Lemma nget_app_old t more j : (j < length t)%nat -> nget (t ++ more) j = nget t j.
Proof. intros H. unfold nget. apply app_nth1. exact H. Qed.

Lemma nget_app_new t n : nget (t ++ [n]) (length t) = n.
Proof. unfold nget. rewrite app_nth2 by lia. rewrite Nat.sub_diag. reflexivity. Qed.

(* ------------------------------------------------------------------ unfolding `conv` *)
Section Unfold.
Variable um : umap.
Variable cmr_of : ndag -> nat -> list N.
Let defined := map fst um.

Definition complete_of (k : kind) (l' r' : option nat) : bool :=
  match arity k, k with
  | _, KDisconnect => opt_some l' && opt_some r'
  | O, _ => true
  | S O, _ => opt_some l'
  | _, _ => opt_some l' && opt_some r'
  end.

Definition conv_sub (f : nat) (vis : list name) (c : option expr) (s : rstate) : option nat * rstate :=
  match c with Some x => conv um cmr_of f vis None x s | None => (None, s) end.

Lemma conv_ref_eq f vis own n st :
  conv um cmr_of (S f) vis own (ERef n) st =
  let '(r, st1) :=
    match memo_get (rs_memo st) n with
    | Some r => (r, st)
    | None =>
        if mem_name n vis then (None, add_err ENameMissing st)
        else match um_get um n with
             | None => (None, add_err ENameMissing st)
             | Some None => (None, memo_add n None (add_err ENameIncomplete st))
             | Some (Some e') =>
                 let '(r, st') := conv um cmr_of f (n :: vis) (Some n) e' st in
                 (r, memo_add n r st')
             end
    end in
  match own, r with
  | Some m, Some j =>
      let c := nget (rs_tbl st1) j in
      push_node (mk_nn (nn_kind c) (nn_pay c) (nn_l c) (nn_r c) m (nn_hole c)) st1
  | _, _ => (r, st1)
  end.
Proof. reflexivity. Qed.

Lemma conv_hole_eq f vis own h st :
  conv um cmr_of (S f) vis own (EHole h) st =
  push_node (mk_nn KWitness [] None None (match own with Some n => n | None => h end) (Some h)) st.
Proof. reflexivity. Qed.

Lemma conv_node_eq f vis own k pay l r st :
  conv um cmr_of (S f) vis own (ENode k pay l r) st =
  let '(l', st1) := conv_sub f vis l st in
  let '(r', st2) := conv_sub f vis r st1 in
  if complete_of k l' r' then
    let '(nme, st3) := fresh_name defined own k st2 in
    push_node (mk_nn k pay l' r' nme None) st3
  else (None, st2).
Proof. reflexivity. Qed.

Lemma conv_alit_eq f vis own k c pay st :
  conv um cmr_of (S f) vis own (EAssertLit k c pay) st =
  let '(c', st1) := conv um cmr_of f vis None c st in
  match c' with
  | Some cj =>
      let '(nme, st2) := fresh_name defined own k st1 in
      push_node (mk_nn k pay (Some cj) None nme None) st2
  | None => (None, st1)
  end.
Proof. reflexivity. Qed.
End Unfold.

(* ------------------------------------------------------------------ the invariant *)
Section StageA.
Variable d : ndag.
Hypothesis W : wf_ndag d = true.
Hypothesis Hnames : NoDup (map (nname d) (post_order d)).
Variable um : umap.
Hypothesis Hum : forall a, In a (post_order d) ->
  um_get um (nname d a) = Some (Some (expr_of_defline (line_of d a))).
Variable cmr_of : ndag -> nat -> list N.
Variable rank : nat -> nat.
Hypothesis rank_child : forall a c, In a (post_order d) -> child d a c -> (rank c < rank a)%nat.

Let PO := post_order d.
Let F : po_facts d PO := post_order_facts d W.

Lemma name_inj a b : In a PO -> In b PO -> nname d a = nname d b -> a = b.
Proof.
  intros Ha Hb E. subst PO. revert Hnames Ha Hb E. generalize (post_order d) as l.
  induction l as [|x r IH]; intros Hd Ha Hb E; [inversion Ha|].
  cbn [map] in Hd. inversion Hd as [|? ? Hx Hr]; subst.
  destruct Ha as [->|Ha], Hb as [->|Hb].
  - reflexivity.
  - exfalso. apply Hx. rewrite E. apply in_map. exact Hb.
  - exfalso. apply Hx. rewrite <- E. apply in_map. exact Ha.
  - apply IH; assumption.
Qed.

(* node j of the built table stands for node a of d *)
Record node_relA (M : list (nat * nat)) (t : ndag) (a j : nat) : Prop := mk_relA {
  ra_lt : (j < length t)%nat;
  ra_kind : nn_kind (nget t j) = nn_kind (nget d a);
  ra_pay : nn_pay (nget t j) = nn_pay (nget d a);
  ra_name : nn_name (nget t j) = nn_name (nget d a);
  ra_hole : nn_hole (nget t j) = None;
  ra_l : nn_l (nget t j) = lift M (nn_l (nget d a));
  ra_ldef : forall c, nn_l (nget d a) = Some c -> exists jc, map_get M c = Some jc /\ (jc < j)%nat;
  ra_r : match nn_kind (nget d a) with
         | KDisconnect =>
             exists h hn, nn_r (nget t j) = Some h /\ (h < j)%nat /\
                          nn_hole (nget d a) = Some hn /\ nget t h = hole_node hn
         | _ => nn_r (nget t j) = lift M (nn_r (nget d a)) /\
                forall c, nn_r (nget d a) = Some c -> exists jc, map_get M c = Some jc /\ (jc < j)%nat
         end }.

Lemma lift_extends M M' o : extends M M' ->
  (forall c, o = Some c -> exists jc, map_get M c = Some jc) -> lift M' o = lift M o.
Proof.
  intros E H. destruct o as [c|]; [|reflexivity]. cbn. destruct (H c eq_refl) as [jc Hj].
  rewrite Hj. apply E. exact Hj.
Qed.

Lemma node_relA_mono M M' t more a j :
  extends M M' -> node_relA M t a j -> node_relA M' (t ++ more) a j.
Proof.
  intros E [Hlt Hk Hp Hn Hh Hl Hld Hr].
  assert (Eq : nget (t ++ more) j = nget t j) by (apply nget_app_old; exact Hlt).
  constructor; rewrite ?Eq; try assumption.
  - rewrite app_length. lia.
  - rewrite Hl. symmetry. apply lift_extends; [exact E|].
    intros c Hc. destruct (Hld c Hc) as [jc [Hj _]]. eauto.
  - intros c Hc. destruct (Hld c Hc) as [jc [Hj Hlt']]. exists jc. split; [apply E; exact Hj | exact Hlt'].
  - destruct (nn_kind (nget d a));
      try (destruct Hr as [Hr Hrd]; split;
           [rewrite Hr; symmetry; apply lift_extends; [exact E|];
            intros c Hc; destruct (Hrd c Hc) as [jc [Hj _]]; eauto
           |intros c Hc; destruct (Hrd c Hc) as [jc [Hj Hlt']]; exists jc; split; [apply E; exact Hj | exact Hlt']]).
    destruct Hr as [h [hn [H1 [H2 [H3 H4]]]]]. exists h, hn. repeat split; try assumption.
    rewrite nget_app_old by lia. exact H4.
Qed.

Definition memo_of (M : list (nat * nat)) : list (name * option nat) :=
  map (fun aj => (nname d (fst aj), Some (snd aj))) M.

Record invA (M : list (nat * nat)) (st : rstate) : Prop := mk_invA {
  ia_memo : rs_memo st = memo_of M;
  ia_errs : rs_errs st = [];
  ia_po : forall a, In a (map fst M) -> In a PO;
  ia_inj : forall a b j, map_get M a = Some j -> map_get M b = Some j -> a = b;
  ia_rel : forall a j, map_get M a = Some j -> node_relA M (rs_tbl st) a j;
  ia_other : forall j, (j < length (rs_tbl st))%nat -> (forall a, map_get M a <> Some j) ->
                       exists hn, nget (rs_tbl st) j = hole_node hn }.

Lemma memo_get_of M a : (forall b, In b (map fst M) -> In b PO) -> In a PO ->
  memo_get (memo_of M) (nname d a) = option_map Some (map_get M a).
Proof.
  intros Hk Ha. induction M as [|[b j] r IH]; [reflexivity|].
  cbn [memo_of map memo_get fst snd]. rewrite map_get_cons.
  destruct (Nat.eqb b a) eqn:E.
  - apply Nat.eqb_eq in E. subst. rewrite name_eqb_refl. reflexivity.
  - destruct (name_eqb (nname d b) (nname d a)) eqn:En.
    + apply name_eqb_eq in En. apply name_inj in En; [|apply Hk; left; reflexivity | exact Ha].
      subst. rewrite Nat.eqb_refl in E. discriminate.
    + apply IH. intros x Hx. apply Hk. right. exact Hx.
Qed.

(* shapes of the expression of a rendered line *)
Lemma expr_cases a : (a < length d)%nat ->
  let n := nget d a in
  let e := expr_of_defline (line_of d a) in
  (exists c, (nn_kind n = KAssertL \/ nn_kind n = KAssertR) /\ nn_l n = Some c /\ nn_r n = None /\
             e = EAssertLit (nn_kind n) (ERef (nname d c)) (nn_pay n)) \/
  (exists c hn, nn_kind n = KDisconnect /\ nn_l n = Some c /\ nn_r n = None /\ nn_hole n = Some hn /\
                e = ENode KDisconnect (nn_pay n) (Some (ERef (nname d c))) (Some (EHole hn))) \/
  (nn_kind n <> KAssertL /\ nn_kind n <> KAssertR /\ nn_kind n <> KDisconnect /\
   e = ENode (nn_kind n) (nn_pay n) (option_map ERef (option_map (nname d) (nn_l n)))
             (option_map ERef (option_map (nname d) (nn_r n)))).
Proof.
  intros Ha n e. subst n e.
  pose proof (arity_children d a W Ha) as A. pose proof (hole_of_disc d a W Ha) as Hh.
  unfold expr_of_defline, line_of. cbn [dl_kind dl_l dl_r dl_pay dl_hole].
  destruct (nn_kind (nget d a)) eqn:Ek; cbn [arity] in A;
    try (right; right; repeat split; try discriminate; reflexivity).
  - left. destruct A as [[c Hc] Hr]. exists c. rewrite Hc, Hr. cbn. repeat split; auto.
  - left. destruct A as [[c Hc] Hr]. exists c. rewrite Hc, Hr. cbn. repeat split; auto.
  - right. left. destruct A as [[c Hc] Hr]. destruct Hh as [hn Hn]. exists c, hn.
    rewrite Hc, Hr, Hn. cbn. repeat split; auto.
Qed.

Lemma complete_other k l' r' :
  k <> KDisconnect ->
  match arity k with
  | O => True
  | S O => l' <> None
  | _ => l' <> None /\ r' <> None
  end -> complete_of k l' r' = true.
Proof.
  intros Hk H. destruct k; cbn in *; try reflexivity; try congruence;
    try (destruct l'; [reflexivity | congruence]);
    try (destruct H as [H1 H2]; destruct l', r'; cbn; congruence).
Qed.

Definition tbl_extends (st st' : rstate) : Prop := exists more, rs_tbl st' = rs_tbl st ++ more.

Lemma tbl_extends_refl st : tbl_extends st st.
Proof. exists []. rewrite app_nil_r. reflexivity. Qed.

Lemma tbl_extends_trans s1 s2 s3 : tbl_extends s1 s2 -> tbl_extends s2 s3 -> tbl_extends s1 s3.
Proof. intros [m1 H1] [m2 H2]. exists (m1 ++ m2). rewrite H2, H1, app_assoc. reflexivity. Qed.

(* what the conversion of one reference achieves *)
Definition conv_post (a : nat) (M : list (nat * nat)) (st : rstate) (j : nat) (M' : list (nat * nat))
           (st' : rstate) : Prop :=
  invA M' st' /\ extends M M' /\ map_get M' a = Some j /\ tbl_extends st st' /\
  (forall b, In b (map fst M') -> In b (map fst M) \/ (b <= a)%nat).

Definition vis_ok (vis : list name) (a : nat) : Prop :=
  forall v, In v vis -> exists b, In b PO /\ v = nname d b /\ (a < b)%nat.

Lemma vis_not_mem vis a : In a PO -> vis_ok vis a -> mem_name (nname d a) vis = false.
Proof.
  intros Ha Hv. destruct (mem_name (nname d a) vis) eqn:E; [|reflexivity].
  apply mem_name_In in E. destruct (Hv _ E) as [b [Hb [En Hlt]]].
  apply name_inj in En; [lia | exact Ha | exact Hb].
Qed.

(* pushing the node built for `a` *)
Lemma push_rel M st a j n :
  invA M st -> In a PO -> map_get M a = None -> j = length (rs_tbl st) ->
  (forall b, In b (map fst M) -> b <> a) ->
  node_relA ((a, j) :: M) (rs_tbl st ++ [n]) a j ->
  invA ((a, j) :: M) (mk_rs (rs_tbl st ++ [n]) ((nname d a, Some j) :: rs_memo st) (rs_namer st) (rs_errs st)).
Proof.
  intros [Im Ie Ip Ii Ir Io] Ha Hna Hj Hfresh Hrel.
  assert (Ex : extends M ((a, j) :: M)) by (apply extends_cons; exact Hna).
  constructor; cbn [rs_memo rs_errs rs_tbl].
  - rewrite Im. reflexivity.
  - exact Ie.
  - intros b [<-|Hb]; [exact Ha | apply Ip; exact Hb].
  - intros x y k Hx Hy. rewrite map_get_cons in Hx, Hy.
    destruct (Nat.eqb a x) eqn:E1, (Nat.eqb a y) eqn:E2.
    + apply Nat.eqb_eq in E1, E2. congruence.
    + injection Hx as <-. pose proof (ra_lt _ _ _ _ (Ir y j Hy)). lia.
    + injection Hy as <-. pose proof (ra_lt _ _ _ _ (Ir x j Hx)). lia.
    + eapply Ii; eauto.
  - intros x k Hx. rewrite map_get_cons in Hx. destruct (Nat.eqb a x) eqn:E1.
    + apply Nat.eqb_eq in E1. injection Hx as <-. subst x. exact Hrel.
    + apply (node_relA_mono M); [exact Ex | apply Ir; exact Hx].
  - intros k Hk Hno. rewrite app_length in Hk. cbn in Hk.
    assert (k <> j).
    { intros ->. apply (Hno a). rewrite map_get_cons, Nat.eqb_refl. reflexivity. }
    assert (Hk' : (k < length (rs_tbl st))%nat) by lia.
    rewrite nget_app_old by exact Hk'. apply Io; [exact Hk'|].
    intros x Hx. apply (Hno x). apply Ex. exact Hx.
Qed.

(* pushing a hole node (not the image of any node of d) *)
Lemma push_hole M st hn :
  invA M st ->
  invA M (mk_rs (rs_tbl st ++ [hole_node hn]) (rs_memo st) (rs_namer st) (rs_errs st)).
Proof.
  intros [Im Ie Ip Ii Ir Io]. constructor; cbn [rs_memo rs_errs rs_tbl]; try assumption.
  - intros x k Hx. apply (node_relA_mono M); [apply extends_refl | apply Ir; exact Hx].
  - intros k Hk Hno. rewrite app_length in Hk. cbn in Hk.
    destruct (Nat.eq_dec k (length (rs_tbl st))) as [->|Hne].
    + exists hn. apply nget_app_new.
    + rewrite nget_app_old by lia. apply Io; [lia | exact Hno].
Qed.

(* ------------------------------------------------------------------ the main induction *)
Lemma conv_ref_ok : forall k a fuel vis st M,
  (rank a <= k)%nat -> (2 * rank a + 2 <= fuel)%nat ->
  invA M st -> In a PO -> vis_ok vis a ->
  exists j st' M', conv um cmr_of fuel vis None (ERef (nname d a)) st = (Some j, st') /\
                   conv_post a M st j M' st'.
Proof.
  induction k as [k IHk] using lt_wf_ind.
  intros a fuel vis st M Hrk Hfuel Inv Ha Hvis.
  destruct fuel as [|f]; [lia|].
  rewrite conv_ref_eq.
  pose proof Inv as [Im Ie Ip Ii Ir Io].
  rewrite Im, (memo_get_of M a Ip Ha).
  destruct (map_get M a) as [j|] eqn:Eg; cbn [option_map].
  { (* already converted *)
    exists j, st, M. split; [reflexivity|].
    split; [exact Inv|]. split; [apply extends_refl|]. split; [exact Eg|]. split; [apply tbl_extends_refl|].
    intros b Hb; left; exact Hb. }
  rewrite (vis_not_mem vis a Ha Hvis), (Hum a Ha).
  assert (Hlen : (a < length d)%nat) by (apply (pf_range _ _ F); exact Ha).
  (* conversion of a child through the induction hypothesis *)
  assert (Child : forall f' vis' o st0 M0,
            (2 * rank a <= f')%nat -> invA M0 st0 ->
            (forall c, o = Some c -> child d a c) ->
            (forall v, In v vis' -> v = nname d a \/ In v vis) ->
            exists st1 M1,
              conv_sub um cmr_of f' vis' (option_map ERef (option_map (nname d) o)) st0 = (lift M1 o, st1) /\
              invA M1 st1 /\ extends M0 M1 /\ tbl_extends st0 st1 /\
              (forall c, o = Some c -> exists jc, map_get M1 c = Some jc) /\
              (forall b, In b (map fst M1) -> In b (map fst M0) \/ (b < a)%nat)).
  { intros f' vis' o st0 M0 Hf' Inv0 Hc Hv'. destruct o as [c|]; cbn [option_map conv_sub lift].
    - assert (Hch : child d a c) by (apply Hc; reflexivity).
      pose proof (rank_child a c Ha Hch) as Hr.
      pose proof (wf_child d a c W Hch) as [Hca _].
      assert (Hcpo : In c PO) by (apply (pf_closed _ _ F a c Ha Hch)).
      destruct (IHk (rank c) ltac:(lia) c f' vis' st0 M0 (le_n _) ltac:(lia) Inv0 Hcpo) as [jc [st1 [M1 [E P]]]].
      { intros v Hv. destruct (Hv' v Hv) as [->|Hin].
        - exists a. repeat split; [exact Ha | exact Hca].
        - destruct (Hvis v Hin) as [b [Hb [En Hlt]]]. exists b. repeat split; try assumption. lia. }
      destruct P as [I1 [E1 [G1 [T1 B1]]]].
      exists st1, M1. rewrite E, G1.
      split; [reflexivity|]. split; [exact I1|]. split; [exact E1|]. split; [exact T1|]. split.
      + intros c' Hc'. injection Hc' as <-. eauto.
      + intros b Hb. destruct (B1 b Hb) as [H|H]; [left; exact H | right; lia].
    - exists st0, M0.
      split; [reflexivity|]. split; [exact Inv0|]. split; [apply extends_refl|]. split; [apply tbl_extends_refl|].
      split; [discriminate | intros b Hb; left; exact Hb]. }
  destruct f as [|f]; [lia|].
  assert (Hvis' : forall v, In v (nname d a :: vis) -> v = nname d a \/ In v vis).
  { intros v [<-|Hv]; [left; reflexivity | right; exact Hv]. }
  destruct (expr_cases a Hlen) as [[c [Hk [Hl [Hr He]]]] | [[c [hn [Hk [Hl [Hr [Hh He]]]]]] | [Hk1 [Hk2 [Hk3 He]]]]];
    cbv zeta in He; rewrite He.
  - (* assertion with a literal *)
    rewrite conv_alit_eq.
    destruct (Child f (nname d a :: vis) (Some c) st M ltac:(lia) Inv) as [st1 [M1 [E [I1 [E1 [T1 [D1 B1]]]]]]].
    { intros c' Hc'. injection Hc' as <-. left. exact Hl. }
    { exact Hvis'. }
    cbn [option_map conv_sub lift] in E. rewrite E.
    destruct (D1 c eq_refl) as [jc Hjc]. rewrite Hjc. cbn [fresh_name].
    unfold push_node. cbn [memo_add rs_tbl rs_memo rs_namer rs_errs].
    set (j := length (rs_tbl st1)).
    exists j. eexists. exists ((a, j) :: M1). split; [reflexivity|].
    assert (Hna1 : map_get M1 a = None).
    { destruct (map_get M1 a) as [x|] eqn:Ex; [|reflexivity].
      apply map_get_keys in Ex. destruct (B1 a Ex) as [H|H]; [|lia].
      apply map_get_none_keys in Eg. contradiction. }
    assert (Hfresh : forall b, In b (map fst M1) -> b <> a).
    { intros b Hb ->. apply map_get_none_keys in Hna1. contradiction. }
    split; [|split; [|split; [|split]]].
    + apply (push_rel M1 st1 a j); try assumption; [reflexivity|].
      pose proof (ra_lt _ _ _ _ (ia_rel _ _ I1 c jc Hjc)) as Hjlt.
      assert (Hca : c <> a).
      { intros ->. assert (child d a a) by (left; exact Hl). apply (wf_child d a a W) in H. lia. }
      constructor; rewrite ?nget_app_new; cbn [nn_kind nn_pay nn_name nn_hole nn_l nn_r].
      * rewrite app_length. cbn. lia.
      * reflexivity.
      * reflexivity.
      * reflexivity.
      * reflexivity.
      * rewrite Hl. cbn [lift]. rewrite map_get_cons.
        destruct (Nat.eqb a c) eqn:Eac; [apply Nat.eqb_eq in Eac; congruence | symmetry; exact Hjc].
      * intros c' Hc'. rewrite Hl in Hc'. injection Hc' as <-. exists jc. split; [|exact Hjlt].
        rewrite map_get_cons. destruct (Nat.eqb a c) eqn:Eac; [apply Nat.eqb_eq in Eac; congruence | exact Hjc].
      * rewrite Hr. destruct Hk as [-> | ->]; (split; [reflexivity | discriminate]).
    + eapply extends_trans; [exact E1 | apply extends_cons; exact Hna1].
    + rewrite map_get_cons, Nat.eqb_refl. reflexivity.
    + eapply tbl_extends_trans; [exact T1|]. eexists. cbn [rs_tbl]. reflexivity.
    + intros b Hb. cbn [map fst In] in Hb. destruct Hb as [<-|Hb]; [right; lia|].
      destruct (B1 b Hb) as [H|H]; [left; exact H | right; lia].
  - (* disconnect: the child, then the hole *)
    rewrite conv_node_eq.
    destruct (Child f (nname d a :: vis) (Some c) st M ltac:(lia) Inv) as [st1 [M1 [E [I1 [E1 [T1 [D1 B1]]]]]]].
    { intros c' Hc'. injection Hc' as <-. left. exact Hl. }
    { exact Hvis'. }
    cbn [option_map] in E. rewrite E.
    destruct (D1 c eq_refl) as [jc Hjc]. cbn [lift]. rewrite Hjc.
    assert (Hrc : (rank c < rank a)%nat) by (apply rank_child; [exact Ha | left; exact Hl]).
    cbn [conv_sub]. destruct f as [|f']; [lia|]. rewrite conv_hole_eq. unfold push_node.
    cbn [complete_of arity opt_some andb fresh_name rs_tbl rs_memo rs_namer rs_errs memo_add].
    set (h := length (rs_tbl st1)).
    pose proof (push_hole M1 st1 hn I1) as I2. fold (hole_node hn).
    set (st2 := mk_rs (rs_tbl st1 ++ [hole_node hn]) (rs_memo st1) (rs_namer st1) (rs_errs st1)) in *.
    set (j := length (rs_tbl st1 ++ [hole_node hn])).
    exists j. eexists. exists ((a, j) :: M1). split; [reflexivity|].
    assert (Hna1 : map_get M1 a = None).
    { destruct (map_get M1 a) as [x|] eqn:Ex; [|reflexivity].
      apply map_get_keys in Ex. destruct (B1 a Ex) as [H|H]; [|lia].
      apply map_get_none_keys in Eg. contradiction. }
    assert (Hfresh : forall b, In b (map fst M1) -> b <> a).
    { intros b Hb ->. apply map_get_none_keys in Hna1. contradiction. }
    assert (Hjh : j = S h) by (subst j h; rewrite app_length; cbn; lia).
    split; [|split; [|split; [|split]]].
    + apply (push_rel M1 st2 a j); try assumption; [reflexivity|].
      pose proof (ra_lt _ _ _ _ (ia_rel _ _ I1 c jc Hjc)) as Hjlt.
      assert (Hca : c <> a).
      { intros ->. assert (child d a a) by (left; exact Hl). apply (wf_child d a a W) in H. lia. }
      cbn [rs_tbl st2].
      constructor; rewrite ?nget_app_new; cbn [nn_kind nn_pay nn_name nn_hole nn_l nn_r].
      * rewrite app_length. cbn. lia.
      * symmetry. exact Hk.
      * reflexivity.
      * reflexivity.
      * reflexivity.
      * rewrite Hl. cbn [lift]. rewrite map_get_cons.
        destruct (Nat.eqb a c) eqn:Eac; [apply Nat.eqb_eq in Eac; congruence | symmetry; exact Hjc].
      * intros c' Hc'. rewrite Hl in Hc'. injection Hc' as <-. exists jc. split; [|lia].
        rewrite map_get_cons. destruct (Nat.eqb a c) eqn:Eac; [apply Nat.eqb_eq in Eac; congruence | exact Hjc].
      * rewrite Hk. exists h, hn. repeat split; [lia | exact Hh |].
        rewrite nget_app_old by (subst j; lia). apply nget_app_new.
    + eapply extends_trans; [exact E1 | apply extends_cons; exact Hna1].
    + rewrite map_get_cons, Nat.eqb_refl. reflexivity.
    + eapply tbl_extends_trans; [exact T1|]. exists [hole_node hn; mk_nn KDisconnect (nn_pay (nget d a)) (Some jc) (Some h) (nname d a) None].
      cbn [rs_tbl]. rewrite <- app_assoc. reflexivity.
    + intros b Hb. cbn [map fst In] in Hb. destruct Hb as [<-|Hb]; [right; lia|].
      destruct (B1 b Hb) as [H|H]; [left; exact H | right; lia].
  - (* every other combinator: left child, right child, then the node *)
    rewrite conv_node_eq.
    destruct (Child f (nname d a :: vis) (nn_l (nget d a)) st M ltac:(lia) Inv) as [st1 [M1 [E [I1 [E1 [T1 [D1 B1]]]]]]].
    { intros c' Hc'. left. exact Hc'. }
    { exact Hvis'. }
    rewrite E.
    destruct (Child f (nname d a :: vis) (nn_r (nget d a)) st1 M1 ltac:(lia) I1) as [st2 [M2 [E' [I2 [E2 [T2 [D2 B2]]]]]]].
    { intros c' Hc'. right. exact Hc'. }
    { exact Hvis'. }
    rewrite E'.
    assert (Hl2 : lift M2 (nn_l (nget d a)) = lift M1 (nn_l (nget d a))).
    { apply lift_extends; [exact E2 | exact D1]. }
    rewrite complete_other.
    2: exact Hk3.
    2: { pose proof (arity_children d a W Hlen) as A.
         destruct (arity (nn_kind (nget d a))) as [|[|x]]; [exact I | |].
         - destruct A as [[c Hc] _]. rewrite Hc. cbn [lift]. destruct (D1 c Hc) as [jc Hj]. rewrite Hj. discriminate.
         - destruct A as [[c Hc] [c' Hc']]. rewrite Hc, Hc'. cbn [lift].
           destruct (D1 c Hc) as [jc Hj]. destruct (D2 c' Hc') as [jc' Hj']. rewrite Hj, Hj'. split; discriminate. }
    cbn [fresh_name]. unfold push_node. cbn [memo_add rs_tbl rs_memo rs_namer rs_errs].
    set (j := length (rs_tbl st2)).
    exists j. eexists. exists ((a, j) :: M2). split; [reflexivity|].
    assert (Hna2 : map_get M2 a = None).
    { destruct (map_get M2 a) as [x|] eqn:Ex; [|reflexivity].
      apply map_get_keys in Ex. destruct (B2 a Ex) as [H|H]; [|lia].
      destruct (B1 a H) as [H'|H']; [|lia].
      apply map_get_none_keys in Eg. contradiction. }
    assert (Hfresh : forall b, In b (map fst M2) -> b <> a).
    { intros b Hb ->. apply map_get_none_keys in Hna2. contradiction. }
    assert (Ex2 : extends M2 ((a, j) :: M2)) by (apply extends_cons; exact Hna2).
    split; [|split; [|split; [|split]]].
    + apply (push_rel M2 st2 a j); try assumption; [reflexivity|].
      constructor; rewrite ?nget_app_new; cbn [nn_kind nn_pay nn_name nn_hole nn_l nn_r].
      * rewrite app_length. cbn. lia.
      * reflexivity.
      * reflexivity.
      * reflexivity.
      * reflexivity.
      * rewrite <- Hl2. symmetry. apply lift_extends; [exact Ex2|].
        intros c Hc. destruct (D1 c Hc) as [jc Hj]. exists jc. apply E2. exact Hj.
      * intros c Hc. destruct (D1 c Hc) as [jc Hj]. exists jc. split; [apply Ex2, E2; exact Hj|].
        exact (ra_lt _ _ _ _ (ia_rel _ _ I2 c jc (E2 _ _ Hj))).
      * destruct (nn_kind (nget d a)); try congruence;
          (split; [symmetry; apply lift_extends; [exact Ex2 | exact D2]
                  |intros c Hc; destruct (D2 c Hc) as [jc Hj]; exists jc; split; [apply Ex2; exact Hj|];
                   exact (ra_lt _ _ _ _ (ia_rel _ _ I2 c jc Hj))]).
    + eapply extends_trans; [exact E1|]. eapply extends_trans; [exact E2 | exact Ex2].
    + rewrite map_get_cons, Nat.eqb_refl. reflexivity.
    + eapply tbl_extends_trans; [exact T1|]. eapply tbl_extends_trans; [exact T2|].
      eexists. cbn [rs_tbl]. reflexivity.
    + intros b Hb. cbn [map fst In] in Hb. destruct Hb as [<-|Hb]; [right; lia|].
      destruct (B2 b Hb) as [H|H]; [|right; lia].
      destruct (B1 b H) as [H'|H']; [left; exact H' | right; lia].
Qed.

End StageA.
