(* C15, phase 2: the SHA-256 compositions behind the 28 hash jets of the Elements environment, as
   functions of the abstract transaction of Env/TxSpec.v, with the executable SHA-256 of
   Merkle/Sha256.v.

   Anchors: simplicity-sys/depend/simplicity/elements/env.c (mallocTransaction: the per-field
   contexts and their combination; mallocTapEnv), txEnv.c (sigAllHash), ops.c (sha256_confidential,
   sha256_confAmt, make_tapleaf), elementsJets.c (input_hash, input_utxo_hash, issuance_hash,
   output_hash), and src/jet/elements/c_env.rs for what reaches them.

   What is hashed here and what stays data.  Byte strings of variable length never enter these
   compositions directly: scripts, scriptSigs, annexes, range and surjection proofs are consumed
   as their SHA-256 (fields of the abstract transaction: in_u_script_hash, in_script_sig_hash,
   the hash inside in_wit_last, in_amount_rp_hash, in_keys_rp_hash, out_script_hash,
   out_range_hash, out_surj_hash), exactly as the C structures hold them (sha256_midstate
   fields filled by copyInput / copyOutput).  The issuance asset and token ids (iss_asset,
   iss_token) are data as in TxSpec.v.  Everything from there on - which prefix byte, which
   fields in which order, the absent-value conventions, the two-level hashing, the tagged leaf
   hash - is computed. *)
From Coq Require Import Uint63.
From RS Require Import Lib.Tac Lib.Bits Ty.Ty Env.TxSpec Merkle.Sha256.
Import ListNotations.
Local Open Scope N_scope.

Definition bytes := list N.

(* ------------------------------------------------------------------ serialisation *)
(* the low n bytes of v, most significant first *)
Fixpoint be_bytes (n : nat) (v : N) : bytes :=
  match n with
  | O => []
  | S k => N.land (N.shiftr v (8 * N.of_nat k)) 255 :: be_bytes k v
  end.
Definition b32 (v : N) : bytes := be_bytes 32 v.      (* sha256_hash: a 256-bit value *)
Definition u32be (v : N) : bytes := be_bytes 4 v.     (* sha256_u32be *)
Definition u64be (v : N) : bytes := be_bytes 8 v.     (* sha256_u64be *)

Definition N_of_bytes (l : bytes) : N := fold_left (fun a b => a * 256 + b) l 0.

Definition b2n (b : bool) : N := if b then 1 else 0.

(* ops.c sha256_confidential(evenPrefix, oddPrefix): NONE -> 0x00 alone; EXPLICIT -> 0x01 data;
   EVEN_Y / ODD_Y -> prefix data *)
Definition ser_conf (even_prefix : N) (c : conf) : bytes :=
  match c with
  | CNull => [0]
  | CExplicit v => 1 :: b32 v
  | CConf odd x => (even_prefix + b2n odd) :: b32 x
  end.
Definition ser_asset : conf -> bytes := ser_conf 10.   (* 0x0a / 0x0b *)
Definition ser_nonce : conf -> bytes := ser_conf 2.    (* 0x02 / 0x03 *)

(* ops.c sha256_confAmt on the copied amount: an absent amount has become explicit zero (env.c) *)
Definition ser_amount (c : conf) : bytes :=
  match c with
  | CNull => 1 :: u64be 0
  | CExplicit v => 1 :: u64be v
  | CConf odd x => (8 + b2n odd) :: b32 x
  end.

(* ------------------------------------------------------------------ per input *)
Definition ser_outpoint (i : tx_input) : bytes :=
  (match pegin_of i with Some g => 1 :: b32 g | None => [0] end) ++ b32 (in_txid i) ++ u32be (in_vout i).

Definition ser_annex (i : tx_input) : bytes :=
  match annex_of i with Some h => 1 :: b32 h | None => [0] end.

Definition ser_utxo_amount (i : tx_input) : bytes := ser_asset (in_u_asset i) ++ ser_amount (in_u_value i).

(* the explicit amount 0 that a reissuance shows for its token *)
Definition token_amount (i : tx_input) : conf :=
  match iss_kind_of i with NewIss => in_keys i | _ => CExplicit 0 end.

Definition ser_iss_asset (i : tx_input) : bytes :=
  match iss_kind_of i with
  | NoIss => [0; 0]
  | _ => (1 :: b32 (iss_asset i)) ++ ser_amount (in_amount i)
  end.
Definition ser_iss_token (i : tx_input) : bytes :=
  match iss_kind_of i with
  | NoIss => [0; 0]
  | _ => (1 :: b32 (iss_token i)) ++ ser_amount (token_amount i)
  end.
Definition ser_iss_proofs (i : tx_input) : bytes := b32 (iss_asset_proof i) ++ b32 (iss_token_proof i).
Definition ser_iss_blinding (i : tx_input) : bytes :=
  match iss_kind_of i with
  | NoIss => [0]
  | NewIss => 1 :: repeat 0 32 ++ b32 (in_entropy i)
  | ReIss => 1 :: b32 (in_blinding_nonce i) ++ b32 (in_entropy i)
  end.

(* ------------------------------------------------------------------ per output *)
Definition out_range_proof (o : tx_output) : N := if is_conf (out_value o) then out_range_hash o else empty_hash.
Definition out_surj_proof (o : tx_output) : N := if is_conf (out_asset o) then out_surj_hash o else empty_hash.
Definition ser_out_amount (o : tx_output) : bytes := ser_asset (out_asset o) ++ ser_amount (out_value o).

(* ------------------------------------------------------------------ the hash jets *)
Definition hash_cat {A} (f : A -> bytes) (l : list A) : bytes := sha256 (flat_map f l).

Definition output_amounts_hash (t : txenv) := hash_cat ser_out_amount (tx_outputs t).
Definition output_nonces_hash (t : txenv) := hash_cat (fun o => ser_nonce (out_nonce o)) (tx_outputs t).
Definition output_scripts_hash (t : txenv) := hash_cat (fun o => b32 (out_script_hash o)) (tx_outputs t).
Definition output_range_proofs_hash (t : txenv) := hash_cat (fun o => b32 (out_range_proof o)) (tx_outputs t).
Definition output_surjection_proofs_hash (t : txenv) := hash_cat (fun o => b32 (out_surj_proof o)) (tx_outputs t).
Definition outputs_hash (t : txenv) :=
  sha256 (output_amounts_hash t ++ output_nonces_hash t ++ output_scripts_hash t ++ output_range_proofs_hash t).

Definition input_outpoints_hash (t : txenv) := hash_cat ser_outpoint (tx_inputs t).
Definition input_amounts_hash (t : txenv) := hash_cat ser_utxo_amount (tx_inputs t).
Definition input_scripts_hash (t : txenv) := hash_cat (fun i => b32 (in_u_script_hash i)) (tx_inputs t).
Definition input_utxos_hash (t : txenv) := sha256 (input_amounts_hash t ++ input_scripts_hash t).
Definition input_sequences_hash (t : txenv) := hash_cat (fun i => u32be (in_sequence i)) (tx_inputs t).
Definition input_annexes_hash (t : txenv) := hash_cat ser_annex (tx_inputs t).
Definition input_script_sigs_hash (t : txenv) := hash_cat (fun i => b32 (in_script_sig_hash i)) (tx_inputs t).
Definition inputs_hash (t : txenv) :=
  sha256 (input_outpoints_hash t ++ input_sequences_hash t ++ input_annexes_hash t).

Definition issuance_asset_amounts_hash (t : txenv) := hash_cat ser_iss_asset (tx_inputs t).
Definition issuance_token_amounts_hash (t : txenv) := hash_cat ser_iss_token (tx_inputs t).
Definition issuance_range_proofs_hash (t : txenv) := hash_cat ser_iss_proofs (tx_inputs t).
Definition issuance_blinding_entropy_hash (t : txenv) := hash_cat ser_iss_blinding (tx_inputs t).
Definition issuances_hash (t : txenv) :=
  sha256 (issuance_asset_amounts_hash t ++ issuance_token_amounts_hash t ++
          issuance_range_proofs_hash t ++ issuance_blinding_entropy_hash t).

Definition tx_hash (t : txenv) :=
  sha256 (u32be (tx_version t) ++ u32be (tx_lock_time t) ++ inputs_hash t ++ outputs_hash t ++
          issuances_hash t ++ output_surjection_proofs_hash t ++ input_utxos_hash t).

(* "TapLeaf/elements" *)
Definition tapleaf_tag : bytes := [84; 97; 112; 76; 101; 97; 102; 47; 101; 108; 101; 109; 101; 110; 116; 115].
Definition tapleaf_hash (t : txenv) :=
  let tg := sha256 tapleaf_tag in
  sha256 (tg ++ tg ++ [tap_leaf_version t; 32] ++ b32 (tx_cmr t)).
Definition tappath_hash (t : txenv) := hash_cat b32 (tap_path t).
Definition tap_env_hash (t : txenv) := sha256 (tapleaf_hash t ++ tappath_hash t ++ b32 (tap_internal_key t)).

Definition sig_all_hash (t : txenv) :=
  sha256 (b32 (tx_genesis t) ++ b32 (tx_genesis t) ++ tx_hash t ++ tap_env_hash t ++ u32be (tx_ix t)).

(* indexed *)
Definition input_hash_of (i : tx_input) := sha256 (ser_outpoint i ++ u32be (in_sequence i) ++ ser_annex i).
Definition input_utxo_hash_of (i : tx_input) := sha256 (ser_utxo_amount i ++ b32 (in_u_script_hash i)).
Definition issuance_hash_of (i : tx_input) :=
  sha256 ((match iss_kind_of i with
           | NoIss => [0; 0; 0; 0]
           | _ => (1 :: b32 (iss_asset i)) ++ ser_amount (in_amount i) ++ (1 :: b32 (iss_token i)) ++ ser_amount (token_amount i)
           end) ++ ser_iss_proofs i ++ ser_iss_blinding i).
Definition output_hash_of (o : tx_output) :=
  sha256 (ser_out_amount o ++ ser_nonce (out_nonce o) ++ b32 (out_script_hash o) ++ b32 (out_range_proof o)).

(* ------------------------------------------------------------------ as jets *)
Inductive hjet :=
| H_output_amounts | H_output_nonces | H_output_scripts | H_output_range_proofs | H_output_surjection_proofs | H_outputs
| H_input_outpoints | H_input_amounts | H_input_scripts | H_input_utxos | H_input_sequences | H_input_annexes
| H_input_script_sigs | H_inputs
| H_issuance_asset_amounts | H_issuance_token_amounts | H_issuance_range_proofs | H_issuance_blinding_entropy | H_issuances
| H_tx | H_tapleaf | H_tappath | H_tap_env | H_sig_all
| HI_input | HI_input_utxo | HI_issuance | HI_output.      (* indexed: 2^32 -> option 2^256 *)

Definition hjet_indexed (j : hjet) : bool :=
  match j with HI_input | HI_input_utxo | HI_issuance | HI_output => true | _ => false end.
Definition hjet_source (j : hjet) : ty := if hjet_indexed j then U32 else One.
Definition hjet_target (j : hjet) : ty := if hjet_indexed j then option_ty H256 else H256.

Definition hash_val (h : bytes) : sval := wordN 8 (N_of_bytes h).

Definition hjet_bytes (j : hjet) (t : txenv) : bytes :=
  match j with
  | H_output_amounts => output_amounts_hash t | H_output_nonces => output_nonces_hash t
  | H_output_scripts => output_scripts_hash t | H_output_range_proofs => output_range_proofs_hash t
  | H_output_surjection_proofs => output_surjection_proofs_hash t | H_outputs => outputs_hash t
  | H_input_outpoints => input_outpoints_hash t | H_input_amounts => input_amounts_hash t
  | H_input_scripts => input_scripts_hash t | H_input_utxos => input_utxos_hash t
  | H_input_sequences => input_sequences_hash t | H_input_annexes => input_annexes_hash t
  | H_input_script_sigs => input_script_sigs_hash t | H_inputs => inputs_hash t
  | H_issuance_asset_amounts => issuance_asset_amounts_hash t | H_issuance_token_amounts => issuance_token_amounts_hash t
  | H_issuance_range_proofs => issuance_range_proofs_hash t | H_issuance_blinding_entropy => issuance_blinding_entropy_hash t
  | H_issuances => issuances_hash t
  | H_tx => tx_hash t | H_tapleaf => tapleaf_hash t | H_tappath => tappath_hash t | H_tap_env => tap_env_hash t
  | H_sig_all => sig_all_hash t
  | _ => []
  end.

(* the specified result of a hash jet on input word arg (never fails) *)
Definition hjet_spec (j : hjet) (t : txenv) (arg : N) : sval :=
  match j with
  | HI_input => opt_val (option_map (fun i => hash_val (input_hash_of i)) (nthN (tx_inputs t) arg))
  | HI_input_utxo => opt_val (option_map (fun i => hash_val (input_utxo_hash_of i)) (nthN (tx_inputs t) arg))
  | HI_issuance => opt_val (option_map (fun i => hash_val (issuance_hash_of i)) (nthN (tx_inputs t) arg))
  | HI_output => opt_val (option_map (fun o => hash_val (output_hash_of o)) (nthN (tx_outputs t) arg))
  | _ => hash_val (hjet_bytes j t)
  end.

(* ------------------------------------------------------------------ typedness *)
Theorem hjet_typed : forall j t arg, has_ty (hjet_spec j t arg) (hjet_target j) = true.
Proof.
  intros j t arg. destruct j; cbn [hjet_spec hjet_target hjet_indexed];
    try apply wordN_ty; apply opt_val_map_ty; intros; apply wordN_ty.
Qed.

(* ------------------------------------------------------------------ what sig_all_hash depends on *)
(* The committed view of an input / output: the byte strings that enter some context of
   mallocTransaction on the way to txHash.  (The scriptSig hash is hashed into
   inputScriptSigsHash, which txHash does not include.) *)
Definition in_view (i : tx_input) : list bytes :=
  [ser_outpoint i; u32be (in_sequence i); ser_annex i; ser_utxo_amount i; b32 (in_u_script_hash i);
   ser_iss_asset i; ser_iss_token i; ser_iss_proofs i; ser_iss_blinding i].
Definition out_view (o : tx_output) : list bytes :=
  [ser_out_amount o; ser_nonce (out_nonce o); b32 (out_script_hash o); b32 (out_range_proof o); b32 (out_surj_proof o)].

Record sig_view := {
  sv_version : N; sv_lock_time : N; sv_ix : N; sv_genesis : N; sv_cmr : N; sv_leaf_version : N;
  sv_internal_key : N; sv_path : list N; sv_inputs : list (list bytes); sv_outputs : list (list bytes) }.

Definition view_of (t : txenv) : sig_view :=
  {| sv_version := tx_version t; sv_lock_time := tx_lock_time t; sv_ix := tx_ix t; sv_genesis := tx_genesis t;
     sv_cmr := tx_cmr t; sv_leaf_version := tap_leaf_version t; sv_internal_key := tap_internal_key t;
     sv_path := tap_path t; sv_inputs := map in_view (tx_inputs t); sv_outputs := map out_view (tx_outputs t) |}.

Definition col (k : nat) (l : list (list bytes)) : bytes := flat_map (fun v => nth k v []) l.

(* sig_all_hash computed from the view alone *)
Definition sig_all_of_view (v : sig_view) : bytes :=
  let ins := sv_inputs v in
  let outs := sv_outputs v in
  let inputs := sha256 (sha256 (col 0 ins) ++ sha256 (col 1 ins) ++ sha256 (col 2 ins)) in
  let utxos := sha256 (sha256 (col 3 ins) ++ sha256 (col 4 ins)) in
  let issuances := sha256 (sha256 (col 5 ins) ++ sha256 (col 6 ins) ++ sha256 (col 7 ins) ++ sha256 (col 8 ins)) in
  let outputs := sha256 (sha256 (col 0 outs) ++ sha256 (col 1 outs) ++ sha256 (col 2 outs) ++ sha256 (col 3 outs)) in
  let txh := sha256 (u32be (sv_version v) ++ u32be (sv_lock_time v) ++ inputs ++ outputs ++ issuances ++
                     sha256 (col 4 outs) ++ utxos) in
  let tg := sha256 tapleaf_tag in
  let leaf := sha256 (tg ++ tg ++ [sv_leaf_version v; 32] ++ b32 (sv_cmr v)) in
  let tapenv := sha256 (leaf ++ sha256 (flat_map b32 (sv_path v)) ++ b32 (sv_internal_key v)) in
  sha256 (b32 (sv_genesis v) ++ b32 (sv_genesis v) ++ txh ++ tapenv ++ u32be (sv_ix v)).

Lemma col_map {A} (view : A -> list bytes) (f : A -> bytes) k (l : list A) :
  (forall a, nth k (view a) [] = f a) -> col k (map view l) = flat_map f l.
Proof.
  intros H. unfold col. induction l as [|a l IH]; [reflexivity|]. cbn [map flat_map]. rewrite H, IH. reflexivity.
Qed.

Theorem sig_all_hash_view : forall t, sig_all_hash t = sig_all_of_view (view_of t).
Proof.
  intros t. unfold sig_all_of_view, view_of. cbn [sv_inputs sv_outputs sv_version sv_lock_time sv_ix sv_genesis sv_cmr
    sv_leaf_version sv_internal_key sv_path].
  rewrite (col_map in_view ser_outpoint 0), (col_map in_view (fun i => u32be (in_sequence i)) 1),
    (col_map in_view ser_annex 2), (col_map in_view ser_utxo_amount 3),
    (col_map in_view (fun i => b32 (in_u_script_hash i)) 4), (col_map in_view ser_iss_asset 5),
    (col_map in_view ser_iss_token 6), (col_map in_view ser_iss_proofs 7), (col_map in_view ser_iss_blinding 8),
    (col_map out_view ser_out_amount 0), (col_map out_view (fun o => ser_nonce (out_nonce o)) 1),
    (col_map out_view (fun o => b32 (out_script_hash o)) 2), (col_map out_view (fun o => b32 (out_range_proof o)) 3),
    (col_map out_view (fun o => b32 (out_surj_proof o)) 4) by (intros; reflexivity).
  reflexivity.
Qed.

(* two environments with the same committed view have the same signature hash *)
Theorem sig_all_hash_depends_on_view : forall t t', view_of t = view_of t' -> sig_all_hash t = sig_all_hash t'.
Proof. intros t t' H. rewrite !sig_all_hash_view, H. reflexivity. Qed.

(* ---- fields outside the view: changing them does not change the digest *)
Definition set_inputs (t : txenv) (l : list tx_input) : txenv :=
  {| tx_version := tx_version t; tx_lock_time := tx_lock_time t; tx_ix := tx_ix t; tx_genesis := tx_genesis t;
     tx_cmr := tx_cmr t; tx_txid := tx_txid t; tap_leaf_version := tap_leaf_version t;
     tap_internal_key := tap_internal_key t; tap_path := tap_path t; tx_inputs := l; tx_outputs := tx_outputs t |}.
Definition set_outputs (t : txenv) (l : list tx_output) : txenv :=
  {| tx_version := tx_version t; tx_lock_time := tx_lock_time t; tx_ix := tx_ix t; tx_genesis := tx_genesis t;
     tx_cmr := tx_cmr t; tx_txid := tx_txid t; tap_leaf_version := tap_leaf_version t;
     tap_internal_key := tap_internal_key t; tap_path := tap_path t; tx_inputs := tx_inputs t; tx_outputs := l |}.
Definition set_txid (t : txenv) (x : N) : txenv :=
  {| tx_version := tx_version t; tx_lock_time := tx_lock_time t; tx_ix := tx_ix t; tx_genesis := tx_genesis t;
     tx_cmr := tx_cmr t; tx_txid := x; tap_leaf_version := tap_leaf_version t;
     tap_internal_key := tap_internal_key t; tap_path := tap_path t; tx_inputs := tx_inputs t; tx_outputs := tx_outputs t |}.

Lemma sig_all_inputs_ext t (g : tx_input -> tx_input) :
  (forall i, in_view (g i) = in_view i) -> sig_all_hash (set_inputs t (map g (tx_inputs t))) = sig_all_hash t.
Proof.
  intros H. apply sig_all_hash_depends_on_view. unfold view_of, set_inputs. cbn.
  f_equal. rewrite map_map. apply map_ext. exact H.
Qed.

Lemma sig_all_outputs_ext t (g : tx_output -> tx_output) :
  (forall o, out_view (g o) = out_view o) -> sig_all_hash (set_outputs t (map g (tx_outputs t))) = sig_all_hash t.
Proof.
  intros H. apply sig_all_hash_depends_on_view. unfold view_of, set_outputs. cbn.
  f_equal. rewrite map_map. apply map_ext. exact H.
Qed.

(* the view of an input is a function of these 17 readings of it *)
Lemma in_view_ext (i j : tx_input) :
  pegin_of i = pegin_of j -> in_txid i = in_txid j -> in_vout i = in_vout j -> in_sequence i = in_sequence j ->
  annex_of i = annex_of j -> in_u_asset i = in_u_asset j -> in_u_value i = in_u_value j ->
  in_u_script_hash i = in_u_script_hash j -> iss_kind_of i = iss_kind_of j -> iss_asset i = iss_asset j ->
  iss_token i = iss_token j -> in_amount i = in_amount j -> token_amount i = token_amount j ->
  iss_asset_proof i = iss_asset_proof j -> iss_token_proof i = iss_token_proof j ->
  in_blinding_nonce i = in_blinding_nonce j -> in_entropy i = in_entropy j ->
  in_view i = in_view j.
Proof.
  intros H1 H2 H3 H4 H5 H6 H7 H8 H9 H10 H11 H12 H13 H14 H15 H16 H17.
  unfold in_view, ser_outpoint, ser_annex, ser_utxo_amount, ser_iss_asset, ser_iss_token, ser_iss_proofs, ser_iss_blinding.
  rewrite H1, H2, H3, H4, H5, H6, H7, H8, H9, H10, H11, H12, H13, H14, H15, H16, H17. reflexivity.
Qed.

(* and that of an output of these 6 *)
Lemma out_view_ext (o p : tx_output) :
  out_asset o = out_asset p -> out_value o = out_value p -> out_nonce o = out_nonce p ->
  out_script_hash o = out_script_hash p -> out_range_proof o = out_range_proof p -> out_surj_proof o = out_surj_proof p ->
  out_view o = out_view p.
Proof.
  intros H1 H2 H3 H4 H5 H6. unfold out_view, ser_out_amount. rewrite H1, H2, H3, H4, H5, H6. reflexivity.
Qed.

(* the transaction id is not committed (the digest commits to the parts instead) *)
Theorem sig_all_indep_txid : forall t x, sig_all_hash (set_txid t x) = sig_all_hash t.
Proof. intros t x. apply sig_all_hash_depends_on_view. reflexivity. Qed.

(* the scriptSigs are not committed *)
Definition set_script_sig (x : N) (i : tx_input) : tx_input :=
  {| in_txid := in_txid i; in_vout := in_vout i; in_sequence := in_sequence i; in_is_pegin := in_is_pegin i;
     in_pegin_genesis := in_pegin_genesis i; in_script_sig_hash := x; in_wit_last := in_wit_last i;
     in_blinding_nonce := in_blinding_nonce i; in_entropy := in_entropy i; in_amount := in_amount i; in_keys := in_keys i;
     in_amount_rp_hash := in_amount_rp_hash i; in_keys_rp_hash := in_keys_rp_hash i;
     in_d_entropy_new := in_d_entropy_new i; in_d_asset_new := in_d_asset_new i; in_d_tokx_new := in_d_tokx_new i;
     in_d_tokc_new := in_d_tokc_new i; in_d_asset_re := in_d_asset_re i; in_d_tokx_re := in_d_tokx_re i;
     in_d_tokc_re := in_d_tokc_re i; in_u_asset := in_u_asset i; in_u_value := in_u_value i;
     in_u_script_hash := in_u_script_hash i |}.

Theorem sig_all_indep_script_sig : forall t (f : tx_input -> N),
  sig_all_hash (set_inputs t (map (fun i => set_script_sig (f i) i) (tx_inputs t))) = sig_all_hash t.
Proof. intros t f. apply sig_all_inputs_ext. intros i. apply in_view_ext; reflexivity. Qed.

(* the pegin witness of an input whose is_pegin flag is clear is not committed *)
Definition set_pegin_data (x : option N) (i : tx_input) : tx_input :=
  {| in_txid := in_txid i; in_vout := in_vout i; in_sequence := in_sequence i; in_is_pegin := in_is_pegin i;
     in_pegin_genesis := if in_is_pegin i then in_pegin_genesis i else x;
     in_script_sig_hash := in_script_sig_hash i; in_wit_last := in_wit_last i;
     in_blinding_nonce := in_blinding_nonce i; in_entropy := in_entropy i; in_amount := in_amount i; in_keys := in_keys i;
     in_amount_rp_hash := in_amount_rp_hash i; in_keys_rp_hash := in_keys_rp_hash i;
     in_d_entropy_new := in_d_entropy_new i; in_d_asset_new := in_d_asset_new i; in_d_tokx_new := in_d_tokx_new i;
     in_d_tokc_new := in_d_tokc_new i; in_d_asset_re := in_d_asset_re i; in_d_tokx_re := in_d_tokx_re i;
     in_d_tokc_re := in_d_tokc_re i; in_u_asset := in_u_asset i; in_u_value := in_u_value i;
     in_u_script_hash := in_u_script_hash i |}.

Theorem sig_all_indep_unflagged_pegin : forall t (f : tx_input -> option N),
  sig_all_hash (set_inputs t (map (fun i => set_pegin_data (f i) i) (tx_inputs t))) = sig_all_hash t.
Proof.
  intros t f. apply sig_all_inputs_ext. intros i. apply in_view_ext; try reflexivity.
  unfold pegin_of, set_pegin_data. cbn [in_is_pegin in_pegin_genesis]. destruct (in_is_pegin i); reflexivity.
Qed.

(* the range proofs of an issuance whose amounts are not confidential are not committed, nor is the
   inflation-keys proof of a reissuance *)
Definition set_rp (a k : N) (i : tx_input) : tx_input :=
  {| in_txid := in_txid i; in_vout := in_vout i; in_sequence := in_sequence i; in_is_pegin := in_is_pegin i;
     in_pegin_genesis := in_pegin_genesis i; in_script_sig_hash := in_script_sig_hash i; in_wit_last := in_wit_last i;
     in_blinding_nonce := in_blinding_nonce i; in_entropy := in_entropy i; in_amount := in_amount i; in_keys := in_keys i;
     in_amount_rp_hash := if is_conf (in_amount i) then in_amount_rp_hash i else a;
     in_keys_rp_hash := if is_conf (in_keys i) && (in_blinding_nonce i =? 0) then in_keys_rp_hash i else k;
     in_d_entropy_new := in_d_entropy_new i; in_d_asset_new := in_d_asset_new i; in_d_tokx_new := in_d_tokx_new i;
     in_d_tokc_new := in_d_tokc_new i; in_d_asset_re := in_d_asset_re i; in_d_tokx_re := in_d_tokx_re i;
     in_d_tokc_re := in_d_tokc_re i; in_u_asset := in_u_asset i; in_u_value := in_u_value i;
     in_u_script_hash := in_u_script_hash i |}.

Theorem sig_all_indep_unused_proofs : forall t (fa fk : tx_input -> N),
  sig_all_hash (set_inputs t (map (fun i => set_rp (fa i) (fk i) i) (tx_inputs t))) = sig_all_hash t.
Proof.
  intros t fa fk. apply sig_all_inputs_ext. intros i.
  assert (Hk : iss_kind_of (set_rp (fa i) (fk i) i) = iss_kind_of i) by reflexivity.
  apply in_view_ext; try reflexivity.
  - unfold iss_asset_proof. rewrite Hk. unfold set_rp. cbn [in_amount in_amount_rp_hash].
    destruct (is_conf (in_amount i)); reflexivity.
  - unfold iss_token_proof. rewrite Hk. unfold iss_kind_of, has_issuance, set_rp. cbn [in_keys in_keys_rp_hash in_amount in_blinding_nonce].
    destruct (negb (is_null (in_amount i) && is_null (in_keys i))); [|reflexivity].
    destruct (in_blinding_nonce i =? 0); destruct (is_conf (in_keys i)); reflexivity.
Qed.

(* of an output: whether the script is empty, the parsed null data, and the proofs of explicit
   fields are not committed beyond the script hash *)
Definition set_out_extra (e : bool) (nd : option (list (N * N))) (s r : N) (o : tx_output) : tx_output :=
  {| out_asset := out_asset o; out_value := out_value o; out_nonce := out_nonce o; out_script_hash := out_script_hash o;
     out_script_empty := e; out_surj_hash := if is_conf (out_asset o) then out_surj_hash o else s;
     out_range_hash := if is_conf (out_value o) then out_range_hash o else r; out_null_data := nd |}.

Theorem sig_all_indep_output_extra : forall t fe fnd fs fr,
  sig_all_hash (set_outputs t (map (fun o => set_out_extra (fe o) (fnd o) (fs o) (fr o) o) (tx_outputs t))) = sig_all_hash t.
Proof.
  intros t fe fnd fs fr. apply sig_all_outputs_ext. intros o. apply out_view_ext; try reflexivity.
  - unfold out_range_proof, set_out_extra. cbn [out_value out_range_hash]. destruct (is_conf (out_value o)); reflexivity.
  - unfold out_surj_proof, set_out_extra. cbn [out_asset out_surj_hash]. destruct (is_conf (out_asset o)); reflexivity.
Qed.
