(* C01 - Program and witness bit-encoding round-trips.
   Only pinned statements (`Theorem .. exact lemma`) and `Print Assumptions`.
   Models: Codec/NodeCodec.v (encode_node / decode_node, node loop), Codec/Linearise.v (post-order traversal
   with sharing ids = encode_program's node list), Codec/WitnessCodec.v (witness stream), Codec/Decode.v.
   Equality of commitment roots, types, identity and annotated roots after re-inference on the shared DAG
   is not a theorem here (no model of type inference / Merkle roots in this family): it is tested on the
   implementation for every generated program (tools/props/c01.py) - label C01_types_partial. *)
From RS Require Import Lib.Tac Lib.Outcome Lib.Bits Lib.Sweep Ty.Ty Bits.Natural Bits.BitIter
  Codec.NodeCodec Codec.ProgCodec Codec.JetTab Codec.Linearise Codec.Decode Codec.Structure Codec.Main
  Codec.WitnessCodec Codec.Run Codec.Rules Codec.RealJets.
Import ListNotations.
Local Open Scope N_scope.

(* 1. serialising a well-formed node list and decoding it yields the list and leaves the following bits *)
Theorem C01_syntax_rt : forall (jet : Type) (jet_okb : jet -> bool) (jet_enc : jet -> list bool)
    (jet_dec : list bool -> outcome dec_err (jet * list bool)),
  (forall j r, jet_okb j = true -> jet_dec (jet_enc j ++ r) = Ok (j, r)) ->
  (forall l j r, jet_dec l = Ok (j, r) -> l = jet_enc j ++ r /\ jet_okb j = true) ->
  (forall l, match jet_dec l with Panic _ | OutOfFuel => False | _ => True end) ->
  forall ns r, wf_prog jet jet_okb ns -> dec_prog jet jet_dec (enc_prog jet jet_enc ns ++ r) = Ok (ns, r).
Proof. exact syntax_rt. Qed.
Print Assumptions C01_syntax_rt.

Theorem C01_prefix_free : forall (jet : Type) (jet_okb : jet -> bool) (jet_enc : jet -> list bool)
    (jet_dec : list bool -> outcome dec_err (jet * list bool)),
  (forall j r, jet_okb j = true -> jet_dec (jet_enc j ++ r) = Ok (j, r)) ->
  (forall l j r, jet_dec l = Ok (j, r) -> l = jet_enc j ++ r /\ jet_okb j = true) ->
  (forall l, match jet_dec l with Panic _ | OutOfFuel => False | _ => True end) ->
  forall ns1 ns2 r1 r2, wf_prog jet jet_okb ns1 -> wf_prog jet jet_okb ns2 ->
  enc_prog jet jet_enc ns1 ++ r1 = enc_prog jet jet_enc ns2 ++ r2 -> ns1 = ns2 /\ r1 = r2.
Proof. exact enc_prog_prefix_free. Qed.
Print Assumptions C01_prefix_free.

(* non-vacuity: a concrete prefix-free jet table and a program with every kind of payload *)
Theorem C01_syntax_rt_instance : forall ns r, wf_prog N (jet_okb_tab jt3) ns ->
  dec_prog N (jet_dec_tab jt3) (enc_prog N (jet_enc_tab jt3) ns ++ r) = Ok (ns, r).
Proof. exact syntax_rt_jt3. Qed.
Print Assumptions C01_syntax_rt_instance.

Theorem C01_syntax_rt_example : wf_prog N (jet_okb_tab jt3) ex_prog /\
  dec_prog N (jet_dec_tab jt3) (enc_prog N (jet_enc_tab jt3) ex_prog ++ [true; true; false]) = Ok (ex_prog, [true; true; false]).
Proof. exact (conj wf_ex_prog syntax_rt_ex). Qed.
Print Assumptions C01_syntax_rt_example.

(* ... and for the real jet families: the code tables and decode trees of src/jet/init/{core,elements}.rs
   (Generated/Jets_core.v, Jets_elements.v; C14's round-trip and completeness facts discharge the hypotheses) *)
Theorem C01_syntax_rt_core : forall ns r, wf_prog N core_okb ns ->
  dec_prog N core_dec (enc_prog N core_enc ns ++ r) = Ok (ns, r).
Proof. exact syntax_rt_core. Qed.
Print Assumptions C01_syntax_rt_core.

Theorem C01_syntax_rt_elements : forall ns r, wf_prog N elements_okb ns ->
  dec_prog N elements_dec (enc_prog N elements_enc ns ++ r) = Ok (ns, r).
Proof. exact syntax_rt_elements. Qed.
Print Assumptions C01_syntax_rt_elements.

(* 2. a program already in canonical form with distinguishable nodes is written as itself and read back *)
Theorem C01_canonical_roundtrip : forall (jet : Type) (jet_okb : jet -> bool) (jet_enc : jet -> list bool)
    (jet_dec : list bool -> outcome dec_err (jet * list bool)),
  (forall j r, jet_okb j = true -> jet_dec (jet_enc j ++ r) = Ok (j, r)) ->
  (forall l j r, jet_dec l = Ok (j, r) -> l = jet_enc j ++ r /\ jet_okb j = true) ->
  (forall l, match jet_dec l with Panic _ | OutOfFuel => False | _ => True end) ->
  forall ns r (key : N -> option N) (kf : N -> N),
  wf_prog jet jet_okb ns -> dec_struct ns = Ok tt ->
  (forall p, p < N.of_nat (length ns) -> key p = Some (kf p)) ->
  (forall p q, p < N.of_nat (length ns) -> q < N.of_nat (length ns) -> kf p = kf q -> p = q) ->
  dec_prog jet jet_dec (enc_prog jet jet_enc (linearise ns key) ++ r) = Ok (ns, r).
Proof. exact canonical_roundtrip. Qed.
Print Assumptions C01_canonical_roundtrip.

(* 3. the witness stream: every value comes back bit for bit at the same position, everything is consumed,
   and the stream determines the values *)
Theorem C01_witness_rt : forall vs tys rest, all_typed vs tys = true ->
  read_witnesses tys (enc_witnesses vs ++ rest) = Some (vs, rest).
Proof. exact witness_rt. Qed.
Print Assumptions C01_witness_rt.

Theorem C01_witness_unique : forall vs ws tys, all_typed vs tys = true -> all_typed ws tys = true ->
  enc_witnesses vs = enc_witnesses ws -> vs = ws.
Proof. exact witness_unique. Qed.
Print Assumptions C01_witness_unique.

(* 4. the encoder's output for ANY DAG and sharing-id assignment without id cycles is accepted by the
   decoder's second pass, is in canonical order and re-encodes as itself - all tables of up to 3 nodes with
   4 ids (None included), all tables of 4 nodes with 2 ids.  (Before /repo 7ce2109 the iterator this models
   produced orphan nodes here: finding F-C01a.) *)
Theorem C01_encoder_output_upto3 :
  forallb (fun ns => forallb (encoder_output_check ns) (key_assignments (length ns) [None; Some 0; Some 1; Some 2]))
          (tables 1 ++ tables 2 ++ tables 3) = true.
Proof. exact encoder_output_upto3. Qed.
Print Assumptions C01_encoder_output_upto3.

Theorem C01_encoder_output_4 :
  forallb (fun ns => forallb (encoder_output_check ns) (key_assignments (length ns) [Some 0; Some 1])) (tables 4) = true.
Proof. exact encoder_output_4_two_ids. Qed.
Print Assumptions C01_encoder_output_4.

(* Not proved in general (kept as a statement; the two theorems above are its bounded form, the
   correspondence check its test on generated programs). *)
Definition C01_encode_decode_structure_statement : Prop :=
  forall (ns : list dn) (keys : list (option N)),
  wf_nodes N (fun _ => true) 0 ns -> ns <> [] -> keys_acyclic ns keys = true ->
  let lin := linearise ns (key_list keys) in
  (forall d, In d lin -> forall h, d <> DHidden h) ->
  dec_struct lin = Ok tt /\ linearise lin key_ptr = lin.
