"""Python reference of the Core jets on words (arithmetic, logic, comparison, shift, resize and
division families), independent of coq/Jets/JetSpec.v: written from the meaning of the jets
(simplicity-sys/depend/simplicity/jets.c, tech report), on python integers and bit lists.

API
  SPECIFIED               set of jet names with a reference here
  JET_TYPES               name -> (source type, target type) (proggen type tuples)
  eval_jet(name, value)   value of the source type -> value of the target type;
                          raises proggen.EvalFail('jet') when the jet fails, EvalFail('nojet')
                          for a name without reference
  edge_inputs(name, rng)  extra family-specific inputs (bit lists of the source width)

All source and target types are products of bits and words, so a value is its bit string
(compact = padded encoding).  Words are big-endian: the first bit is the most significant.
"""
import proggen as pg

WIDTHS = (8, 16, 32, 64)
WIDTHS1 = (1, 8, 16, 32, 64)
BIT = pg.BIT
UNIT = pg.U


def wty(n):
    """type of the words of n bits, n a power of two (wty(1) is the bit type)"""
    k = n.bit_length() - 1
    assert n == 1 << k
    return pg.word(k)


def num(bits):
    x = 0
    for b in bits:
        x = 2 * x + b
    return x


def to_bits(n, x):
    """x as n bits, most significant first; x must fit"""
    assert 0 <= x < (1 << n), (n, x)
    return [(x >> i) & 1 for i in range(n - 1, -1, -1)]


def cut(bits, widths):
    """split a bit list into pieces of the given widths"""
    assert sum(widths) == len(bits)
    out = []
    pos = 0
    for w in widths:
        out.append(bits[pos:pos + w])
        pos += w
    return out


_J = {}      # name -> (src, tgt, bits -> bits, family, params)


def _reg(name, src, tgt, fn, fam, *params):
    assert name not in _J
    _J[name] = (src, tgt, fn, fam, params)


def _on_numbers(widths, g):
    """g takes the input fields as integers, returns [(width, integer)] output fields"""
    def fn(bits):
        out = []
        for w, v in g(*[num(p) for p in cut(bits, widths)]):
            out += to_bits(w, v)
        return out
    return fn


def _on_words(widths, g):
    """g takes the input fields as bit lists, returns the output bit list"""
    return lambda bits: g(*cut(bits, widths))


# ------------------------------------------------------------------ arithmetic
# Results are (carry or borrow bit, word): the exact result is word + carry * 2^w for the
# additions and word - borrow * 2^w for the subtractions.
def _with_carry(w, s):
    c = 1 if s >= (1 << w) else 0
    return [(1, c), (w, s - (c << w))]


def _with_borrow(w, d):
    b = 1 if d < 0 else 0
    return [(1, b), (w, d + (b << w))]


for _w in WIDTHS:
    _w2 = 2 * _w
    _cw = pg.P(BIT, wty(_w))
    _reg("add_%d" % _w, wty(_w2), _cw, _on_numbers([_w, _w], lambda x, y, w=_w: _with_carry(w, x + y)), "add", _w)
    _reg("full_add_%d" % _w, pg.P(BIT, wty(_w2)), _cw,
         _on_numbers([1, _w, _w], lambda c, x, y, w=_w: _with_carry(w, x + y + c)), "full_add", _w)
    _reg("subtract_%d" % _w, wty(_w2), _cw, _on_numbers([_w, _w], lambda x, y, w=_w: _with_borrow(w, x - y)), "subtract", _w)
    _reg("full_subtract_%d" % _w, pg.P(BIT, wty(_w2)), _cw,
         _on_numbers([1, _w, _w], lambda b, x, y, w=_w: _with_borrow(w, x - y - b)), "full_subtract", _w)
    _reg("negate_%d" % _w, wty(_w), _cw, _on_numbers([_w], lambda x, w=_w: _with_borrow(w, -x)), "negate", _w)
    _reg("increment_%d" % _w, wty(_w), _cw, _on_numbers([_w], lambda x, w=_w: _with_carry(w, x + 1)), "increment", _w)
    _reg("full_increment_%d" % _w, _cw, _cw, _on_numbers([1, _w], lambda c, x, w=_w: _with_carry(w, x + c)), "full_increment", _w)
    _reg("decrement_%d" % _w, wty(_w), _cw, _on_numbers([_w], lambda x, w=_w: _with_borrow(w, x - 1)), "decrement", _w)
    _reg("full_decrement_%d" % _w, _cw, _cw, _on_numbers([1, _w], lambda b, x, w=_w: _with_borrow(w, x - b)), "full_decrement", _w)
    _reg("multiply_%d" % _w, wty(_w2), wty(_w2), _on_numbers([_w, _w], lambda x, y, w=_w: [(2 * w, x * y)]), "multiply", _w)
    _reg("full_multiply_%d" % _w, wty(4 * _w), wty(_w2),
         _on_numbers([_w] * 4, lambda x, y, z, t, w=_w: [(2 * w, x * y + z + t)]), "full_multiply", _w)

# ------------------------------------------------------------------ tests of one word, constants
for _w in WIDTHS:
    _reg("is_zero_%d" % _w, wty(_w), BIT, _on_numbers([_w], lambda x: [(1, int(x == 0))]), "is_zero", _w)
    _reg("is_one_%d" % _w, wty(_w), BIT, _on_numbers([_w], lambda x: [(1, int(x == 1))]), "is_one", _w)
    _reg("all_%d" % _w, wty(_w), BIT, lambda bits: [int(all(bits))], "all", _w)
    _reg("one_%d" % _w, UNIT, wty(_w), lambda bits, w=_w: [0] * (w - 1) + [1], "one", _w)
for _w in WIDTHS1:
    _reg("some_%d" % _w, wty(_w), BIT, lambda bits: [int(any(bits))], "some", _w)
    _reg("low_%d" % _w, UNIT, wty(_w), lambda bits, w=_w: [0] * w, "low", _w)
    _reg("high_%d" % _w, UNIT, wty(_w), lambda bits, w=_w: [1] * w, "high", _w)

# ------------------------------------------------------------------ bitwise logic
for _w in WIDTHS1:
    _t3 = pg.P(wty(_w), wty(2 * _w))
    _reg("complement_%d" % _w, wty(_w), wty(_w), lambda bits: [1 - b for b in bits], "complement", _w)
    _reg("and_%d" % _w, wty(2 * _w), wty(_w), _on_words([_w, _w], lambda x, y: [a & b for a, b in zip(x, y)]), "and", _w)
    _reg("or_%d" % _w, wty(2 * _w), wty(_w), _on_words([_w, _w], lambda x, y: [a | b for a, b in zip(x, y)]), "or", _w)
    _reg("xor_%d" % _w, wty(2 * _w), wty(_w), _on_words([_w, _w], lambda x, y: [a ^ b for a, b in zip(x, y)]), "xor", _w)
    _reg("xor_xor_%d" % _w, _t3, wty(_w),
         _on_words([_w] * 3, lambda x, y, z: [(a + b + c) % 2 for a, b, c in zip(x, y, z)]), "xor_xor", _w)
    _reg("maj_%d" % _w, _t3, wty(_w),
         _on_words([_w] * 3, lambda x, y, z: [int(a + b + c >= 2) for a, b, c in zip(x, y, z)]), "maj", _w)
    # choice: each bit of the first word selects the bit of the second (1) or of the third (0) word
    _reg("ch_%d" % _w, _t3, wty(_w),
         _on_words([_w] * 3, lambda x, y, z: [b if a else c for a, b, c in zip(x, y, z)]), "ch", _w)

# ------------------------------------------------------------------ comparisons (unsigned)
for _w in (1, 8, 16, 32, 64, 256):
    _reg("eq_%d" % _w, wty(2 * _w), BIT, _on_words([_w, _w], lambda x, y: [int(x == y)]), "eq", _w)
for _w in WIDTHS:
    _t3 = pg.P(wty(_w), wty(2 * _w))
    _reg("le_%d" % _w, wty(2 * _w), BIT, _on_numbers([_w, _w], lambda x, y: [(1, int(x <= y))]), "le", _w)
    _reg("lt_%d" % _w, wty(2 * _w), BIT, _on_numbers([_w, _w], lambda x, y: [(1, int(x < y))]), "lt", _w)
    _reg("min_%d" % _w, wty(2 * _w), wty(_w), _on_numbers([_w, _w], lambda x, y, w=_w: [(w, min(x, y))]), "min", _w)
    _reg("max_%d" % _w, wty(2 * _w), wty(_w), _on_numbers([_w, _w], lambda x, y, w=_w: [(w, max(x, y))]), "max", _w)
    _reg("median_%d" % _w, _t3, wty(_w),
         _on_numbers([_w] * 3, lambda x, y, z, w=_w: [(w, sorted([x, y, z])[1])]), "median", _w)

# ------------------------------------------------------------------ shifts and rotations
# input: shift amount (4 bits for the 8 and 16 bit words, 8 bits for the 32 and 64 bit words),
# then the word; the _with variants have a leading bit that is shifted in (0 otherwise).
AMOUNT_BITS = {8: 4, 16: 4, 32: 8, 64: 8}


def _shl(fill, amt, word):
    return (word + [fill] * num(amt))[-len(word):]


def _shr(fill, amt, word):
    return ([fill] * num(amt) + word)[:len(word)]


def _rotl(amt, word):
    k = num(amt) % len(word)
    return word[k:] + word[:k]


def _rotr(amt, word):
    k = num(amt) % len(word)
    return word[len(word) - k:] + word[:len(word) - k]


for _w in WIDTHS:
    _l = AMOUNT_BITS[_w]
    _st = pg.P(wty(_l), wty(_w))
    _reg("left_shift_%d" % _w, _st, wty(_w), _on_words([_l, _w], lambda a, x: _shl(0, a, x)), "left_shift", _l, _w)
    _reg("right_shift_%d" % _w, _st, wty(_w), _on_words([_l, _w], lambda a, x: _shr(0, a, x)), "right_shift", _l, _w)
    _reg("left_shift_with_%d" % _w, pg.P(BIT, _st), wty(_w),
         _on_words([1, _l, _w], lambda b, a, x: _shl(b[0], a, x)), "left_shift_with", _l, _w)
    _reg("right_shift_with_%d" % _w, pg.P(BIT, _st), wty(_w),
         _on_words([1, _l, _w], lambda b, a, x: _shr(b[0], a, x)), "right_shift_with", _l, _w)
    _reg("left_rotate_%d" % _w, _st, wty(_w), _on_words([_l, _w], _rotl), "left_rotate", _l, _w)
    _reg("right_rotate_%d" % _w, _st, wty(_w), _on_words([_l, _w], _rotr), "right_rotate", _l, _w)

# shifts by a fixed number k of bits that keep everything:
#   full_left_shift_w_k  (word, k bits to shift in) -> (k bits shifted out, word)
#   full_right_shift_w_k (k bits to shift in, word) -> (word, k bits shifted out)
for _w in WIDTHS:
    _k = 1
    while _k < _w:
        _reg("full_left_shift_%d_%d" % (_w, _k), pg.P(wty(_w), wty(_k)), pg.P(wty(_k), wty(_w)),
             _on_words([_w, _k], lambda x, y, k=_k: x[:k] + (x[k:] + y)), "full_left_shift", _w, _k)
        _reg("full_right_shift_%d_%d" % (_w, _k), pg.P(wty(_k), wty(_w)), pg.P(wty(_w), wty(_k)),
             _on_words([_k, _w], lambda y, x, k=_k: (y + x[:len(x) - k]) + x[len(x) - k:]), "full_right_shift", _w, _k)
        _reg("leftmost_%d_%d" % (_w, _k), wty(_w), wty(_k), lambda x, k=_k: x[:k], "leftmost", _w, _k)
        _reg("rightmost_%d_%d" % (_w, _k), wty(_w), wty(_k), lambda x, k=_k: x[len(x) - k:], "rightmost", _w, _k)
        _k *= 2

# ------------------------------------------------------------------ padding and extension n -> m
for _n in (1, 8, 16, 32):
    for _m in WIDTHS:
        if _m <= _n:
            continue
        _d = _m - _n
        _nm = "%d_%d" % (_n, _m)
        _reg("left_pad_low_" + _nm, wty(_n), wty(_m), lambda x, d=_d: [0] * d + x, "left_pad_low", _n, _m)
        _reg("left_pad_high_" + _nm, wty(_n), wty(_m), lambda x, d=_d: [1] * d + x, "left_pad_high", _n, _m)
        _reg("right_pad_low_" + _nm, wty(_n), wty(_m), lambda x, d=_d: x + [0] * d, "right_pad_low", _n, _m)
        _reg("right_pad_high_" + _nm, wty(_n), wty(_m), lambda x, d=_d: x + [1] * d, "right_pad_high", _n, _m)
        # extension repeats the outermost bit (left_extend = sign extension)
        _reg("left_extend_" + _nm, wty(_n), wty(_m), lambda x, d=_d: [x[0]] * d + x, "left_extend", _n, _m)
        if _n > 1:    # right_extend_1_m does not exist
            _reg("right_extend_" + _nm, wty(_n), wty(_m), lambda x, d=_d: x + [x[-1]] * d, "right_extend", _n, _m)


# ------------------------------------------------------------------ division
# x / 0 = 0 and x mod 0 = x;  divides(x, y): "x divides y", where 0 divides only 0
def _quot(x, y):
    return x // y if y else 0


def _rem(x, y):
    return x % y if y else x


def _divides(x, y):
    if x == 0:
        return y == 0
    return y % x == 0


for _w in WIDTHS:
    _reg("divide_%d" % _w, wty(2 * _w), wty(_w), _on_numbers([_w, _w], lambda x, y, w=_w: [(w, _quot(x, y))]), "divide", _w)
    _reg("modulo_%d" % _w, wty(2 * _w), wty(_w), _on_numbers([_w, _w], lambda x, y, w=_w: [(w, _rem(x, y))]), "modulo", _w)
    _reg("div_mod_%d" % _w, wty(2 * _w), wty(2 * _w),
         _on_numbers([_w, _w], lambda x, y, w=_w: [(w, _quot(x, y)), (w, _rem(x, y))]), "div_mod", _w)
    _reg("divides_%d" % _w, wty(2 * _w), BIT, _on_numbers([_w, _w], lambda x, y: [(1, int(_divides(x, y)))]), "divides", _w)


def _div_mod_128_64(a, b):
    """(quotient, remainder) of a 128 bit number by a 64 bit number with the top bit set, when
    the quotient fits in 64 bits (high half of a < b); all bits set otherwise"""
    if b >= 1 << 63 and (a >> 64) < b:
        q, r = divmod(a, b)
        return [(64, q), (64, r)]
    return [(64, (1 << 64) - 1), (64, (1 << 64) - 1)]


_reg("div_mod_128_64", pg.P(wty(128), wty(64)), wty(128), _on_numbers([128, 64], _div_mod_128_64), "div_mod_128_64")


# ------------------------------------------------------------------ verify
def _verify(bits):
    if bits != [1]:
        raise pg.EvalFail("jet")
    return []


_reg("verify", BIT, UNIT, _verify, "verify")

SPECIFIED = set(_J)
JET_TYPES = {n: (e[0], e[1]) for n, e in _J.items()}


def eval_jet(name, value):
    e = _J.get(name)
    if e is None:
        raise pg.EvalFail("nojet")
    src, tgt, fn = e[0], e[1], e[2]
    bits = pg.compact_bits(value)
    assert len(bits) == pg.width(src), (name, len(bits))
    out = fn(list(bits))
    assert len(out) == pg.width(tgt), (name, len(out))
    v, pos = pg.of_compact(tgt, out)
    assert pos == len(out)
    return v


# ------------------------------------------------------------------ edge inputs
def _rnd(rng, w):
    return num(rng.bits(w))


def _pairs(rng, w):
    """interesting operand pairs of w bits"""
    top = (1 << w) - 1
    half = 1 << (w - 1)
    a = _rnd(rng, w)
    b = _rnd(rng, w)
    lo, hi = min(a, b), max(a, b)
    mid = _rnd(rng, w) | 1
    ps = [(a, a), (lo, hi), (hi, lo), (top, top), (top, 1), (1, top), (top, 0), (0, top), (0, 0), (0, 1), (1, 0), (1, 1),
          (a, top - a), (a, (top - a + 1) & top), (half, half), (half - 1, half), (half, half - 1), (top - 1, top), (top, top - 1),
          (a, 0), (0, a), (a, 1), (1, a)]
    if a < top:
        ps += [(a, a + 1), (a + 1, a)]
    return ps


def _div_pairs(rng, w):
    top = (1 << w) - 1
    ps = []
    for _ in range(3):
        d = _rnd(rng, rng.range(1, w)) or 1          # divisors of all sizes
        q = _rnd(rng, w) // d
        ps += [(q * d, d), (d, q * d), (min(top, q * d + d - 1), d), (d, d), (d, min(top, d + 1))]
        if q * d:
            ps += [(q * d - 1, d), (d, q * d - 1)]
    ps += [(top, 2), (2, top), (top, 3), (3, top), (top, top - 1), (top - 1, top), (top, 1 << (w - 1)), (1 << (w - 1), top)]
    return ps


def _triples(rng, w):
    top = (1 << w) - 1
    vals = sorted([_rnd(rng, w), _rnd(rng, w), _rnd(rng, w)])
    a, b, c = vals
    ts = [(a, b, c), (a, c, b), (b, a, c), (b, c, a), (c, a, b), (c, b, a),
          (a, a, c), (a, c, a), (c, a, a), (c, c, a), (c, a, c), (a, c, c), (b, b, b),
          (0, b, c), (top, b, c), (b, 0, top), (b, top, 0), (0, 0, top), (top, 0, 0), (0, top, 0),
          (top, top, 0), (0, top, top), (top, 0, top), (b, c, c), (b, c, top - c)]
    return ts


def _amounts(l, w):
    am = {0, 1, 2, w // 2, w - 1, (1 << l) - 1}
    for x in (w, w + 1, 2 * w - 1, 2 * w, 2 * w + 1, 3 * w, (1 << l) - w, (1 << l) - w - 1):
        if 0 <= x < (1 << l):
            am.add(x)
    return sorted(am)


def _words(rng, w):
    top = (1 << w) - 1
    return [_rnd(rng, w), top, 1, 1 << (w - 1), (1 << (w - 1)) | 1 | _rnd(rng, w), _rnd(rng, w) & (top >> 1) & ~1]


def edge_inputs(name, rng):
    e = _J.get(name)
    if e is None:
        return []
    fam, params = e[3], e[4]
    out = []

    def put(*fields):
        bits = []
        for w, v in fields:
            bits += to_bits(w, v)
        assert len(bits) == pg.width(e[0]), (name, len(bits))
        out.append(bits)

    if fam in ("add", "subtract", "multiply", "and", "or", "xor", "le", "lt", "min", "max", "eq"):
        w = params[0]
        if w == 1:
            return []                       # all inputs are in the generic list already
        if w == 256:
            a = _rnd(rng, w)
            put((w, a), (w, a))
            put((w, 0), (w, 0))
            for k in (0, 31, 32, 127, 128, 223, 224, 255):     # one differing bit in several 32-bit limbs
                put((w, a), (w, a ^ (1 << k)))
                put((w, a ^ (1 << k)), (w, a))
            return out
        for x, y in _pairs(rng, w):
            put((w, x), (w, y))
    elif fam in ("full_add", "full_subtract"):
        w = params[0]
        for x, y in _pairs(rng, w):
            for c in (0, 1):
                put((1, c), (w, x), (w, y))
    elif fam in ("negate", "increment", "decrement", "is_zero", "is_one", "some", "all", "complement"):
        w = params[0]
        if w == 1:
            return []
        top = (1 << w) - 1
        for x in (2, top - 1, top ^ 1, 1 << (w - 1), (1 << (w - 1)) - 1, top ^ (1 << (w - 1)), 1 << rng.below(w), top ^ (1 << rng.below(w))):
            put((w, x))
    elif fam in ("full_increment", "full_decrement"):
        w = params[0]
        top = (1 << w) - 1
        for c in (0, 1):
            for x in (0, 1, top, top - 1, 1 << (w - 1), _rnd(rng, w)):
                put((1, c), (w, x))
    elif fam == "full_multiply":
        w = params[0]
        top = (1 << w) - 1
        a, b = _rnd(rng, w), _rnd(rng, w)
        for q in ((top, top, top, top), (top, top, 0, 0), (top, top, top, 0), (top, top, 0, top), (0, a, top, top), (a, 0, top, top),
                  (1, a, b, 0), (a, 1, 0, b), (a, b, 0, 0), (a, b, top, top), (1, 1, 1, 1), (0, 0, 0, 0), (top, 1, top, top),
                  (1 << (w - 1), 2, 0, 0), (1 << (w - 1), 2, top, top)):
            put(*[(w, v) for v in q])
    elif fam in ("xor_xor", "maj", "ch", "median"):
        w = params[0]
        if w == 1:
            return []                       # 8 inputs, the generic list has them (with high probability)
        for t in _triples(rng, w):
            put(*[(w, v) for v in t])
    elif fam in ("left_shift", "right_shift", "left_rotate", "right_rotate"):
        l, w = params
        words = _words(rng, w)
        for a in _amounts(l, w):
            for x in (words[0], words[1], words[4]):
                put((l, a), (w, x))
        for a in (1, w - 1):
            for x in words[2:4]:
                put((l, a), (w, x))
    elif fam in ("left_shift_with", "right_shift_with"):
        l, w = params
        words = _words(rng, w)
        for a in _amounts(l, w):
            for b in (0, 1):
                put((1, b), (l, a), (w, words[0]))
                put((1, b), (l, a), (w, words[1] if b == 0 else 0))
    elif fam in ("full_left_shift", "full_right_shift"):
        w, k = params
        topw, topk = (1 << w) - 1, (1 << k) - 1
        cases = [(topw, 0), (0, topk), (1, 0), (1 << (w - 1), 0), (0, 1), (0, 1 << (k - 1)), (_rnd(rng, w), _rnd(rng, k)),
                 (topw ^ 1, topk), (topw >> 1, topk)]
        for x, y in cases:
            if fam == "full_left_shift":
                put((w, x), (k, y))
            else:
                put((k, y), (w, x))
    elif fam in ("leftmost", "rightmost"):
        w, k = params
        top = (1 << w) - 1
        for x in ((1 << k) - 1, top ^ ((1 << k) - 1), top >> k, top ^ (top >> k), 1 << k if k < w else 1, 1 << (w - k), 1 << (w - k - 1) if w > k else 1,
                  _rnd(rng, w)):
            put((w, x))
    elif fam in ("left_pad_low", "left_pad_high", "right_pad_low", "right_pad_high", "left_extend", "right_extend"):
        n, m = params
        if n == 1:
            return []
        top = (1 << n) - 1
        r = _rnd(rng, n)
        for x in (r | (1 << (n - 1)), r & (top >> 1), r | 1, r & ~1, top >> 1, top ^ 1, 1 << (n - 1), 1, (1 << (n - 1)) | 1):
            put((n, x))
    elif fam in ("divide", "modulo", "div_mod", "divides"):
        w = params[0]
        for x, y in _pairs(rng, w) + _div_pairs(rng, w):
            put((w, x), (w, y))
    elif fam == "div_mod_128_64":
        m64 = (1 << 64) - 1
        m32 = (1 << 32) - 1
        hb = 1 << 63
        divisors = [hb, hb + 1, m64, m64 - 1, hb | m32, hb | (m32 << 31) & m64, m64 ^ m32, hb | _rnd(rng, 63), hb | _rnd(rng, 63),
                    hb | _rnd(rng, 32), hb | (_rnd(rng, 31) << 32)]
        for b in divisors:
            his = [0, 1, b - 1, b - 2, b >> 1, _rnd(rng, 64) % b, (b - 1) & ~m32, ((b >> 32) << 32) - 1]
            for ah in his:
                if 0 <= ah < b:
                    for al in (0, m64, _rnd(rng, 64), (b & m32) << 32):
                        put((128, (ah << 64) | al), (64, b))
            # multiples of b and their neighbours (remainders 0 and b - 1)
            q = _rnd(rng, 64)
            put((128, q * b), (64, b))
            put((128, q * b + b - 1), (64, b))
            put((128, m64 * b + b - 1), (64, b))        # the largest dividend with a 64 bit quotient
            # out of the domain: high half >= b
            put((128, (b << 64)), (64, b))
            put((128, (b << 64) | m64), (64, b))
            if b < m64:
                put((128, ((b + 1) << 64) | _rnd(rng, 64)), (64, b))
            put((128, (m64 << 64) | m64), (64, b))
        # out of the domain: top bit of the divisor clear
        for b in (0, 1, 2, hb - 1, _rnd(rng, 63), _rnd(rng, 32)):
            for a in (0, 1, _rnd(rng, 64), _rnd(rng, 128), b << 63, (1 << 128) - 1):
                put((128, a), (64, b))
    return out
