(* C04, phase 4 - coverage, on the reference side and semantically: in a tree model of the generated constraints in
   which the source and target of every node are FINITE trees, every variable is a finite tree (tmpl_cov, gen_cov),
   and then the constraints have a finite model (all_fin_model).  No union-find is involved: every variable a
   constructor allocates is a subtree of its arrow, or is built from subtrees of the arrows of the node and of its
   children, or belongs to the layout of a complete type. *)
From RS Require Import Lib.Tac Lib.Outcome Ty.Ty Core.Prog Infer.Constraints Infer.Unify Infer.Infer Infer.Gen Infer.Theorems
  Infer.Principal Infer.Rational Infer.ErrClass Infer.SlabSim Infer.SlabSimInst Infer.SlabNodes.
Import ListNotations.

Definition tfin (t : itree) : Prop := exists ty0, teq t (tof ty0).

Lemma tfin_teq t u : teq t u -> tfin t -> tfin u.
Proof. intros E (ty0 & H). exists ty0. eapply teq_trans; [apply teq_sym; exact E|exact H]. Qed.

Lemma tfin_one : tfin tone.
Proof. exists One. apply teq_refl. Qed.

Lemma tfin_tof ty0 : tfin (tof ty0).
Proof. exists ty0. apply teq_refl. Qed.

Lemma tfin_sum a b : tfin a -> tfin b -> tfin (tsum a b).
Proof. intros (x & Hx) (y & Hy). exists (Sum x y). apply (tnode_cong LSum); assumption. Qed.

Lemma tfin_prod a b : tfin a -> tfin b -> tfin (tprod a b).
Proof. intros (x & Hx) (y & Hy). exists (Prod x y). apply (tnode_cong LProd); assumption. Qed.

Lemma tfin_sum_inv a b : tfin (tsum a b) -> tfin a /\ tfin b.
Proof.
  intros ([|x y|x y] & H); cbn in H.
  - exfalso. apply (tone_node LSum a b); [discriminate|apply teq_sym; exact H].
  - destruct (tnode_inj LSum _ _ _ _ H). split; [exists x|exists y]; assumption.
  - exfalso. exact (tnode_distinct _ _ _ _ H).
Qed.

Lemma tfin_prod_inv a b : tfin (tprod a b) -> tfin a /\ tfin b.
Proof.
  intros ([|x y|x y] & H); cbn in H.
  - exfalso. apply (tone_node LProd a b); [discriminate|apply teq_sym; exact H].
  - exfalso. apply (tnode_distinct (tof x) (tof y) a b). apply teq_sym. exact H.
  - destruct (tnode_inj LProd _ _ _ _ H). split; [exists x|exists y]; assumption.
Qed.

Definition tfrom := dsat_from itree teq tone tsum tprod.
Definition th := dholds itree teq tone tsum tprod.

Lemma tfrom_app al n l1 l2 : tfrom al n (l1 ++ l2) <-> tfrom al n l1 /\ tfrom al (n + length l1) l2.
Proof. apply dsat_from_app; dom_hyps. Qed.

Lemma tfrom_one al n bd : tfrom al n [bd] <-> th al n bd.
Proof. apply dsat_from_one; dom_hyps. Qed.

Lemma tfrom_cons al n bd l : tfrom al n (bd :: l) <-> th al n bd /\ tfrom al (S n) l.
Proof.
  change (bd :: l) with ([bd] ++ l). rewrite tfrom_app, tfrom_one. cbn [length]. replace (n + 1)%nat with (S n) by lia. tauto.
Qed.

Lemma tsat_app al s l : tsat al (s ++ l) <-> tsat al s /\ tfrom al (length s) l.
Proof. apply dsat_app; dom_hyps. Qed.

(* ---- the layout of a complete type only has finite variables *)
Lemma block_fin_w k : forall n al, tfrom al n (fst (walloc k n)) -> forall j, (j < k + 2)%nat -> tfin (al (n + j)%nat).
Proof.
  induction k as [|k IH]; intros n al H j Hj.
  - cbn [walloc fst] in H. apply tfrom_cons in H. destruct H as [H0 H1]. apply tfrom_one in H1. unfold th in *. cbn [dholds] in *.
    assert (F0 : tfin (al n)) by (apply (tfin_teq tone); [apply teq_sym; exact H0|apply tfin_one]).
    destruct j as [|[|j]]; [rewrite Nat.add_0_r; exact F0| |lia].
    replace (n + 1)%nat with (S n) by lia. apply (tfin_teq (tsum (al n) (al n))); [apply teq_sym; exact H1|apply tfin_sum; exact F0].
  - pose proof (walloc_length k n) as [L R]. specialize (IH n al).
    cbn [walloc] in H. destruct (walloc k n) as [l r]. cbn [fst snd] in *.
    apply tfrom_app in H. destruct H as [Hl Hr]. apply tfrom_one in Hr. unfold th in Hr. cbn [dholds] in Hr.
    specialize (IH Hl). destruct (Nat.lt_ge_cases j (k + 2)) as [Lj|Gj]; [apply IH; exact Lj|].
    assert (j = k + 2)%nat by lia. subst j. rewrite L in Hr.
    assert (Fr : tfin (al r)) by (rewrite R; replace (k + 1 + n)%nat with (n + (k + 1))%nat by lia; apply IH; lia).
    apply (tfin_teq (tprod (al r) (al r))); [apply teq_sym; exact Hr|apply tfin_prod; exact Fr].
Qed.

Lemma galloc_snd_ge g : forall n, (n <= snd (galloc g n))%nat.
Proof.
  induction g as [|a IHa b IHb|a IHa b IHb|k]; intros n; cbn [galloc].
  - cbn. lia.
  - destruct (galloc a n) as [l1 r1]. destruct (galloc b (length l1 + n)) as [l2 r2]. cbn. lia.
  - destruct (galloc a n) as [l1 r1]. destruct (galloc b (length l1 + n)) as [l2 r2]. cbn. lia.
  - pose proof (walloc_length k n) as [L R]. lia.
Qed.

Lemma block_fin_g g : forall n al, tfrom al n (fst (galloc g n)) -> forall j, (j < length (fst (galloc g n)))%nat -> tfin (al (n + j)%nat).
Proof.
  induction g as [|a IHa b IHb|a IHa b IHb|k]; intros n al H j Hj.
  - cbn [galloc fst length] in *. apply tfrom_one in H. unfold th in H. cbn [dholds] in H.
    assert (j = 0)%nat by lia. subst j. rewrite Nat.add_0_r. apply (tfin_teq tone); [apply teq_sym; exact H|apply tfin_one].
  - cbn [galloc] in *. specialize (IHa n al). pose proof (galloc_length a n) as La. pose proof (galloc_snd_ge a n) as Ga. destruct (galloc a n) as [l1 r1].
    specialize (IHb (length l1 + n)%nat al). pose proof (galloc_length b (length l1 + n)) as Lb. pose proof (galloc_snd_ge b (length l1 + n)) as Gb.
    destruct (galloc b (length l1 + n)) as [l2 r2]. cbn [fst snd] in *.
    apply tfrom_app in H. destruct H as [H1 H]. apply tfrom_app in H. destruct H as [H2 H3]. apply tfrom_one in H3. unfold th in H3. cbn [dholds] in H3.
    replace (n + length l1)%nat with (length l1 + n)%nat in H2 by lia. specialize (IHa H1). specialize (IHb H2).
    rewrite !app_length in Hj. cbn [length] in Hj.
    destruct (Nat.lt_ge_cases j (length l1)) as [L1|G1]; [apply IHa; exact L1|].
    destruct (Nat.lt_ge_cases j (length l1 + length l2)) as [L2|G2].
    { replace (n + j)%nat with (length l1 + n + (j - length l1))%nat by lia. apply IHb. lia. }
    assert (j = length l1 + length l2)%nat by lia. subst j.
    replace (n + length l1 + length l2)%nat with (n + (length l1 + length l2))%nat in H3 by lia.
    apply (tfin_teq (tsum (al r1) (al r2))); [apply teq_sym; exact H3|]. apply tfin_sum.
    + replace r1 with (n + (r1 - n))%nat by lia. apply IHa. lia.
    + replace r2 with (length l1 + n + (r2 - (length l1 + n)))%nat by lia. apply IHb. lia.
  - cbn [galloc] in *. specialize (IHa n al). pose proof (galloc_length a n) as La. pose proof (galloc_snd_ge a n) as Ga. destruct (galloc a n) as [l1 r1].
    specialize (IHb (length l1 + n)%nat al). pose proof (galloc_length b (length l1 + n)) as Lb. pose proof (galloc_snd_ge b (length l1 + n)) as Gb.
    destruct (galloc b (length l1 + n)) as [l2 r2]. cbn [fst snd] in *.
    apply tfrom_app in H. destruct H as [H1 H]. apply tfrom_app in H. destruct H as [H2 H3]. apply tfrom_one in H3. unfold th in H3. cbn [dholds] in H3.
    replace (n + length l1)%nat with (length l1 + n)%nat in H2 by lia. specialize (IHa H1). specialize (IHb H2).
    rewrite !app_length in Hj. cbn [length] in Hj.
    destruct (Nat.lt_ge_cases j (length l1)) as [L1|G1]; [apply IHa; exact L1|].
    destruct (Nat.lt_ge_cases j (length l1 + length l2)) as [L2|G2].
    { replace (n + j)%nat with (length l1 + n + (j - length l1))%nat by lia. apply IHb. lia. }
    assert (j = length l1 + length l2)%nat by lia. subst j.
    replace (n + length l1 + length l2)%nat with (n + (length l1 + length l2))%nat in H3 by lia.
    apply (tfin_teq (tprod (al r1) (al r2))); [apply teq_sym; exact H3|]. apply tfin_prod.
    + replace r1 with (n + (r1 - n))%nat by lia. apply IHa. lia.
    + replace r2 with (length l1 + n + (r2 - (length l1 + n)))%nat by lia. apply IHb. lia.
  - cbn [galloc] in *. pose proof (walloc_length k n) as [L R]. rewrite L in Hj. apply (block_fin_w k n al H j Hj).
Qed.

Local Opaque walloc galloc.

Ltac facts Hn := repeat (apply tfrom_cons in Hn; let F := fresh "F" in destruct Hn as [F Hn]); clear Hn; unfold th in *; cbn [dholds Nat.add] in *.
Ltac fin_of H := first [ apply (tfin_teq _ _ (teq_sym _ _ H)) | apply (tfin_teq _ _ H) ].

Lemma tmpl_cov jt n ar nd nb ne a al : node_tmpl jt n ar nd = Some (nb, ne, a) -> tfrom al n nb -> teqs_hold al ne ->
  (forall c x y, In c (children nd) -> arr_of ar c = Some (x, y) -> tfin (al x) /\ tfin (al y)) ->
  (forall x y, a = Some (x, y) -> tfin (al x) /\ tfin (al y)) ->
  forall v, (n <= v < n + length nb)%nat -> tfin (al v).
Proof.
  intros H Hn He Hc Ha v Hv.
  destruct nd; cbn [node_tmpl children] in *.
  - injection H as <- <- <-. destruct (Ha _ _ eq_refl) as [A1 A2]. cbn [length] in Hv. assert (v = n) by lia. subst v. exact A1.
  - injection H as <- <- <-. destruct (Ha _ _ eq_refl) as [A1 A2]. cbn [length Nat.add] in *. assert (E : v = n \/ v = S n) by lia. destruct E as [-> | ->]; assumption.
  - destruct (arr_of ar c) as [[cs ct]|] eqn:Ec; [|discriminate]. injection H as <- <- <-. destruct (Ha _ _ eq_refl) as [A1 A2].
    facts Hn. cbn [length] in Hv. assert (E : v = n \/ v = S n) by lia. destruct E as [-> | ->]; [|exact A2].
    apply (tfin_sum_inv (al ct) (al n)). apply (tfin_teq _ _ F0). exact A2.
  - destruct (arr_of ar c) as [[cs ct]|] eqn:Ec; [|discriminate]. injection H as <- <- <-. destruct (Ha _ _ eq_refl) as [A1 A2].
    facts Hn. cbn [length] in Hv. assert (E : v = n \/ v = S n) by lia. destruct E as [-> | ->]; [|exact A2].
    apply (tfin_sum_inv (al n) (al ct)). apply (tfin_teq _ _ F0). exact A2.
  - destruct (arr_of ar c) as [[cs ct]|] eqn:Ec; [|discriminate]. injection H as <- <- <-. destruct (Ha _ _ eq_refl) as [A1 A2].
    facts Hn. cbn [length] in Hv. assert (E : v = n \/ v = S n) by lia. destruct E as [-> | ->]; [|exact A1].
    apply (tfin_prod_inv (al cs) (al n)). apply (tfin_teq _ _ F0). exact A1.
  - destruct (arr_of ar c) as [[cs ct]|] eqn:Ec; [|discriminate]. injection H as <- <- <-. destruct (Ha _ _ eq_refl) as [A1 A2].
    facts Hn. cbn [length] in Hv. assert (E : v = n \/ v = S n) by lia. destruct E as [-> | ->]; [|exact A1].
    apply (tfin_prod_inv (al n) (al cs)). apply (tfin_teq _ _ F0). exact A1.
  - destruct (arr_of ar l) as [[ls lt]|]; [|discriminate]. destruct (arr_of ar r) as [[rs rt]|]; [|discriminate].
    injection H as <- <- <-. cbn [length] in Hv. lia.
  - (* case *)
    assert (Hx : nb = [BFree; BFree; BFree; BSum n (1 + n); BProd (3 + n) (2 + n); BFree; BProd n (2 + n); BProd (1 + n) (2 + n)] /\
                 a = Some (4 + n, 5 + n)%nat).
    { destruct (hidden_at ar l && hidden_at ar r)%bool; [discriminate|].
      destruct (arr_of ar l) as [[? ?]|]; destruct (arr_of ar r) as [[? ?]|]; destruct (hidden_at ar l); destruct (hidden_at ar r);
        try discriminate; injection H as <- <- <-; split; reflexivity. }
    destruct Hx as (-> & ->). clear H. destruct (Ha _ _ eq_refl) as [A1 A2].
    facts Hn.
    destruct (tfin_prod_inv _ _ (tfin_teq _ _ F3 A1)) as [B3 B2]. destruct (tfin_sum_inv _ _ (tfin_teq _ _ F2 B3)) as [B0 B1].
    cbn [length] in Hv.
    assert (E : v = n \/ v = S n \/ v = S (S n) \/ v = S (S (S n)) \/ v = S (S (S (S n))) \/ v = S (S (S (S (S n)))) \/
                v = S (S (S (S (S (S n))))) \/ v = S (S (S (S (S (S (S n))))))) by lia.
    destruct E as [-> | [-> | [-> | [-> | [-> | [-> | [-> | ->]]]]]]]; try assumption.
    + fin_of F5. apply tfin_prod; assumption.
    + fin_of F6. apply tfin_prod; assumption.
  - destruct (arr_of ar l) as [[ls lt]|]; [|discriminate]. destruct (arr_of ar r) as [[rs rt]|]; [|discriminate].
    injection H as <- <- <-. destruct (Ha _ _ eq_refl) as [A1 A2]. cbn [length] in Hv. assert (v = n) by lia. subst v. exact A2.
  - (* disconnect *)
    destruct (arr_of ar l) as [[ls lt]|] eqn:El; [|discriminate].
    destruct (Hc l ls lt ltac:(destruct r; cbn; auto) El) as [Cls Clt].
    assert (Hx : exists pre c d wl w, (length pre <= 2)%nat /\ walloc 8 (2 + (length pre + n)) = (wl, w) /\
              let m := (length pre + n)%nat in let q := (length wl + (2 + m))%nat in
              nb = pre ++ [BFree; BFree] ++ wl ++ [BProd w m; BProd (1 + m) c; BProd (1 + m) d] /\
              ne = [(ls, q); (lt, (1 + q)%nat)] /\ a = Some (m, (2 + q)%nat) /\ (pre = [] \/ (pre = [BFree; BFree] /\ c = n /\ d = S n))).
    { destruct r as [r|].
      - destruct (arr_of ar r) as [[rs rt]|]; [|discriminate]. cbn [length Nat.add] in H.
        destruct (walloc 8 (S (S n))) as [wl w] eqn:Ew. injection H as <- <- <-.
        exists [], rs, rt, wl, w. cbn [length Nat.add]. split; [lia|]. split; [exact Ew|]. split; [reflexivity|]. split; [reflexivity|]. split; [reflexivity|]. left. reflexivity.
      - cbn [length Nat.add] in H. destruct (walloc 8 (S (S (S (S n))))) as [wl w] eqn:Ew. injection H as <- <- <-.
        exists [BFree; BFree], n, (1 + n)%nat, wl, w. cbn [length Nat.add]. split; [lia|]. split; [exact Ew|]. split; [reflexivity|]. split; [reflexivity|]. split; [reflexivity|].
        right. auto. }
    clear H. destruct Hx as (pre & c & d & wl & w & Lpre & Ew & Hx). cbv zeta in Hx. destruct Hx as (-> & -> & -> & Hpre).
    set (m := (length pre + n)%nat) in *. pose proof (walloc_length 8 (2 + m)) as [Lw Rw]. rewrite Ew in Lw, Rw. cbn [fst snd] in Lw, Rw.
    set (q := (length wl + (2 + m))%nat) in *.
    destruct (Ha _ _ eq_refl) as [A1 A2].
    apply tfrom_app in Hn. destruct Hn as [Hpr Hn]. fold m in Hn. replace (n + length pre)%nat with m in Hn by (unfold m; lia).
    apply tfrom_cons in Hn. destruct Hn as [_ Hn]. apply tfrom_cons in Hn. destruct Hn as [_ Hn].
    apply tfrom_app in Hn. destruct Hn as [Hwl Hn]. replace (S (S m) + length wl)%nat with q in Hn by (unfold q; lia).
    pose proof (block_fin_w 8 (2 + m) al) as BW. rewrite Ew in BW. cbn [fst] in BW. specialize (BW Hwl).
    facts Hn.
    assert (E1 : teq (al ls) (al q)) by (apply He; left; reflexivity).
    assert (E2 : teq (al lt) (al (S q))) by (apply He; right; left; reflexivity).
    assert (Fq1 : tfin (al (S q))) by (apply (tfin_teq _ _ E2); exact Clt).
    destruct (tfin_prod_inv _ _ (tfin_teq _ _ F0 Fq1)) as [Fb Fc].
    destruct (tfin_prod_inv _ _ (tfin_teq _ _ F1 A2)) as [_ Fd].
    assert (Fw : tfin (al w)) by (replace w with (S (S (m + 9))) by lia; apply BW; lia).
    rewrite ?app_length in Hv; cbn [length] in Hv; rewrite ?app_length in Hv; cbn [length] in Hv.
    destruct (Nat.lt_ge_cases v m) as [Lm|Gm].
    { (* the two fresh variables of the missing branch are c and d *)
      destruct Hpre as [Ep|(Ep & Ec & Ed)].
      - exfalso. subst pre. unfold m in Lm. cbn [length] in Lm. lia.
      - subst pre c d. unfold m in Lm. cbn [length] in Lm. assert (E : v = n \/ v = S n) by lia. destruct E as [-> | ->]; assumption. }
    assert (E : v = m \/ v = S m \/ (S (S m) <= v < q)%nat \/ v = q \/ v = S q \/ v = S (S q)) by (unfold q in *; lia).
    destruct E as [-> | [-> | [Hb | [-> | [-> | ->]]]]]; try assumption.
    + replace v with (S (S (m + (v - S (S m))))) by lia. apply BW. unfold q in Hb. lia.
    + fin_of F. apply tfin_prod; assumption.
  - injection H as <- <- <-. cbn [length] in Hv. lia.
  - injection H as <- <- <-. destruct (Ha _ _ eq_refl) as [A1 A2]. cbn [length Nat.add] in *. assert (E : v = n \/ v = S n) by lia. destruct E as [-> | ->]; assumption.
  - (* jet *)
    destruct (jet_lookup jt family name_id) as [[gs gt]|]; [|discriminate].
    pose proof (block_fin_g gs n al) as B1. destruct (galloc gs n) as [l1 r1]. cbn [fst] in B1.
    pose proof (block_fin_g gt (length l1 + n) al) as B2. destruct (galloc gt (length l1 + n)) as [l2 r2]. cbn [fst] in B2.
    injection H as <- <- <-. apply tfrom_app in Hn. destruct Hn as [H1 H2]. replace (n + length l1)%nat with (length l1 + n)%nat in H2 by lia.
    rewrite app_length in Hv. destruct (Nat.lt_ge_cases v (n + length l1)) as [L|G].
    + replace v with (n + (v - n))%nat by lia. apply (B1 H1). lia.
    + replace v with (length l1 + n + (v - (length l1 + n)))%nat by lia. apply (B2 H2). lia.
  - (* word *)
    destruct (Nat.leb n0 31 && Nat.eqb (length bits) (2 ^ n0))%bool; [|discriminate].
    pose proof (block_fin_w n0 (1 + n) al) as BW. pose proof (walloc_length n0 (1 + n)) as [Lw Rw].
    destruct (walloc n0 (1 + n)) as [wl w]. cbn [fst snd] in *. injection H as <- <- <-.
    apply tfrom_cons in Hn. destruct Hn as [F0 Hn]. cbn [length] in Hv.
    destruct (Nat.eq_dec v n) as [->|Nv].
    + unfold th in F0. cbn [dholds] in F0. fin_of F0. apply tfin_one.
    + replace v with (1 + n + (v - (1 + n)))%nat by lia. apply (BW Hn). lia.
  - injection H as <- <- <-. destruct (Ha _ _ eq_refl) as [A1 A2]. cbn [length Nat.add] in *. assert (E : v = n \/ v = S n) by lia. destruct E as [-> | ->]; assumption.
Qed.

(* ---- all nodes *)
Theorem gen_cov jt al : forall p g0 g, ginv g0 -> gen_nodes jt p g0 = Some g ->
  tsat al (g_store g) -> teqs_hold al (g_eqs g) ->
  (forall c x y, arr_of (g_arr g) c = Some (x, y) -> tfin (al x) /\ tfin (al y)) ->
  (forall v, (v < length (g_store g0))%nat -> tfin (al v)) ->
  forall v, (v < length (g_store g))%nat -> tfin (al v).
Proof.
  induction p as [|nd rest IH]; intros g0 g I0 H Sa Ea Ha H0 v Hv; cbn [gen_nodes] in H.
  - injection H as <-. apply H0. exact Hv.
  - destruct (node_tmpl jt (length (g_store g0)) (g_arr g0) nd) as [[[nb ne] a]|] eqn:T; [|discriminate].
    pose proof (ginv_step _ _ _ _ _ _ I0 T) as I1.
    destruct (gen_nodes_inv jt _ _ _ I1 H) as (_ & s2 & e2 & a2 & E1 & E2 & E3 & _). cbn [g_store g_eqs g_arr] in E1, E2, E3.
    apply (IH _ g I1 H Sa Ea Ha); [|exact Hv]. cbn [g_store].
    intros u Hu. rewrite app_length in Hu.
    destruct (Nat.lt_ge_cases u (length (g_store g0))) as [L|G]; [apply H0; exact L|].
    apply (tmpl_cov jt (length (g_store g0)) (g_arr g0) nd nb ne a al T); [| | | |lia].
    + rewrite E1 in Sa. apply tsat_app in Sa. destruct Sa as [Sa _]. apply tsat_app in Sa. tauto.
    + intros x y Hin. apply Ea. rewrite E2. apply in_or_app. left. apply in_or_app. right. exact Hin.
    + intros c x y _ Ec. apply (Ha c). rewrite E3. pose proof (arr_of_some_lt _ _ _ Ec) as Lc.
      rewrite !arr_of_app_l by (rewrite ?app_length; cbn [length]; lia). exact Ec.
    + intros x y ->. apply (Ha (length (g_arr g0))). rewrite E3. rewrite arr_of_app_l by (rewrite app_length; cbn [length]; lia).
      apply arr_of_app_last.
Qed.

(* ---- finitely many finite trees are the images of types: a finite model *)
Lemma fin_choice al : forall N, (forall v, (v < N)%nat -> tfin (al v)) -> exists f : nat -> ty, forall v, (v < N)%nat -> teq (al v) (tof (f v)).
Proof.
  induction N as [|N IH]; intros H; [exists (fun _ => One); intros v Hv; lia|].
  destruct (IH ltac:(intros v Hv; apply H; lia)) as (f & Hf). destruct (H N ltac:(lia)) as (t0 & Ht).
  exists (fun v => if Nat.eqb v N then t0 else f v). intros v Hv. destruct (Nat.eqb_spec v N) as [->|Nv]; [exact Ht|apply Hf; lia].
Qed.

Lemma tof_inj (x y : ty) : teq (tof x) (tof y) -> x = y.
Proof. apply (dof_inj itree teq tone tsum tprod); dom_hyps. Qed.

Theorem all_fin_model s eqs al : wf s -> eqs_in (length s) eqs -> tsat al s -> teqs_hold al eqs ->
  (forall v, (v < length s)%nat -> tfin (al v)) -> finite_model s eqs.
Proof.
  intros W Ei Sa Ea Hf. destruct (fin_choice al (length s) Hf) as (f & Ff).
  exists f. split.
  - intros v Hv. pose proof (Sa v Hv) as Sv. pose proof (W v Hv) as Wv. pose proof (Ff v Hv) as Fv.
    destruct (sget s v) as [|w| |a b|a b]; cbn [holds dholds wf_bnd] in *.
    + exact I.
    + apply tof_inj. eapply teq_trans; [apply teq_sym; exact Fv|]. eapply teq_trans; [exact Sv|]. apply Ff. lia.
    + apply (tof_inj (f v) One). eapply teq_trans; [apply teq_sym; exact Fv|exact Sv].
    + apply (tof_inj (f v) (Sum (f a) (f b))). eapply teq_trans; [apply teq_sym; exact Fv|]. eapply teq_trans; [exact Sv|].
      apply (tnode_cong LSum); apply Ff; tauto.
    + apply (tof_inj (f v) (Prod (f a) (f b))). eapply teq_trans; [apply teq_sym; exact Fv|]. eapply teq_trans; [exact Sv|].
      apply (tnode_cong LProd); apply Ff; tauto.
  - intros x y Hin. destruct (Ei x y Hin) as [Lx Ly]. apply tof_inj.
    eapply teq_trans; [apply teq_sym; apply Ff; exact Lx|]. eapply teq_trans; [apply Ea; exact Hin|]. apply Ff. exact Ly.
Qed.
