(* C01 - finding F-C01 against the fixed-point theorem (Codec/Reinfer.v, Codec/RootsRT.v).
   The witness of the finding (PDL unit,injl.0,unit,comp.1.2,pair.0.0,injr.4,comp.5.2,injl.0,unit,comp.7.8,
   comp.9.6,comp.3.10): nodes 3 and 9 are `comp (injl unit) unit` with arrow 1 -> 1 and equal IMR, hence equal
   identity hash, but the target of node 1 is 1 + (1 * 1) (forced through the shared `unit` node 2) while the
   target of node 7 is 1 + 1.  The encoder merges 9 into 3.
     twins_no_quotient    no type-respecting quotient map can merge 3 and 9: the premise "same structure up to
                          the sharing quotient" of reinfer_quotient / roots_quotient fails exactly here
     twins_amr_differs    with a collision-free (free, symbolic) hash the annotated root of node 9 differs from
                          that of node 3, so the parent's annotated root changes when 9 is replaced by 3, while
                          their identity roots are equal (that is why the encoder merges them) *)
From RS Require Import Lib.Tac Lib.Outcome Ty.Ty Core.Prog Merkle.Tagged Merkle.Cmr Merkle.Ihr
  Infer.Constraints Infer.Unify Infer.Infer Infer.Principal Infer.Gen Infer.Theorems Infer.Order Codec.Reinfer.
Import ListNotations.

Definition twins : prog :=
  [NUnit; NInjL 0; NUnit; NComp 1 2; NPair 0 0; NInjR 4; NComp 5 2; NInjL 0; NUnit; NComp 7 8; NComp 9 6; NComp 3 10].

Definition twins_tau : list (option tarrow) :=
  match infer [] (Some 11%nat) twins with Ok t => t | _ => [] end.

Example twins_typed : infer [] (Some 11%nat) twins = Ok twins_tau /\ wf_from 0 twins = true.
Proof. vm_compute. auto. Qed.

(* the twins have the same arrow, their left children do not *)
Example twins_arrows :
  nth 3 twins_tau None = Some (One, One) /\ nth 9 twins_tau None = Some (One, One) /\
  nth 1 twins_tau None = Some (One, Sum One (Prod One One)) /\ nth 7 twins_tau None = Some (One, Sum One One).
Proof. vm_compute. auto. Qed.

Theorem twins_no_quotient : forall phi p',
  quotient_of phi twins p' -> phi 3%nat = phi 9%nat ->
  ~ (forall i j, (i < length twins)%nat -> (j < length twins)%nat -> phi i = phi j ->
       nth i twins_tau None = nth j twins_tau None).
Proof.
  intros phi p' Q E.
  assert (L : forall k, Nat.ltb k 12 = true -> (k < length twins)%nat).
  { intros k Hk. apply Nat.ltb_lt in Hk. exact Hk. }
  pose proof (quotient_children_agree phi twins p' 3 9 Q (L 3%nat eq_refl) (L 9%nat eq_refl) E) as C.
  cbn [twins nth children map] in C. injection C as C1 _.
  intros Hcls. pose proof (Hcls 1%nat 7%nat (L 1%nat eq_refl) (L 7%nat eq_refl) C1) as X. clear Hcls.
  destruct twins_arrows as (_ & _ & A1 & A7). rewrite A1, A7 in X. discriminate X.
Qed.

(* ------------------------------------------------------------------ a free (collision-free) hash *)
Inductive sym :=
| SIv (i : bool) (t : tag)
| SZero
| SWeight (w : N)
| SBit (b : bool)
| SBytes (l : list N)
| SJet (f i : N)
| SVal (bits : list bool)
| SComp (s : sym) (a b : sym).

Definition s_table (tp : typed_prog) :=
  redeem_table sym (fun s ab => SComp s (fst ab) (snd ab)) (SIv false) (SIv true) SZero SWeight SBit
    (SIv false TtUnit) [] SJet SBytes SVal tp.

Definition twins_tp : typed_prog := combine twins twins_tau.

Definition amr_at (k : nat) : option sym :=
  match s_table twins_tp with
  | Ok t => match nth_error t k with Some (inl d) => Some (rd_amr sym d) | _ => None end
  | _ => None
  end.
Definition ihr_at (k : nat) : option sym :=
  match s_table twins_tp with
  | Ok t => match nth_error t k with Some (inl d) => Some (rd_ihr sym d) | _ => None end
  | _ => None
  end.

Theorem twins_amr_differs :
  ihr_at 3 = ihr_at 9 /\ ihr_at 3 <> None /\ amr_at 3 <> amr_at 9 /\ ihr_at 1 <> ihr_at 7.
Proof.
  split; [vm_compute; reflexivity|]. split; [vm_compute; discriminate|].
  split; vm_compute; intros E; discriminate E.
Qed.
