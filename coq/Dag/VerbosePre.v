(* C18 - VerbosePreOrderIter (reused by C04's display bound): recursive specification,
   refinement of the explicit-stack iterator, depth bound, and: without a depth limit the
   first yields are exactly the pre-order. *)
From RS Require Import Lib.Tac Lib.Outcome Dag.DagModel Dag.PostOrderSpec Dag.PreOrder.
Import ListNotations.
Local Open Scope N_scope.

Section Verbose.
Variable children : nat -> dagnode.
Variable key : nat -> option N.
Variable max_depth : option N.
Hypothesis Hwf : wfc children.

Record vpres : Type := mk_vpres {
  vr_index : N;
  vr_trk : tmap;
  vr_out : list vitem }.

(* a child slot: descended into only while depth < max_depth *)
Definition vpchild (vis : nat -> N -> tmap -> vpres) (depth : N) (c : nat) (idx : N) (m : tmap) : vpres :=
  if depth_ok max_depth depth then vis c idx m else mk_vpres idx m [].

(* node first (with a fresh index), then the left subtree, the node again, the right subtree,
   the node again; a node whose class is recorded is skipped entirely *)
Fixpoint vvisit (h : nat) (n : nat) (depth : N) (parent : option nat) (idx : N) (m : tmap) : vpres :=
  match h with
  | O => mk_vpres idx m []
  | S h' =>
      match record key m n 0 with
      | (Some _, m') => mk_vpres idx m' []
      | (None, m') =>
          match children n with
          | Nul => mk_vpres (idx + 1) m' [mk_vitem n parent idx depth 0 true]
          | Un c =>
              let l := vpchild (fun c i m0 => vvisit h' c (depth + 1) (Some n) i m0) depth c (idx + 1) m' in
              mk_vpres (vr_index l) (vr_trk l)
                (mk_vitem n parent idx depth 0 false :: vr_out l ++ [mk_vitem n parent idx depth 1 true])
          | Bin a b =>
              let l := vpchild (fun c i m0 => vvisit h' c (depth + 1) (Some n) i m0) depth a (idx + 1) m' in
              let r := vpchild (fun c i m0 => vvisit h' c (depth + 1) (Some n) i m0) depth b (vr_index l) (vr_trk l) in
              mk_vpres (vr_index r) (vr_trk r)
                (mk_vitem n parent idx depth 0 false :: vr_out l ++
                 mk_vitem n parent idx depth 1 false :: vr_out r ++ [mk_vitem n parent idx depth 2 true])
          end
      end
  end.

Definition vp_spec (root : nat) : list vitem := vr_out (vvisit (S root) root 0 None 0 []).
Definition vp_fuel (root : nat) : nat := 3 * tsize children (S root) root + 1.

Lemma vp_run_S f st :
  vp_run children key max_depth (S f) st =
  match vp_step children key max_depth st with
  | VDone => Ok []
  | VYield it st' => omap (cons it) (vp_run children key max_depth f st')
  | VCont st' => vp_run children key max_depth f st'
  | VPanic c => Panic c
  end.
Proof. reflexivity. Qed.

(* the three kinds of steps *)
Lemma vp_step_first n depth parent stk idx m :
  vp_step children key max_depth (mk_vp (v_initial children n depth parent :: stk) idx m) =
  match record key m n 0 with
  | (Some _, m') => VCont (mk_vp stk idx m')
  | (None, m') =>
      let top := mk_vitem n parent idx depth 0 (match children n with Nul => true | _ => false end) in
      match children n with
      | Nul => VYield top (mk_vp stk (idx + 1) m')
      | Un c =>
          VYield top (mk_vp (if depth_ok max_depth depth
                             then v_initial children c (depth + 1) (Some n) :: v_increment top true :: stk
                             else v_increment top true :: stk) (idx + 1) m')
      | Bin a b =>
          VYield top (mk_vp (if depth_ok max_depth depth
                             then v_initial children a (depth + 1) (Some n) :: v_increment top false :: stk
                             else v_increment top false :: stk) (idx + 1) m')
      end
  end.
Proof.
  destruct (record key m n 0) as [[i|] m'] eqn:E.
  - unfold vp_step, v_initial. cbn [vp_stack vp_trk vp_index v_ncy v_node N.eqb]. rewrite E. reflexivity.
  - destruct (children n) as [|c|a b] eqn:Hc; try destruct (depth_ok max_depth depth) eqn:Hd;
      unfold vp_step, v_initial; cbn [vp_stack vp_trk vp_index v_ncy v_node N.eqb]; rewrite E;
      cbn [opt_is_some]; unfold v_set_index; cbn [v_node v_parent v_depth v_ncy v_complete N.eqb];
      rewrite ?Hc; cbn [n_children_of N.eqb Pos.eqb left_child_of]; rewrite ?Hd; reflexivity.
Qed.

Lemma vp_step_second_un n c parent idx depth stk i m : children n = Un c ->
  vp_step children key max_depth (mk_vp (mk_vitem n parent idx depth 1 true :: stk) i m) =
  VYield (mk_vitem n parent idx depth 1 true) (mk_vp stk i m).
Proof.
  intros H. unfold vp_step. cbn [vp_stack vp_trk vp_index v_ncy v_node N.eqb Pos.eqb]. rewrite H. reflexivity.
Qed.

Lemma vp_step_second_bin n a b parent idx depth stk i m : children n = Bin a b ->
  vp_step children key max_depth (mk_vp (mk_vitem n parent idx depth 1 false :: stk) i m) =
  VYield (mk_vitem n parent idx depth 1 false)
    (mk_vp (if depth_ok max_depth depth
            then v_initial children b (depth + 1) (Some n) :: mk_vitem n parent idx depth 2 true :: stk
            else mk_vitem n parent idx depth 2 true :: stk) i m).
Proof.
  intros H. unfold vp_step. cbn [vp_stack vp_trk vp_index v_ncy v_node v_depth N.eqb Pos.eqb]. rewrite H.
  cbn [n_children_of N.eqb Pos.eqb right_child_of]. destruct (depth_ok max_depth depth); reflexivity.
Qed.

Lemma vp_step_third n a b parent idx depth stk i m : children n = Bin a b ->
  vp_step children key max_depth (mk_vp (mk_vitem n parent idx depth 2 true :: stk) i m) =
  VYield (mk_vitem n parent idx depth 2 true) (mk_vp stk i m).
Proof.
  intros H. unfold vp_step. cbn [vp_stack vp_trk vp_index v_ncy v_node N.eqb Pos.eqb]. rewrite H. reflexivity.
Qed.

Lemma vvisit_run : forall h n, (n < h)%nat -> forall depth parent idx m,
  exists k, (k <= 3 * tsize children h n)%nat /\
    forall f stk,
      vp_run children key max_depth (k + f) (mk_vp (v_initial children n depth parent :: stk) idx m) =
      omap (app (vr_out (vvisit h n depth parent idx m)))
           (vp_run children key max_depth f
              (mk_vp stk (vr_index (vvisit h n depth parent idx m)) (vr_trk (vvisit h n depth parent idx m)))).
Proof.
  induction h as [|h IH]; intros n Hn depth parent idx m; [lia|].
  pose proof (Hwf n) as Hok. cbn [vvisit tsize].
  destruct (record key m n 0) as [[i|] m'] eqn:Hrec.
  - exists 1%nat. split; [lia|]. intros f stk. change (1 + f)%nat with (S f).
    rewrite vp_run_S, vp_step_first, Hrec. cbn [vr_out vr_index vr_trk]. rewrite omap_app_nil. reflexivity.
  - destruct (children n) as [|c|a b] eqn:Hdn; cbn [node_ok] in Hok.
    + exists 1%nat. split; [lia|]. intros f stk. change (1 + f)%nat with (S f).
      rewrite vp_run_S, vp_step_first, Hrec, Hdn. cbn [vr_out vr_index vr_trk]. cbv zeta.
      rewrite omap_cons_app. reflexivity.
    + unfold vpchild. destruct (depth_ok max_depth depth) eqn:Hd.
      * destruct (IH c ltac:(lia) (depth + 1) (Some n) (idx + 1) m') as (kc & Hkc & Hrun).
        exists (S (kc + 1)). split; [lia|]. intros f stk.
        change (S (kc + 1) + f)%nat with (S (kc + 1 + f)).
        rewrite vp_run_S, vp_step_first, Hrec, Hdn, Hd. cbv zeta.
        replace (kc + 1 + f)%nat with (kc + S f)%nat by lia. rewrite Hrun.
        unfold v_increment. cbn [v_node v_parent v_index v_depth v_ncy N.add].
        rewrite vp_run_S, (vp_step_second_un _ _ _ _ _ _ _ _ Hdn).
        cbn [vr_out vr_index vr_trk]. rewrite !omap_cons_app, !omap_app_app.
        rewrite <- ?app_assoc. reflexivity.
      * exists 2%nat. split; [lia|]. intros f stk. change (2 + f)%nat with (S (S f)).
        rewrite vp_run_S, vp_step_first, Hrec, Hdn, Hd. cbv zeta.
        unfold v_increment. cbn [v_node v_parent v_index v_depth v_ncy N.add].
        rewrite vp_run_S, (vp_step_second_un _ _ _ _ _ _ _ _ Hdn).
        cbn [vr_out vr_index vr_trk]. rewrite !omap_cons_app, !omap_app_app. reflexivity.
    + destruct Hok as [Ha Hb]. unfold vpchild. destruct (depth_ok max_depth depth) eqn:Hd.
      * destruct (IH a ltac:(lia) (depth + 1) (Some n) (idx + 1) m') as (ka & Hka & Hruna).
        set (L := vvisit h a (depth + 1) (Some n) (idx + 1) m') in *.
        destruct (IH b ltac:(lia) (depth + 1) (Some n) (vr_index L) (vr_trk L)) as (kb & Hkb & Hrunb).
        exists (S (ka + S (kb + 1))). split; [lia|]. intros f stk.
        change (S (ka + S (kb + 1)) + f)%nat with (S (ka + S (kb + 1) + f)).
        rewrite vp_run_S, vp_step_first, Hrec, Hdn, Hd. cbv zeta.
        replace (ka + S (kb + 1) + f)%nat with (ka + S (kb + S f))%nat by lia. rewrite Hruna.
        unfold v_increment. cbn [v_node v_parent v_index v_depth v_ncy N.add].
        rewrite vp_run_S, (vp_step_second_bin _ _ _ _ _ _ _ _ _ Hdn), Hd. rewrite Hrunb.
        rewrite vp_run_S, (vp_step_third _ _ _ _ _ _ _ _ _ Hdn).
        cbn [vr_out vr_index vr_trk]. rewrite !omap_cons_app, !omap_app_app.
        rewrite <- ?app_assoc. reflexivity.
      * exists 3%nat. split; [lia|]. intros f stk. change (3 + f)%nat with (S (S (S f))).
        rewrite vp_run_S, vp_step_first, Hrec, Hdn, Hd. cbv zeta.
        unfold v_increment. cbn [v_node v_parent v_index v_depth v_ncy N.add].
        rewrite vp_run_S, (vp_step_second_bin _ _ _ _ _ _ _ _ _ Hdn), Hd.
        rewrite vp_run_S, (vp_step_third _ _ _ _ _ _ _ _ _ Hdn).
        cbn [vr_out vr_index vr_trk]. rewrite !omap_cons_app, !omap_app_app. reflexivity.
Qed.

Lemma vp_run_more : forall f st out, vp_run children key max_depth f st = Ok out ->
  forall g, vp_run children key max_depth (f + g) st = Ok out.
Proof.
  induction f as [|f IH]; intros st out H g; [discriminate|].
  change (S f + g)%nat with (S (f + g)). rewrite vp_run_S in *.
  destruct (vp_step children key max_depth st) as [|it st'|st'|c]; try exact H.
  - destruct (vp_run children key max_depth f st') as [l| | |] eqn:E; try discriminate.
    rewrite (IH _ _ E g). exact H.
  - apply IH. exact H.
Qed.

(* THEOREM (refinement of VerbosePreOrderIter): terminates without Panic (no unreachable!(), no
   failed unwrap, no failed debug assertion) and yields the recursive specification *)
Theorem vp_refines : forall root,
  vp_run children key max_depth (vp_fuel root) (vp_init children root) = Ok (vp_spec root).
Proof.
  intros root. unfold vp_fuel, vp_spec, vp_init.
  destruct (vvisit_run (S root) root ltac:(lia) 0 None 0 []) as (k & Hk & Hrun).
  specialize (Hrun 1%nat []). cbn [vp_run vp_step vp_stack omap obind] in Hrun.
  rewrite app_nil_r in Hrun.
  replace (3 * tsize children (S root) root + 1)%nat
    with (k + 1 + (3 * tsize children (S root) root - k))%nat by lia.
  apply vp_run_more. exact Hrun.
Qed.

(* depth bound: nothing deeper than max_depth is yielded *)
Lemma vvisit_depth d : max_depth = Some d -> forall h n depth parent idx m v,
  depth <= d -> In v (vr_out (vvisit h n depth parent idx m)) -> v_depth v <= d.
Proof.
  intros Hmd. induction h as [|h IH]; intros n depth parent idx m v Hd; cbn [vvisit vr_out]; [intros []|].
  assert (Hc : forall c i m0, In v (vr_out (vpchild (fun c i m0 => vvisit h c (depth + 1) (Some n) i m0) depth c i m0)) ->
            v_depth v <= d).
  { intros c i m0. unfold vpchild, depth_ok. rewrite Hmd. cbn [unwrap_or].
    destruct (depth <? d) eqn:E; cbn [vr_out]; [|intros []].
    apply N.ltb_lt in E. apply IH. lia. }
  destruct (record key m n 0) as [[i|] m']; cbn [vr_out]; [intros []|].
  destruct (children n) as [|c|a b]; cbn [vr_out].
  - intros [<-|[]]. exact Hd.
  - intros [<-|H]; [exact Hd|]. apply in_app_or in H. destruct H as [H|[<-|[]]]; [eapply Hc; exact H|exact Hd].
  - intros [<-|H]; [exact Hd|]. apply in_app_or in H. destruct H as [H|[<-|H]]; [eapply Hc; exact H|exact Hd|].
    apply in_app_or in H. destruct H as [H|[<-|[]]]; [eapply Hc; exact H|exact Hd].
Qed.

Theorem vp_depth_bound : forall d root v, max_depth = Some d -> In v (vp_spec root) -> v_depth v <= d.
Proof.
  intros d root v Hmd H. apply (vvisit_depth d Hmd _ _ _ _ _ _ _ (N.le_0_l d) H).
Qed.

End Verbose.

(* without a depth limit the first yields (n_children_yielded = 0) are the pre-order *)
Section VerbosePre.
Variable children : nat -> dagnode.
Variable key : nat -> option N.

Definition first_yields (l : list vitem) : list nat :=
  map v_node (filter (fun v => v_ncy v =? 0) l).

Lemma first_yields_app a b : first_yields (a ++ b) = first_yields a ++ first_yields b.
Proof. unfold first_yields. rewrite filter_app, map_app. reflexivity. Qed.

Lemma vvisit_previsit : forall h n depth parent idx m,
  first_yields (vr_out (vvisit children key None h n depth parent idx m)) = snd (previsit children key h n m) /\
  vr_trk (vvisit children key None h n depth parent idx m) = fst (previsit children key h n m).
Proof.
  induction h as [|h IH]; intros n depth parent idx m; cbn [vvisit previsit]; [split; reflexivity|].
  destruct (record key m n 0) as [[i|] m']; cbn [vr_out vr_trk fst snd]; [split; reflexivity|].
  assert (Hok : forall d, depth_ok None d = true).
  { intros d. unfold depth_ok. cbn [unwrap_or]. apply N.ltb_lt. lia. }
  unfold vpchild. rewrite Hok.
  destruct (children n) as [|c|a b]; cbn [vr_out vr_trk left_child_of right_child_of pchild fst snd].
  - split; reflexivity.
  - destruct (IH c (depth + 1) (Some n) (idx + 1) m') as [H1 H2]. split; [|exact H2].
    change (mk_vitem n parent idx depth 0 false :: ?l) with ([mk_vitem n parent idx depth 0 false] ++ l).
    rewrite !first_yields_app, H1. cbn. rewrite app_nil_r. reflexivity.
  - destruct (IH a (depth + 1) (Some n) (idx + 1) m') as [H1 H2].
    set (L := vvisit children key None h a (depth + 1) (Some n) (idx + 1) m') in *.
    destruct (IH b (depth + 1) (Some n) (vr_index L) (vr_trk L)) as [H3 H4].
    rewrite <- H2. split; [|exact H4].
    change (mk_vitem n parent idx depth 0 false :: vr_out L ++ ?l)
      with ([mk_vitem n parent idx depth 0 false] ++ vr_out L ++ l).
    change (mk_vitem n parent idx depth 1 false :: ?l) with ([mk_vitem n parent idx depth 1 false] ++ l).
    rewrite !first_yields_app, H1, H3. cbn. rewrite app_nil_r. reflexivity.
Qed.

Theorem vp_first_yields_pre_order : forall root,
  first_yields (vp_spec children key None root) = pre_spec children key root.
Proof. intros root. apply (proj1 (vvisit_previsit (S root) root 0 None 0 [])). Qed.

End VerbosePre.
