(* C17, character/token level for TYPES: how a complete type is printed and how the
   human-readable parser reads a type.

     src/types/final_data.rs         impl fmt::Display for Final       -> events, disp_step, display
     src/dag.rs                      VerbosePreOrderIter<NoSharing>    -> events (recursive form; the
                                     equality of the explicit-stack iterators with their recursive
                                     forms is C18)
     src/human_encoding/mod.rs       string_serialize replaces " × " by " * "
     src/human_encoding/parse/ast.rs Token (the part used by types), parse_type / parse_type_inner /
                                     parse_type_postfix / parse_type_atom, Parser::descend,
                                     MAX_NESTING, Type::reify

   The model follows /repo at commit c4e3694 (after the fixes F-C17j 559e184, F-C17k 2320110 and
   F-C17l c4e3694); the behaviour before them is kept as the NoBudget / PerLoop instances of the
   parser and as the `_i32` printer.

   Level: tokens of the logos lexer.  The printed text of a type consists of the lexemes
   `1` `2` `2^<decimal>` `?` `(` `)` `+` `*`, where `+` and `*` are surrounded by blanks and the
   others are adjacent; every one of these adjacencies lexes into the same tokens (the only lexeme
   with more than one character starts with `2^` and ends with a digit, and is never followed by a
   digit or `^`).  The lexer itself is not modelled; the harness tokenises the implementation's
   text with an independent reader and the check compares token by token.

   TMR equality (`data.node.tmr == Tmr::TWO_TWO_N[n]`, `data.node.tmr == skip`) is modelled as
   structural equality of types (as everywhere in this development). *)
From RS Require Import Lib.Tac Lib.Outcome Ty.Ty.
Import ListNotations.
Local Open Scope N_scope.
Local Open Scope outcome_scope.

(* ------------------------------------------------------------------ tokens *)
Inductive token : Type :=
| TOne                 (* `1` *)
| TTwo                 (* `2` *)
| TPow (y : N)         (* `2^y`, y written without leading zero, y >= 1 (lexer rule: 2^ then a nonzero digit then digits) *)
| TQuestion | TLParen | TRParen | TPlus | TStar
| TSym (k : N)         (* a symbol other than `_`: a type variable *)
| TUnderscore          (* `_` *)
| TBad                 (* a character sequence for which the lexer fails (LexFailed) *)
| TOther (k : N).      (* any other token of the language: `->`, `:=`, keywords, literals ... *)

Definition token_eqb (a b : token) : bool :=
  match a, b with
  | TOne, TOne | TTwo, TTwo | TQuestion, TQuestion | TLParen, TLParen | TRParen, TRParen
  | TPlus, TPlus | TStar, TStar | TUnderscore, TUnderscore | TBad, TBad => true
  | TPow x, TPow y | TSym x, TSym y | TOther x, TOther y => x =? y
  | _, _ => false
  end.

Definition is_bad (t : token) : bool := match t with TBad => true | _ => false end.

(* ------------------------------------------------------------------ 2^(2^n) by TMR *)
(* `Tmr::TWO_TWO_N` has 32 entries: n = 0 .. 31.  as_word t = Some n  iff  t is structurally
   2^(2^n) with n <= 31 (lemma as_word_spec). *)
Fixpoint as_word (t : ty) : option nat :=
  match t with
  | One => None
  | Sum One One => Some 0%nat
  | Sum _ _ => None
  | Prod a b =>
      match as_word a, as_word b with
      | Some n, Some m => if Nat.eqb n m && Nat.ltb n 31 then Some (S n) else None
      | _, _ => None
      end
  end.

(* `f.write_str("2")` for n = 0, `write!(f, "2^{}", 1u64 << n)` for n >= 1 (n <= 31). *)
Definition word_tokens (n : nat) : list token :=
  match n with
  | O => [TTwo]
  | _ => [TPow (2 ^ N.of_nat n)]
  end.

(* Before commit 2320110 (finding F-C17k): `1 << n` with an i32 literal; for n = 31 the value is
   i32::MIN and the text is `2^-2147483648`, which the lexer rejects (TBad). *)
Definition word_tokens_i32 (n : nat) : list token :=
  match n with
  | O => [TTwo]
  | _ => if Nat.ltb n 31 then [TPow (2 ^ N.of_nat n)] else [TBad]
  end.

(* ------------------------------------------------------------------ the Display loop as written *)
(* items of verbose_pre_order_iter::<NoSharing>(None) *)
Record event : Type := mk_event {
  ev_ty : ty;            (* data.node (its bound and its tmr) *)
  ev_index : nat;        (* data.index: position of the first yield, in pre-order *)
  ev_n : nat;            (* data.n_children_yielded *)
  ev_complete : bool     (* data.is_complete *)
}.

(* a nullary node is yielded once (complete); a binary node three times: before its left child,
   between the children, after the right child (complete).  Indices are handed out at the first
   yield.  Returns the items and the next free index. *)
Fixpoint events (t : ty) (idx : nat) : list event * nat :=
  match t with
  | One => ([mk_event t idx 0 true], S idx)
  | Sum a b | Prod a b =>
      let (ea, i1) := events a (S idx) in
      let (eb, i2) := events b i1 in
      (mk_event t idx 0 false :: ea ++ mk_event t idx 1 false :: eb ++ [mk_event t idx 2 true], i2)
  end.

Definition paren_open (idx : nat) : list token := if Nat.ltb 0 idx then [TLParen] else [].
Definition paren_close (idx : nat) : list token := if Nat.ltb 0 idx then [TRParen] else [].

(* one iteration of the `for data in ...` loop: state `skipping`, returns the new state and what
   is written *)
Definition disp_step_gen (wt : nat -> list token) (skip : option ty) (e : event) : option ty * list token :=
  match skip with
  | Some s =>
      if ev_complete e && ty_eqb (ev_ty e) s then (None, []) else (Some s, [])
  | None =>
      match as_word (ev_ty e) with
      | Some n => (Some (ev_ty e), wt n)
      | None =>
          match ev_ty e, ev_n e with
          | One, _ => (None, [TOne])
          (* special-case 1 + A as A? *)
          | Sum One _, 0%nat => (Some One, [])
          | Sum One _, 1%nat => (None, [])
          | Sum One _, 2%nat => (None, [TQuestion])
          (* other sums and products *)
          | Sum _ _, 0%nat | Prod _ _, 0%nat => (None, paren_open (ev_index e))
          | Sum _ _, 2%nat | Prod _ _, 2%nat => (None, paren_close (ev_index e))
          | Sum _ _, _ => (None, [TPlus])
          | Prod _ _, _ => (None, [TStar])
          end
      end
  end.

Fixpoint disp_run_gen (wt : nat -> list token) (skip : option ty) (evs : list event) : list token :=
  match evs with
  | [] => []
  | e :: r => let (s', out) := disp_step_gen wt skip e in out ++ disp_run_gen wt s' r
  end.

(* `format!("{}", ty)` followed by the replacement of × by * *)
Definition display_gen (wt : nat -> list token) (t : ty) : list token :=
  disp_run_gen wt None (fst (events t 0)).
Definition display : ty -> list token := display_gen word_tokens.
Definition display_i32 : ty -> list token := display_gen word_tokens_i32.

(* ------------------------------------------------------------------ the same, recursively *)
Definition paren (top : bool) (l : list token) : list token :=
  if top then l else TLParen :: l ++ [TRParen].

Fixpoint print_gen (wt : nat -> list token) (top : bool) (t : ty) : list token :=
  match as_word t with
  | Some n => wt n
  | None =>
      match t with
      | One => [TOne]
      | Sum One b => print_gen wt false b ++ [TQuestion]
      | Sum a b => paren top (print_gen wt false a ++ TPlus :: print_gen wt false b)
      | Prod a b => paren top (print_gen wt false a ++ TStar :: print_gen wt false b)
      end
  end.

Definition print_sub : bool -> ty -> list token := print_gen word_tokens.
Definition print_ty (t : ty) : list token := print_sub true t.
Definition print_ty_i32 (t : ty) : list token := print_gen word_tokens_i32 true t.

(* ------------------------------------------------------------------ the parser's types *)
(* ast::Type *)
Inductive aty : Type :=
| AName (k : N)
| AOne
| ATwo
| AProd (a b : aty)
| ASum (a b : aty)
| APow (n : N).          (* TwoTwoN(n) *)

Inductive perr : Type :=
| ELex                   (* Error::LexFailed *)
| EParse                 (* Error::ParseFailed(token or end of input) *)
| ENest                  (* Error::ParseFailed("expression nested too deeply") *)
| EBad2Exp (y : N)       (* Error::Bad2ExpNumber *)
| ENumRange.             (* Error::NumberOutOfRange *)

Definition max_nesting : N := 1000.
Definition u32_max : N := 4294967295.

(* u32::is_power_of_two / trailing_zeros of a power of two *)
Definition is_pow2 (y : N) : bool := (0 <? y) && (2 ^ N.log2 y =? y).

(* the arm Some(Token::TwoExp(raw)) of parse_type_atom: str::parse::<u32> of the digits *)
Definition atom_pow (y : N) : outcome perr (option aty) :=
  if u32_max <? y then Err ENumRange
  else if y =? 0 then Ok (Some AOne)
  else if y =? 1 then Ok (Some ATwo)
  else if is_pow2 y then Ok (Some (APow (N.log2 y)))
  else Err (EBad2Exp y).

(* lhs.zip(rhs).map(|(l, r)| f(l, r)): the wildcard `_` (None) swallows the whole type *)
Definition zip2 (f : aty -> aty -> aty) (l r : option aty) : option aty :=
  match l, r with Some a, Some b => Some (f a b) | _, _ => None end.

(* The nesting budget of the type parser, in its three historical forms:
     NoBudget  before commit 559e184 (finding F-C17j): the loops for `?` and `+`/`*` are unbounded
     PerLoop   commit 559e184: every loop counts its own operators n and fails when
               Parser::depth + n > MAX_NESTING (finding F-C17l: the budgets of nested levels add up)
     ByDepth   commit c4e3694, the code as it is: Parser::last_type_depth is the depth of the type
               built by the most recent call; every `?` and every `+`/`*` computes the depth of the
               type it forms and Parser::check_nesting fails when Parser::depth + that depth >
               MAX_NESTING *)
Inductive budget : Type := NoBudget | PerLoop | ByDepth.

(* Parser::check_nesting(extra) *)
Definition over (d n : N) : bool := max_nesting <? d + n.

(* where a loop starts counting: at the depth of its first operand, or at 0 operators *)
Definition start (m : budget) (dep : N) : N := match m with ByDepth => dep | _ => 0 end.
Definition checked (m : budget) : bool := match m with NoBudget => false | _ => true end.

(* results: the type (None for the wildcard), Parser::last_type_depth, the remaining tokens *)
Definition pres : Type := (option aty * N * list token)%type.
Definition r_ty (p : pres) : option aty := fst (fst p).
Definition r_dep (p : pres) : N := snd (fst p).
Definition r_rest (p : pres) : list token := snd p.

(* let mut depth = p.last_type_depth;
   while p.eat(&Token::Question) { depth += 1; p.check_nesting(depth)?; ty = ty.map(|inner| Sum(One, inner)) }
   p.last_type_depth = depth *)
Fixpoint eat_q (m : budget) (d c : N) (a : option aty) (ts : list token) : outcome perr pres :=
  match ts with
  | TQuestion :: r =>
      if checked m && over d (c + 1) then Err ENest
      else eat_q m d (c + 1) (option_map (ASum AOne) a) r
  | _ => Ok (a, c, ts)
  end.

(* parse_type (descend, parse_type_inner with its loop, depth restored), parse_type_postfix,
   parse_type_atom.  `d` is Parser::depth on entry; it is restored on every exit, so it is a
   parameter.  `c` is lhs_depth (ByDepth) or n_ops (PerLoop).  Every call consumes one unit of
   fuel. *)
Fixpoint parse_type_gen (m : budget) (fuel : nat) (d : N) (ts : list token) {struct fuel} : outcome perr pres :=
  match fuel with
  | O => OutOfFuel
  | S f =>
      if max_nesting <=? d then Err ENest
      else
        p <- parse_postfix_gen m f (d + 1) ts ;;
        parse_loop_gen m f (d + 1) (start m (r_dep p)) (r_ty p) (r_rest p)
  end
with parse_loop_gen (m : budget) (fuel : nat) (d c : N) (lhs : option aty) (ts : list token) {struct fuel}
  : outcome perr pres :=
  match fuel with
  | O => OutOfFuel
  | S f =>
      let step (mk : aty -> aty -> aty) (r : list token) :=
        match m with
        | ByDepth =>
            (* rhs first, then lhs_depth = max(lhs_depth, last_type_depth) + 1; check_nesting(lhs_depth) *)
            p <- parse_postfix_gen m f d r ;;
            let c' := N.max c (r_dep p) + 1 in
            if over d c' then Err ENest
            else parse_loop_gen m f d c' (zip2 mk lhs (r_ty p)) (r_rest p)
        | _ =>
            (* n_ops += 1; check_nesting(n_ops) at the top of the iteration, then rhs *)
            if checked m && over d (c + 1) then Err ENest
            else
              p <- parse_postfix_gen m f d r ;;
              parse_loop_gen m f d (c + 1) (zip2 mk lhs (r_ty p)) (r_rest p)
        end in
      match ts with
      | TPlus :: r => step ASum r
      | TStar :: r => step AProd r
      | _ => Ok (lhs, c, ts)
      end
  end
with parse_postfix_gen (m : budget) (fuel : nat) (d : N) (ts : list token) {struct fuel} : outcome perr pres :=
  match fuel with
  | O => OutOfFuel
  | S f =>
      p <- parse_atom_gen m f d ts ;;
      eat_q m d (start m (r_dep p)) (r_ty p) (r_rest p)
  end
with parse_atom_gen (m : budget) (fuel : nat) (d : N) (ts : list token) {struct fuel} : outcome perr pres :=
  match fuel with
  | O => OutOfFuel
  | S f =>
      (* p.last_type_depth = 0: a leaf; a parenthesised type overwrites it with its own depth *)
      match ts with
      | TOne :: r => Ok (Some AOne, 0, r)
      | TTwo :: r => Ok (Some ATwo, 0, r)
      | TPow y :: r => a <- atom_pow y ;; Ok (a, 0, r)
      | TLParen :: r =>
          p <- parse_type_gen m f d r ;;
          match r_rest p with
          | TRParen :: r2 => Ok (r_ty p, r_dep p, r2)
          | _ => Err EParse
          end
      | TSym k :: r => Ok (Some (AName k), 0, r)
      | TUnderscore :: r => Ok (None, 0, r)
      | _ => Err EParse
      end
  end.

(* the code as it is *)
Definition parse_type := parse_type_gen ByDepth.
Definition parse_loop := parse_loop_gen ByDepth.
Definition parse_postfix := parse_postfix_gen ByDepth.
Definition parse_atom := parse_atom_gen ByDepth.

(* enough fuel for every input (theorem parse_ty_total) *)
Definition ty_fuel (ts : list token) : nat := 4 * length ts + 4.

(* parse_type at the place of an arrow's source or target: Parser::depth is 0 there *)
Definition parse_ty_gen (m : budget) (ts : list token) : outcome perr pres :=
  parse_type_gen m (ty_fuel ts) 0 ts.
Definition parse_ty : list token -> outcome perr pres := parse_ty_gen ByDepth.
(* before commit 559e184, and between 559e184 and c4e3694 *)
Definition parse_ty_nobudget : list token -> outcome perr pres := parse_ty_gen NoBudget.
Definition parse_ty_perloop : list token -> outcome perr pres := parse_ty_gen PerLoop.

(* The whole input is lexed before anything is parsed (lex_all): one bad lexeme anywhere fails the
   parse.  A type in target position is followed by the end of the input or by the next line,
   which starts with a symbol followed by `:=` or `:`; none of these can be a leftover of the
   token classes of this model, so any leftover is a ParseFailed. *)
Definition parse_text (ts : list token) : outcome perr (option aty) :=
  if existsb is_bad ts then Err ELex
  else
    p <- parse_ty ts ;;
    match r_rest p with
    | [] => Ok (r_ty p)
    | _ :: _ => Err EParse
    end.

(* Type::reify followed by finalisation, for the types of this model: a free variable that
   nothing else constrains becomes the unit type *)
Fixpoint reify (a : aty) : ty :=
  match a with
  | AName _ => One
  | AOne => One
  | ATwo => Bit
  | AProd a b => Prod (reify a) (reify b)
  | ASum a b => Sum (reify a) (reify b)
  | APow n => word_ty (N.to_nat n)
  end.

Fixpoint closed (a : aty) : bool :=
  match a with
  | AName _ => false
  | AOne | ATwo | APow _ => true
  | AProd a b | ASum a b => closed a && closed b
  end.

(* the AST the parser builds for the printed form of t *)
Fixpoint ast_of (t : ty) : aty :=
  match as_word t with
  | Some O => ATwo
  | Some n => APow (N.of_nat n)
  | None =>
      match t with
      | One => AOne
      | Sum a b => ASum (ast_of a) (ast_of b)
      | Prod a b => AProd (ast_of a) (ast_of b)
      end
  end.

(* nesting of the AST (words and names are leaves): the recursion depth of Type::reify *)
Fixpoint adepth (a : aty) : N :=
  match a with
  | AProd a b | ASum a b => 1 + N.max (adepth a) (adepth b)
  | _ => 0
  end.

(* no sub-term that is printed as a word is 2^(2^31) (for the i32 printer only) *)
Fixpoint w31_free (t : ty) : bool :=
  match as_word t with
  | Some n => Nat.ltb n 31
  | None =>
      match t with
      | One => true
      | Sum a b | Prod a b => w31_free a && w31_free b
      end
  end.

(* depth of a type with the word types as leaves ( = adepth (ast_of t), lemma adepth_ast_of) *)
Fixpoint tdepth (t : ty) : N :=
  match as_word t with
  | Some _ => 0
  | None =>
      match t with
      | One => 0
      | Sum a b | Prod a b => 1 + N.max (tdepth a) (tdepth b)
      end
  end.

(* the types for which printing and parsing are inverse: nested less than MAX_NESTING deep *)
Definition small (t : ty) : Prop := tdepth t < max_nesting.

(* what may follow a type without being read as part of it *)
Definition follow_ok (rest : list token) : Prop :=
  match rest with
  | TQuestion :: _ | TPlus :: _ | TStar :: _ => False
  | _ => True
  end.
