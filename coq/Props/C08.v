(* C08 - Pruning preserves commitment and behaviour and satisfies anti-DoS.
   Only pinned statements, `Theorem .. exact lemma` and `Print Assumptions` (plus the one statement that
   remains a definition).  Models: Redeem/Finalize.v (redemption programs as node tables),
   Redeem/PruneProg.v (one pruning pass), Redeem/PruneFix.v (the rounds of RedeemNode::prune),
   Redeem/Retype.v (typings, evaluation commutes with Value::prune), Redeem/RetypeEx.v, Redeem/Routes.v. *)
From RS Require Import Lib.Tac Lib.Outcome Lib.Bits Ty.Ty Core.Prog
  Redeem.Finalize Redeem.PruneProg Redeem.PruneFix Redeem.Retype Redeem.RetypeEx Redeem.Routes.
From RS Require Core.Term Core.Typing Core.Sem Core.Bounds Core.Limits Core.Machine
  Infer.Constraints Infer.Infer Redeem.RetypeInfer Redeem.RetypeEnd Redeem.CoreBridge Redeem.MachineEnd
  Redeem.RetypeKeep Redeem.PruneLoop Redeem.PruneLoopEx.
Import ListNotations.
Local Open Scope N_scope.

(* ------------------------------------------------------------------ one pruning pass *)

(* 1. pruning keeps the commitment root of the program (and of every node), for any hash functions *)
Theorem C08_prune_cmr : forall (HS : hashes) (ident : nat -> nat) (p : rprog) (T : list event),
  rwf p = true -> root_cmr HS (prune_struct HS ident p T) = root_cmr HS p.
Proof. exact prune_cmr. Qed.
Print Assumptions C08_prune_cmr.

Theorem C08_prune_cmrs : forall (HS : hashes) (ident : nat -> nat) (p : rprog) (T : list event),
  rwf p = true -> cmrs HS (prune_struct HS ident p T) = cmrs HS p.
Proof. exact prune_cmrs. Qed.
Print Assumptions C08_prune_cmrs.

(* 2. a program that runs successfully still runs after pruning for that run, with the same output
   and the same events (the environment enters through the jets, which are arbitrary) *)
Theorem C08_prune_eval : forall (HS : hashes) (jet_sem : N -> N -> sval -> option sval)
    (hash_val : list N -> sval) (ident : nat -> nat) (p : rprog) (o : sval) (E : list event),
  rwf p = true ->
  run HS jet_sem hash_val p = Ok (o, E) ->
  run HS jet_sem hash_val (prune_struct HS ident p E) = Ok (o, E).
Proof. exact prune_eval. Qed.
Print Assumptions C08_prune_eval.

(* the same for every node and every input, pruning with any tracker content that covers the run *)
Theorem C08_prune_eval_gen : forall (HS : hashes) (jet_sem : N -> N -> sval -> option sval)
    (hash_val : list N -> sval) (ident : nat -> nat) (p : rprog) (T : list event),
  rwf p = true ->
  forall (fuel i : nat) (v o : sval) (E : list event),
  eval jet_sem hash_val fuel p (cmrs HS p) i v = Ok (o, E) -> incl E T ->
  eval jet_sem hash_val fuel (prune_struct HS ident p T) (cmrs HS p) i v = Ok (o, E).
Proof. exact prune_eval_gen. Qed.
Print Assumptions C08_prune_eval_gen.

(* 3. the anti-DoS rule after one pass: every node reachable from the root was executed and every
   remaining case node took both sides - provided no two distinct nodes share an identity class
   (maximal sharing, as in every decoded program) *)
Theorem C08_prune_all_executed : forall (HS : hashes) (jet_sem : N -> N -> sval -> option sval)
    (hash_val : list N -> sval) (ident : nat -> nat) (p : rprog),
  ident_inj ident p ->
  forall (fuel root : nat) (v o : sval) (E : list event),
  eval jet_sem hash_val fuel p (cmrs HS p) root v = Ok (o, E) ->
  forall j : nat, reach (prune_struct HS ident p E) root j ->
    executed E j /\
    (forall l r : nat, nth_error (prune_struct HS ident p E) j = Some (RCase l r) ->
       In (j, Some false) E /\ In (j, Some true) E).
Proof. exact prune_all_executed. Qed.
Print Assumptions C08_prune_all_executed.

(* without that proviso one pass is not enough: two distinct case nodes with the same IHR that ran on
   opposite sides both stay complete (finding twin-case, fixed by commit 5d14513) *)
Theorem C08_all_executed_twins_refuted :
  exists p ident o E, sym_run p = Ok (o, E) /\
    reach (sym_prune ident p E) (length p - 1) 1 /\ ~ executed E 1 /\
    nth_error (sym_prune ident p E) 2 = Some (RCase 0 1) /\ ~ In (2%nat, Some true) E.
Proof. exact prune_all_executed_twins_refuted. Qed.
Print Assumptions C08_all_executed_twins_refuted.

(* ... and a further pass, once re-typing has told the twins apart, changes the program again *)
Theorem C08_one_pass_refuted_twins :
  exists p ident o E, sym_run p = Ok (o, E) /\
    sym_prune (fun i => i) (sym_prune ident p E) E <> sym_prune ident p E /\
    let q := prune_rounds sym_hashes [ident; fun i => i] p E in
    sym_prune (fun i => i) q E = q /\
    nth_error q 2 = Some (RAssertL 0 []) /\ nth_error q 5 = Some (RAssertR [] 4).
Proof. exact prune_one_pass_refuted_twins. Qed.
Print Assumptions C08_one_pass_refuted_twins.

(* one pass of the old code also left types that are not the least typing of the pruned structure
   (finding shared-retype): both typings below are valid, the witness stream differs (9 bits / 1 bit) *)
Theorem C08_one_pass_types_not_principal :
  exists p ident o E q,
    sym_run p = Ok (o, E) /\ q = sym_prune ident p E /\
    nth_error q 12 = Some (RAssertL 10 []) /\
    typed_on q shared_arrows_old retained = true /\
    typed_on (shrink shared_arrows_new q) shared_arrows_new retained = true /\
    shared_arrows_new 3%nat = Some (One, One) /\ shared_arrows_old 3%nat = Some (word_ty 3, word_ty 3) /\
    nth_error q 1 = Some (RWitness (CV (word_ty 3) w1_val)) /\
    nth_error (shrink shared_arrows_new q) 1 = Some (RWitness (CV One SU)).
Proof. exact one_pass_types_not_principal. Qed.
Print Assumptions C08_one_pass_types_not_principal.

(* 4. pruning again with the same tracker content changes nothing *)
Theorem C08_prune_idem : forall (HS : hashes) (ident : nat -> nat) (p : rprog) (T : list event),
  prune_struct HS ident (prune_struct HS ident p T) T = prune_struct HS ident p T.
Proof. exact prune_idem. Qed.
Print Assumptions C08_prune_idem.

Theorem C08_prune_again : forall (HS : hashes) (jet_sem : N -> N -> sval -> option sval)
    (hash_val : list N -> sval) (ident : nat -> nat) (p : rprog) (o : sval) (E : list event),
  rwf p = true ->
  run HS jet_sem hash_val p = Ok (o, E) ->
  exists E' : list event,
    run HS jet_sem hash_val (prune_struct HS ident p E) = Ok (o, E') /\
    prune_struct HS ident (prune_struct HS ident p E) E' = prune_struct HS ident p E.
Proof. exact prune_again. Qed.
Print Assumptions C08_prune_again.

(* ------------------------------------------------------------------ the rounds of RedeemNode::prune *)

(* 5. any number of rounds, with any identity classes per round, keeps the root and the behaviour *)
Theorem C08_prune_rounds_cmr : forall (HS : hashes) (ids : list (nat -> nat)) (p : rprog) (E : list event),
  rwf p = true -> root_cmr HS (prune_rounds HS ids p E) = root_cmr HS p.
Proof. exact prune_rounds_cmr. Qed.
Print Assumptions C08_prune_rounds_cmr.

Theorem C08_prune_rounds_eval : forall (HS : hashes) (jet_sem : N -> N -> sval -> option sval)
    (hash_val : list N -> sval) (ids : list (nat -> nat)) (p : rprog) (o : sval) (E : list event),
  rwf p = true ->
  run HS jet_sem hash_val p = Ok (o, E) ->
  run HS jet_sem hash_val (prune_rounds HS ids p E) = Ok (o, E).
Proof. exact prune_rounds_eval. Qed.
Print Assumptions C08_prune_rounds_eval.

(* 6. at most as many rounds change the program as it has case nodes; with unchanged classes a second
   round changes nothing (the loop only matters because re-typing changes the classes) *)
Theorem C08_prune_rounds_bound : forall (HS : hashes) (ids : list (nat -> nat)) (p : rprog) (E : list event),
  (changes HS ids p E + count_case (prune_rounds HS ids p E) <= count_case p)%nat.
Proof. exact prune_rounds_bound. Qed.
Print Assumptions C08_prune_rounds_bound.

Theorem C08_prune_rounds_some_stable : forall (HS : hashes) (ids : list (nat -> nat)) (p : rprog) (E : list event),
  (count_case p < length ids)%nat -> (changes HS ids p E < length ids)%nat.
Proof. exact prune_rounds_some_stable. Qed.
Print Assumptions C08_prune_rounds_some_stable.

Theorem C08_prune_rounds_same_ident : forall (HS : hashes) (id : nat -> nat) (n : nat) (p : rprog) (E : list event),
  prune_rounds HS (repeat id (S n)) p E = prune_struct HS id p E.
Proof. exact prune_rounds_same_ident. Qed.
Print Assumptions C08_prune_rounds_same_ident.

(* 7. the anti-DoS rule at the fixed point, under any sharing: if one more round leaves the program
   unchanged, every identity class reachable from the root was executed and every remaining case class
   took both sides - what libsimplicity checks on the maximally shared serialisation *)
Theorem C08_fixpoint_all_executed : forall (HS : hashes) (jet_sem : N -> N -> sval -> option sval)
    (hash_val : list N -> sval) (ident : nat -> nat) (p : rprog),
  ident_congr ident p ->
  forall (fuel root : nat) (v o : sval) (E : list event),
  eval jet_sem hash_val fuel p (cmrs HS p) root v = Ok (o, E) ->
  prune_struct HS ident p E = p ->
  forall j : nat, reach p root j ->
    class_executed ident E j /\
    (forall l r : nat, nth_error p j = Some (RCase l r) ->
       taken ident E j false = true /\ taken ident E j true = true).
Proof. exact fixpoint_all_executed. Qed.
Print Assumptions C08_fixpoint_all_executed.

(* ------------------------------------------------------------------ re-typing *)

(* 8. witnesses of the pruned program: shrinking typed witnesses to smaller re-inferred types never
   hits the `expect` of the pruner and gives typed witnesses *)
Theorem C08_prune_witnesses_typed : forall (tp : typed_prog) (retarget : nat -> option ty) (p : rprog),
  all_wit_ok tp p ->
  (forall (i : nat) (t t' : ty), target_of tp i = Some t -> retarget i = Some t' -> ty_le t' t = true) ->
  exists p' : rprog,
    prune_witnesses retarget p = Ok p' /\ length p' = length p /\
    (forall (i : nat) (c' : cval), nth_error p' i = Some (RWitness c') ->
       match retarget i with
       | Some t' => wit_ok c' t' = true
       | None => nth_error p i = Some (RWitness c')
       end).
Proof. exact prune_witnesses_typed. Qed.
Print Assumptions C08_prune_witnesses_typed.

(* 9. the original arrows still type the pruned structure; runs preserve types *)
Theorem C08_prune_typed : forall (HS : hashes) (jet_ty : N -> N -> option arrow) (ident : nat -> nat)
    (p : rprog) (T : list event) (ar : arrows) (root : nat),
  typed_from jet_ty p ar root -> typed_from jet_ty (prune_struct HS ident p T) ar root.
Proof. exact prune_typed. Qed.
Print Assumptions C08_prune_typed.

Theorem C08_eval_typed : forall (jet_sem : N -> N -> sval -> option sval) (hash_val : list N -> sval)
    (jet_ty : N -> N -> option arrow),
  (forall (f j : N) (s t : ty) (v o : sval), jet_ty f j = Some (s, t) ->
     has_ty v s = true -> jet_sem f j v = Some o -> has_ty o t = true) ->
  (forall h : list N, has_ty (hash_val h) (word_ty 8) = true) ->
  forall (p : rprog) (ar : arrows) (root : nat) (C : list (list N)),
  typed_from jet_ty p ar root ->
  forall (fuel i : nat) (v o : sval) (E : list event) (s t : ty),
  reach p root i -> ar i = Some (s, t) -> has_ty v s = true ->
  eval jet_sem hash_val fuel p C i v = Ok (o, E) -> has_ty o t = true.
Proof. exact eval_typed. Qed.
Print Assumptions C08_eval_typed.

(* 10. evaluation commutes with Value::prune: the same structure typed with the original arrows [ar] and,
   with its witnesses shrunk, with other arrows [ar'] (the re-inferred ones): the shrunk program maps
   the shrunk input to the shrunk output, with the same events *)
Theorem C08_retype_commutes : forall (jet_sem : N -> N -> sval -> option sval) (hash_val : list N -> sval)
    (jet_ty : N -> N -> option arrow),
  (forall (f j : N) (s t : ty) (v o : sval), jet_ty f j = Some (s, t) ->
     has_ty v s = true -> jet_sem f j v = Some o -> has_ty o t = true) ->
  (forall h : list N, has_ty (hash_val h) (word_ty 8) = true) ->
  forall (p : rprog) (ar ar' : arrows) (root : nat) (C : list (list N)),
  typed_from jet_ty p ar root -> typed_from jet_ty (shrink ar' p) ar' root ->
  forall (fuel i : nat) (v o : sval) (E : list event) (s t s' t' : ty) (v' : sval),
  reach p root i -> ar i = Some (s, t) -> ar' i = Some (s', t') ->
  has_ty v s = true -> sprune v s' = Some v' ->
  eval jet_sem hash_val fuel p C i v = Ok (o, E) ->
  exists o' : sval,
    eval jet_sem hash_val fuel (shrink ar' p) C i v' = Ok (o', E) /\ sprune o t' = Some o'.
Proof. exact retype_commutes. Qed.
Print Assumptions C08_retype_commutes.

(* hence a unit-to-unit program still runs, with the same events, after re-typing *)
Theorem C08_retype_run : forall (HS : hashes) (jet_sem : N -> N -> sval -> option sval)
    (hash_val : list N -> sval) (jet_ty : N -> N -> option arrow),
  (forall (f j : N) (s t : ty) (v o : sval), jet_ty f j = Some (s, t) ->
     has_ty v s = true -> jet_sem f j v = Some o -> has_ty o t = true) ->
  (forall h : list N, has_ty (hash_val h) (word_ty 8) = true) ->
  forall (q : rprog) (ar ar' : arrows) (o : sval) (E : list event),
  let root := (length q - 1)%nat in
  typed_from jet_ty q ar root -> typed_from jet_ty (shrink ar' q) ar' root ->
  ar root = Some (One, One) -> ar' root = Some (One, One) ->
  run HS jet_sem hash_val q = Ok (o, E) ->
  run HS jet_sem hash_val (shrink ar' q) = Ok (SU, E).
Proof. exact retype_run_prog. Qed.
Print Assumptions C08_retype_run.

(* 11. NOT proved (principality of inference, C04): the arrows Rust re-infers type the shrunk program and
   lie below the original ones.  Compared on the implementation on every generated case. *)
Definition C08_retype_le_statement : Prop := retype_le_statement.

(* ====================================================================== phase 2 *)
(* 12. Re-typing connected to the reference inference of C04 (Infer/*.v).  The re-inferred arrows of a pruned
   table are DEFINED as the result of Infer.infer on its retained nodes (RetypeInfer.infer_arrows; a node that is
   not reachable from the root imposes no constraint, so a node shared between a kept and a dropped branch is
   typed by its kept uses only). *)
Import Infer.Constraints Infer.Infer Redeem.RetypeInfer Redeem.RetypeEnd.

(* the computed set of retained nodes is reachability from the root *)
Theorem C08_keepb_reach : forall (q : rprog) (root i : nat),
  rwf q = true -> (i < length q)%nat -> (keepb q root i = true <-> reach q root i).
Proof. exact keepb_reach. Qed.
Print Assumptions C08_keepb_reach.

(* inference succeeds on every table whose retained structure has a typing at all (infer_complete) *)
Theorem C08_infer_retype_complete : forall (jt : jet_table) (q : rprog) (ar : arrows) (root : nat) (ro : bool),
  rwf q = true -> (root < length q)%nat ->
  struct_typed (jet_ty_of jt) q ar root -> words_small q root ->
  (ro = true -> ar root = Some (One, One)) ->
  exists tau0, infer jt (rootopt ro root) (tr q root) = Ok tau0.
Proof. exact infer_retype_complete. Qed.
Print Assumptions C08_infer_retype_complete.

(* what it returns types the retained structure (infer_sound) *)
Theorem C08_infer_retype_sound : forall (jt : jet_table) (q : rprog) (root : nat) (ro : bool)
    (tau0 : list (option tarrow)),
  rwf q = true -> (root < length q)%nat ->
  (forall i h, reach q root i -> nth_error q i <> Some (RHole h)) ->
  infer jt (rootopt ro root) (tr q root) = Ok tau0 ->
  struct_typed (jet_ty_of jt) q (arrows_of tau0) root /\
  (ro = true -> arrows_of tau0 root = Some (One, One)).
Proof. exact infer_retype_sound. Qed.
Print Assumptions C08_infer_retype_sound.

(* ... and lies pointwise below every typing of the retained structure (infer_least: principal types) *)
Theorem C08_infer_retype_least : forall (jt : jet_table) (q : rprog) (ar : arrows) (root : nat) (ro : bool)
    (tau0 : list (option tarrow)),
  rwf q = true -> (root < length q)%nat ->
  infer jt (rootopt ro root) (tr q root) = Ok tau0 ->
  struct_typed (jet_ty_of jt) q ar root -> words_small q root ->
  (ro = true -> ar root = Some (One, One)) ->
  arrows_le q root (arrows_of tau0) ar.
Proof. exact infer_retype_least. Qed.
Print Assumptions C08_infer_retype_least.

(* 13. THE STATEMENT LEFT OPEN IN PHASE 1, proved for the reference inference: the re-inferred arrows exist,
   type the table with its witnesses shrunk by Value::prune, lie below the original arrows, keep the root
   arrow of a program, and are the least typing of the structure *)
Theorem C08_retype_le : forall (jt : jet_table) (q : rprog) (ar : arrows) (root : nat) (ro : bool),
  rwf q = true -> (root < length q)%nat ->
  typed_from (jet_ty_of jt) q ar root -> words_small q root ->
  (ro = true -> ar root = Some (One, One)) ->
  exists ar', infer_arrows jt ro q root = Some ar' /\
    typed_from (jet_ty_of jt) (shrink ar' q) ar' root /\
    arrows_le q root ar' ar /\
    (ro = true -> ar' root = Some (One, One)) /\
    (forall ar2, struct_typed (jet_ty_of jt) q ar2 root -> (ro = true -> ar2 root = Some (One, One)) ->
       arrows_le q root ar' ar2).
Proof. exact retype_le. Qed.
Print Assumptions C08_retype_le.

(* the body of C08_retype_le_statement with [infer] := the reference inference ... *)
Theorem C08_retype_le_reference : forall (jt : jet_table) (q : rprog) (ar : arrows),
  let root := (length q - 1)%nat in
  rwf q = true -> q <> [] -> words_small q root -> ar root = Some (One, One) ->
  typed_from (jet_ty_of jt) q ar root ->
  typed_from (jet_ty_of jt) (shrink (ref_infer jt q) q) (ref_infer jt q) root /\
  arrows_le q root (ref_infer jt q) ar.
Proof. exact retype_le_reference. Qed.
Print Assumptions C08_retype_le_reference.

(* ... whereas the definition as it was written in phase 1 quantifies over an arbitrary function [infer] and is
   therefore false: it stays in this file only as the historical statement *)
Theorem C08_retype_le_statement_too_strong : ~ C08_retype_le_statement.
Proof. exact retype_le_statement_too_strong. Qed.
Print Assumptions C08_retype_le_statement_too_strong.

(* for a program it makes no difference whether the root constraint 1 -> 1 takes part in the inference *)
Theorem C08_infer_root_irrelevant : forall (jt : jet_table) (q : rprog) (ar : arrows) (root : nat),
  rwf q = true -> (root < length q)%nat ->
  typed_from (jet_ty_of jt) q ar root -> words_small q root -> ar root = Some (One, One) ->
  exists a0 a1, infer_arrows jt false q root = Some a0 /\ infer_arrows jt true q root = Some a1 /\
    forall i, reach q root i -> a0 i = a1 i.
Proof. exact infer_root_irrelevant. Qed.
Print Assumptions C08_infer_root_irrelevant.

(* 14. END TO END on tables.  Any entry point, any input: run, prune (any rounds / classes / tracker content
   covering the trace), re-infer, shrink: the same node maps the shrunk input to the shrunk output with the same
   trace, and every commitment root is unchanged *)
Theorem C08_prune_retype_eval : forall (HS : hashes) (jet_sem : N -> N -> sval -> option sval)
    (hash_val : list N -> sval) (jt : jet_table),
  (forall f j s t v o, jet_ty_of jt f j = Some (s, t) ->
     has_ty v s = true -> jet_sem f j v = Some o -> has_ty o t = true) ->
  (forall h, has_ty (hash_val h) (word_ty 8) = true) ->
  forall (ids : list (nat -> nat)) (p : rprog) (ar : arrows) (root fuel : nat) (v o : sval) (E : list event)
    (s t : ty) (T : list event),
  rwf p = true -> (root < length p)%nat ->
  typed_from (jet_ty_of jt) p ar root -> words_small p root ->
  ar root = Some (s, t) -> has_ty v s = true ->
  eval jet_sem hash_val fuel p (cmrs HS p) root v = Ok (o, E) -> incl E T ->
  let q := prune_rounds HS ids p T in
  exists ar' s' t' v' o',
    infer_arrows jt false q root = Some ar' /\
    arrows_le q root ar' ar /\
    typed_from (jet_ty_of jt) (shrink ar' q) ar' root /\
    ar' root = Some (s', t') /\ ty_le s' s = true /\ ty_le t' t = true /\
    sprune v s' = Some v' /\ sprune o t' = Some o' /\
    eval jet_sem hash_val fuel (shrink ar' q) (cmrs HS p) root v' = Ok (o', E) /\
    cmrs HS (shrink ar' q) = cmrs HS p.
Proof. exact prune_retype_eval. Qed.
Print Assumptions C08_prune_retype_eval.

(* programs: the pruned program, re-typed by reference inference, witnesses shrunk, runs to the unit value
   with the same trace and has the same commitment root *)
Theorem C08_prune_retype_run : forall (HS : hashes) (jet_sem : N -> N -> sval -> option sval)
    (hash_val : list N -> sval) (jt : jet_table),
  (forall f j s t v o, jet_ty_of jt f j = Some (s, t) ->
     has_ty v s = true -> jet_sem f j v = Some o -> has_ty o t = true) ->
  (forall h, has_ty (hash_val h) (word_ty 8) = true) ->
  forall (ids : list (nat -> nat)) (p : rprog) (ar : arrows) (o : sval) (E : list event),
  let root := (length p - 1)%nat in
  rwf p = true -> p <> [] ->
  typed_from (jet_ty_of jt) p ar root -> words_small p root -> ar root = Some (One, One) ->
  run HS jet_sem hash_val p = Ok (o, E) ->
  let q := prune_rounds HS ids p E in
  exists ar',
    infer_arrows jt true q root = Some ar' /\
    arrows_le q root ar' ar /\
    typed_from (jet_ty_of jt) (shrink ar' q) ar' root /\
    ar' root = Some (One, One) /\
    run HS jet_sem hash_val (shrink ar' q) = Ok (SU, E) /\
    root_cmr HS (shrink ar' q) = root_cmr HS p.
Proof. exact prune_retype_run. Qed.
Print Assumptions C08_prune_retype_run.

(* every premise is satisfiable: the program of finding F-C08 (node 3 shared between the kept and the dropped
   branch of case node 12); the arrows computed by reference inference on the pruned table are the ones a
   decoder infers (node 3 : 1 -> 1), witness 1 loses its 8 bits, the re-typed program runs with the same trace *)
Theorem C08_shared_prog_inferred :
  let run_ex := run sym_hashes ex_jet_sem ex_hash_val in
  let root := 13%nat in
  rwf shared_prog = true /\ shared_prog <> [] /\
  typed_from (jet_ty_of ex_jt) shared_prog shared_arrows_old root /\
  words_small shared_prog root /\ shared_arrows_old root = Some (One, One) /\
  exists o E, run_ex shared_prog = Ok (o, E) /\
    let q := prune_rounds sym_hashes [fun i => i; fun i => i] shared_prog E in
    nth_error q 12 = Some (RAssertL 10 []) /\
    exists ar', infer_arrows ex_jt true q root = Some ar' /\
      map ar' retained = map shared_arrows_new retained /\
      ar' 3%nat = Some (One, One) /\ shared_arrows_old 3%nat = Some (word_ty 3, word_ty 3) /\
      nth_error (shrink ar' q) 1 = Some (RWitness (CV One SU)) /\
      run_ex (shrink ar' q) = Ok (SU, E).
Proof. exact shared_prog_inferred. Qed.
Print Assumptions C08_shared_prog_inferred.

Theorem C08_ex_jt_typed : forall f j s t v o, jet_ty_of ex_jt f j = Some (s, t) ->
  has_ty v s = true -> ex_jet_sem f j v = Some o -> has_ty o t = true.
Proof. exact ex_jt_typed. Qed.
Print Assumptions C08_ex_jt_typed.

(* 15. The table semantics of this family is the big-step semantics of C05 (Core/Sem.v) on the unfolded term *)
Import Core.Term Core.Typing Core.Sem Core.Bounds Core.Limits Core.Machine Redeem.CoreBridge Redeem.MachineEnd.

Theorem C08_unfold_typed : forall (jet_ty : N -> N -> option arrow) (fam : N) (p : rprog) (ar : arrows)
    (root : nat) (C : list (list N)),
  rwf p = true -> (root < length p)%nat ->
  typed_from jet_ty p ar root -> fam_ok fam p root ->
  forall fuel i : nat, (i < fuel)%nat -> reach p root i ->
  exists (t : term) (s t' : ty),
    ar i = Some (s, t') /\ unfold_r fuel p ar C i = Some t /\ typed (jet_ty1 jet_ty fam) t s t'.
Proof. exact unfold_typed. Qed.
Print Assumptions C08_unfold_typed.

Theorem C08_eval_agree : forall (jet_ty : N -> N -> option arrow) (fam : N)
    (jet_sem : N -> N -> sval -> option sval) (p : rprog) (ar : arrows) (root : nat) (C : list (list N)),
  typed_from jet_ty p ar root -> fam_ok fam p root ->
  forall (fe fu i : nat) (v : sval) (t : term),
  reach p root i -> unfold_r fu p ar C i = Some t ->
  match PruneProg.eval jet_sem hash_val_core fe p C i v with
  | Ok (o, _) => Sem.eval (jet_sem1 fam jet_sem) t v = ROk o
  | Err e => Sem.eval (jet_sem1 fam jet_sem) t v = RErr (sem_of_eerr e)
  | _ => True
  end.
Proof. exact eval_agree. Qed.
Print Assumptions C08_eval_agree.

Theorem C08_hash_val_core_typed : forall h : list N, has_ty (hash_val_core h) (word_ty 8) = true.
Proof. exact hash_val_core_typed. Qed.
Print Assumptions C08_hash_val_core_typed.

(* 16. THE BIT MACHINE (Core/Machine.v, through C05's exec_correct).  Any entry point, any input: the machine
   returns [o] on the unfolded original and Value::prune of [o] on the pruned, re-typed program run on the
   pruned input - for every build profile, every jet cost table, every initial buffer content and every padded
   encoding of the input, provided the program passes the limit check *)
Theorem C08_pruned_machine_eval : forall (HS : hashes) (jet_sem : N -> N -> sval -> option sval)
    (jt : jet_table) (fam : N),
  (forall f j s t v o, jet_ty_of jt f j = Some (s, t) ->
     has_ty v s = true -> jet_sem f j v = Some o -> has_ty o t = true) ->
  forall (ids : list (nat -> nat)) (p : rprog) (ar : arrows) (root fuel : nat) (v o : sval) (E : list event)
    (s t : ty) (T : list event),
  rwf p = true -> (root < length p)%nat ->
  typed_from (jet_ty_of jt) p ar root -> words_small p root -> fam_ok fam p root ->
  ar root = Some (s, t) -> has_ty v s = true ->
  PruneProg.eval jet_sem hash_val_core fuel p (cmrs HS p) root v = Ok (o, E) -> incl E T ->
  let q := prune_rounds HS ids p T in
  exists ar' s' t' v' o' t0 t1,
    infer_arrows jt false q root = Some ar' /\ ar' root = Some (s', t') /\
    ty_le s' s = true /\ ty_le t' t = true /\ sprune v s' = Some v' /\ sprune o t' = Some o' /\
    unfold_r (length p) p ar (cmrs HS p) root = Some t0 /\ typed (jet_ty1 (jet_ty_of jt) fam) t0 s t /\
    unfold_r (length p) (shrink ar' q) ar' (cmrs HS p) root = Some t1 /\
    typed (jet_ty1 (jet_ty_of jt) fam) t1 s' t' /\
    machine_returns jet_sem fam t0 s t v o /\ machine_returns jet_sem fam t1 s' t' v' o'.
Proof. exact pruned_machine_eval. Qed.
Print Assumptions C08_pruned_machine_eval.

(* [machine_returns] spelled out *)
Theorem C08_machine_returns_def : forall (jet_sem : N -> N -> sval -> option sval) (fam : N) (t0 : term)
    (s t : ty) (v o : sval),
  machine_returns jet_sem fam t0 s t v o <->
  (forall prof jet_cost,
    check_program prof (bw s) (bw t) (bounds jet_cost t0) = Ok tt ->
    forall m0, length m0 = N.to_nat (machine_cells jet_cost t0) ->
      (forall pbits, padded_of s v pbits ->
         exists st bits, machine_exec prof jet_cost (jet_sem1 fam jet_sem) t0 m0 (Some (s, pbits)) = Ok (st, bits) /\
                         of_padded t bits = o /\ length bits = N.to_nat (width t)) /\
      (width s = 0 ->
         exists st bits, machine_exec prof jet_cost (jet_sem1 fam jet_sem) t0 m0 None = Ok (st, bits) /\
                         of_padded t bits = o /\ length bits = N.to_nat (width t))).
Proof. exact machine_returns_def. Qed.
Print Assumptions C08_machine_returns_def.

(* programs: the machine runs the original and the pruned, re-typed program to completion (no output bits) *)
Theorem C08_pruned_machine_run : forall (HS : hashes) (jet_sem : N -> N -> sval -> option sval)
    (jt : jet_table) (fam : N),
  (forall f j s t v o, jet_ty_of jt f j = Some (s, t) ->
     has_ty v s = true -> jet_sem f j v = Some o -> has_ty o t = true) ->
  forall (ids : list (nat -> nat)) (p : rprog) (ar : arrows) (o : sval) (E : list event),
  let root := (length p - 1)%nat in
  rwf p = true -> p <> [] ->
  typed_from (jet_ty_of jt) p ar root -> words_small p root -> fam_ok fam p root -> ar root = Some (One, One) ->
  PruneProg.run HS jet_sem hash_val_core p = Ok (o, E) ->
  let q := prune_rounds HS ids p E in
  exists ar' t0 t1,
    infer_arrows jt true q root = Some ar' /\ arrows_le q root ar' ar /\
    root_cmr HS (shrink ar' q) = root_cmr HS p /\
    PruneProg.run HS jet_sem hash_val_core (shrink ar' q) = Ok (SU, E) /\
    unfold_r (length p) p ar (cmrs HS p) root = Some t0 /\ typed (jet_ty1 (jet_ty_of jt) fam) t0 One One /\
    unfold_r (length p) (shrink ar' q) ar' (cmrs HS p) root = Some t1 /\
    typed (jet_ty1 (jet_ty_of jt) fam) t1 One One /\
    forall prof jet_cost,
      (check_program prof (bw One) (bw One) (bounds jet_cost t0) = Ok tt ->
       forall m0, length m0 = N.to_nat (machine_cells jet_cost t0) ->
         exists st, machine_exec prof jet_cost (jet_sem1 fam jet_sem) t0 m0 None = Ok (st, [])) /\
      (check_program prof (bw One) (bw One) (bounds jet_cost t1) = Ok tt ->
       forall m0, length m0 = N.to_nat (machine_cells jet_cost t1) ->
         exists st, machine_exec prof jet_cost (jet_sem1 fam jet_sem) t1 m0 None = Ok (st, [])).
Proof. exact pruned_machine_run. Qed.
Print Assumptions C08_pruned_machine_run.

(* satisfiable: the program of finding F-C08 on the machine; the pruned program needs fewer cells *)
Theorem C08_shared_prog_machine :
  let root := 13%nat in
  fam_ok 1 shared_prog root /\
  exists o E, PruneProg.run sym_hashes ex_jet_sem hash_val_core shared_prog = Ok (o, E) /\
    let q := prune_rounds sym_hashes [fun i => i; fun i => i] shared_prog E in
    exists ar' t0 t1,
      infer_arrows ex_jt true q root = Some ar' /\
      unfold_r 14 shared_prog shared_arrows_old (cmrs sym_hashes shared_prog) root = Some t0 /\
      unfold_r 14 (shrink ar' q) ar' (cmrs sym_hashes shared_prog) root = Some t1 /\
      check_program Debug (bw One) (bw One) (bounds ex_cost t0) = Ok tt /\
      check_program Debug (bw One) (bw One) (bounds ex_cost t1) = Ok tt /\
      (exists st, machine_exec Debug ex_cost (jet_sem1 1 ex_jet_sem) t0
                    (repeat true (N.to_nat (machine_cells ex_cost t0))) None = Ok (st, [])) /\
      (exists st, machine_exec Debug ex_cost (jet_sem1 1 ex_jet_sem) t1
                    (repeat true (N.to_nat (machine_cells ex_cost t1))) None = Ok (st, [])) /\
      extra_cells (bounds ex_cost t1) < extra_cells (bounds ex_cost t0).
Proof. exact shared_prog_machine. Qed.
Print Assumptions C08_shared_prog_machine.

(* 17. RedeemNode::prune AS A LOOP OF PASSES (Redeem/PruneLoop.v), the model that is compared with the
   implementation round by round (Redeem/PruneIhr.v instantiates it with SHA-256 identity roots).
   One pass converts every node of the program it was given - also the nodes it drops - into the inference
   context: its types are the principal types of the pruned structure together with the constraints of the dropped
   nodes ([keep] = the nodes of the program the pass started from). *)
Import Redeem.RetypeKeep Redeem.PruneLoop Redeem.PruneLoopEx.

Theorem C08_infer_keep_le : forall (q : rprog) (_ : nat) (keep : nat -> bool),
  rwf q = true ->
  (forall i n c, keep i = true -> nth_error q i = Some n -> In c (rchildren n) -> keep c = true) ->
  (forall i, keep i = true -> (i < length q)%nat) ->
  forall (jt : jet_table) (ar : arrows),
  struct_typed_on q keep (jet_ty_of jt) ar -> words_small_on q keep ->
  exists ar', infer_keep jt keep q = Some ar' /\
    struct_typed_on q keep (jet_ty_of jt) ar' /\
    (forall i s t s' t', keep i = true -> ar i = Some (s, t) -> ar' i = Some (s', t') ->
       ty_le s' s = true /\ ty_le t' t = true).
Proof. exact infer_keep_le. Qed.
Print Assumptions C08_infer_keep_le.

(* For ANY hash functions and ANY way [analyse] of computing identity classes and witness streams: type inference
   inside a pass never fails (error code 2 is unreachable), and when the loop stops without an error code the
   program it returns runs to the unit value with the trace of the original run, carries typed witnesses, its
   arrows are exactly the principal arrows of its own structure (what a decoder re-infers), the root is 1 -> 1 and
   the commitment root is the original one *)
Theorem C08_prune_full_sound : forall (HS : hashes)
    (analyse : rprog -> arrows -> outcome N (list nat * list bool))
    (jet_sem : N -> N -> sval -> option sval) (hash_val : list N -> sval) (jt : jet_table),
  (forall f j s t v o, jet_ty_of jt f j = Some (s, t) ->
     has_ty v s = true -> jet_sem f j v = Some o -> has_ty o t = true) ->
  (forall h, has_ty (hash_val h) (word_ty 8) = true) ->
  forall (E : list event) (p : rprog) (ar : arrows) (o : sval),
  let root := (length p - 1)%nat in
  rwf p = true -> p <> [] ->
  typed_from (jet_ty_of jt) p ar root -> words_small p root -> ar root = Some (One, One) ->
  PruneProg.run HS jet_sem hash_val p = Ok (o, E) ->
  let st := prune_full_gen HS analyse jt p ar E in
  ls_err st <> 2 /\
  (ls_err st = 0 ->
     PruneProg.run HS jet_sem hash_val (ls_prog st) = Ok (SU, E) /\
     typed_from (jet_ty_of jt) (ls_prog st) (ls_arrows st) root /\
     infer_arrows jt false (ls_prog st) root = Some (ls_arrows st) /\
     ls_arrows st root = Some (One, One) /\
     root_cmr HS (ls_prog st) = root_cmr HS p /\
     (* one more structural pass with the classes of the RESULT changes nothing *)
     exists cls' stream', analyse (ls_prog st) (ls_arrows st) = Ok (cls', stream') /\
       prune_struct HS (ident_of_classes cls') (ls_prog st) E = ls_prog st).
Proof. exact prune_full_sound. Qed.
Print Assumptions C08_prune_full_sound.

(* hence the anti-DoS rule for the program the loop returns, under its OWN identity classes, whenever these respect
   the structure (equal class => equal form and children in equal classes: true of every structural hash) *)
Theorem C08_prune_full_antidos : forall (HS : hashes)
    (analyse : rprog -> arrows -> outcome N (list nat * list bool))
    (jet_sem : N -> N -> sval -> option sval) (hash_val : list N -> sval) (jt : jet_table),
  (forall f j s t v o, jet_ty_of jt f j = Some (s, t) ->
     has_ty v s = true -> jet_sem f j v = Some o -> has_ty o t = true) ->
  (forall h, has_ty (hash_val h) (word_ty 8) = true) ->
  forall (E : list event) (p : rprog) (ar : arrows) (o : sval),
  let root := (length p - 1)%nat in
  rwf p = true -> p <> [] ->
  typed_from (jet_ty_of jt) p ar root -> words_small p root -> ar root = Some (One, One) ->
  PruneProg.run HS jet_sem hash_val p = Ok (o, E) ->
  let st := prune_full_gen HS analyse jt p ar E in
  ls_err st = 0 ->
  exists cls' stream', analyse (ls_prog st) (ls_arrows st) = Ok (cls', stream') /\
    (ident_congr (ident_of_classes cls') (ls_prog st) ->
     forall j, reach (ls_prog st) (length (ls_prog st) - 1) j ->
       class_executed (ident_of_classes cls') E j /\
       (forall l r, nth_error (ls_prog st) j = Some (RCase l r) ->
          taken (ident_of_classes cls') E j false = true /\ taken (ident_of_classes cls') E j true = true)).
Proof. exact prune_full_antidos. Qed.
Print Assumptions C08_prune_full_antidos.

(* satisfiable, and the shape of finding F-C08b: the first pass leaves the shared node 3 at 2^8 -> 2^8, the
   second pass (no structural change) makes the types principal and shrinks witness 1; three rounds in all *)
Theorem C08_shared_prog_loop :
  exists o E, PruneProg.run sym_hashes ex_jet_sem ex_hash_val shared_prog = Ok (o, E) /\
    let st := prune_full_gen sym_hashes idx_analyse ex_jt shared_prog shared_arrows_old E in
    ls_err st = 0 /\ length (ls_rounds st) = 3%nat /\
    (let q1 := prune_struct sym_hashes (fun i => i) shared_prog E in
     exists a1, infer_keep ex_jt (keepb shared_prog 13) q1 = Some a1 /\
       a1 3%nat = Some (word_ty 3, word_ty 3) /\
       nth_error (shrink a1 q1) 1 = Some (RWitness (CV (word_ty 3) w1_val))) /\
    ls_arrows st 3%nat = Some (One, One) /\
    nth_error (ls_prog st) 1 = Some (RWitness (CV One SU)) /\
    nth_error (ls_prog st) 12 = Some (RAssertL 10 []) /\
    PruneProg.run sym_hashes ex_jet_sem ex_hash_val (ls_prog st) = Ok (SU, E).
Proof. exact shared_prog_loop. Qed.
Print Assumptions C08_shared_prog_loop.
