//! C09: commitment roots of PDL programs through every conversion path of the library,
//! plus SHA-256 itself (differential validation of coq/Merkle/Sha256.v).
//! Output formats mirror coq/Merkle/Run.v.
//!
//! kinds (t[0]):
//!   tab   <0|1> <pdl>          ConstructNode table without witness values
//!                              -> 0 n (32 cmr bytes)*n   | 1 <code>          (hidden node: its bytes)
//!   paths <0|1> <pdl>          every conversion path (see `paths`)
//!   hid   <0|1> <set> <pdl>    the table built through `Hiding<Arc<ConstructNode>>`; <set> = indices
//!                              (`,`-separated, `-` = none) that are `.hide()`-n after construction
//!                              -> 0 n (flag cmr32)*n 77 (0 | 1 cmr32 of the unwrapped root node)
//!   sha   <hex|->              sha256::Hash::hash -> 32 bytes
//!   tag   <hex|->              sha256::Midstate::hash_tag -> 32 bytes
//!   word  <n> <bits>           0, Cmr::const_word (32 bytes), the jet-tagged IHR of the scribe program (32 bytes)
//!   policy <expr>              Policy::cmr(), Policy::commit().cmr()
//!   mr    <0|1> <pdl>          RedeemNode (finalize_unpruned): per table node 1 <ihr 32> <amr 32>, 5 for a
//!                              hidden placeholder, 6 for a node that is not part of the DAG
use crate::prog::*;
use crate::util::*;
use simplicity::dag::{DagLike, InternalSharing};
use simplicity::hashes::sha256;
use simplicity::jet::Jet;
use simplicity::node::{
    self, ConstructNode, CoreConstructible, DisconnectConstructible, Hiding, Inner, Node,
    SimpleFinalizer, WitnessConstructible,
};
use simplicity::types;
use simplicity::{BitIter, Cmr, CommitNode, FailEntropy, HasCmr, RedeemNode, Value, Word};
use std::sync::Arc;

pub fn run(t: &[&str]) -> String {
    match guarded(|| run_inner(t)) {
        Some(v) => join(&v),
        None => "9".to_string(),
    }
}

fn push_cmr(out: &mut Vec<u128>, c: Cmr) {
    out.extend(c.to_byte_array().iter().map(|b| *b as u128));
}

fn shape_code(msg: &str) -> u128 {
    match msg {
        "forward reference" => 11,
        "hidden node used outside case" => 12,
        "both children hidden" => 13,
        "word length" | "word bits" => 14,
        "unknown jet" => 15,
        _ => 19,
    }
}

fn build_err(e: &BuildError) -> Vec<u128> {
    match e {
        BuildError::Type(..) => vec![1, 10],
        BuildError::Shape(_, m) => vec![1, shape_code(m)],
    }
}

fn run_inner(t: &[&str]) -> Vec<u128> {
    match t[0] {
        "tab" => {
            let specs = parse_prog(t[2]);
            types::Context::with_context(|ctx| match build(&ctx, &specs, &|_| None) {
                Err(e) => build_err(&e),
                Ok(nodes) => {
                    let mut out = vec![0, nodes.len() as u128];
                    table_cmrs(&mut out, &specs, &nodes);
                    out
                }
            })
        }
        "paths" => paths(t[1] == "1", &parse_prog(t[2])),
        "hid" => {
            let set: Vec<usize> = if t[2] == "-" {
                vec![]
            } else {
                t[2].split(',').map(|x| x.parse().unwrap()).collect()
            };
            hiding(&set, &parse_prog(t[3]))
        }
        "sha" => {
            let b = unhex(t[1]);
            sha256::Hash::hash(&b).to_byte_array().iter().map(|x| *x as u128).collect()
        }
        "tag" => {
            let b = unhex(t[1]);
            sha256::Midstate::hash_tag(&b).to_parts().0.iter().map(|x| *x as u128).collect()
        }
        "word" => {
            let n: u32 = t[1].parse().unwrap();
            let bits = bits_of_str(t[2]);
            if bits.len() != 1usize << n {
                return vec![1, 14];
            }
            let bytes = pack_bits(&bits);
            let mut it = BitIter::from(bytes.into_iter());
            let w = Word::from_bits(&mut it, n).expect("word bits");
            let mut out = vec![0];
            push_cmr(&mut out, Cmr::const_word(&w));
            // the same root through the program route: identity root of the scribe program (Node
            // constructors, inference, CommitData::ihr), tagged as a jet of weight 2^n by hand
            out.extend(scribe_route(&bits));
            out
        }
        "policy" => policy(t[1]),
        "mr" => mr(t[1] == "1", &parse_prog(t[2])),
        _ => panic!("kind"),
    }
}

fn table_cmrs<'b>(out: &mut Vec<u128>, specs: &[NodeSpec], nodes: &[Option<Arc<ConstructNode<'b>>>]) {
    for (i, n) in nodes.iter().enumerate() {
        match n {
            Some(n) => push_cmr(out, n.cmr()),
            None => {
                if let NodeSpec::Hidden(h) = &specs[i] {
                    out.extend(h.iter().map(|b| *b as u128));
                }
            }
        }
    }
}

/// cmrs of all nodes in post order (internal sharing)
fn dag_cmrs<N: node::Marker>(root: &Node<N>) -> Vec<Cmr> {
    root.post_order_iter::<InternalSharing>().map(|d| d.node.cmr()).collect()
}

/// `paths`: 0 n <table> 77 then per path: <code> 0 <32 bytes> <aux> | <code> 1 <err>
/// path codes:
///   1 root of the ConstructNode table, no witness values, before inference
///   2 same Arc after inference (set_arrow_to_program when program, finalisation of all types)
///   3 CommitNode: finalize_types (program) / finalize_types_non_program; aux = number of nodes whose
///     cmr does not occur in the source DAG (must be 0)
///   4 CommitNode::unfinalize_types in a fresh context
///   5 ConstructNode table built WITH the witness values of the description (before finalisation)
///   6 RedeemNode: finalize_unpruned of 5; aux as in 3
///   7 RedeemNode::unfinalize -> CommitNode
///   8 RedeemNode::to_construct_node in a fresh context
///   9 Node::from_parts(inner.clone(), data.clone()) of the root of 1; aux = number of table nodes
///     whose from_parts cmr differs from the cached one (must be 0)
///  10 CommitNode::finalize(SimpleFinalizer) -> RedeemNode (zero witnesses)
///  11 RedeemNode::prune(CoreEnv) of 6 (only attempted for programs without Elements jets)
///  12 encode of 3 / CommitNode::decode
fn paths(program: bool, specs: &[NodeSpec]) -> Vec<u128> {
    let mut out: Vec<u128> = vec![];
    let has_elements = specs.iter().any(|s| matches!(s, NodeSpec::Jet('e', _)));
    let res: Result<(), Vec<u128>> = types::Context::with_context(|ctx| {
        let nodes = build(&ctx, specs, &|_| None).map_err(|e| build_err(&e))?;
        out.push(0);
        out.push(nodes.len() as u128);
        table_cmrs(&mut out, specs, &nodes);
        out.push(77);
        let root = nodes.last().unwrap().as_ref().unwrap();
        // 1
        out.extend([1, 0]);
        push_cmr(&mut out, root.cmr());
        out.push(0);
        // 9: from_parts on every node of the table
        {
            let mut bad = 0u128;
            let mut root_fp = None;
            for n in nodes.iter().flatten() {
                let rebuilt: Node<node::Construct> =
                    Node::from_parts(n.inner().clone(), n.cached_data().clone());
                if rebuilt.cmr() != n.cmr() {
                    bad += 1;
                }
                root_fp = Some(rebuilt.cmr());
            }
            out.extend([9, 0]);
            push_cmr(&mut out, root_fp.unwrap());
            out.push(bad);
        }
        let construct_cmrs = dag_cmrs(root);
        // 3 (performs the inference), then 2
        let commit = if program {
            root.finalize_types()
        } else {
            root.finalize_types_non_program()
        };
        out.extend([2, 0]);
        push_cmr(&mut out, root.cmr());
        out.push(0);
        match &commit {
            Err(e) => out.extend([3, 1, type_code(e)]),
            Ok(c) => {
                out.extend([3, 0]);
                push_cmr(&mut out, c.cmr());
                out.push(diff_count(&construct_cmrs, &dag_cmrs(c)));
            }
        }
        if let Ok(c) = &commit {
            // 4
            types::Context::with_context(|ctx2| match c.unfinalize_types(&ctx2) {
                Ok(n) => {
                    out.extend([4, 0]);
                    push_cmr(&mut out, n.cmr());
                    out.push(diff_count(&construct_cmrs, &dag_cmrs(&n)));
                }
                Err(e) => out.extend([4, 1, type_code(&e)]),
            });
            // 10
            match c.finalize(&mut SimpleFinalizer::new(std::iter::empty())) {
                Ok(r) => {
                    out.extend([10, 0]);
                    push_cmr(&mut out, r.cmr());
                    out.push(0);
                }
                Err(_) => out.extend([10, 1, 40]),
            }
            // 12
            let bytes = c.to_vec_without_witness();
            let dec = if has_elements {
                CommitNode::decode::<_, simplicity::jet::Elements>(BitIter::from(bytes.into_iter())).map(|n| n.cmr())
            } else {
                CommitNode::decode::<_, simplicity::jet::Core>(BitIter::from(bytes.into_iter())).map(|n| n.cmr())
            };
            match dec {
                Ok(c2) => {
                    out.extend([12, 0]);
                    push_cmr(&mut out, c2);
                    out.push(0);
                }
                Err(_) => out.extend([12, 1, 50]),
            }
        }
        Ok(())
    });
    if let Err(e) = res {
        return e;
    }
    // 5, 6, 7, 8, 11: with witness values
    let with_wit = redeem_with_construct(specs, program);
    match with_wit {
        Err(code) => out.extend([5, 1, code]),
        Ok((c5, construct_cmrs, r)) => {
            out.extend([5, 0]);
            push_cmr(&mut out, c5);
            out.push(0);
            match r {
                Err(code) => out.extend([6, 1, code]),
                Ok(r) => {
                    out.extend([6, 0]);
                    push_cmr(&mut out, r.cmr());
                    out.push(diff_count(&construct_cmrs, &dag_cmrs(&r)));
                    match r.unfinalize() {
                        Ok(c) => {
                            out.extend([7, 0]);
                            push_cmr(&mut out, c.cmr());
                            out.push(0);
                        }
                        Err(e) => out.extend([7, 1, type_code(&e)]),
                    }
                    types::Context::with_context(|ctx3| {
                        let n = r.to_construct_node(&ctx3);
                        out.extend([8, 0]);
                        push_cmr(&mut out, n.cmr());
                        out.push(diff_count(&construct_cmrs, &dag_cmrs(&n)));
                    });
                    if !has_elements && program {
                        let env = simplicity::jet::CoreEnv::new();
                        match guarded(|| r.prune(&env)) {
                            Some(Ok(p)) => {
                                out.extend([11, 0]);
                                push_cmr(&mut out, p.cmr());
                                // aux: number of nodes the pruned program lost; 100000 + k when k nodes of
                                // the pruned program carry a cmr that the unpruned one does not have
                                let before = dag_cmrs(&r);
                                let after = dag_cmrs(&p);
                                let fresh = new_count(&before, &after);
                                if fresh > 0 {
                                    out.push(100000 + fresh);
                                } else {
                                    out.push((before.len() as u128).saturating_sub(after.len() as u128));
                                }
                            }
                            Some(Err(_)) => out.extend([11, 1, 60]),
                            None => out.extend([11, 1, 9]),
                        }
                    }
                }
            }
        }
    }
    out
}

/// number of nodes of the converted DAG `b` whose cmr does not occur in the source DAG `a`
/// (conversions may share nodes differently or drop disconnected / pruned branches, but a node
/// never gets a new root)
fn diff_count(a: &[Cmr], b: &[Cmr]) -> u128 {
    new_count(a, b)
}

/// cmrs of `b` that do not occur in `a` (pruning may only remove nodes)
fn new_count(a: &[Cmr], b: &[Cmr]) -> u128 {
    let sa: std::collections::BTreeSet<&Cmr> = a.iter().collect();
    b.iter().filter(|c| !sa.contains(c)).count() as u128
}

fn type_code(e: &types::Error) -> u128 {
    match err_class(e).as_str() {
        "Bind" => 20,
        "CompleteTypeMismatch" => 21,
        "OccursCheck" => 22,
        _ => 29,
    }
}

/// As prog::redeem, but also reports the construct-time root and node cmrs of the table that
/// carries the witness values.
#[allow(clippy::type_complexity)]
fn redeem_with_construct(
    specs: &[NodeSpec],
    program: bool,
) -> Result<(Cmr, Vec<Cmr>, Result<Arc<RedeemNode>, u128>), u128> {
    let needs_types = specs.iter().any(|s| matches!(s, NodeSpec::Witness(WitSpec::Compact(_))));
    let arr = if needs_types {
        Some(arrows(specs, program).map_err(|e| err_code(&e))?)
    } else {
        None
    };
    let mut wits: Vec<Option<Value>> = vec![None; specs.len()];
    for (i, s) in specs.iter().enumerate() {
        match s {
            NodeSpec::Witness(WitSpec::Compact(bits)) => {
                let ty = &arr.as_ref().unwrap()[i].as_ref().unwrap().1;
                wits[i] = Some(value_of_compact(bits, ty).ok_or(30u128)?);
            }
            NodeSpec::Witness(WitSpec::Typed(..)) => {
                wits[i] = Some(typed_witness(specs, i).ok_or(30u128)?);
            }
            _ => {}
        }
    }
    types::Context::with_context(|ctx| {
        let nodes = build(&ctx, specs, &|i| wits[i].clone()).map_err(|e| build_err(&e)[1])?;
        let root = nodes.last().unwrap().as_ref().unwrap();
        let c5 = root.cmr();
        let cm = dag_cmrs(root);
        if program {
            if let Err(e) = root.set_arrow_to_program() {
                return Ok((c5, cm, Err(type_code(&e))));
            }
        }
        let r = root.finalize_unpruned().map_err(|e| match e {
            simplicity::FinalizeError::DisconnectRedeemTime => 40,
            simplicity::FinalizeError::Type(t) => type_code(&t),
            _ => 49,
        });
        Ok((c5, cm, r))
    })
}

// ------------------------------------------------------------------ const_word against the scribe program
fn scribe_tree<'b>(ctx: &types::Context<'b>, bits: &[bool]) -> Arc<ConstructNode<'b>> {
    type N<'b> = Arc<ConstructNode<'b>>;
    if bits.len() == 1 {
        let u = N::unit(ctx);
        if bits[0] {
            N::injr(&u)
        } else {
            N::injl(&u)
        }
    } else {
        let h = bits.len() / 2;
        let l = scribe_tree(ctx, &bits[..h]);
        let r = scribe_tree(ctx, &bits[h..]);
        N::pair(&l, &r).expect("pair")
    }
}

fn scribe_route(bits: &[bool]) -> Vec<u128> {
    use simplicity::hashes::HashEngine as _;
    types::Context::with_context(|ctx| {
        let root = scribe_tree(&ctx, bits);
        // the source type of a scribe is unit
        let unit = Arc::<ConstructNode>::unit(&ctx);
        let prog = Arc::<ConstructNode>::comp(&unit, &root).expect("comp");
        let _ = prog;
        ctx.unify(&root.arrow().source, &types::Type::unit(&ctx), "scribe source").expect("unify");
        let commit = root.finalize_types_non_program().expect("finalize");
        let ihr = commit.ihr().expect("no witness in a scribe");
        let mut weight = [0u8; 32];
        weight[24..].copy_from_slice(&(bits.len() as u64).to_be_bytes());
        let mut eng = sha256::HashEngine::from_midstate(sha256::Midstate::hash_tag(b"Simplicity\x1fJet"));
        eng.input(&weight);
        eng.input(&ihr.to_byte_array());
        let m = eng.midstate().expect("64 bytes");
        m.to_parts().0.iter().map(|b| *b as u128).collect()
    })
}

// ------------------------------------------------------------------ identity / annotated roots
/// The redeem DAG has the shape of the construct DAG (convert makes one node per node, sharing by
/// pointer), so the two post-order sequences correspond position by position; table indices are
/// recovered from the construct sequence by pointer identity.
fn mr(program: bool, specs: &[NodeSpec]) -> Vec<u128> {
    let needs_types = specs.iter().any(|s| matches!(s, NodeSpec::Witness(WitSpec::Compact(_))));
    let arr = if needs_types {
        match arrows(specs, program) {
            Ok(a) => Some(a),
            Err(e) => return vec![1, err_code(&e)],
        }
    } else {
        None
    };
    let mut wits: Vec<Option<Value>> = vec![None; specs.len()];
    for (i, s) in specs.iter().enumerate() {
        match s {
            NodeSpec::Witness(WitSpec::Compact(bits)) => {
                let ty = &arr.as_ref().unwrap()[i].as_ref().unwrap().1;
                match value_of_compact(bits, ty) {
                    Some(v) => wits[i] = Some(v),
                    None => return vec![1, 30],
                }
            }
            NodeSpec::Witness(WitSpec::Typed(..)) => match typed_witness(specs, i) {
                Some(v) => wits[i] = Some(v),
                None => return vec![1, 30],
            },
            _ => {}
        }
    }
    types::Context::with_context(|ctx| {
        let nodes = match build(&ctx, specs, &|i| wits[i].clone()) {
            Ok(n) => n,
            Err(e) => return build_err(&e),
        };
        let root = nodes.last().unwrap().as_ref().unwrap();
        if program {
            if let Err(e) = root.set_arrow_to_program() {
                return vec![1, type_code(&e)];
            }
        }
        let r = match root.finalize_unpruned() {
            Ok(r) => r,
            Err(simplicity::FinalizeError::DisconnectRedeemTime) => return vec![1, 40],
            Err(simplicity::FinalizeError::Type(t)) => return vec![1, type_code(&t)],
            Err(_) => return vec![1, 49],
        };
        let cseq: Vec<*const ConstructNode> = root
            .as_ref()
            .post_order_iter::<InternalSharing>()
            .map(|d| d.node as *const ConstructNode)
            .collect();
        let rseq: Vec<&RedeemNode> = r.as_ref().post_order_iter::<InternalSharing>().map(|d| d.node).collect();
        if cseq.len() != rseq.len() {
            return vec![1, 98];
        }
        let mut out = vec![0, nodes.len() as u128];
        for n in &nodes {
            match n {
                None => out.push(5),
                Some(n) => {
                    let p = Arc::as_ptr(n);
                    match cseq.iter().position(|q| *q == p) {
                        None => out.push(6),
                        Some(j) => {
                            out.push(1);
                            out.extend(rseq[j].ihr().to_byte_array().iter().map(|b| *b as u128));
                            out.extend(rseq[j].amr().to_byte_array().iter().map(|b| *b as u128));
                        }
                    }
                }
            }
        }
        out
    })
}

// ------------------------------------------------------------------ Hiding<Arc<ConstructNode>>
fn hiding(set: &[usize], specs: &[NodeSpec]) -> Vec<u128> {
    types::Context::with_context(|ctx| {
        type N<'b> = Arc<ConstructNode<'b>>;
        type Hd<'b> = Hiding<'b, N<'b>>;
        let mut vals: Vec<Hd> = Vec::with_capacity(specs.len());
        for (i, s) in specs.iter().enumerate() {
            macro_rules! get {
                ($k:expr) => {{
                    if $k >= i {
                        return vec![1, 11];
                    }
                    &vals[$k]
                }};
            }
            macro_rules! tyerr {
                ($e:expr) => {
                    match $e {
                        Ok(x) => x,
                        Err(_) => return vec![1, 10],
                    }
                };
            }
            let v: Hd = match s {
                NodeSpec::Iden => Hd::iden(&ctx),
                NodeSpec::Unit => Hd::unit(&ctx),
                NodeSpec::InjL(c) => Hd::injl(get!(*c)),
                NodeSpec::InjR(c) => Hd::injr(get!(*c)),
                NodeSpec::Take(c) => Hd::take(get!(*c)),
                NodeSpec::Drop(c) => Hd::drop_(get!(*c)),
                NodeSpec::Comp(l, r) => {
                    let a = get!(*l);
                    let b = get!(*r);
                    tyerr!(Hd::comp(a, b))
                }
                NodeSpec::Case(l, r) => {
                    let a = get!(*l);
                    let b = get!(*r);
                    // a child given as a hidden node: through assertl / assertr at even positions, through case
                    // (with the Hiding::hidden object) at odd ones; both must give the same root
                    match (&specs[*l], &specs[*r]) {
                        (NodeSpec::Hidden(h), rs) if i % 2 == 0 && !matches!(rs, NodeSpec::Hidden(_)) => {
                            tyerr!(Hd::assertr(Cmr::from_byte_array(*h), b))
                        }
                        (ls, NodeSpec::Hidden(h)) if i % 2 == 0 && !matches!(ls, NodeSpec::Hidden(_)) => {
                            tyerr!(Hd::assertl(a, Cmr::from_byte_array(*h)))
                        }
                        _ => tyerr!(Hd::case(a, b)),
                    }
                }
                NodeSpec::Pair(l, r) => {
                    let a = get!(*l);
                    let b = get!(*r);
                    tyerr!(Hd::pair(a, b))
                }
                NodeSpec::Disconnect(l, r) => {
                    let right: Option<N> = match r {
                        Some(k) => match get!(*k).as_node() {
                            Some(n) => Some(Arc::clone(n)),
                            None => return vec![1, 12],
                        },
                        None => None,
                    };
                    tyerr!(Hd::disconnect(get!(*l), &right))
                }
                NodeSpec::Hidden(h) => Hd::hidden(Cmr::from_byte_array(*h), ctx.shallow_clone()),
                NodeSpec::Fail(e) => Hd::fail(&ctx, FailEntropy::from_byte_array(*e)),
                NodeSpec::Jet(fam, name) => match jet_by_name(*fam, name) {
                    Some(j) => Hd::jet(&ctx, j.as_ref()),
                    None => return vec![1, 15],
                },
                NodeSpec::Word(n, bits) => {
                    if bits.len() != 1usize << n {
                        return vec![1, 14];
                    }
                    let bytes = pack_bits(bits);
                    let mut it = BitIter::from(bytes.into_iter());
                    let w = Word::from_bits(&mut it, *n).expect("word bits");
                    Hd::const_word(&ctx, w)
                }
                NodeSpec::Witness(_) => Hd::witness(&ctx, None),
            };
            let v = if set.contains(&i) { v.hide() } else { v };
            vals.push(v);
        }
        let mut out = vec![0, vals.len() as u128];
        for v in &vals {
            out.push(if v.as_node().is_some() { 0 } else { 1 });
            push_cmr(&mut out, v.cmr());
        }
        out.push(77);
        match vals.last().unwrap().as_node() {
            Some(n) => {
                out.push(1);
                push_cmr(&mut out, n.cmr());
                // the unwrapped node is an ordinary construct node: finalising it keeps the root
                match n.finalize_types_non_program() {
                    Ok(c) => {
                        out.push(0);
                        push_cmr(&mut out, c.cmr());
                    }
                    Err(e) => out.extend([1, type_code(&e)]),
                }
            }
            None => out.push(0),
        }
        out
    })
}

// ------------------------------------------------------------------ policies
// expr (prefix, no spaces): T | U<128 hex> | A<n>; | O<n>; | K<64 hex secret key> | S<64 hex>
//                           | &<e><e> | |<e><e> | %<k>:<m>;<e>...<e>
use simplicity::bitcoin::key::XOnlyPublicKey;
use simplicity::bitcoin::secp256k1;
use simplicity::policy::Policy;

fn parse_policy(c: &[char], pos: &mut usize) -> Policy<XOnlyPublicKey> {
    let ch = c[*pos];
    *pos += 1;
    let take = |pos: &mut usize, n: usize| -> String {
        let s: String = c[*pos..*pos + n].iter().collect();
        *pos += n;
        s
    };
    let num = |pos: &mut usize, stop: char| -> u64 {
        let mut s = String::new();
        while c[*pos] != stop {
            s.push(c[*pos]);
            *pos += 1;
        }
        *pos += 1;
        s.parse().unwrap()
    };
    match ch {
        'T' => Policy::Trivial,
        'U' => {
            let b = unhex(&take(pos, 128));
            let mut a = [0u8; 64];
            a.copy_from_slice(&b);
            Policy::Unsatisfiable(FailEntropy::from_byte_array(a))
        }
        'A' => Policy::After(num(pos, ';') as u32),
        'O' => Policy::Older(num(pos, ';') as u16),
        'K' => {
            let b = unhex(&take(pos, 64));
            let secp = secp256k1::Secp256k1::new();
            let sk = secp256k1::SecretKey::from_slice(&b).expect("secret key");
            let kp = secp256k1::Keypair::from_secret_key(&secp, &sk);
            Policy::Key(kp.x_only_public_key().0)
        }
        'S' => {
            let b = unhex(&take(pos, 64));
            let mut a = [0u8; 32];
            a.copy_from_slice(&b);
            Policy::Sha256(<simplicity::bitcoin::hashes::sha256::Hash as simplicity::bitcoin::hashes::Hash>::from_byte_array(a))
        }
        '&' => {
            let l = parse_policy(c, pos);
            let r = parse_policy(c, pos);
            Policy::And { left: Arc::new(l), right: Arc::new(r) }
        }
        '|' => {
            let l = parse_policy(c, pos);
            let r = parse_policy(c, pos);
            Policy::Or { left: Arc::new(l), right: Arc::new(r) }
        }
        '%' => {
            let k = num(pos, ':') as usize;
            let m = num(pos, ';') as usize;
            let subs = (0..m).map(|_| parse_policy(c, pos)).collect();
            Policy::Threshold(k, subs)
        }
        _ => panic!("policy syntax"),
    }
}

/// -> 0 <Policy::cmr 32 bytes> <Policy::commit().cmr() 32 bytes>
fn policy(expr: &str) -> Vec<u128> {
    let chars: Vec<char> = expr.chars().collect();
    let mut pos = 0;
    let p = parse_policy(&chars, &mut pos);
    let mut out = vec![0];
    push_cmr(&mut out, p.cmr());
    push_cmr(&mut out, p.commit().cmr());
    out
}

#[allow(dead_code)]
fn unused(_: &dyn Jet, _: Inner<(), (), ()>) {}
