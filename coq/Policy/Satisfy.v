(* C16 - model of src/policy/satisfy.rs: Policy::satisfy_internal over
   SatResult = Hiding<Arc<ConstructNode>>, and the boolean meaning of a policy.

   The satisfier is four answer functions (lookup_signature / lookup_sha256 answer Some or
   None; check_after / check_older answer true or false).  `finalize_unpruned().bounds().cost`
   is a Section variable `fin_cost : node -> option N` (None = finalize_unpruned failed); the
   executable instance used by the correspondence check is Policy/Cost.v. *)
From Coq Require Import Permutation Sorted.
From RS Require Import Lib.Tac Lib.Outcome Policy.PolicyAst Policy.Sort Policy.Compile.
Import ListNotations.
Local Open Scope N_scope.
Local Open Scope outcome_scope.
Set Implicit Arguments.

Record satisfier : Type := {
  s_sig : N -> bool;      (* lookup_signature(key).is_some() *)
  s_pre : N -> bool;      (* lookup_sha256(image).is_some() *)
  s_after : N -> bool;    (* check_after(LockTime::Blocks(n)) *)
  s_older : N -> bool }.  (* check_older(Sequence(n)) *)

(* what the answers make of the policy: and-both, or-either, threshold at least k *)
Fixpoint holds (s : satisfier) (p : policy) : bool :=
  match p with
  | Unsat _ => false
  | Trivial => true
  | Key k => s_sig s k
  | After n => s_after s n
  | Older n => s_older s n
  | Sha256 h => s_pre s h
  | And l r => holds s l && holds s r
  | Or l r => holds s l || holds s r
  | Thresh k subs => k <=? N.of_nat (length (filter (holds s) subs))
  end.

(* normalisation does not change the meaning *)
Lemma normalized_holds s p : holds s (normalized p) = holds s p.
Proof.
  induction p using policy_ind'; try reflexivity.
  - cbn [normalized]. destruct p1; try reflexivity;
      (destruct p2; try (cbn [holds]; rewrite ?andb_false_r; reflexivity);
       cbn [is_trivial]; try (rewrite IHp1; cbn [holds]; rewrite ?andb_true_r; reflexivity);
       try (rewrite IHp2; reflexivity);
       cbn [holds] in *; rewrite ?IHp1, ?IHp2; reflexivity).
  - cbn [normalized]. destruct p1; cbn [is_trivial orb]; try reflexivity;
      (destruct p2; cbn [is_trivial orb]; try (cbn [holds]; rewrite ?orb_true_r; reflexivity);
       try (rewrite IHp1; cbn [holds]; rewrite ?orb_false_r; reflexivity);
       try (rewrite IHp2; reflexivity);
       cbn [holds] in *; rewrite ?IHp1, ?IHp2; reflexivity).
Qed.

(* Vec::truncate(k) for k : usize given as N (no unary numbers) *)
Fixpoint take_n {X} (k : N) (l : list X) : list X :=
  match l with
  | [] => []
  | x :: t => if k =? 0 then [] else x :: take_n (k - 1) t
  end.

(* `indices.sort_by_key(|&i| costs[i]); indices.truncate(k)` - sort_by_key is stable *)
Definition key_leb (costs : list N) (i j : nat) : bool := nth i costs 0 <=? nth j costs 0.
Definition select_indices (k : N) (costs : list N) : list nat :=
  take_n k (isort (key_leb costs) (seq 0 (length costs))).

Section Sat.
  Variable H : Type.
  Variable hf : hashfns H.
  Variable fin_cost : node H -> option N.
  Variable cmax : N.                    (* Cost::CONSENSUS_MAX, the "unsatisfiable" sentinel *)

  Definition SatResult : Type := hres H (node H).
  Definition hal : alg H SatResult := hiding_alg hf (node_alg H) (cmr hf).
  Definition scmr (r : SatResult) : H := hcmr (cmr hf) r.

  Definition ok_if (c : bool) (x : SatResult) : SatResult := if c then x else hide (cmr hf) x.

  Definition cost_of (r : SatResult) : N :=
    match r with
    | inl n => match fin_cost n with Some c => c | None => cmax end
    | inr _ => cmax
    end.

  Definition opt_bit (b : bool) : option wval := Some (WBit b).

  (* the body of the Threshold arm once the children are satisfied.
     Panic 3 = `u32::try_from(k).expect("k should be less than 2^32")` *)
  Definition sat_threshold (k : N) (subs_res : list SatResult) : outcome unit SatResult :=
    let costs := map cost_of subs_res in
    let sel := select_indices k costs in
    let all_selected_ok := forallb (fun i => is_node (nth i subs_res (inr (h_unit hf)))) sel in
    let witness_bits := map (fun i => opt_bit (existsb (Nat.eqb i) sel)) (seq 0 (length subs_res)) in
    if 2 ^ 32 <=? k then Panic 3
    else t <- f_threshold hal k subs_res witness_bits ;; Ok (ok_if all_selected_ok t).

  (* Panic 1 = `Height::from_consensus(n).expect("timelock is valid")`,
     Panic 2 = `finalize_unpruned().expect("serialization should be sound")` in the Or arm *)
  Definition sat_or (l r : SatResult) : outcome unit SatResult :=
    take_right <- match l, r with
                  | inl a, inl b =>
                      match fin_cost a, fin_cost b with
                      | Some ca, Some cb => Ok (cb <? ca)
                      | _, _ => Panic 2
                      end
                  | inr _, inl _ => Ok true
                  | inl _, inr _ => Ok false
                  | inr _, inr _ => Ok false
                  end ;;
    Ok (ok_if (is_node l || is_node r) (f_or hal l r (opt_bit take_right))).

  Fixpoint satisfy_internal (s : satisfier) (p : policy) : outcome unit SatResult :=
    match p with
    | Unsat e => Ok (hide (cmr hf) (f_unsatisfiable hal e))
    | Trivial => Ok (f_trivial hal)
    | Key k =>
        let signature := if s_sig s k then Some (WSig k) else None in
        Ok (ok_if (s_sig s k) (f_key hal k signature))
    | After n =>
        if HEIGHT_LIMIT <=? n then Panic 1
        else Ok (ok_if (s_after s n) (f_after hal n))
    | Older n => Ok (ok_if (s_older s n) (f_older hal n))
    | Sha256 h =>
        let preimage := if s_pre s h then Some (WPre h) else None in
        Ok (ok_if (s_pre s h) (f_sha256 hal h preimage))
    | And l r =>
        l' <- satisfy_internal s l ;; r' <- satisfy_internal s r ;; Ok (f_and hal l' r')
    | Or l r =>
        l' <- satisfy_internal s l ;; r' <- satisfy_internal s r ;; sat_or l' r'
    | Thresh k subs =>
        subs_res <- (fix go (l : list policy) : outcome unit (list SatResult) :=
                       match l with
                       | [] => Ok []
                       | x :: t => x' <- satisfy_internal s x ;; t' <- go t ;; Ok (x' :: t')
                       end) subs ;;
        sat_threshold k subs_res
    end.

  Lemma satisfy_internal_thresh s k subs :
    satisfy_internal s (Thresh k subs) =
    subs_res <- omapM (satisfy_internal s) subs ;; sat_threshold k subs_res.
  Proof.
    cbn [satisfy_internal]. f_equal.
    induction subs as [|x t IH]; cbn [omapM]; auto. rewrite IH. reflexivity.
  Qed.

  Inductive sat_error := Unsatisfiable | AssemblyFailed.

  (* Policy::satisfy up to (not including) `.prune(env)`.
     Panic 8 = `finalize_unpruned().expect("serialization should be sound")` *)
  Definition satisfy_unpruned (s : satisfier) (p : policy) : outcome sat_error (node H) :=
    match satisfy_internal s p with
    | Ok (inl program) => match fin_cost program with Some _ => Ok program | None => Panic 8 end
    | Ok (inr _) => Err Unsatisfiable
    | Err _ => Panic 0
    | Panic c => Panic c
    | OutOfFuel => OutOfFuel
    end.

  (* ---------------------------------------------------------------- roots *)
  Lemma ok_inj {E X} (a b : X) : @Ok E X a = Ok b -> a = b.
  Proof. congruence. Qed.

  Lemma hal_hom : alg_hom hf hal scmr.
  Proof. apply hiding_hom, node_hom. Qed.

  Lemma ok_if_cmr c x : scmr (ok_if c x) = scmr x.
  Proof. destruct c; cbn [ok_if]; auto. apply hide_cmr. Qed.

  Lemma omapM_ok_length {X Y} (g : X -> outcome unit Y) l r : omapM g l = Ok r -> length r = length l.
  Proof.
    revert r. induction l as [|x t IH]; cbn [omapM]; intros r Hr.
    - injection Hr as <-. reflexivity.
    - destruct (g x); cbn [obind] in Hr; try discriminate.
      destruct (omapM g t); cbn [obind] in Hr; try discriminate.
      injection Hr as <-. cbn. f_equal. apply IH. reflexivity.
  Qed.

  (* whatever the satisfier answers, the value it builds - a program or a hidden root -
     carries the root of the policy *)
  Theorem satisfy_internal_cmr s p r :
    satisfy_internal s p = Ok r -> policy_cmr hf p = Ok (scmr r).
  Proof.
    unfold policy_cmr. revert r.
    induction p using policy_ind'; intros r Hr.
    - cbn [satisfy_internal] in Hr. apply ok_inj in Hr; subst r. reflexivity.
    - cbn [satisfy_internal] in Hr. apply ok_inj in Hr; subst r. reflexivity.
    - cbn [satisfy_internal] in Hr. apply ok_inj in Hr; subst r.
      rewrite ok_if_cmr. unfold scmr. rewrite (f_key_hom hal_hom). reflexivity.
    - cbn [satisfy_internal] in Hr. destruct (HEIGHT_LIMIT <=? n); [discriminate|]. apply ok_inj in Hr; subst r.
      rewrite ok_if_cmr. unfold scmr. rewrite (f_after_hom hal_hom). reflexivity.
    - cbn [satisfy_internal] in Hr. apply ok_inj in Hr; subst r.
      rewrite ok_if_cmr. unfold scmr. rewrite (f_older_hom hal_hom). reflexivity.
    - cbn [satisfy_internal] in Hr. apply ok_inj in Hr; subst r.
      rewrite ok_if_cmr. unfold scmr. rewrite (f_sha256_hom hal_hom). reflexivity.
    - cbn [satisfy_internal] in Hr.
      destruct (satisfy_internal s p1) as [l'| | |]; cbn [obind] in Hr; try discriminate.
      destruct (satisfy_internal s p2) as [r'| | |]; cbn [obind] in Hr; try discriminate.
      apply ok_inj in Hr; subst r. cbn [compile]. rewrite (IHp1 _ eq_refl), (IHp2 _ eq_refl). cbn [obind].
      unfold scmr. rewrite (f_and_hom hal_hom). reflexivity.
    - cbn [satisfy_internal] in Hr.
      destruct (satisfy_internal s p1) as [l'| | |]; cbn [obind] in Hr; try discriminate.
      destruct (satisfy_internal s p2) as [r'| | |]; cbn [obind] in Hr; try discriminate.
      unfold sat_or in Hr.
      match type of Hr with (obind ?X _) = _ => destruct X as [tr| | |]; cbn [obind] in Hr; try discriminate end.
      apply ok_inj in Hr; subst r. cbn [compile]. rewrite (IHp1 _ eq_refl), (IHp2 _ eq_refl). cbn [obind].
      rewrite ok_if_cmr. unfold scmr. rewrite (f_or_hom hal_hom). reflexivity.
    - rewrite satisfy_internal_thresh in Hr. rewrite compile_thresh.
      destruct (omapM (satisfy_internal s) subs) as [res| | |] eqn:E; cbn [obind] in Hr; try discriminate.
      unfold sat_threshold in Hr.
      destruct (2 ^ 32 <=? k); [discriminate|].
      assert (omapM (compile (cmr_alg hf)) subs = Ok (map scmr res)) as ->.
      { clear Hr. revert res E.
        match goal with HF : Forall _ _ |- _ => induction HF as [|x t Hx _ IH] end; intros res E.
        - cbn in E. injection E as <-. reflexivity.
        - cbn [omapM] in *.
          destruct (satisfy_internal s x) as [x'| | |]; cbn [obind] in E; try discriminate.
          destruct (omapM (satisfy_internal s) t) as [t'| | |]; cbn [obind] in E; try discriminate.
          injection E as <-. rewrite (Hx _ eq_refl), (IH _ eq_refl). reflexivity. }
      cbn [obind]. rewrite map_length.
      match type of Hr with (obind ?X _) = _ => destruct X as [t| | |] eqn:ET; cbn [obind] in Hr; try discriminate end.
      apply ok_inj in Hr; subst r. rewrite ok_if_cmr.
      pose proof (f_threshold_hom hal_hom k res
                    (map (fun i => opt_bit (existsb (Nat.eqb i) (select_indices k (map cost_of res))))
                         (seq 0 (length res)))) as HT.
      rewrite map_length, seq_length in HT. specialize (HT eq_refl).
      fold hal in ET. rewrite ET in HT. cbn [omap obind] in HT. symmetry. exact HT.
  Qed.

  Corollary satisfy_unpruned_cmr s p prog :
    satisfy_unpruned s p = Ok prog -> policy_cmr hf p = Ok (cmr hf prog).
  Proof.
    unfold satisfy_unpruned. destruct (satisfy_internal s p) as [[n|h]| | |] eqn:E; try discriminate.
    destruct (fin_cost n); [|discriminate]. intros [= <-].
    apply (satisfy_internal_cmr _ _ E).
  Qed.

  (* ---------------------------------------------------------------- satisfiable iff true *)
  (* the sentinel premise: wherever the algorithm compares costs, the satisfied children can be
     finalised, and under a threshold they cost less than CONSENSUS_MAX (the cost the code
     assigns to an unsatisfiable child) *)
  Fixpoint cost_ok (s : satisfier) (p : policy) : Prop :=
    match p with
    | And l r => cost_ok s l /\ cost_ok s r
    | Or l r =>
        cost_ok s l /\ cost_ok s r /\
        (forall a b, satisfy_internal s l = Ok (inl a) -> satisfy_internal s r = Ok (inl b) ->
                     fin_cost a <> None /\ fin_cost b <> None)
    | Thresh _ subs =>
        (fix all (l : list policy) : Prop :=
           match l with
           | [] => True
           | x :: t => (cost_ok s x /\
                        (forall a, satisfy_internal s x = Ok (inl a) ->
                                   exists c, fin_cost a = Some c /\ c < cmax)) /\ all t
           end) subs
    | _ => True
    end.

  Lemma cost_ok_thresh_Forall s k subs :
    cost_ok s (Thresh k subs) ->
    Forall (fun x => cost_ok s x /\
                     (forall a, satisfy_internal s x = Ok (inl a) -> exists c, fin_cost a = Some c /\ c < cmax)) subs.
  Proof. cbn [cost_ok]. induction subs as [|x t IH]; intros Hc; constructor; destruct Hc; auto. Qed.

  (* -- lists of indices sorted by a key that is `cmax` exactly on the bad ones -- *)
  Section Select.
    Variable n : nat.
    Variable good : nat -> bool.
    Variable key : nat -> N.
    Hypothesis key_good : forall i, (i < n)%nat -> good i = true -> key i < cmax.
    Hypothesis key_bad : forall i, (i < n)%nat -> good i = false -> key i = cmax.

    Let leb (i j : nat) : bool := key i <=? key j.

    Lemma sorted_split L :
      (forall i, In i L -> (i < n)%nat) -> sorted leb L ->
      L = filter good L ++ filter (fun i => negb (good i)) L.
    Proof.
      intros Hin HS. induction HS as [|x t Hs IH Hall]; [reflexivity|].
      assert (forall i, In i t -> (i < n)%nat) as Hin' by (intros; apply Hin; right; auto).
      specialize (IH Hin').
      cbn [filter]. destruct (good x) eqn:G; cbn [negb app].
      - f_equal. exact IH.
      - assert (Forall (fun y => good y = false) t) as Hb.
        { rewrite Forall_forall in *. intros y Hy. specialize (Hall y Hy). unfold lebP, leb in Hall.
          destruct (good y) eqn:Gy; auto. apply key_good in Gy; [|apply Hin'; auto].
          apply key_bad in G; [|apply Hin; left; auto].
          apply N.leb_le in Hall. lia. }
        assert (filter good t = []) as ->.
        { clear -Hb. induction Hb as [|y t Hy _ IH']; cbn [filter]; auto. rewrite Hy. exact IH'. }
        assert (filter (fun i => negb (good i)) t = t) as ->.
        { clear -Hb. induction Hb as [|y t Hy _ IH']; cbn [filter]; auto. rewrite Hy. cbn. f_equal. exact IH'. }
        reflexivity.
    Qed.

    Lemma take_goods G : forall B k,
      Forall (fun i => good i = true) G -> Forall (fun i => good i = false) B ->
      k <= N.of_nat (length G + length B) ->
      forallb good (take_n k (G ++ B)) = (k <=? N.of_nat (length G)).
    Proof.
      induction G as [|g G' IH]; intros B k HG HB Hk.
      - cbn [app length]. destruct B as [|b B'].
        + cbn in Hk. assert (k = 0) as -> by lia. reflexivity.
        + cbn [take_n]. destruct (k =? 0) eqn:E.
          * apply N.eqb_eq in E. subst. reflexivity.
          * cbn [forallb]. inversion HB; subst.
            match goal with Hg : good b = false |- _ => rewrite Hg end.
            apply N.eqb_neq in E. symmetry. apply N.leb_gt. cbn. lia.
      - cbn [app take_n]. destruct (k =? 0) eqn:E.
        + apply N.eqb_eq in E. subst. reflexivity.
        + apply N.eqb_neq in E. cbn [forallb]. inversion HG; subst.
          match goal with Hg : good g = true |- _ => rewrite Hg end. cbn [andb].
          rewrite IH; auto.
          * cbn [length]. destruct (k <=? N.of_nat (S (length G'))) eqn:E1.
            -- apply N.leb_le in E1. apply N.leb_le. lia.
            -- apply N.leb_gt in E1. apply N.leb_gt. lia.
          * cbn [length] in Hk. lia.
    Qed.

    Lemma leb_total' a b : leb a b = false -> leb b a = true.
    Proof. unfold leb. intros E. apply N.leb_gt in E. apply N.leb_le. lia. Qed.
    Lemma leb_trans' a b c : leb a b = true -> leb b c = true -> leb a c = true.
    Proof. unfold leb. rewrite !N.leb_le. lia. Qed.

    (* the k cheapest are all good iff there are at least k good ones *)
    Lemma select_all_good k :
      k <= N.of_nat n ->
      forallb good (take_n k (isort leb (seq 0 n))) = (k <=? N.of_nat (length (filter good (seq 0 n)))).
    Proof.
      intros Hk. set (L := isort leb (seq 0 n)).
      assert (sorted leb L) as HS by (apply isort_sorted; [apply leb_total'|apply leb_trans']).
      assert (Permutation (seq 0 n) L) as HP by apply isort_perm.
      assert (forall i, In i L -> (i < n)%nat) as Hin.
      { intros i Hi. apply (Permutation_in _ (Permutation_sym HP)) in Hi. apply in_seq in Hi. lia. }
      rewrite (sorted_split Hin HS).
      assert (forall (g : nat -> bool) l1 l2, Permutation l1 l2 -> length (filter g l1) = length (filter g l2)) as Hfl.
      { intros g l1 l2 Hp. induction Hp; cbn [filter]; auto.
        - destruct (g x); cbn; congruence.
        - destruct (g x), (g y); reflexivity.
        - congruence. }
      rewrite take_goods.
      - rewrite (Hfl good _ _ HP). reflexivity.
      - apply Forall_forall. intros i Hi. apply filter_In in Hi. tauto.
      - apply Forall_forall. intros i Hi. apply filter_In in Hi. destruct Hi as [_ Hi].
        destruct (good i); auto; discriminate.
      - rewrite <- app_length, <- (sorted_split Hin HS). subst L.
        rewrite <- (Permutation_length HP), seq_length. exact Hk.
    Qed.
  End Select.

  Lemma map_nth_seq {X} (l : list X) d : map (fun i => nth i l d) (seq 0 (length l)) = l.
  Proof.
    induction l as [|x t IH]; [reflexivity|].
    cbn [length seq map nth]. f_equal.
    rewrite <- seq_shift, map_map. exact IH.
  Qed.

  Lemma filter_map_length {X Y} (g : Y -> bool) (h : X -> Y) l :
    length (filter (fun x => g (h x)) l) = length (filter g (map h l)).
  Proof. induction l as [|x t IH]; cbn [filter map]; auto. destruct (g (h x)); cbn; congruence. Qed.

  Definition res_ok (r : SatResult) : Prop :=
    forall a, r = inl a -> exists c, fin_cost a = Some c /\ c < cmax.

  Lemma threshold_selection k (res : list SatResult) :
    Forall res_ok res -> k <= N.of_nat (length res) ->
    forallb (fun i => is_node (nth i res (inr (h_unit hf)))) (select_indices k (map cost_of res))
    = (k <=? N.of_nat (length (filter (@is_node H (node H)) res))).
  Proof.
    intros Hok Hk. unfold select_indices. rewrite map_length.
    set (d := (inr (h_unit hf) : SatResult)).
    rewrite (select_all_good (n := length res) (fun i => is_node (nth i res d)) (fun i => nth i (map cost_of res) 0)).
    - rewrite (filter_map_length (@is_node H (node H)) (fun i => nth i res d)), map_nth_seq. reflexivity.
    - (* good => cost < cmax *)
      intros i Hi Hn.
      rewrite (nth_indep _ 0 (cost_of d)) by (rewrite map_length; auto). rewrite map_nth.
      rewrite Forall_forall in Hok. specialize (Hok (nth i res d) (nth_In _ _ Hi)).
      destruct (nth i res d) as [a|h]; [|discriminate].
      destruct (Hok a eq_refl) as (c & Hc & Hlt). cbn [cost_of]. rewrite Hc. exact Hlt.
    - (* bad => cost = cmax *)
      intros i Hi Hn.
      rewrite (nth_indep _ 0 (cost_of d)) by (rewrite map_length; auto). rewrite map_nth.
      destruct (nth i res d); [discriminate|reflexivity].
    - exact Hk.
  Qed.

  (* ---------------------------------------------------------------- the main equivalence *)
  Lemma is_node_ok_if c (x : SatResult) : is_node (ok_if c x) = c && is_node x.
  Proof. destruct c, x; reflexivity. Qed.

  Lemma is_node_and (l r : SatResult) : is_node (f_and hal l r) = is_node l && is_node r.
  Proof. destruct l, r; reflexivity. Qed.

  Lemma is_node_or (l r : SatResult) w : is_node (f_or hal l r w) = is_node l || is_node r.
  Proof. destruct l, r; reflexivity. Qed.

  Lemma summand_is_node (c : SatResult) w : exists n, f_thresh_summand hal c w = inl n.
  Proof. destruct c; eexists; reflexivity. Qed.

  Lemma thresh_sum_is_node rest : forall a, exists n, f_thresh_sum hal (inl a) rest = inl n.
  Proof.
    induction rest as [|[c w] t IH]; intros a; cbn [f_thresh_sum]; [eexists; reflexivity|].
    destruct (summand_is_node c w) as (m & ->). apply IH.
  Qed.

  Lemma threshold_is_node k (res : list SatResult) wits :
    res <> [] -> length wits = length res -> k <= N.of_nat (length res) -> N.of_nat (length res) < 2 ^ 32 ->
    exists n, f_threshold hal k res wits = Ok (inl n).
  Proof.
    intros Hne Hl Hk Hn. unfold f_threshold.
    destruct (2 ^ 32 <=? N.of_nat (length res)) eqn:E1; [apply N.leb_le in E1; lia|].
    destruct (N.of_nat (length res) <? k) eqn:E2; [apply N.ltb_lt in E2; lia|].
    destruct res as [|r0 rt]; [congruence|]. destruct wits as [|w0 wt]; [discriminate|].
    destruct (summand_is_node r0 w0) as (m & ->).
    destruct (thresh_sum_is_node (combine rt wt) m) as (m' & ->).
    eexists. reflexivity.
  Qed.

  Theorem satisfy_iff s p :
    wf p -> cost_ok s p ->
    exists r, satisfy_internal s p = Ok r /\ is_node r = holds s p.
  Proof.
    induction p using policy_ind'; intros Hwf Hc.
    - eexists; split; reflexivity.
    - eexists; split; reflexivity.
    - eexists; split; [reflexivity|]. cbn [holds]. rewrite is_node_ok_if. apply andb_true_r.
    - cbn [wf] in Hwf. cbn [satisfy_internal].
      destruct (HEIGHT_LIMIT <=? n) eqn:E; [apply N.leb_le in E; lia|].
      eexists; split; [reflexivity|]. cbn [holds]. rewrite is_node_ok_if. apply andb_true_r.
    - eexists; split; [reflexivity|]. cbn [holds]. rewrite is_node_ok_if. apply andb_true_r.
    - eexists; split; [reflexivity|]. cbn [holds]. rewrite is_node_ok_if. apply andb_true_r.
    - destruct Hwf as [W1 W2]. destruct Hc as [C1 C2].
      destruct (IHp1 W1 C1) as (l' & E1 & N1). destruct (IHp2 W2 C2) as (r' & E2 & N2).
      cbn [satisfy_internal]. rewrite E1, E2. cbn [obind].
      eexists; split; [reflexivity|]. cbn [holds]. rewrite is_node_and. congruence.
    - destruct Hwf as [W1 W2]. destruct Hc as (C1 & C2 & C3).
      destruct (IHp1 W1 C1) as (l' & E1 & N1). destruct (IHp2 W2 C2) as (r' & E2 & N2).
      cbn [satisfy_internal]. rewrite E1, E2. cbn [obind]. unfold sat_or.
      assert (exists tr, match l', r' with
                         | inl a, inl b => match fin_cost a, fin_cost b with
                                           | Some ca, Some cb => Ok (cb <? ca)
                                           | _, _ => Panic 2
                                           end
                         | inr _, inl _ => Ok true
                         | inl _, inr _ => Ok false
                         | inr _, inr _ => Ok false
                         end = (Ok tr : outcome unit bool)) as (tr & ->).
      { destruct l' as [a|], r' as [b|]; try (eexists; reflexivity).
        destruct (C3 a b E1 E2) as [Fa Fb].
        destruct (fin_cost a); [|congruence]. destruct (fin_cost b); [|congruence]. eexists; reflexivity. }
      cbn [obind]. eexists; split; [reflexivity|].
      cbn [holds]. rewrite is_node_ok_if, is_node_or, <- N1, <- N2. apply andb_diag.
    - pose proof (wf_thresh_Forall _ _ Hwf) as HW. pose proof (cost_ok_thresh_Forall _ _ _ Hc) as HC.
      destruct Hwf as (Hne & Hk & Hn & _).
      assert (exists res, omapM (satisfy_internal s) subs = Ok res /\
                          Forall2 (fun p r => is_node r = holds s p /\ res_ok r) subs res) as (res & ER & HF2).
      { clear Hne Hk Hn Hc.
        match goal with HF : Forall (fun q => wf q -> _) subs |- _ => rename HF into HI end.
        induction subs as [|x t IH]; [exists []; split; [reflexivity|constructor]|].
        inversion HI as [|? ? Hx Ht]; subst. inversion HW as [|? ? Wx Wt]; subst.
        inversion HC as [|? ? [Cx Cx'] Ct]; subst.
        destruct (Hx Wx Cx) as (r & Er & Nr). destruct (IH Ht Wt Ct) as (rt & Ert & Frt).
        exists (r :: rt). split.
        - cbn [omapM]. rewrite Er, Ert. reflexivity.
        - constructor; auto. split; auto. intros a ->. apply Cx'. exact Er. }
      rewrite satisfy_internal_thresh, ER. cbn [obind]. unfold sat_threshold.
      assert (length res = length subs) as HL by (apply (omapM_ok_length _ _ ER)).
      destruct (2 ^ 32 <=? k) eqn:E1; [apply N.leb_le in E1; lia|].
      match goal with |- context [f_threshold hal k res ?w] => destruct (@threshold_is_node k res w) as (t & ->) end.
      + destruct res; [destruct subs; [congruence|discriminate]|congruence].
      + rewrite map_length, seq_length. reflexivity.
      + rewrite HL. exact Hk.
      + rewrite HL. exact Hn.
      + cbn [obind]. eexists; split; [reflexivity|].
        rewrite is_node_ok_if. cbn [is_node]. rewrite andb_true_r.
        rewrite threshold_selection.
        * cbn [holds]. f_equal. f_equal.
          clear -HF2. induction HF2 as [|x r xs rs [Hn _] _ IH]; [reflexivity|].
          cbn [filter]. rewrite Hn. destruct (holds s x); cbn [length]; congruence.
        * clear -HF2. induction HF2 as [|x r xs rs [_ Hr] _ IH]; constructor; auto.
        * rewrite HL. exact Hk.
  Qed.

  (* no panic and a definite verdict *)
  Corollary satisfy_internal_total s p :
    wf p -> cost_ok s p -> exists r, satisfy_internal s p = Ok r.
  Proof. intros W C. destruct (@satisfy_iff s p W C) as (r & E & _). eauto. Qed.

  Corollary satisfy_unpruned_iff s p :
    wf p -> cost_ok s p ->
    (forall n, satisfy_internal s p = Ok (inl n) -> fin_cost n <> None) ->
    if holds s p then exists prog, satisfy_unpruned s p = Ok prog
    else satisfy_unpruned s p = Err Unsatisfiable.
  Proof.
    intros W C F. destruct (@satisfy_iff s p W C) as (r & E & Hn). unfold satisfy_unpruned. rewrite E.
    destruct r as [n|h]; cbn [is_node] in Hn; rewrite <- Hn.
    - specialize (F n E). destruct (fin_cost n); [eauto|congruence].
    - reflexivity.
  Qed.
End Sat.
