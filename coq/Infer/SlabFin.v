(* C04, phase 3 - layer (d), the direction "the slab state has a finite model": Type::finalize on the slab model.

   `Inv be c`: be is a finite model of the well-formed state c that gives One to every class whose bound is Free
   (the least finite model of the state after construction has this property, SlabFinK.v).  Under Inv,
     Incomplete::occurs_check  never reports a cycle (occurs_spec: the explicit-stack loop with its in_progress /
                               completed sets, every element of the stack has a strictly smaller type than every
                               pending Done marker below it) and only performs path halving;
     the completion loop       (fin_bound) returns the value of be and keeps Inv (Free := One, a sum / product :=
                               the complete type of its finalised children, memoised in the slab);
     Type::finalize            returns Some (be e), keeps Inv and the partition (finalize_spec). *)
From RS Require Import Lib.Tac Lib.Outcome Ty.Ty Core.Prog Infer.Constraints Infer.Unify Infer.Infer Infer.Principal
  Infer.UnionFind Infer.Slab Infer.SlabProofs Infer.SlabSim.
Import ListNotations.
Local Open Scope outcome_scope.

Definition frees_one (be : nat -> ty) (c : ctx) : Prop :=
  forall r, (r < length (c_uf c))%nat -> is_uroot (c_uf c) r -> slab_get c (bref_of (c_uf c) r) = RFree -> be r = One.

Definition Inv (be : nat -> ty) (c : ctx) : Prop := cwf c /\ rsat be c /\ frees_one be c.

Lemma Inv_same_part be c u' : Inv be c -> same_part (c_uf c) u' -> Inv be (put_uf c u').
Proof.
  intros (CW & Sa & Fo) P. split; [apply cwf_same_part; assumption|]. split; [apply rsat_same_part; assumption|].
  intros r Hr Rr E. cbn [put_uf c_uf] in *. pose proof P as (_ & L & _ & _ & I).
  pose proof (I r Rr) as Rr0. rewrite (same_part_bref _ _ r P Rr0) in E. apply Fo; [lia|exact Rr0|exact E].
Qed.

Lemma holds_ref_same_part c u' r b : same_part (c_uf c) u' -> holds_ref c r b -> holds_ref (put_uf c u') r b.
Proof.
  intros P (L & R & B). pose proof P as (_ & Le & _). unfold holds_ref. cbn [put_uf c_uf].
  split; [lia|]. split; [apply (proj1 (same_part_root _ _ r P)); exact R|]. rewrite (same_part_bref _ _ r P R). exact B.
Qed.

Lemma holds_ref_keeps c c' r b : keeps_part c c' -> holds_ref c r b -> holds_ref c' r b.
Proof.
  intros P (L & R & B). pose proof P as (_ & Le & _). unfold holds_ref.
  split; [lia|]. split; [apply (proj1 (same_part_root _ _ r P)); exact R|]. rewrite (same_part_bref _ _ r P R). exact B.
Qed.

(* the bound of the representative r is replaced by the complete type that be gives to r *)
Lemma reassign_val be c r b (t : ty) : Inv be c -> holds_ref c r b -> (forall t0, slab_get c b <> RComplete t0) -> be r = t ->
  let c' := mk_ctx (lset (c_slab c) b (RComplete t)) (c_uf c) in
  Inv be c' /\ keeps_part c c' /\ length (c_slab c') = length (c_slab c).
Proof.
  intros (CW & [H1 H2] & Fo) (Le & Re & Be) Nc Et c'. pose proof CW as (W & Ch & Un & Br).
  assert (Lb : (b < length (c_slab c))%nat) by (rewrite <- Be; apply Br; assumption).
  assert (SGb : slab_get c' b = RComplete t) by (apply slab_get_lset_eq; exact Lb).
  assert (SGn : forall b', b <> b' -> slab_get c' b' = slab_get c b') by (intros; apply slab_get_lset_neq; assumption).
  split; [split; [|split]|split].
  - unfold cwf. change (c_uf c') with (c_uf c). split; [exact W|]. split; [|split; [exact Un|]].
    + intros b' x y H. destruct (Nat.eq_dec b b') as [<-|N]; [rewrite SGb in H; destruct H; discriminate|].
      rewrite SGn in H by exact N. apply (Ch b' x y H).
    + intros e He Hr. cbn [c' c_slab]. rewrite lset_length. apply Br; assumption.
  - split; [exact H1|]. change (c_uf c') with (c_uf c). intros e He Hr.
    destruct (Nat.eq_dec b (bref_of (c_uf c) e)) as [E|N].
    + assert (e = r) by (apply Un; auto; congruence). subst e. rewrite <- E, SGb. exact Et.
    + rewrite SGn by exact N. apply H2; assumption.
  - intros e He Hr E. change (c_uf c') with (c_uf c) in *.
    destruct (Nat.eq_dec b (bref_of (c_uf c) e)) as [Eb|N]; [rewrite <- Eb, SGb in E; discriminate|].
    rewrite SGn in E by exact N. apply Fo; assumption.
  - unfold keeps_part. apply same_part_refl. exact W.
  - cbn [c' c_slab]. apply lset_length.
Qed.

(* the value be gives to a representative whose bound is a sum / product *)
Lemma be_pair be c r b (s : bool) x1 x2 : Inv be c -> holds_ref c r b -> slab_get c b = (if s then RSum x1 x2 else RProd x1 x2) ->
  (x1 < length (c_uf c))%nat /\ (x2 < length (c_uf c))%nat /\
  be r = (if s then Sum else Prod) (be (rep (c_uf c) x1)) (be (rep (c_uf c) x2)).
Proof.
  intros (CW & [H1 H2] & _) (Le & Re & Be) E. pose proof CW as (W & Ch & _).
  assert (Lx : (x1 < length (c_uf c))%nat /\ (x2 < length (c_uf c))%nat) by (apply (Ch b x1 x2); rewrite E; destruct s; auto).
  destruct Lx as [L1 L2]. split; [exact L1|]. split; [exact L2|].
  specialize (H2 r Le Re). rewrite Be, E in H2. rewrite <- (H1 x1 L1), <- (H1 x2 L2). destruct s; exact H2.
Qed.

(* ---- the children of a bound: two `root` calls *)
Lemma kids_pair c b (s : bool) x1 x2 : cwf c -> slab_get c b = (if s then RSum x1 x2 else RProd x1 x2) ->
  (x1 < length (c_uf c))%nat -> (x2 < length (c_uf c))%nat ->
  exists u', kids c b = Ok (put_uf c u', Some (bref_of (c_uf c) (rep (c_uf c) x1), bref_of (c_uf c) (rep (c_uf c) x2))) /\
             same_part (c_uf c) u'.
Proof.
  intros CW E L1 L2. pose proof CW as (W & _). unfold kids. rewrite E.
  assert (G : (match (if s then RSum x1 x2 else RProd x1 x2) with
               | RSum t1 t2 | RProd t1 t2 => '(c1, r1) <- c_root c t1 ;; '(c2, r2) <- c_root c1 t2 ;; Ok (c2, Some (r1, r2))
               | _ => Ok (c, None)
               end) = ('(c1, r1) <- c_root c x1 ;; '(c2, r2) <- c_root c1 x2 ;; Ok (c2, Some (r1, r2)))) by (destruct s; reflexivity).
  rewrite G. clear G.
  destruct (c_root_spec c x1 CW L1) as (ua & Ea & Pa). rewrite Ea. cbn [obind].
  pose proof (cwf_same_part c ua CW Pa) as CWa.
  assert (La : length ua = length (c_uf c)) by (destruct Pa as (_ & L & _); exact L).
  destruct (c_root_spec (put_uf c ua) x2 CWa ltac:(cbn [put_uf c_uf]; lia)) as (ub & Eb2 & Pb). rewrite Eb2. cbn [obind put_uf c_uf c_slab].
  exists ub. split; [|eapply same_part_trans; eassumption].
  f_equal. f_equal. f_equal. f_equal.
  assert (Er : rep ua x2 = rep (c_uf c) x2) by (destruct Pa as (_ & _ & R & _); apply R; exact L2).
  rewrite Er. apply (same_part_bref _ _ _ Pa). apply rep_root; assumption.
Qed.

(* ---- the completion loop *)
Theorem fin_bound_spec be : forall fuel c b r, Inv be c -> holds_ref c r b ->
  match fin_bound fuel c b with
  | Ok (c', t) => Inv be c' /\ keeps_part c c' /\ length (c_slab c') = length (c_slab c) /\ t = be r
  | _ => True
  end.
Proof.
  induction fuel as [|f IH]; intros c b r I0 HR; [exact I|].
  pose proof I0 as (CW & [H1 H2] & Fo). pose proof CW as (W & Ch & Un & Br). pose proof HR as (Le & Re & Be).
  cbn [fin_bound].
  destruct (slab_get c b) as [|t|x1 x2|x1 x2] eqn:Eb.
  - (* Free := One *)
    unfold reassign_non_complete. rewrite Eb. cbn [obind].
    assert (E1 : be r = One) by (apply Fo; auto; rewrite Be; exact Eb).
    destruct (reassign_val be c r b One I0 HR ltac:(intros t0; rewrite Eb; discriminate) E1) as (I' & K' & L').
    split; [exact I'|]. split; [exact K'|]. split; [exact L'|]. symmetry. exact E1.
  - split; [exact I0|]. split; [apply same_part_refl; exact W|]. split; [reflexivity|].
    specialize (H2 r Le Re). rewrite Be, Eb in H2. symmetry. exact H2.
  - destruct (be_pair be c r b true x1 x2 I0 HR Eb) as (L1 & L2 & Ev).
    destruct (kids_pair c b true x1 x2 CW Eb L1 L2) as (u' & Ek & P). rewrite Ek. cbn [obind].
    set (r1 := rep (c_uf c) x1) in *. set (r2 := rep (c_uf c) x2) in *.
    destruct (rep_root _ x1 W L1) as [Rr1 Lr1]. destruct (rep_root _ x2 W L2) as [Rr2 Lr2]. fold r1 in Rr1, Lr1. fold r2 in Rr2, Lr2.
    pose proof (Inv_same_part be c u' I0 P) as I1.
    assert (HR1 : holds_ref (put_uf c u') r1 (bref_of (c_uf c) r1)) by (apply holds_ref_same_part; [exact P|repeat split; auto]).
    assert (HR2 : holds_ref (put_uf c u') r2 (bref_of (c_uf c) r2)) by (apply holds_ref_same_part; [exact P|repeat split; auto]).
    pose proof (IH (put_uf c u') _ r1 I1 HR1) as F1.
    destruct (fin_bound f (put_uf c u') (bref_of (c_uf c) r1)) as [[c2 ta]| | |]; cbn [obind]; try exact I.
    destruct F1 as (I2 & K2 & Ls2 & ->).
    pose proof (IH c2 _ r2 I2 (holds_ref_keeps _ _ _ _ K2 HR2)) as F2.
    destruct (fin_bound f c2 (bref_of (c_uf c) r2)) as [[c3 tb]| | |]; cbn [obind]; try exact I.
    destruct F2 as (I3 & K3 & Ls3 & ->).
    assert (K03 : keeps_part c c3).
    { unfold keeps_part in *. eapply same_part_trans; [exact P|]. eapply same_part_trans; [exact K2|exact K3]. }
    assert (HR3 : holds_ref c3 r b) by (apply (holds_ref_keeps c); assumption).
    assert (Ls : length (c_slab c3) = length (c_slab c)) by (rewrite Ls3, Ls2; reflexivity).
    destruct (slab_get c3 b) as [|t3|y1 y2|y1 y2] eqn:Eb3; unfold reassign_non_complete; rewrite ?Eb3; cbn [obind].
    + destruct (reassign_val be c3 r b _ I3 HR3 ltac:(intros t0; rewrite Eb3; discriminate) Ev) as (I' & K' & L').
      split; [exact I'|]. split; [unfold keeps_part in *; eapply same_part_trans; eassumption|]. split; [lia|]. symmetry. exact Ev.
    + split; [exact I3|]. split; [exact K03|]. split; [exact Ls|]. symmetry. exact Ev.
    + destruct (reassign_val be c3 r b _ I3 HR3 ltac:(intros t0; rewrite Eb3; discriminate) Ev) as (I' & K' & L').
      split; [exact I'|]. split; [unfold keeps_part in *; eapply same_part_trans; eassumption|]. split; [lia|]. symmetry. exact Ev.
    + destruct (reassign_val be c3 r b _ I3 HR3 ltac:(intros t0; rewrite Eb3; discriminate) Ev) as (I' & K' & L').
      split; [exact I'|]. split; [unfold keeps_part in *; eapply same_part_trans; eassumption|]. split; [lia|]. symmetry. exact Ev.
  - destruct (be_pair be c r b false x1 x2 I0 HR Eb) as (L1 & L2 & Ev).
    destruct (kids_pair c b false x1 x2 CW Eb L1 L2) as (u' & Ek & P). rewrite Ek. cbn [obind].
    set (r1 := rep (c_uf c) x1) in *. set (r2 := rep (c_uf c) x2) in *.
    destruct (rep_root _ x1 W L1) as [Rr1 Lr1]. destruct (rep_root _ x2 W L2) as [Rr2 Lr2]. fold r1 in Rr1, Lr1. fold r2 in Rr2, Lr2.
    pose proof (Inv_same_part be c u' I0 P) as I1.
    assert (HR1 : holds_ref (put_uf c u') r1 (bref_of (c_uf c) r1)) by (apply holds_ref_same_part; [exact P|repeat split; auto]).
    assert (HR2 : holds_ref (put_uf c u') r2 (bref_of (c_uf c) r2)) by (apply holds_ref_same_part; [exact P|repeat split; auto]).
    pose proof (IH (put_uf c u') _ r1 I1 HR1) as F1.
    destruct (fin_bound f (put_uf c u') (bref_of (c_uf c) r1)) as [[c2 ta]| | |]; cbn [obind]; try exact I.
    destruct F1 as (I2 & K2 & Ls2 & ->).
    pose proof (IH c2 _ r2 I2 (holds_ref_keeps _ _ _ _ K2 HR2)) as F2.
    destruct (fin_bound f c2 (bref_of (c_uf c) r2)) as [[c3 tb]| | |]; cbn [obind]; try exact I.
    destruct F2 as (I3 & K3 & Ls3 & ->).
    assert (K03 : keeps_part c c3).
    { unfold keeps_part in *. eapply same_part_trans; [exact P|]. eapply same_part_trans; [exact K2|exact K3]. }
    assert (HR3 : holds_ref c3 r b) by (apply (holds_ref_keeps c); assumption).
    assert (Ls : length (c_slab c3) = length (c_slab c)) by (rewrite Ls3, Ls2; reflexivity).
    destruct (slab_get c3 b) as [|t3|y1 y2|y1 y2] eqn:Eb3; unfold reassign_non_complete; rewrite ?Eb3; cbn [obind].
    + destruct (reassign_val be c3 r b _ I3 HR3 ltac:(intros t0; rewrite Eb3; discriminate) Ev) as (I' & K' & L').
      split; [exact I'|]. split; [unfold keeps_part in *; eapply same_part_trans; eassumption|]. split; [lia|]. symmetry. exact Ev.
    + split; [exact I3|]. split; [exact K03|]. split; [exact Ls|]. symmetry. exact Ev.
    + destruct (reassign_val be c3 r b _ I3 HR3 ltac:(intros t0; rewrite Eb3; discriminate) Ev) as (I' & K' & L').
      split; [exact I'|]. split; [unfold keeps_part in *; eapply same_part_trans; eassumption|]. split; [lia|]. symmetry. exact Ev.
    + destruct (reassign_val be c3 r b _ I3 HR3 ltac:(intros t0; rewrite Eb3; discriminate) Ev) as (I' & K' & L').
      split; [exact I'|]. split; [unfold keeps_part in *; eapply same_part_trans; eassumption|]. split; [lia|]. symmetry. exact Ev.
Qed.

(* ------------------------------------------------------------------ the occurs check never fires under Inv *)
Definition held (be : nat -> ty) (c : ctx) (b n : nat) : Prop := exists r, holds_ref c r b /\ ty_size (be r) = n.

Definition oid (o : ocs) : nat := match o with OIter b | ODone b => b end.

Inductive sok (be : nat -> ty) (c : ctx) : list ocs -> Prop :=
| sok_nil : sok be c []
| sok_cons it rest n : held be c (oid it) n ->
    (forall d m, In (ODone d) rest -> held be c d m -> (n < m)%nat) -> sok be c rest -> sok be c (it :: rest).

Lemma held_unique be c b n m : cwf c -> held be c b n -> held be c b m -> n = m.
Proof.
  intros (_ & _ & Un & _) (r & (L & R & B) & E) (r' & (L' & R' & B') & E').
  assert (r = r') by (apply Un; auto; congruence). subst r'. congruence.
Qed.

Lemma held_same_part be c u' b n : same_part (c_uf c) u' -> (held be (put_uf c u') b n <-> held be c b n).
Proof.
  intros P. pose proof P as (_ & Le & _ & _ & I). split.
  - intros (r & (L & R & B) & E). cbn [put_uf c_uf] in *. exists r. split; [|exact E].
    pose proof (I r R) as R0. split; [lia|]. split; [exact R0|]. rewrite <- (same_part_bref _ _ r P R0). exact B.
  - intros (r & HR & E). exists r. split; [apply holds_ref_same_part; assumption|exact E].
Qed.

Lemma sok_same_part be c u' st : same_part (c_uf c) u' -> sok be c st -> sok be (put_uf c u') st.
Proof.
  intros P. induction 1 as [|it rest n H1 H2 H3 IH]; [constructor|].
  apply (sok_cons _ _ it rest n); [apply held_same_part; assumption| |exact IH].
  intros d m Hin Hd. apply (H2 d m Hin). apply (held_same_part be c u' d m P). exact Hd.
Qed.

Lemma mem_remove x id l : mem x (remove_nat id l) = true -> x <> id /\ mem x l = true.
Proof.
  unfold mem, remove_nat. intros H. apply existsb_exists in H. destruct H as (y & Hin & E). apply Nat.eqb_eq in E. subst y.
  apply filter_In in Hin. destruct Hin as [Hin Hn]. apply negb_true_iff in Hn. apply Nat.eqb_neq in Hn.
  split; [congruence|]. apply existsb_exists. exists x. split; [exact Hin|apply Nat.eqb_refl].
Qed.

Lemma mem_cons x y l : mem x (y :: l) = true -> x = y \/ mem x l = true.
Proof. unfold mem. cbn [existsb]. intros H. apply orb_true_iff in H. destruct H as [H|H]; [left; apply Nat.eqb_eq; exact H|right; exact H]. Qed.

Theorem occurs_loop_spec be : forall fuel c stack ip comp, Inv be c -> sok be c stack ->
  (forall x, mem x ip = true -> In (ODone x) stack) ->
  match occurs_loop fuel c stack ip comp with
  | Ok (c', cyc) => cyc = false /\ keeps_part c c' /\ c_slab c' = c_slab c
  | _ => True
  end.
Proof.
  induction fuel as [|f IH]; intros c stack ip comp I0 SK I1; [exact I|].
  pose proof I0 as (CW & _ & _). pose proof CW as (W & _).
  cbn [occurs_loop]. destruct stack as [|[b|id] rest].
  - split; [reflexivity|]. split; [apply same_part_refl; exact W|reflexivity].
  - (* an item to visit *)
    inversion SK as [|it rest' n Hh Hlt SKr]; subst. cbn [oid] in Hh.
    destruct (mem b comp) eqn:Mc.
    + apply IH; auto. intros x Hx. destruct (I1 x Hx) as [E|Hin]; [discriminate|exact Hin].
    + destruct (mem b ip) eqn:Mi.
      * exfalso. destruct (I1 b Mi) as [E|Hin]; [discriminate|]. pose proof (Hlt b n Hin Hh). lia.
      * destruct Hh as (rb & HRb & En).
        destruct (slab_get c b) as [|t|x1 x2|x1 x2] eqn:Eb.
        -- unfold kids. rewrite Eb. cbn [obind]. apply IH; auto.
           ++ apply (sok_cons _ _ (ODone b) rest n); [exists rb; auto|exact Hlt|exact SKr].
           ++ intros x Hx. apply mem_cons in Hx. destruct Hx as [->|Hx]; [left; reflexivity|].
              destruct (I1 x Hx) as [E|Hin]; [discriminate|right; exact Hin].
        -- unfold kids. rewrite Eb. cbn [obind]. apply IH; auto.
           ++ apply (sok_cons _ _ (ODone b) rest n); [exists rb; auto|exact Hlt|exact SKr].
           ++ intros x Hx. apply mem_cons in Hx. destruct Hx as [->|Hx]; [left; reflexivity|].
              destruct (I1 x Hx) as [E|Hin]; [discriminate|right; exact Hin].
        -- destruct (be_pair be c rb b true x1 x2 I0 HRb Eb) as (L1 & L2 & Ev).
           destruct (kids_pair c b true x1 x2 CW Eb L1 L2) as (u' & Ek & P). rewrite Ek. cbn [obind].
           set (r1 := rep (c_uf c) x1) in *. set (r2 := rep (c_uf c) x2) in *.
           destruct (rep_root _ x1 W L1) as [Rr1 Lr1]. destruct (rep_root _ x2 W L2) as [Rr2 Lr2]. fold r1 in Rr1, Lr1. fold r2 in Rr2, Lr2.
           assert (S1 : (ty_size (be r1) < n)%nat /\ (ty_size (be r2) < n)%nat).
           { rewrite <- En, Ev. cbn [ty_size]. pose proof (ty_size_pos (be r1)). pose proof (ty_size_pos (be r2)). lia. }
           pose proof (IH (put_uf c u') (OIter (bref_of (c_uf c) r1) :: OIter (bref_of (c_uf c) r2) :: ODone b :: rest) (b :: ip) comp
                         (Inv_same_part be c u' I0 P)) as R.
           assert (Hb' : held be (put_uf c u') b n) by (apply held_same_part; [exact P|exists rb; auto]).
           assert (Hlt' : forall d m, In (ODone d) rest -> held be (put_uf c u') d m -> (n < m)%nat).
           { intros d m Hin Hd. apply (Hlt d m Hin). apply (held_same_part be c u' d m P). exact Hd. }
           assert (Below : forall k, (k < n)%nat -> forall d m, In (ODone d) (ODone b :: rest) -> held be (put_uf c u') d m -> (k < m)%nat).
           { intros k Hk d m [E|Hin] Hd.
             - injection E as <-. rewrite (held_unique be _ _ _ _ (cwf_same_part c u' CW P) Hd Hb'). exact Hk.
             - pose proof (Hlt' d m Hin Hd). lia. }
           specialize (R ltac:(
             apply (sok_cons _ _ _ _ (ty_size (be r1)));
               [apply held_same_part; [exact P|exists r1; repeat split; auto]
               |intros d m [E|Hin] Hd; [discriminate|apply (Below _ (proj1 S1) d m Hin Hd)]
               |apply (sok_cons _ _ _ _ (ty_size (be r2)));
                  [apply held_same_part; [exact P|exists r2; repeat split; auto]
                  |intros d m Hin Hd; apply (Below _ (proj2 S1) d m Hin Hd)
                  |apply (sok_cons _ _ (ODone b) rest n); [exact Hb'|exact Hlt'|apply sok_same_part; assumption]]])).
           specialize (R ltac:(intros x Hx; apply mem_cons in Hx; destruct Hx as [->|Hx]; [right; right; left; reflexivity|];
                               destruct (I1 x Hx) as [E|Hin]; [discriminate|right; right; right; exact Hin])).
           destruct (occurs_loop f (put_uf c u') _ (b :: ip) comp) as [[c' cyc]| | |]; try exact I.
           destruct R as (Ec & K & Es). split; [exact Ec|]. split; [unfold keeps_part in *; eapply same_part_trans; [exact P|exact K]|exact Es].
        -- destruct (be_pair be c rb b false x1 x2 I0 HRb Eb) as (L1 & L2 & Ev).
           destruct (kids_pair c b false x1 x2 CW Eb L1 L2) as (u' & Ek & P). rewrite Ek. cbn [obind].
           set (r1 := rep (c_uf c) x1) in *. set (r2 := rep (c_uf c) x2) in *.
           destruct (rep_root _ x1 W L1) as [Rr1 Lr1]. destruct (rep_root _ x2 W L2) as [Rr2 Lr2]. fold r1 in Rr1, Lr1. fold r2 in Rr2, Lr2.
           assert (S1 : (ty_size (be r1) < n)%nat /\ (ty_size (be r2) < n)%nat).
           { rewrite <- En, Ev. cbn [ty_size]. pose proof (ty_size_pos (be r1)). pose proof (ty_size_pos (be r2)). lia. }
           pose proof (IH (put_uf c u') (OIter (bref_of (c_uf c) r1) :: OIter (bref_of (c_uf c) r2) :: ODone b :: rest) (b :: ip) comp
                         (Inv_same_part be c u' I0 P)) as R.
           assert (Hb' : held be (put_uf c u') b n) by (apply held_same_part; [exact P|exists rb; auto]).
           assert (Hlt' : forall d m, In (ODone d) rest -> held be (put_uf c u') d m -> (n < m)%nat).
           { intros d m Hin Hd. apply (Hlt d m Hin). apply (held_same_part be c u' d m P). exact Hd. }
           assert (Below : forall k, (k < n)%nat -> forall d m, In (ODone d) (ODone b :: rest) -> held be (put_uf c u') d m -> (k < m)%nat).
           { intros k Hk d m [E|Hin] Hd.
             - injection E as <-. rewrite (held_unique be _ _ _ _ (cwf_same_part c u' CW P) Hd Hb'). exact Hk.
             - pose proof (Hlt' d m Hin Hd). lia. }
           specialize (R ltac:(
             apply (sok_cons _ _ _ _ (ty_size (be r1)));
               [apply held_same_part; [exact P|exists r1; repeat split; auto]
               |intros d m [E|Hin] Hd; [discriminate|apply (Below _ (proj1 S1) d m Hin Hd)]
               |apply (sok_cons _ _ _ _ (ty_size (be r2)));
                  [apply held_same_part; [exact P|exists r2; repeat split; auto]
                  |intros d m Hin Hd; apply (Below _ (proj2 S1) d m Hin Hd)
                  |apply (sok_cons _ _ (ODone b) rest n); [exact Hb'|exact Hlt'|apply sok_same_part; assumption]]])).
           specialize (R ltac:(intros x Hx; apply mem_cons in Hx; destruct Hx as [->|Hx]; [right; right; left; reflexivity|];
                               destruct (I1 x Hx) as [E|Hin]; [discriminate|right; right; right; exact Hin])).
           destruct (occurs_loop f (put_uf c u') _ (b :: ip) comp) as [[c' cyc]| | |]; try exact I.
           destruct R as (Ec & K & Es). split; [exact Ec|]. split; [unfold keeps_part in *; eapply same_part_trans; [exact P|exact K]|exact Es].
  - (* a Done marker *)
    inversion SK as [|it rest' n Hh Hlt SKr]; subst.
    apply IH; auto. intros x Hx. apply mem_remove in Hx. destruct Hx as [Nx Hx].
    destruct (I1 x Hx) as [E|Hin]; [injection E as <-; contradiction|exact Hin].
Qed.

Lemma Inv_same_slab be c c' : Inv be c -> keeps_part c c' -> c_slab c' = c_slab c -> Inv be c'.
Proof.
  intros I0 K Es. pose proof (Inv_same_part be c (c_uf c') I0 K) as I1.
  destruct c' as [s' u']. cbn [c_slab c_uf] in *. subst s'. exact I1.
Qed.

(* ---- Type::finalize *)
Theorem finalize_spec be c e : Inv be c -> (e < length (c_uf c))%nat ->
  match finalize c e with
  | Ok (c', Some t) => Inv be c' /\ keeps_part c c' /\ t = be e
  | Ok (_, None) => False
  | _ => True
  end.
Proof.
  intros I0 He. pose proof I0 as (CW & [H1 H2] & Fo). pose proof CW as (W & _).
  unfold finalize. destruct (c_root_spec c e CW He) as (ua & Ea & Pa). rewrite Ea. cbn [obind].
  pose proof (Inv_same_part be c ua I0 Pa) as Ia.
  set (r := rep (c_uf c) e) in *. destruct (rep_root _ e W He) as [Rr Lr]. fold r in Rr, Lr.
  assert (HR : holds_ref (put_uf c ua) r (bref_of (c_uf c) r)) by (apply holds_ref_same_part; [exact Pa|repeat split; auto]).
  assert (Eer : be e = be r) by (apply H1; exact He).
  change (slab_get (put_uf c ua) (bref_of (c_uf c) r)) with (slab_get c (bref_of (c_uf c) r)).
  assert (Go : match ('(c2, cyc) <- occurs_check (put_uf c ua) (bref_of (c_uf c) r) ;;
                      if cyc then Ok (c2, None) else
                      '(c3, t) <- fin_bound (S (length (c_slab c2))) c2 (bref_of (c_uf c) r) ;; Ok (c3, Some t)) with
               | Ok (c', Some t) => Inv be c' /\ keeps_part c c' /\ t = be e
               | Ok (_, None) => False
               | _ => True
               end).
  { pose proof (occurs_loop_spec be (occurs_fuel (put_uf c ua)) (put_uf c ua) [OIter (bref_of (c_uf c) r)] [] [] Ia) as O.
    specialize (O ltac:(apply (sok_cons _ _ _ _ (ty_size (be r))); [exists r; auto|intros d m []|constructor]) ltac:(intros x Hx; discriminate)).
    unfold occurs_check. destruct (occurs_loop _ _ _ _ _) as [[c2 cyc]| | |]; cbn [obind]; try exact I.
    destruct O as (-> & K2 & Es2).
    pose proof (Inv_same_slab be _ c2 Ia K2 Es2) as I2.
    pose proof (fin_bound_spec be (S (length (c_slab c2))) c2 _ r I2 (holds_ref_keeps _ _ _ _ K2 HR)) as F.
    destruct (fin_bound _ c2 _) as [[c3 t]| | |]; cbn [obind]; try exact I.
    destruct F as (I3 & K3 & _ & ->). split; [exact I3|]. split; [|symmetry; exact Eer].
    unfold keeps_part in *. eapply same_part_trans; [exact Pa|]. eapply same_part_trans; [exact K2|exact K3]. }
  destruct (slab_get c (bref_of (c_uf c) r)) as [|t|x1 x2|x1 x2] eqn:Eb; try exact Go.
  split; [exact Ia|]. split; [exact Pa|]. specialize (H2 r Lr Rr). rewrite Eb in H2. cbn [holds_r] in H2. rewrite Eer. symmetry. exact H2.
Qed.
