(* C08 - Pruning preserves commitment and behaviour and satisfies anti-DoS.
   Only pinned statements, `Theorem .. exact lemma` and `Print Assumptions` (plus the one statement that
   remains a definition).  Models: Redeem/Finalize.v (redemption programs as node tables),
   Redeem/PruneProg.v (one pruning pass), Redeem/PruneFix.v (the rounds of RedeemNode::prune),
   Redeem/Retype.v (typings, evaluation commutes with Value::prune), Redeem/RetypeEx.v, Redeem/Routes.v. *)
From RS Require Import Lib.Tac Lib.Outcome Lib.Bits Ty.Ty Core.Prog
  Redeem.Finalize Redeem.PruneProg Redeem.PruneFix Redeem.Retype Redeem.RetypeEx Redeem.Routes.
Import ListNotations.
Local Open Scope N_scope.

(* ------------------------------------------------------------------ one pruning pass *)

(* 1. pruning keeps the commitment root of the program (and of every node), for any hash functions *)
Theorem C08_prune_cmr : forall (HS : hashes) (ident : nat -> nat) (p : rprog) (T : list event),
  rwf p = true -> root_cmr HS (prune_struct HS ident p T) = root_cmr HS p.
Proof. exact prune_cmr. Qed.
Print Assumptions C08_prune_cmr.

Theorem C08_prune_cmrs : forall (HS : hashes) (ident : nat -> nat) (p : rprog) (T : list event),
  rwf p = true -> cmrs HS (prune_struct HS ident p T) = cmrs HS p.
Proof. exact prune_cmrs. Qed.
Print Assumptions C08_prune_cmrs.

(* 2. a program that runs successfully still runs after pruning for that run, with the same output
   and the same events (the environment enters through the jets, which are arbitrary) *)
Theorem C08_prune_eval : forall (HS : hashes) (jet_sem : N -> N -> sval -> option sval)
    (hash_val : list N -> sval) (ident : nat -> nat) (p : rprog) (o : sval) (E : list event),
  rwf p = true ->
  run HS jet_sem hash_val p = Ok (o, E) ->
  run HS jet_sem hash_val (prune_struct HS ident p E) = Ok (o, E).
Proof. exact prune_eval. Qed.
Print Assumptions C08_prune_eval.

(* the same for every node and every input, pruning with any tracker content that covers the run *)
Theorem C08_prune_eval_gen : forall (HS : hashes) (jet_sem : N -> N -> sval -> option sval)
    (hash_val : list N -> sval) (ident : nat -> nat) (p : rprog) (T : list event),
  rwf p = true ->
  forall (fuel i : nat) (v o : sval) (E : list event),
  eval jet_sem hash_val fuel p (cmrs HS p) i v = Ok (o, E) -> incl E T ->
  eval jet_sem hash_val fuel (prune_struct HS ident p T) (cmrs HS p) i v = Ok (o, E).
Proof. exact prune_eval_gen. Qed.
Print Assumptions C08_prune_eval_gen.

(* 3. the anti-DoS rule after one pass: every node reachable from the root was executed and every
   remaining case node took both sides - provided no two distinct nodes share an identity class
   (maximal sharing, as in every decoded program) *)
Theorem C08_prune_all_executed : forall (HS : hashes) (jet_sem : N -> N -> sval -> option sval)
    (hash_val : list N -> sval) (ident : nat -> nat) (p : rprog),
  ident_inj ident p ->
  forall (fuel root : nat) (v o : sval) (E : list event),
  eval jet_sem hash_val fuel p (cmrs HS p) root v = Ok (o, E) ->
  forall j : nat, reach (prune_struct HS ident p E) root j ->
    executed E j /\
    (forall l r : nat, nth_error (prune_struct HS ident p E) j = Some (RCase l r) ->
       In (j, Some false) E /\ In (j, Some true) E).
Proof. exact prune_all_executed. Qed.
Print Assumptions C08_prune_all_executed.

(* without that proviso one pass is not enough: two distinct case nodes with the same IHR that ran on
   opposite sides both stay complete (finding twin-case, fixed by commit 5d14513) *)
Theorem C08_all_executed_twins_refuted :
  exists p ident o E, sym_run p = Ok (o, E) /\
    reach (sym_prune ident p E) (length p - 1) 1 /\ ~ executed E 1 /\
    nth_error (sym_prune ident p E) 2 = Some (RCase 0 1) /\ ~ In (2%nat, Some true) E.
Proof. exact prune_all_executed_twins_refuted. Qed.
Print Assumptions C08_all_executed_twins_refuted.

(* ... and a further pass, once re-typing has told the twins apart, changes the program again *)
Theorem C08_one_pass_refuted_twins :
  exists p ident o E, sym_run p = Ok (o, E) /\
    sym_prune (fun i => i) (sym_prune ident p E) E <> sym_prune ident p E /\
    let q := prune_rounds sym_hashes [ident; fun i => i] p E in
    sym_prune (fun i => i) q E = q /\
    nth_error q 2 = Some (RAssertL 0 []) /\ nth_error q 5 = Some (RAssertR [] 4).
Proof. exact prune_one_pass_refuted_twins. Qed.
Print Assumptions C08_one_pass_refuted_twins.

(* one pass of the old code also left types that are not the least typing of the pruned structure
   (finding shared-retype): both typings below are valid, the witness stream differs (9 bits / 1 bit) *)
Theorem C08_one_pass_types_not_principal :
  exists p ident o E q,
    sym_run p = Ok (o, E) /\ q = sym_prune ident p E /\
    nth_error q 12 = Some (RAssertL 10 []) /\
    typed_on q shared_arrows_old retained = true /\
    typed_on (shrink shared_arrows_new q) shared_arrows_new retained = true /\
    shared_arrows_new 3%nat = Some (One, One) /\ shared_arrows_old 3%nat = Some (word_ty 3, word_ty 3) /\
    nth_error q 1 = Some (RWitness (CV (word_ty 3) w1_val)) /\
    nth_error (shrink shared_arrows_new q) 1 = Some (RWitness (CV One SU)).
Proof. exact one_pass_types_not_principal. Qed.
Print Assumptions C08_one_pass_types_not_principal.

(* 4. pruning again with the same tracker content changes nothing *)
Theorem C08_prune_idem : forall (HS : hashes) (ident : nat -> nat) (p : rprog) (T : list event),
  prune_struct HS ident (prune_struct HS ident p T) T = prune_struct HS ident p T.
Proof. exact prune_idem. Qed.
Print Assumptions C08_prune_idem.

Theorem C08_prune_again : forall (HS : hashes) (jet_sem : N -> N -> sval -> option sval)
    (hash_val : list N -> sval) (ident : nat -> nat) (p : rprog) (o : sval) (E : list event),
  rwf p = true ->
  run HS jet_sem hash_val p = Ok (o, E) ->
  exists E' : list event,
    run HS jet_sem hash_val (prune_struct HS ident p E) = Ok (o, E') /\
    prune_struct HS ident (prune_struct HS ident p E) E' = prune_struct HS ident p E.
Proof. exact prune_again. Qed.
Print Assumptions C08_prune_again.

(* ------------------------------------------------------------------ the rounds of RedeemNode::prune *)

(* 5. any number of rounds, with any identity classes per round, keeps the root and the behaviour *)
Theorem C08_prune_rounds_cmr : forall (HS : hashes) (ids : list (nat -> nat)) (p : rprog) (E : list event),
  rwf p = true -> root_cmr HS (prune_rounds HS ids p E) = root_cmr HS p.
Proof. exact prune_rounds_cmr. Qed.
Print Assumptions C08_prune_rounds_cmr.

Theorem C08_prune_rounds_eval : forall (HS : hashes) (jet_sem : N -> N -> sval -> option sval)
    (hash_val : list N -> sval) (ids : list (nat -> nat)) (p : rprog) (o : sval) (E : list event),
  rwf p = true ->
  run HS jet_sem hash_val p = Ok (o, E) ->
  run HS jet_sem hash_val (prune_rounds HS ids p E) = Ok (o, E).
Proof. exact prune_rounds_eval. Qed.
Print Assumptions C08_prune_rounds_eval.

(* 6. at most as many rounds change the program as it has case nodes; with unchanged classes a second
   round changes nothing (the loop only matters because re-typing changes the classes) *)
Theorem C08_prune_rounds_bound : forall (HS : hashes) (ids : list (nat -> nat)) (p : rprog) (E : list event),
  (changes HS ids p E + count_case (prune_rounds HS ids p E) <= count_case p)%nat.
Proof. exact prune_rounds_bound. Qed.
Print Assumptions C08_prune_rounds_bound.

Theorem C08_prune_rounds_some_stable : forall (HS : hashes) (ids : list (nat -> nat)) (p : rprog) (E : list event),
  (count_case p < length ids)%nat -> (changes HS ids p E < length ids)%nat.
Proof. exact prune_rounds_some_stable. Qed.
Print Assumptions C08_prune_rounds_some_stable.

Theorem C08_prune_rounds_same_ident : forall (HS : hashes) (id : nat -> nat) (n : nat) (p : rprog) (E : list event),
  prune_rounds HS (repeat id (S n)) p E = prune_struct HS id p E.
Proof. exact prune_rounds_same_ident. Qed.
Print Assumptions C08_prune_rounds_same_ident.

(* 7. the anti-DoS rule at the fixed point, under any sharing: if one more round leaves the program
   unchanged, every identity class reachable from the root was executed and every remaining case class
   took both sides - what libsimplicity checks on the maximally shared serialisation *)
Theorem C08_fixpoint_all_executed : forall (HS : hashes) (jet_sem : N -> N -> sval -> option sval)
    (hash_val : list N -> sval) (ident : nat -> nat) (p : rprog),
  ident_congr ident p ->
  forall (fuel root : nat) (v o : sval) (E : list event),
  eval jet_sem hash_val fuel p (cmrs HS p) root v = Ok (o, E) ->
  prune_struct HS ident p E = p ->
  forall j : nat, reach p root j ->
    class_executed ident E j /\
    (forall l r : nat, nth_error p j = Some (RCase l r) ->
       taken ident E j false = true /\ taken ident E j true = true).
Proof. exact fixpoint_all_executed. Qed.
Print Assumptions C08_fixpoint_all_executed.

(* ------------------------------------------------------------------ re-typing *)

(* 8. witnesses of the pruned program: shrinking typed witnesses to smaller re-inferred types never
   hits the `expect` of the pruner and gives typed witnesses *)
Theorem C08_prune_witnesses_typed : forall (tp : typed_prog) (retarget : nat -> option ty) (p : rprog),
  all_wit_ok tp p ->
  (forall (i : nat) (t t' : ty), target_of tp i = Some t -> retarget i = Some t' -> ty_le t' t = true) ->
  exists p' : rprog,
    prune_witnesses retarget p = Ok p' /\ length p' = length p /\
    (forall (i : nat) (c' : cval), nth_error p' i = Some (RWitness c') ->
       match retarget i with
       | Some t' => wit_ok c' t' = true
       | None => nth_error p i = Some (RWitness c')
       end).
Proof. exact prune_witnesses_typed. Qed.
Print Assumptions C08_prune_witnesses_typed.

(* 9. the original arrows still type the pruned structure; runs preserve types *)
Theorem C08_prune_typed : forall (HS : hashes) (jet_ty : N -> N -> option arrow) (ident : nat -> nat)
    (p : rprog) (T : list event) (ar : arrows) (root : nat),
  typed_from jet_ty p ar root -> typed_from jet_ty (prune_struct HS ident p T) ar root.
Proof. exact prune_typed. Qed.
Print Assumptions C08_prune_typed.

Theorem C08_eval_typed : forall (jet_sem : N -> N -> sval -> option sval) (hash_val : list N -> sval)
    (jet_ty : N -> N -> option arrow),
  (forall (f j : N) (s t : ty) (v o : sval), jet_ty f j = Some (s, t) ->
     has_ty v s = true -> jet_sem f j v = Some o -> has_ty o t = true) ->
  (forall h : list N, has_ty (hash_val h) (word_ty 8) = true) ->
  forall (p : rprog) (ar : arrows) (root : nat) (C : list (list N)),
  typed_from jet_ty p ar root ->
  forall (fuel i : nat) (v o : sval) (E : list event) (s t : ty),
  reach p root i -> ar i = Some (s, t) -> has_ty v s = true ->
  eval jet_sem hash_val fuel p C i v = Ok (o, E) -> has_ty o t = true.
Proof. exact eval_typed. Qed.
Print Assumptions C08_eval_typed.

(* 10. evaluation commutes with Value::prune: the same structure typed with the original arrows [ar] and,
   with its witnesses shrunk, with other arrows [ar'] (the re-inferred ones): the shrunk program maps
   the shrunk input to the shrunk output, with the same events *)
Theorem C08_retype_commutes : forall (jet_sem : N -> N -> sval -> option sval) (hash_val : list N -> sval)
    (jet_ty : N -> N -> option arrow),
  (forall (f j : N) (s t : ty) (v o : sval), jet_ty f j = Some (s, t) ->
     has_ty v s = true -> jet_sem f j v = Some o -> has_ty o t = true) ->
  (forall h : list N, has_ty (hash_val h) (word_ty 8) = true) ->
  forall (p : rprog) (ar ar' : arrows) (root : nat) (C : list (list N)),
  typed_from jet_ty p ar root -> typed_from jet_ty (shrink ar' p) ar' root ->
  forall (fuel i : nat) (v o : sval) (E : list event) (s t s' t' : ty) (v' : sval),
  reach p root i -> ar i = Some (s, t) -> ar' i = Some (s', t') ->
  has_ty v s = true -> sprune v s' = Some v' ->
  eval jet_sem hash_val fuel p C i v = Ok (o, E) ->
  exists o' : sval,
    eval jet_sem hash_val fuel (shrink ar' p) C i v' = Ok (o', E) /\ sprune o t' = Some o'.
Proof. exact retype_commutes. Qed.
Print Assumptions C08_retype_commutes.

(* hence a unit-to-unit program still runs, with the same events, after re-typing *)
Theorem C08_retype_run : forall (HS : hashes) (jet_sem : N -> N -> sval -> option sval)
    (hash_val : list N -> sval) (jet_ty : N -> N -> option arrow),
  (forall (f j : N) (s t : ty) (v o : sval), jet_ty f j = Some (s, t) ->
     has_ty v s = true -> jet_sem f j v = Some o -> has_ty o t = true) ->
  (forall h : list N, has_ty (hash_val h) (word_ty 8) = true) ->
  forall (q : rprog) (ar ar' : arrows) (o : sval) (E : list event),
  let root := (length q - 1)%nat in
  typed_from jet_ty q ar root -> typed_from jet_ty (shrink ar' q) ar' root ->
  ar root = Some (One, One) -> ar' root = Some (One, One) ->
  run HS jet_sem hash_val q = Ok (o, E) ->
  run HS jet_sem hash_val (shrink ar' q) = Ok (SU, E).
Proof. exact retype_run_prog. Qed.
Print Assumptions C08_retype_run.

(* 11. NOT proved (principality of inference, C04): the arrows Rust re-infers type the shrunk program and
   lie below the original ones.  Compared on the implementation on every generated case. *)
Definition C08_retype_le_statement : Prop := retype_le_statement.
