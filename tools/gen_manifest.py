#!/usr/bin/env python3
"""Writes /verif/MANIFEST.json from the table below (kept in one place so the manifest stays valid)."""
import json
import os

VERIF = os.path.dirname(os.path.dirname(os.path.abspath(__file__)))

CHECKS = {
    "C13": dict(engine="bits", category="proof", design_ref="DESIGN.md §5 C13",
                text="Coq theorems over hand-written models of read_natural/encode_natural, the cached-byte reader, the writer, "
                     "close and byte_slice_window (round trip, uniqueness/prefix-freeness, rejection, refinement of a bit queue, "
                     "for all inputs); models tied to the code by a correspondence check (vm_compute vs Rust harness) on "
                     "exhaustive-small and random cases; the property itself is also tested directly on the implementation.",
                note="Trusted: Coq kernel + vm_compute, hand-written models, harness, python generators. Window overrun is known finding F-C13.",
                technique="Coq proof (induction, finite byte sweeps) + model/implementation correspondence"),
    "C19": dict(engine="budget", category="proof", design_ref="DESIGN.md §5 C19",
                text="Coq theorems (lia) for every cost <= CONSENSUS_MAX and every stack: validity iff weight <= size+50, padding None iff "
                     "valid, sufficiency, minimality off the count boundary, rounding and monotonicity; constants and match arms are "
                     "regenerated from analysis.rs on every run, so an edited constant breaks a proof; correspondence on a boundary lattice.",
                note="Trusted: Coq kernel, translator xlate_consts.py, hand-written compact-size function (elements crate), harness.",
                technique="Coq proof (lia) over constants translated from the source + correspondence"),
}

CHECKS["C14"] = dict(engine="jets", category="proof", design_ref="DESIGN.md §5 C14",
    text="All jet tables (368 Core, 471 Elements, 428 Bitcoin), the C tables of libsimplicity and all 593 extern items are "
         "regenerated into Coq from the Rust and C sources on every run (translator); round trip, decode completeness, "
         "prefix-freeness, name parsing, Rust = C (cmr, types, cost, C decoder), Core inside Elements, FFI arity/parameter "
         "types are theorems proved by vm_compute over the complete finite tables (lifted with forallb_forall); the "
         "translator is validated against the compiled library jet by jet; every Core/Elements jet is executed once (a test).",
    note="Trusted: Coq kernel + vm_compute, translator tools/xlate_jets*.py (fails closed), harness. Bitcoin family: codes, "
         "names, type names only. Return-type/static width mismatches of three FFI items are tolerated by name and reported.",
    technique="Coq proof by computation over tables translated from the Rust and C sources")

CHECKS["C10"] = dict(engine="value", category="proof", design_ref="DESIGN.md §5 C10",
    text="Byte-faithful Coq model of value.rs (buffer, bit offset, type; accessors, RawByteIter, compact iterator, right_shift_1, "
         "copy_bits, product, constructors, both decoders, prune with explicit stacks) refines the typed-value specification of "
         "Ty/Ty.v: well-formedness preserved by every operation, padded/compact encodings, exact consumption, constructor/accessor "
         "inverses in both directions, prune = sprune for every target without panic, prune twice = once. Tied to the code by a "
         "pool-machine correspondence (raw buffer bytes and offsets compared) and a direct property test with a python reference.",
    note="Trusted: Coq kernel + vm_compute byte sweeps, hand-written model, harness (Debug parse of raw_value/raw_bit_offset), "
         "TMR equality modelled as structural type equality; theorems below usize saturation of widths.",
    technique="Coq refinement proof (invariant + abstraction function) + model/implementation correspondence")
CHECKS["C11"] = dict(engine="value", category="proof", design_ref="DESIGN.md §5 C11",
    text="For well-formed values of the byte model: == is true iff same type and same abstract value, equal values have equal hash "
         "streams (and conversely), cmp is a total order whose Equal case coincides with ==; the pre-fix raw-byte comparison is "
         "refuted in Coq (documenting the repair in /repo). Correspondence on all ordered pairs of pool values from every "
         "production history (constructors, decoders with dirty padding, sub-values at every offset, prune, machine output).",
    note="Trusted: as C10; the type order is a parameter (total order hypothesis, shown satisfiable); DefaultHasher digest "
         "equality stands for hash-stream equality.",
    technique="Coq proof over the byte model + correspondence on all pairs")
CHECKS["C16"] = dict(engine="policy", category="proof", design_ref="DESIGN.md §5 C16",
    text="Coq model of policy/ast.rs, serialize.rs (generic over the constructor algebra: node trees, CMR-only, Hiding),"
         " satisfy.rs and sort: root homomorphism (Policy::cmr = compiled root = root of every satisfied/pruned program,"
         " for any tagged hash), satisfy succeeds iff the policy holds for a truthful satisfier (under the stated cost p"
         "remise, shown necessary), sort idempotent, canonical and invariant under reordering at any depth; old sort ref"
         "uted. The returned programs are translated into Core terms, proved well typed at 1->1 with eval = unit, and by"
         " C05's theorem run successfully on the Bit Machine model within the static bounds (policy jets eq/add/verify p"
         "roved equal to JetSpec). Correspondence with real keys/signatures.",
    note="Trusted: Coq kernel, hand-written model, jets as an oracle (truthful hypothesis), harness with secp256k1 keys; type "
         "inference inside the constructors and IHR identity are idealised.",
    technique="Coq proof (algebra homomorphism, induction on policies) + correspondence")

CHECKS["C01"] = dict(engine="codec", category="proof", design_ref="DESIGN.md §5 C01/C02, §11.3",
    text="Coq model of encode_node/decode_node/encode_program/decode_expression over Bits/Natural.v and the real jet cod"
         "e tables (C14). Proved for all sizes: syntax round trip, prefix-freeness, the encoder's traversal is C18's pos"
         "t-order specification, encoder output of any well-formed program whose ids respect sharing is accepted by the "
         "decoder model and decodes to the same node list up to the sharing quotient (also with hidden nodes), witness s"
         "tream round trip; and, using C04's principal-type theorem and the Merkle definitions, re-inference on the deco"
         "ded quotient gives the same arrows and hence the same IHR/AMR at every node for any hash (end-to-end fixed-poi"
         "nt theorem). The open finding F-C01 is characterised exactly: for the twin witness no type-respecting quotient"
         " exists and the AMRs differ under a free hash. Correspondence includes SHA-256 CMR/IHR/AMR of every node of th"
         "e decoded program computed in Coq (sampled), three-way with libsimplicity for Elements programs; the witness c"
         "lause is independent of the library's own decoder (values built by constructors, read back through accessors).",
    note="Trusted: Coq kernel, hand-written model, python bit assembler as independent reference, harness. Open finding F-C01 "
         "(identity-hash sharing merges IHR-equal nodes that differ below) is excused only under a checked structural predicate.",
    technique="Coq proof of the codec core + correspondence + direct round-trip test on generated programs")
CHECKS["C02"] = dict(engine="codec", category="proof", design_ref="DESIGN.md §5 C01/C02, §11.3",
    text="For the Coq decoder model: whatever it accepts is the encoding of the node list it returns followed by the unr"
         "ead bits (canonicity), it never panics or runs out of fuel, an accepted table is in canonical post-order, re-e"
         "ncoding an accepted program reproduces the bits/bytes for any injective assignment of sharing ids and also whe"
         "n some ids are absent (commitment time), one rejection theorem per canonicity rule with accepting counterparts"
         ". Typing inside decode, stack depth and allocation are not modelled: every input is run through all three deco"
         "ders in debug and release builds in isolated processes with time and memory limits, and the peak heap use of every "
         "decode is measured by a counting allocator against an allowance linear in the input.",
    note="Trusted: as C01. Open finding F-C02b (recursive unifier overflows the native stack for a ~37 KB program) is printed as "
         "KNOWN-FINDING for that generator family only.",
    technique="Coq proof of decoder canonicity/totality + correspondence + mutation-based search on byte strings")

CHECKS["C04"] = dict(engine="infer", category="proof", design_ref="DESIGN.md §5 C04, §11.3",
    text="Coq reference of type inference over node tables (constraint generation exactly as arrow.rs, unification closu"
         "re with occurs check at the end, free variables to unit): sound, complete (finalises iff a finite typing exist"
         "s), total, principal (least typing, proved in full), order independent; unification computes exactly the (poss"
         "ibly infinite-tree) models of the equation set, so success and the error class are functions of the set of equ"
         "ations; bounded display of incomplete types, unbounded display of complete types inside errors refuted (F-C04)"
         " also on the error path. The Rust union-find and slab (path halving, ranks, bind arms, eager completion, occur"
         "s check with in_progress/completed) are modelled as written: union-find layer and bind against complete types "
         "proved sound, full refinement kept as a statement and compared on every case. Streams: type-directed programs,"
         " hubs (one variable at >= 3 leaves grounded first/middle/last), almost-well-typed programs against every asymm"
         "etric jet, and all DAGs up to 4 (quick) / 5 (thorough) nodes over a small alphabet in every construction order"
         ".",
    note="Trusted: Coq kernel, hand-written reference, harness. Open findings F-C02 (recursive unifier), F-C04 (exponential "
         "error text), F-C04b (recursive Drop of Final) are printed as KNOWN-FINDING for their generator families only.",
    technique="Coq proof about a reference inference algorithm + correspondence with the Rust union-find")
CHECKS["C08"] = dict(engine="redeem", category="proof", design_ref="DESIGN.md §5 C08, §11.3",
    text="Coq model of one pruning pass (prune_case/Hide over the tracker's IHR classes) and of RedeemNode::prune as the"
         " loop of passes with its stop test: every pass keeps all commitment roots (any hash), a successful run gives t"
         "he same output and events after pruning (any jets), at a fixed point every reachable IHR class was executed an"
         "d every remaining case class took both sides, pruning again is a no-op, witness shrinking never reaches the ex"
         "pect; re-typing is proved with C04's reference inference (the re-inferred arrows exist, are the least typing o"
         "f the retained structure and lie below the originals; evaluation commutes with Value::prune) and composed with"
         " C05: the Bit Machine model returns the same output on the pruned, re-typed program. One-pass pruning is refut"
         "ed (twins, shared re-typing). The loop is also executed in Coq with SHA-256 IHR classes (sampled) and compared"
         " round by round. libsimplicity with all anti-DoS flags is the oracle of the direct test.",
    note="Trusted: Coq kernel, hand-written model, harness replaying the prune loop for per-round IHR classes, C evaluator as oracle.",
    technique="Coq proof of the structural pruning model + correspondence + C anti-DoS acceptance test")
CHECKS["C12"] = dict(engine="redeem", category="proof", design_ref="DESIGN.md §5 C12, §11.3",
    text="Coq model of the three witness routes over typed node tables (construction-time witness + finalize_unpruned / "
         "finalize_pruned, named witness map, decoding): every route returns only witnesses of exactly their node's targ"
         "et type or an error, never panics, returns typed witnesses unchanged; through the Codec family the program bit"
         "s and witness bytes of a canonical typed program both decode back (also for the real Elements jet tables), and"
         " through C05 a typed table makes the Bit Machine model neither panic nor leave its static bounds, writing exac"
         "tly width(target) bits per witness; the pre-fix unchecked route is refuted. Five routes compared on right/wide"
         "/narrow/same-width/unit/missing candidates on executed, unexecuted and shared branches.",
    note="Trusted: Coq kernel, Ty/Ty.v, harness; the human-readable parser and SimpleFinalizer are not modelled (the latter is "
         "outside the claim).",
    technique="Coq proof over the typed-value specification + correspondence over all routes")
CHECKS["C03"] = dict(engine="cdiff", category="other", design_ref="DESIGN.md §5 C03, §11.3",
    text="No theorem mentions the Rust or C code. The universally quantified clause is proved about an executable Coq re"
         "ference of the whole pipeline (Cdiff/Reference.v: Codec decoder + Infer with root 1->1 + witness fill + Merkle"
         " CMR/IHR/AMR over SHA-256 + cost), 31 theorems: accept implies canonical unique encoding, well typed and princ"
         "ipal, witness stream = typed compact values, CMR = Merkle spec, cost = ideal bound clipped; reject classes exa"
         "ct; compact_value padding is FIPS-minimal for every bit length. Rust and C are each tied to the reference: two"
         "-way (Rust vs a staged port of libsimplicity's pipeline, cross-checked against run_program) on every generated"
         " input - well-typed Elements programs pruned and unpruned, witness widths straddling every SHA-256 padding bou"
         "ndary, bit-level, structural and grammar-based mutations, random bytes - and three-way (vm_compute) on a state"
         "d sample.",
    note="Level other: the universally quantified clause rests on the comparison; the Coq theorems are about the cost reference "
         "and the verdict classification only.",
    technique="Coq reference of the pipeline + three-way differential (Coq/Rust/C)")
CHECKS["C06"] = dict(engine="cdiff", category="other", design_ref="DESIGN.md §5 C06, §11.3",
    text="Differential check: verdict kind of BitMachine::exec vs evalTCOExpression without anti-DoS flags on the same m"
         "arshalled C environment, over generated 1->1 Elements programs and a generated family of transaction environme"
         "nts, plus environment probes (one-jet programs whose verdict follows from the environment parameters alone). C"
         "oq is a third party on a dedicated population: the big-step semantics Core/Sem.v with the specified Core j"
         "ets, compared with Rust and C including the hidden CMR on assertion failures; corollaries of C05's exec_correc"
         "t for 1->1 programs are pinned (the machine model succeeds / fails with the same kind iff eval does).",
    note="Level other: the C evaluator and C jets are opaque; no theorem mentions them.",
    technique="Rust/C differential testing + Coq semantics as third party (corollaries of the C05 proof)")
CHECKS["C15"] = dict(engine="env", category="other", design_ref="DESIGN.md §5 C15, §11.3",
    text="Coq specification of 63 introspection jets and all 28 hash-composition jets (outputs/inputs/issuances/tx/tap h"
         "ashes and sig_all_hash, computed with the executable SHA-256 of C09 from the abstract transaction; script/proo"
         "f hashes and asset ids are data) with 21 theorems (results typed for all transactions and indices, in/out of r"
         "ange behaviour, current_X = input_X(current), annex, pegin follows the flag, sig_all_hash is a function of exa"
         "ctly the committed view with five independence lemmas; old marshalling refuted), compared with one-jet program"
         "s executed through ElementsEnv::new + BitMachine on generated transactions (every nonce / issuance / proof cla"
         "ss at every position); all 91 jets and the signature hash are also compared with an oracle written against the"
         " elements crate. Pointer lifetimes and Drop are only exercised (valgrind in the thorough tier).",
    note="Level other: SHA-256 values are data supplied by the harness; the C marshalling code is compared, not proved.",
    technique="Coq specification + theorems about it, compared with executed jets; independent oracle")
CHECKS["C20"] = dict(engine="conc", category="other", design_ref="DESIGN.md §5 C20, §11.3",
    text="Coq model of the shared state (atomic name counter, per-context inference state owned by one thread, immutable shared "
         "data) with the theorem that every interleaving gives each thread its sequential results up to an injective renaming "
         "of fresh names (and equal results with names erased), names never repeat; forced-schedule correspondence on names; "
         "stress comparison of 14 workload kinds on 2-16 threads against sequential runs, uniqueness test of fresh names, "
         "helgrind sample. Data races and the OS scheduler are outside any Coq model: this part is a test.",
    note="Level other: a theorem about the modelled shared state plus a stress test over the schedules the OS produced.",
    technique="Coq schedule-independence theorem for the modelled state + concurrent stress/differential test")

CHECKS["C18"] = dict(engine="dag", category="proof", design_ref="DESIGN.md §5 C18, §11.3",
    text="Line-by-line Coq model of dag.rs (explicit-stack PostOrderIter with trackers as key functions, SwapChildren/rtl, "
         "PreOrderIter, VerbosePreOrderIter, is_shared_as) proved equal to a structurally recursive specification with explicit "
         "fuel and no panic; from the specification: consecutive indices, each keyed class at most once, only reachable nodes, "
         "child indices point at the children's classes, root last and no unreferenced item (acyclic keys), every reachable "
         "class yielded (congruent keys), NoSharing = tree expansion, rtl = mirror, pre-order parents first and same nodes, "
         "is_shared_as iff same node sequence; the key hypotheses are shown satisfiable and necessary. Exhaustive over all "
         "DAG shapes up to 5 (quick) / 6 (thorough) nodes and all key partitions, plus random DAGs and real programs. "
         "Node::convert modelled as written (loop over the items, converted vector, all hooks): no panic, one converted node "
         "per item with the converted children of the children's classes, hook order (prefix when failing), closed form for "
         "pruning converters, identity up to un-sharing; the real convert is driven with an instrumented converter; by-value "
         "Arc<Node> iteration compared with by-reference iteration for every Disconnectable.",
    note="Trusted: Coq kernel, hand-written model, harness (DagLike over a table, keyed tracker), python recursive references.",
    technique="Coq refinement proof (explicit-stack iterator = recursive specification) + exhaustive-small correspondence")
CHECKS["C17"] = dict(engine="human", category="proof", design_ref="DESIGN.md §5 C17, §11.3",
    text="Definition level: Coq model of naming, rendering (string_serialize: per-object post-order, three sections) and"
         " resolving (the parser from the line list on): every name referred to is defined exactly once, resolve(render "
         "d) is d up to renumbering (hence same root/encoding for any bottom-up hash), generated names are fresh, the ol"
         "d per-identity-hash renderer is refuted. Token level for types: faithful models of Display for Final and of pa"
         "rse_type/postfix/atom with the nesting budget; every printed type of depth < 1000 parses back to the same type"
         " consuming exactly its tokens (exact domain, bound shown tight), the parser is total and every accepted type i"
         "s nested < 1000 deep; the three pre-fix behaviours are refuted. Lexer and line grammar are not modelled: cover"
         "ed by the round-trip search on generated programs, texts, literal forms and arbitrary strings.",
    note="Trusted: Coq kernel, hand-written model, harness. Open finding F-C17h (non-principal types do not reparse) matched by "
         "a per-case predicate computed in the harness.",
    technique="Coq proof of render/resolve round trip at definition level + round-trip search on programs and texts")

CHECKS["C09"] = dict(engine="merkle", category="proof", design_ref="DESIGN.md §5 C09, §11.3",
    text="Inside a Coq Section over an arbitrary compression function: the root cached by the node constructors, by from_parts, "
         "by the root-only algebras (ConstructibleCmr, Hiding) and copied by convert equals cmr_spec of the committed structure "
         "(no witness values, no disconnected branch, no types); hiding any sub-expressions preserves the root; const_word = root "
         "of the scribe pair tree (all n < 32); injectivity up to hiding under collision-freeness, and without any premise in the "
         "form 'equal roots give equal structures up to hiding or an explicit compression collision'. SHA-256 on Uint63 primitives "
         "instantiates it: all 42 regenerated IVs equal the hash of their tag, the constant tables equal hashing from scratch. "
         "Correspondence node by node with the implementation's roots; all conversion paths compared on the implementation.",
    note="Trusted: Coq kernel, vm_compute with Uint63 primitive integers (Print Assumptions lists the primitives; one theorem "
         "also lists the standard-library axioms Uint63.eqb_refl / eqb_correct), translator xlate_ivs.py, harness.",
    technique="Coq proof parametric in the hash + executable SHA-256 instance + correspondence")

CHECKS["C05"] = dict(engine="core", category="proof", design_ref="DESIGN.md §5 C05/C07, §11.3",
    text="Coq model of the Rust Bit Machine as written proved correct against a big-step semantics by induction on the t"
         "yping derivation, for arbitrary memory contents, frame positions, lower frames and remaining call stack: the r"
         "esult cells are a padded encoding of the semantic value, everything outside the write window and the scratch a"
         "rea is unchanged, each error kind occurs exactly when the semantics fail, the verdict is independent of initia"
         "l memory and of the input's padding bits; lifted to the byte-level Value model of C10 (exec returns a well-for"
         "med Value denoting eval). All 368 Core jets are specified in Gallina, the SHA-256 family over the executabl"
         "e SHA-256 of C09 with the theorem that init/add/finalize compute SHA-256 of the message; the secp256k1 jets ("
         "field, scalar, Jacobian point formulas with libsecp256k1's exact representatives, ecmult, BIP-340) with fiel"
         "d laws and on-curve preservation proved, Fermat inversion left as a statement. Correspondence on generated typed programs, template streams (align"
         "ed copies of 8k+r bits, disconnect with branches of different widths, read-after-drop/case, assertions on the "
         "neighbouring frame after a last write or copy at every alignment), Value-level strea"
         "m at shifted buffer offsets, and a python reference evaluator.",
    note="Trusted: Coq kernel, hand-written machine model and jet specifications, harness; Elements-only jets and C code "
         "are not modelled.",
    technique="Coq proof of machine correctness by induction on typing + correspondence")
CHECKS["C07"] = dict(engine="core", category="proof", design_ref="DESIGN.md §5 C05/C07, §11.3",
    text="Carried by the same induction as C05: if check_program accepts then no bound arithmetic saturated, the machine sized by "
         "for_program never touches a cell beyond 8*|data|, never exceeds the frame capacity and never panics, on failing paths "
         "too; the table-driven bound computation equals the tree recursion; check_program refuses exactly when one of its seven "
         "quantities exceeds its limit and its own additions cannot overflow; the pre-fix unchecked comp bound is refuted. "
         "Compared: high-water marks from the verif-hooks instrumentation, allocation sizes, NodeBounds, LimitError fields, in "
         "debug and release builds, including programs over huge shared types around MAX_CELLS, 2^32 and 2^64.",
    note="Trusted: as C05, plus the hook (cargo feature verif-hooks, add-only counters in BitMachine::new_write_frame).",
    technique="Coq proof (bounds invariant in the machine-correctness induction) + hook-based correspondence")

NOT_YET = {}

ENGINES = [
    dict(name="bits", path="coq/Bits", serves_properties=["C13"], kind_free_text="Coq model + proofs of bit reader/writer/natural code"),
    dict(name="budget", path="coq/Budget", serves_properties=["C19"], kind_free_text="Coq model + proofs of budget/padding arithmetic over translated constants"),
    dict(name="core", path="coq/Core", serves_properties=["C05", "C07"], kind_free_text="Coq Bit Machine model, semantics, bounds + correctness proofs; Jets/JetSpec.v"),
    dict(name="merkle", path="coq/Merkle", serves_properties=["C09"], kind_free_text="Coq SHA-256/tagged-hash library, CMR structure theorems"),
    dict(name="dag", path="coq/Dag", serves_properties=["C18"], kind_free_text="Coq model of dag.rs iterators + refinement proofs"),
    dict(name="human", path="coq/Human", serves_properties=["C17"], kind_free_text="Coq model of naming/rendering/resolving + round-trip proof"),
    dict(name="infer", path="coq/Infer", serves_properties=["C04"], kind_free_text="Coq reference type inference + proofs"),
    dict(name="redeem", path="coq/Redeem", serves_properties=["C08", "C12"], kind_free_text="Coq models of pruning and witness routes"),
    dict(name="cdiff", path="coq/Cdiff", serves_properties=["C03", "C06"], kind_free_text="Rust/C differential harness + Coq reference of the whole C03 pipeline + Coq semantics as third party"),
    dict(name="env", path="coq/Env", serves_properties=["C15"], kind_free_text="Coq transaction/jet specification + executed-jet comparison"),
    dict(name="conc", path="coq/Conc", serves_properties=["C20"], kind_free_text="Coq interleaving model + concurrent stress harness"),
    dict(name="codec", path="coq/Codec", serves_properties=["C01", "C02"], kind_free_text="Coq model of the program/witness bit codec + proofs"),
    dict(name="value", path="coq/Value", serves_properties=["C10", "C11"], kind_free_text="byte-level Coq model of Value + refinement proofs"),
    dict(name="policy", path="coq/Policy", serves_properties=["C16"], kind_free_text="Coq model of policy compilation/satisfaction/sorting"),
    dict(name="jets", path="coq/Jets", serves_properties=["C14"], kind_free_text="translated jet/FFI tables + Coq proofs by computation"),
]


def main():
    props = [json.loads(l)["id"] for l in open(os.path.join(VERIF, "properties.jsonl"))]
    checks = []
    for pid in props:
        if pid in CHECKS:
            c = CHECKS[pid]
            checks.append({
                "property_id": pid,
                "quick_cmd": "python3 tools/vp.py check %s --tier quick" % pid,
                "thorough_cmd": "python3 tools/vp.py check %s --tier thorough" % pid,
                "evidence_file": "evidence/%s.json" % pid,
                "replay_cmd_template": "python3 tools/vp.py replay %s {path}" % pid,
                "engine": c["engine"],
                "level_claimed": {"category": c["category"], "text": c["text"], "design_ref": c["design_ref"]},
                "level_note": c["note"],
                "technique": c["technique"],
            })
    na = [{"property_id": p, "reason": NOT_YET.get(p, "check not built yet in this revision of /verif (planned in DESIGN.md); no claim is made")}
          for p in props if p not in CHECKS]
    hooks_commits = []
    hp = os.path.join(VERIF, "hooks_commits.txt")
    if os.path.exists(hp):
        hooks_commits = [l.strip() for l in open(hp) if l.strip()]
    man = {
        "version": 1,
        "setup_cmd": "python3 tools/vp.py setup",
        "hooks": {
            "guard": "verif-hooks",
            "enable": "cargo feature `verif-hooks` of simplicity-lang, switched on by the harness crate's dependency line (harness feature `hooks`)",
            "baseline_off_cmd": "cd /repo && cargo test --workspace --no-fail-fast --offline",
            "source_commits": hooks_commits,
            "add_only": True,
        },
        "engines": [e for e in ENGINES],
        "checks": checks,
        "not_applicable": na,
        "notes": "Technique: machine-checked proof in Coq 8.16 over hand-written models + translators; see DESIGN.md.",
    }
    json.dump(man, open(os.path.join(VERIF, "MANIFEST.json"), "w"), indent=1)


if __name__ == "__main__":
    main()
