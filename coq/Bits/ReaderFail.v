(* Where the reader stands after a FAILED read_natural / read_u2: the Rust code pulls bits
   one by one, so a failing call has consumed exactly the bits it looked at.  This makes
   operation sequences that continue after an error part of the model. *)
From RS Require Import Lib.Tac Lib.Outcome Lib.ListExtra Lib.Bits Lib.Sweep Lib.ByteSweep
  Bits.Natural Bits.BitIter Bits.ReaderNat.
Import ListNotations.
Local Open Scope N_scope.

(* the unread bits when the level loop returns; None = the stream ran out (everything read) *)
Fixpoint levels_rest (depth : nat) (len : N) (l : list bool) : option (list bool) :=
  match read_bits_acc (N.to_nat len) 1 l with
  | None => None
  | Some (n, r) =>
      match depth with
      | O => Some r
      | S d => if 31 <? n then Some r else levels_rest d n r
      end
  end.

(* the unread bits when read_natural returns, whatever it returns *)
Definition nat_rest (l : list bool) : option (list bool) :=
  match read_unary l with
  | None => None
  | Some (d, r) => levels_rest d 0 r
  end.

(* read_natural with the reader's state after the call, on success and on failure *)
Definition bi_read_natural_st (ty_max : N) (bound : option N) (it : biter)
  : outcome nat_err N * option biter :=
  let l := bi_all_bits it in
  let st := match nat_rest l with
            | None => bi_skip (length l) it
            | Some r => bi_skip (length l - length r) it
            end in
  match read_nat ty_max bound l with
  | Ok (n, _) => (Ok n, st)
  | Err e => (Err e, st)
  | Panic c => (Panic c, None)
  | OutOfFuel => (OutOfFuel, None)
  end.

(* read_u2 with the state after the call: both next() calls are made *)
Definition bi_read_u2_st (it : biter) : option N * biter :=
  match bi_next it with
  | None => (None, it)
  | Some (b1, it1) =>
      match bi_next it1 with
      | None => (None, it1)
      | Some (b2, it2) => (Some (2 * b2n b1 + b2n b2), it2)
      end
  end.

(* ------------------------------------------------------------------ lemmas *)

Lemma read_bits_acc_suffix len : forall acc l n r,
  read_bits_acc len acc l = Some (n, r) -> exists p, l = p ++ r /\ length p = len.
Proof.
  induction len as [|k IH]; intros acc l n r H; cbn [read_bits_acc] in H.
  - injection H as _ <-. exists []. auto.
  - destruct l as [|b t]; [discriminate|].
    destruct (IH _ _ _ _ H) as (p & -> & Hp). exists (b :: p). cbn [app length]. auto.
Qed.

Lemma levels_rest_suffix d : forall len l r,
  levels_rest d len l = Some r -> exists p, l = p ++ r.
Proof.
  induction d as [|d IH]; intros len l r H; cbn [levels_rest] in H;
    destruct (read_bits_acc (N.to_nat len) 1 l) as [[n r1]|] eqn:E; try discriminate;
    destruct (read_bits_acc_suffix _ _ _ _ _ E) as (p & -> & _).
  - injection H as <-. eauto.
  - destruct (31 <? n).
    + injection H as <-. eauto.
    + destruct (IH _ _ _ H) as (p2 & ->). exists (p ++ p2). rewrite app_assoc. reflexivity.
Qed.

Theorem nat_rest_suffix l r : nat_rest l = Some r -> exists p, l = p ++ r.
Proof.
  unfold nat_rest. destruct (read_unary l) as [[d r1]|] eqn:E; [|discriminate].
  intros H. apply read_unary_inv in E. subst l.
  destruct (levels_rest_suffix _ _ _ _ H) as (p & ->).
  exists (repeat true d ++ false :: p). rewrite <- app_assoc. reflexivity.
Qed.

Lemma levels_rest_ok d : forall len l n rest,
  read_levels d len l = Ok (n, rest) -> levels_rest d len l = Some rest.
Proof.
  induction d as [|d IH]; intros len l n rest H; cbn [read_levels levels_rest] in *;
    destruct (read_bits_acc (N.to_nat len) 1 l) as [[m r1]|]; try discriminate.
  - injection H as _ <-. reflexivity.
  - destruct (31 <? m); [discriminate|]. eapply IH. exact H.
Qed.

(* on success the state-returning version agrees with the plain one *)
Theorem nat_rest_ok ty_max bound l n rest :
  read_nat ty_max bound l = Ok (n, rest) -> nat_rest l = Some rest.
Proof.
  unfold read_nat, nat_rest. destruct (read_unary l) as [[d r]|]; [|discriminate].
  destruct (read_levels d 0 r) as [[m r']| | |] eqn:El; try discriminate.
  intros H. rewrite (levels_rest_ok _ _ _ _ _ El).
  destruct (ty_max <? m); [discriminate|].
  destruct bound as [b|]; [destruct (b <? m); [discriminate|]|]; injection H as _ <-; reflexivity.
Qed.

(* the stream ran out exactly when read_natural reports EndOfStream *)
Lemma levels_rest_none d : forall len l,
  levels_rest d len l = None <-> read_levels d len l = Err EndOfStream.
Proof.
  induction d as [|d IH]; intros len l; cbn [read_levels levels_rest];
    destruct (read_bits_acc (N.to_nat len) 1 l) as [[m r1]|]; try (split; congruence).
  destruct (31 <? m); [split; congruence|]. apply IH.
Qed.

Theorem nat_rest_none ty_max bound l :
  nat_rest l = None <-> read_nat ty_max bound l = Err EndOfStream.
Proof.
  unfold read_nat, nat_rest. destruct (read_unary l) as [[d r]|]; [|split; reflexivity].
  rewrite levels_rest_none.
  destruct (read_levels d 0 r) as [[m r']| [| |] | |] eqn:El; try (split; congruence).
  - split; [discriminate|]. destruct (ty_max <? m); [discriminate|].
    destruct bound as [b|]; [destruct (b <? m)|]; discriminate.
Qed.

(* the reader after the call: exactly the bits read_natural looked at are gone *)
Theorem bi_read_natural_st_spec ty_max bound it : bi_inv it ->
  let l := bi_remaining it in
  let '(res, st) := bi_read_natural_st ty_max bound it in
  exists it', st = Some it' /\ bi_inv it' /\
    bi_remaining it' = match nat_rest l with Some r => r | None => [] end /\
    bi_total it' = bi_total it + N.of_nat (length l - length (bi_remaining it')) /\
    res = match read_nat ty_max bound l with
          | Ok (n, _) => Ok n | Err e => Err e | Panic c => Panic c | OutOfFuel => OutOfFuel
          end.
Proof.
  intros Hinv. cbv zeta. unfold bi_read_natural_st. rewrite bi_all_bits_spec by exact Hinv.
  set (l := bi_remaining it).
  pose proof (read_nat_total ty_max bound l) as Htot.
  assert (Hst : exists it', (match nat_rest l with
                             | None => bi_skip (length l) it
                             | Some r => bi_skip (length l - length r) it
                             end) = Some it' /\ bi_inv it' /\
                bi_remaining it' = match nat_rest l with Some r => r | None => [] end /\
                bi_total it' = bi_total it + N.of_nat (length l - length (bi_remaining it'))).
  { destruct (nat_rest l) as [r|] eqn:En.
    - destruct (nat_rest_suffix _ _ En) as (p & Hp).
      assert (Hlen : (length l - length r = length p)%nat) by (rewrite Hp, app_length; lia).
      rewrite Hlen.
      destruct (bi_skip_spec (length p) it Hinv ltac:(fold l; rewrite Hp, app_length; lia))
        as (it' & Hs & Hr & Hi & Ht).
      exists it'. split; [exact Hs|]. split; [exact Hi|].
      fold l in Hr. rewrite Hp, skipn_app, skipn_all, Nat.sub_diag in Hr. cbn [skipn app] in Hr.
      split; [exact Hr|]. rewrite Ht, Hr, Hlen. reflexivity.
    - destruct (bi_skip_spec (length l) it Hinv ltac:(fold l; lia)) as (it' & Hs & Hr & Hi & Ht).
      exists it'. split; [exact Hs|]. split; [exact Hi|].
      fold l in Hr. rewrite skipn_all in Hr. split; [exact Hr|].
      rewrite Ht, Hr. cbn [length]. rewrite Nat.sub_0_r. reflexivity. }
  destruct Hst as (it' & Hs & Hi & Hr & Ht).
  destruct (read_nat ty_max bound l) as [[n rest]|e|c|]; try contradiction;
    (exists it'; split; [exact Hs|]; split; [exact Hi|]; split; [exact Hr|]; split; [exact Ht|reflexivity]).
Qed.

(* read_u2: a failed call has consumed the one bit that was there *)
Theorem bi_read_u2_st_spec it : bi_inv it ->
  let l := bi_remaining it in
  let '(res, it') := bi_read_u2_st it in
  bi_inv it' /\
  match l with
  | b1 :: b2 :: tl => res = Some (2 * b2n b1 + b2n b2) /\ bi_remaining it' = tl /\
                      bi_total it' = bi_total it + 2
  | [_] => res = None /\ bi_remaining it' = [] /\ bi_total it' = bi_total it + 1
  | [] => res = None /\ it' = it
  end.
Proof.
  intros Hinv. cbv zeta. unfold bi_read_u2_st.
  pose proof (bi_next_spec it Hinv) as H1.
  destruct (bi_remaining it) as [|b1 tl] eqn:E1.
  - rewrite H1. auto.
  - destruct H1 as (it1 & Hn1 & Hr1 & Hi1 & Ht1). rewrite Hn1.
    pose proof (bi_next_spec it1 Hi1) as H2. rewrite Hr1 in H2.
    destruct tl as [|b2 tl2].
    + rewrite H2. split; [exact Hi1|]. split; [reflexivity|]. split; [exact Hr1|exact Ht1].
    + destruct H2 as (it2 & Hn2 & Hr2 & Hi2 & Ht2). rewrite Hn2.
      split; [exact Hi2|]. split; [reflexivity|]. split; [exact Hr2|]. rewrite Ht2, Ht1. lia.
Qed.
