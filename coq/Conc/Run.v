(* Executable entry point used by the correspondence check of C20 (case kind `names`): the
   concrete instance of Conc/Interleave.v (per-context slab of fresh variable names, one global
   name counter) run under a given schedule, printed in the canonical form of
   harness_conc/src/conc.rs `names`: per event  thread 0 name | thread 1 name | thread 2 | thread 3 count,
   names relative to the counter value at the start. *)
From RS Require Import Lib.Tac Conc.Interleave.
Import ListNotations.
Local Open Scope N_scope.

Definition show_event (e : event cres) : list N :=
  let '(k, _, r) := e in
  N.of_nat k ::
  match r with
  | RName x => [0; x]
  | RSlot (Some x) => [1; x]
  | RSlot None => [2]
  | RCount n => [3; N.of_nat n]
  end.

(* thread k uses context k *)
Definition own_ctx (programs : list (list cop)) : list (list (nat * cop)) :=
  map (fun p : nat * list cop => map (fun o => (fst p, o)) (snd p)) (combine (seq 0 (length programs)) programs).

Definition run_names (programs : list (list cop)) (sch : list nat) : list N :=
  flat_map show_event (crun sch (cinit 0 (own_ctx programs))).
