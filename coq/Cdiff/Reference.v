(* C03 - an executable REFERENCE for everything the property names: validity, commitment root,
   annotated root, identity root and static cost bound of a (program bytes, witness bytes) pair,
   assembled from the reference components of the sibling families:

     decode     Codec.NodeCodec.dec_prog over the real Elements jet code (Codec.RealJets),
                the structural pass Codec.Decode.dec_struct (canonical order, hidden nodes,
                repeated hidden roots) and the closing rule of the bit stream (close_after)
     infer      Infer.Infer.infer with the program root 1 -> 1, jets typed by the regenerated
                Elements table (Generated.Jets_elements: TypeName strings through Jets.TypeName)
     witness    Codec.WitnessCodec.read_witnesses (Ty.of_compact) at the inferred target types,
                in table order, then the closing rule of the witness stream
     roots      Merkle: CMR of every node by the root-only algebra (= cmr_spec of the erased
                structure, Merkle.CmrStructure), IMR / IHR / AMR of every node by
                Merkle.Ihr.redeem_table over SHA-256 (Merkle.Real), identity hashes pairwise
                different
     cost       Cdiff.CostRef (ideal / C-shaped / Rust-shaped) and, as a fourth opinion,
                Core.Bounds.root_bounds_tab (the NodeBounds model of C07)

   Nothing here mirrors the control flow of the Rust or C code: the stages run one after the
   other, each on the complete output of the previous one.  tools/props/c03.py evaluates
   [reference] with vm_compute on the same byte pairs as RedeemNode::decode and libsimplicity and
   compares the three verdicts, roots and costs. *)
From Coq Require Import Uint63 String.
From RS Require Import Lib.Tac Lib.Outcome Lib.Bits Lib.ListExtra Lib.Sweep Ty.Ty Core.Prog
  Bits.Natural Bits.BitIter
  Jets.JetTable Jets.TypeName Generated.Jets_elements
  Codec.NodeCodec Codec.Linearise Codec.Decode Codec.WitnessCodec Codec.RealJets
  Infer.Constraints Infer.Unify Infer.Infer
  Merkle.Sha256 Merkle.Tagged Merkle.Cmr Merkle.Ihr Merkle.Real
  Core.Bounds
  Cdiff.CostRef.
Import ListNotations.
Local Open Scope N_scope.

(* libsimplicity's limit on the width of one witness value (limitations.h CELLS_MAX; re-read from
   the C sources on every run by tools/props/cdiff_common.py read_limits) *)
Definition CELLS_MAX : N := 5242880.

(* ------------------------------------------------------------------ decoded node -> PDL node *)
Definition dn := dnode N.

Definition to_node (d : dn) : node :=
  match d with
  | DIden => NIden
  | DUnit => NUnit
  | DInjL i => NInjL (N.to_nat i)
  | DInjR i => NInjR (N.to_nat i)
  | DTake i => NTake (N.to_nat i)
  | DDrop i => NDrop (N.to_nat i)
  | DComp i j => NComp (N.to_nat i) (N.to_nat j)
  | DCase i j => NCase (N.to_nat i) (N.to_nat j)
  | DPair i j => NPair (N.to_nat i) (N.to_nat j)
  | DDisconnect1 i => NDisconnect (N.to_nat i) None
  | DDisconnect i j => NDisconnect (N.to_nat i) (Some (N.to_nat j))
  | DWitness => NWitness WNone
  | DFail e => NFail e
  | DHidden h => NHidden h
  | DJet j => NJet 1 j
  | DWord n bits => NWord (N.to_nat n) bits
  end.

Definition is_disc1 (d : dn) : bool := match d with DDisconnect1 _ => true | _ => false end.
Definition is_fail (d : dn) : bool := match d with DFail _ => true | _ => false end.

(* ------------------------------------------------------------------ the Elements jets as data *)
(* complete types as ground types with the word types abbreviated (2^(2^n) costs n + 2 bounds in
   the inference store instead of 2^(n+1)) *)
Fixpoint gz (t : ty) : option nat * gty :=
  match t with
  | One => (None, GOne)
  | Sum a b =>
      match a, b with
      | One, One => (Some O, GWord 0)
      | _, _ => (None, GSum (snd (gz a)) (snd (gz b)))
      end
  | Prod a b =>
      let '(wa, ga) := gz a in
      let '(wb, gb) := gz b in
      match wa, wb with
      | Some n, Some m => if Nat.eqb n m then (Some (S n), GWord (S n)) else (None, GProd ga gb)
      | _, _ => (None, GProd ga gb)
      end
  end.

Definition tn_gty (s : string) : gty :=
  match tn_to_final s with
  | Ok t => snd (gz t)
  | _ => GOne
  end.

Definition jt_of_rows (rows : list jet_row) : jet_table :=
  map (fun r => (1, j_idx r, tn_gty (j_src r), tn_gty (j_tgt r))) rows.

Definition elements_jt : jet_table := Eval vm_compute in jt_of_rows (f_rows elements_family).
Definition elements_costs : list N := Eval vm_compute in map j_cost (f_rows elements_family).
Definition elements_cost (_ id : N) : N := nth (N.to_nat id) elements_costs 0.

(* ------------------------------------------------------------------ verdict classes *)
(* the shared class numbers of Cdiff/VerdictRef.v: 1 program eof, 2 program trailing bytes / padding,
   3 value out of range, 4 not in canonical order, 6 one-child disconnect, 7 hidden node misplaced,
   8 type error, 9 witness stream, 10 sharing not maximal, 11 libsimplicity resource limit *)
Definition class_of_dec_err (e : NodeCodec.dec_err) : N :=
  match e with
  | EEndOfStream => 1
  | EInvalidJet => 3
  | ENatural EndOfStream => 1
  | ENatural _ => 3
  | EBothChildrenHidden => 7
  | EHiddenNode => 7
  | ENotInCanonicalOrder => 4
  | ESharingNotMaximal => 10
  | EClose _ => 2
  end.

(* ------------------------------------------------------------------ witnesses *)
Fixpoint wit_tys (p : prog) (tau : list (option tarrow)) : list ty :=
  match p, tau with
  | NWitness _ :: p', Some (_, t) :: tau' => t :: wit_tys p' tau'
  | _ :: p', _ :: tau' => wit_tys p' tau'
  | _, _ => []
  end.

Fixpoint fill (p : prog) (tau : list (option tarrow)) (vs : list sval) : typed_prog :=
  match p, tau with
  | NWitness w :: p', Some a :: tau' =>
      match vs with
      | v :: vs' => (NWitness (WCompact (compact_enc v)), Some a) :: fill p' tau' vs'
      | [] => (NWitness w, Some a) :: fill p' tau' []
      end
  | n :: p', a :: tau' => (n, a) :: fill p' tau' vs
  | _, _ => []
  end.

(* ------------------------------------------------------------------ roots *)
Definition ref_cmrs (p : prog) : outcome N (list (rH + rH)) := drive rH r_h_of_bytes r_ccmr_alg p.

Definition ref_redeem (tp : typed_prog) : outcome N (list (rdata rH + rH)) :=
  redeem_table rH r_compress r_iv r_ivi r_zero r_of_weight r_bit_cmr r_tmr_unit r_two_two_n
    r_jet_cmr r_h_of_bytes r_compact_value tp.

(* identity hash of a table position: IHR of a node, the root itself of a hidden placeholder
   (libsimplicity's verifyNoDuplicateIdentityHashes covers both) *)
Definition ih_bytes (v : rdata rH + rH) : list N :=
  match v with
  | inl d => bytes_of_state (rd_ihr rH d)
  | inr h => bytes_of_state h
  end.

Fixpoint nodup_bytes (l : list (list N)) : bool :=
  match l with
  | [] => true
  | x :: r => negb (existsb (bytes_eqb x) r) && nodup_bytes r
  end.

Definition zero32 : list N := repeat 0 32.

Definition root_cmr (t : list (rH + rH)) : list N :=
  bytes_of_state (val_cmr rH r_ccmr_alg (last t (inr r_zero))).

Definition root_amr (t : list (rdata rH + rH)) : list N :=
  match last t (inr r_zero) with
  | inl d => bytes_of_state (rd_amr rH d)
  | inr _ => zero32
  end.

Definition root_ihr (t : list (rdata rH + rH)) : list N :=
  match last t (inr r_zero) with
  | inl d => bytes_of_state (rd_ihr rH d)
  | inr _ => zero32
  end.

(* ------------------------------------------------------------------ cost *)
Record costs := mk_costs { k_ideal : N; k_c : N; k_rust : outcome unit N; k_core : N }.

Definition ref_costs (tp : typed_prog) : option costs :=
  match annotate elements_cost tp with
  | None => None
  | Some ns =>
      Some (mk_costs (ideal_cost ns) (c_cost ns) (rust_cost ns)
              (cost (root_bounds_tab (elements_cost 1) (map (fun e =>
                 (fst e, match snd e with Some (a, b) => (width_sat a, width_sat b) | None => (0, 0) end)) tp))))
  end.

(* ------------------------------------------------------------------ the reference *)
Record accepted := mk_acc {
  a_nodes : list dn;                 (* the decoded table *)
  a_tau : list (option tarrow);      (* the inferred arrows *)
  a_table : typed_prog;              (* the table with arrows and witness values *)
  a_cmr : list N; a_amr : list N; a_ihr : list N;
  a_costs : costs;
  a_has_fail : bool                  (* contains a fail node: libsimplicity refuses those by design *)
}.

Inductive verdict :=
| VAccept (a : accepted)
| VReject (cls : N)
| VInternal (code : N).              (* a component panicked / ran out of fuel: never (ReferenceProofs.v) *)

Definition consumed (all rest : list bool) : N := N.of_nat (length all - length rest).

Definition ref_typed (pb wb : list N) (ns : list dn) (tau : list (option tarrow)) : verdict :=
  let p := map to_node ns in
  let wtys := wit_tys p tau in
  if existsb (fun t => CELLS_MAX <? width t) wtys then VReject 11 else
  let wbits := bits_of_bytes wb in
  match read_witnesses wtys wbits with
  | None => VReject 9
  | Some (vs, wrest) =>
      match close_after wb (consumed wbits wrest) with
      | Err _ => VReject 9
      | Panic _ | OutOfFuel => VInternal 5
      | Ok _ =>
          let tp := fill p tau vs in
          match ref_cmrs p, ref_redeem tp, ref_costs tp with
          | Ok ct, Ok rt, Some k =>
              if nodup_bytes (map ih_bytes rt)
              then VAccept (mk_acc ns tau tp (root_cmr ct) (root_amr rt) (root_ihr rt) k (existsb is_fail ns))
              else VReject 10
          | _, _, _ => VInternal 6
          end
      end
  end.

Definition ref_decoded (pb wb : list N) (ns : list dn) (rest : list bool) : verdict :=
  match dec_struct ns with
  | Err e => VReject (class_of_dec_err e)
  | Panic _ | OutOfFuel => VInternal 2
  | Ok _ =>
      match close_after pb (consumed (bits_of_bytes pb) rest) with
      | Err _ => VReject 2
      | Panic _ | OutOfFuel => VInternal 3
      | Ok _ =>
          if existsb is_disc1 ns then VReject 6 else
          let p := map to_node ns in
          match infer elements_jt (Some (length p - 1)%nat) p with
          | Err _ => VReject 8
          | Panic _ | OutOfFuel => VInternal 4
          | Ok tau => ref_typed pb wb ns tau
          end
      end
  end.

Definition reference (pb wb : list N) : verdict :=
  match dec_prog N elements_dec (bits_of_bytes pb) with
  | Err e => VReject (class_of_dec_err e)
  | Panic _ | OutOfFuel => VInternal 1
  | Ok (ns, rest) => ref_decoded pb wb ns rest
  end.

Definition accepts (pb wb : list N) : bool :=
  match reference pb wb with VAccept _ => true | _ => false end.
