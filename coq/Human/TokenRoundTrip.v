(* C17 - the round trip at the level of tokens: the token rendering of a named DAG (definition lines in
   the order of string_serialize, each with an arrow of small types), read by the token-level line
   parser and resolved by the definition-level parser model, gives the DAG back up to renumbering. *)
From RS Require Import Lib.Tac Lib.Outcome Core.Prog Ty.Ty Human.Namer Human.Render Human.RenderProofs Human.Resolve
  Human.RoundTrip Human.TypeText Human.LineText Human.LineTextProofs Human.PathCount Human.FromProgram.
Import ListNotations.
Local Open Scope N_scope.

Lemma map_fst_combine {A B} (l : list A) (m : list B) : length l = length m -> map fst (combine l m) = l.
Proof.
  revert m. induction l as [|x r IH]; intros [|y m] H; cbn in *; try discriminate; [reflexivity|].
  f_equal. apply IH. lia.
Qed.

Theorem token_roundtrip d cmr_of (arrows : list (ty * ty)) :
  wf_ndag d = true -> NoDup (map (nname d) (post_order d)) -> path_errs d = [] ->
  length arrows = length (render d) ->
  Forall tline_ok (combine (render d) arrows) ->
  exists ps d',
    plines (text_tokens (combine (render d) arrows)) = Ok ps /\
    resolve cmr_of (map pl_line ps) = Ok [(nname d (root_of d), d')] /\
    iso d d' /\ wf_ndag d' = true.
Proof.
  intros W Hn Hp Hlen Hok.
  destruct (resolve_render_thm d cmr_of W Hn Hp) as [d' [Hr [Hi Hw]]].
  pose proof (plines_text_lines _ Hok) as H.
  destruct (plines (text_tokens (combine (render d) arrows))) as [ps| | |] eqn:E; try contradiction.
  exists ps, d'. split; [reflexivity|]. split; [|split; assumption].
  rewrite H, map_fst_combine by (symmetry; exact Hlen). exact Hr.
Qed.

(* for a committed program *)
Theorem from_program_token_roundtrip p ihr cmr cmr_of (arrows : list (ty * ty)) :
  wf_prog p = true ->
  (forall j, (j < pred (length p))%nat -> nth j cmr 0 <> nth (pred (length p)) cmr 0) ->
  from_ok p ihr = true ->
  let d := name_program p ihr cmr in
  length arrows = length (render d) ->
  Forall tline_ok (combine (render d) arrows) ->
  exists ps d',
    plines (text_tokens (combine (render d) arrows)) = Ok ps /\
    resolve cmr_of (map pl_line ps) = Ok [(nname d (root_of d), d')] /\
    iso d d' /\ wf_ndag d' = true.
Proof.
  intros Wp Hc Hok d Hlen Hl. destruct (from_program_ok p ihr cmr Wp Hc Hok) as [W [Hn Hp]].
  exact (token_roundtrip d cmr_of arrows W Hn Hp Hlen Hl).
Qed.

(* ------------------------------------------------------------------ rendered lines have the expected form *)
Definition pay_ok (n : nnode) : bool :=
  match nn_kind n with
  | KJet => (length (nn_pay n) =? 1)%nat
  | KFail => (length (nn_pay n) =? 64)%nat
  | KWord => negb (length (nn_pay n) =? 0)%nat && (hd 0 (nn_pay n) <=? 31)
  | KAssertL | KAssertR => true
  | _ => (length (nn_pay n) =? 0)%nat
  end.

Lemma line_of_ok d i : wf_ndag d = true -> (i < length d)%nat -> pay_ok (nget d i) = true ->
  line_ok (line_of d i) = true.
Proof.
  intros W Hi Hp. pose proof (wf_node d i W Hi) as Hw. unfold node_wf in Hw.
  unfold line_ok, line_of, no_ops, pay_nil, pay_ok in *. cbn [dl_kind dl_l dl_r dl_hole dl_pay].
  destruct (nget d i) as [k pay l r nm h]. cbn [nn_kind nn_pay nn_l nn_r nn_hole] in *.
  destruct k, l, r, h; cbn in *; rewrite ?andb_true_r, ?andb_false_r in *; try discriminate; try reflexivity;
    try exact Hp; rewrite ?Hp; reflexivity.
Qed.

Lemma render_lines_ok d : wf_ndag d = true -> (forall i, (i < length d)%nat -> pay_ok (nget d i) = true) ->
  Forall (fun l => line_ok l = true) (render d).
Proof.
  intros W Hp. apply Forall_forall. intros l Hl. unfold render in Hl. apply (proj1 (in_sections l _)) in Hl.
  unfold lines_of_root in Hl. apply in_map_iff in Hl. destruct Hl as [i [<- Hi]].
  pose proof (pf_range _ _ (post_order_facts d W) i Hi) as Hr.
  apply line_of_ok; [exact W | exact Hr | apply Hp; exact Hr].
Qed.

Lemma combine_ok (ls : list defline) (arrows : list (ty * ty)) :
  Forall (fun l => line_ok l = true) ls -> Forall (fun a => small (fst a) /\ small (snd a)) arrows ->
  Forall tline_ok (combine ls arrows).
Proof.
  intros Hl. revert arrows. induction Hl as [|l r H1 Hr IH]; intros [|a ar] Ha; cbn [combine]; try constructor.
  - inversion Ha as [|? ? [S1 S2] Har]; subst. split; [exact H1 | split; assumption].
  - inversion Ha; subst. apply IH. assumption.
Qed.

(* the statement with checkable hypotheses only *)
Theorem from_program_token_roundtrip' p ihr cmr cmr_of (arrows : list (ty * ty)) :
  wf_prog p = true ->
  (forall j, (j < pred (length p))%nat -> nth j cmr 0 <> nth (pred (length p)) cmr 0) ->
  from_ok p ihr = true ->
  let d := name_program p ihr cmr in
  (forall i, (i < length d)%nat -> pay_ok (nget d i) = true) ->
  length arrows = length (render d) ->
  Forall (fun a => small (fst a) /\ small (snd a)) arrows ->
  exists ps d',
    plines (text_tokens (combine (render d) arrows)) = Ok ps /\
    resolve cmr_of (map pl_line ps) = Ok [(nname d (root_of d), d')] /\
    iso d d' /\ wf_ndag d' = true.
Proof.
  intros Wp Hc Hok d Hpay Hlen Hsm.
  destruct (from_program_ok p ihr cmr Wp Hc Hok) as [W _].
  apply (from_program_token_roundtrip p ihr cmr cmr_of arrows Wp Hc Hok Hlen).
  apply combine_ok; [apply render_lines_ok; assumption | exact Hsm].
Qed.
