(* C04 - reference unification on the store of Constraints.v.

   This is the specification-level algorithm (unification closure on a term graph):
   `unify s x y` finds the representatives of x and y; if they differ it links the larger
   one to the smaller one FIRST and then unifies the children of two sums / two products,
   so the algorithm terminates on cyclic stores exactly like the Rust union-bound code
   (types/union_bound.rs `unify` replaces the root before calling `bind`).  The occurs check
   is NOT done here (cycles are representable); it is done at the end (Infer.v), as
   `Type::finalize` does.  Ranks, path halving and the eager completion of bounds in
   types/context.rs are not modelled (tied by correspondence).

   Termination: fuel, with the proved sufficient bound `S (nroots s)`: every recursive
   step removes one representative. *)
From RS Require Import Lib.Tac Lib.Outcome Ty.Ty Infer.Constraints.
Import ListNotations.
Local Open Scope outcome_scope.

Fixpoint supd (s : store) (v : nat) (b : bnd) : store :=
  match s, v with
  | [], _ => []
  | _ :: r, O => b :: r
  | x :: r, S k => x :: supd r k b
  end.

(* representative: follow links (they always point to smaller variables, see `wf`) *)
Fixpoint find_f (fuel : nat) (s : store) (v : nat) : nat :=
  match fuel with
  | O => v
  | S f => match sget s v with
           | BLink w => find_f f s w
           | _ => v
           end
  end.

Definition find (s : store) (v : nat) : nat := find_f (S v) s v.

Fixpoint unify (fuel : nat) (s : store) (x y : nat) : outcome unit store :=
  match fuel with
  | O => OutOfFuel
  | S f =>
      let rx := find s x in
      let ry := find s y in
      if Nat.eqb rx ry then Ok s else
      let lo := Nat.min rx ry in
      let hi := Nat.max rx ry in
      match sget s lo, sget s hi with
      | BFree, b => Ok (supd (supd s lo b) hi (BLink lo))
      | _, BFree => Ok (supd s hi (BLink lo))
      | BOne, BOne => Ok (supd s hi (BLink lo))
      | BSum a b, BSum c d =>
          s2 <- unify f (supd s hi (BLink lo)) a c ;; unify f s2 b d
      | BProd a b, BProd c d =>
          s2 <- unify f (supd s hi (BLink lo)) a c ;; unify f s2 b d
      | _, _ => Err tt
      end
  end.

Fixpoint nroots (s : store) : nat :=
  match s with
  | [] => O
  | BLink _ :: r => nroots r
  | _ :: r => S (nroots r)
  end.

Definition unify_top (s : store) (x y : nat) : outcome unit store :=
  unify (S (nroots s)) s x y.

Fixpoint solve (s : store) (eqs : list (nat * nat)) : outcome unit store :=
  match eqs with
  | [] => Ok s
  | (x, y) :: r => s' <- unify_top s x y ;; solve s' r
  end.

(* ------------------------------------------------------------------ store lemmas *)

Lemma supd_length s : forall v b, length (supd s v b) = length s.
Proof. induction s as [|x r IH]; intros [|v] b; cbn; auto. Qed.

Lemma sget_supd_eq s : forall v b, (v < length s)%nat -> sget (supd s v b) v = b.
Proof.
  unfold sget. induction s as [|x r IH]; intros [|v] b H; cbn in *; try lia; auto.
  all: try (apply IH; lia).
Qed.

Lemma sget_supd_neq s : forall v w b, v <> w -> sget (supd s v b) w = sget s w.
Proof.
  unfold sget. induction s as [|x r IH]; intros [|v] [|w] b H; cbn; auto; try lia.
  all: try (apply IH; lia).
Qed.

Lemma sget_app_l (s l : store) v : (v < length s)%nat -> sget (s ++ l) v = sget s v.
Proof. unfold sget. intros. apply app_nth1. exact H. Qed.

Lemma sget_app_r (s l : store) k : sget (s ++ l) (length s + k) = sget l k.
Proof. unfold sget. rewrite app_nth2 by lia. f_equal. lia. Qed.

Lemma sget_out (s : store) v : (length s <= v)%nat -> sget s v = BFree.
Proof. unfold sget. apply nth_overflow. Qed.

(* ------------------------------------------------------------------ semantics *)

(* a ground valuation of all variables *)
Definition valuation := nat -> ty.

Definition holds (al : valuation) (v : nat) (b : bnd) : Prop :=
  match b with
  | BFree => True
  | BLink w => al v = al w
  | BOne => al v = One
  | BSum a b => al v = Sum (al a) (al b)
  | BProd a b => al v = Prod (al a) (al b)
  end.

Definition sat (al : valuation) (s : store) : Prop :=
  forall v, (v < length s)%nat -> holds al v (sget s v).

(* well-formed store: links go down, children are allocated *)
Definition wf_bnd (len v : nat) (b : bnd) : Prop :=
  match b with
  | BLink w => (w < v)%nat
  | BSum a b | BProd a b => (a < len)%nat /\ (b < len)%nat
  | _ => True
  end.

Definition wf (s : store) : Prop :=
  forall v, (v < length s)%nat -> wf_bnd (length s) v (sget s v).

Definition is_root (s : store) (v : nat) : Prop :=
  match sget s v with BLink _ => False | _ => True end.

Lemma find_f_spec s : wf s -> forall fuel v, (v < fuel)%nat -> (v < length s)%nat ->
  is_root s (find_f fuel s v) /\ (find_f fuel s v <= v)%nat /\
  (forall al, sat al s -> al (find_f fuel s v) = al v).
Proof.
  intros W. induction fuel as [|f IH]; intros v Hf Hv; [lia|].
  cbn [find_f]. destruct (sget s v) as [|w| |a b|a b] eqn:E;
    try (split; [unfold is_root; rewrite E; exact I|split; [lia|reflexivity]]).
  pose proof (W v Hv) as Wv. rewrite E in Wv. cbn in Wv.
  destruct (IH w ltac:(lia) ltac:(lia)) as (R & L & A).
  split; [exact R|split; [lia|]].
  intros al S. rewrite (A al S). pose proof (S v Hv) as Sv. rewrite E in Sv. cbn in Sv. symmetry. exact Sv.
Qed.

Lemma find_root s v : wf s -> (v < length s)%nat -> is_root s (find s v).
Proof. intros W H. apply (find_f_spec s W (S v) v); lia. Qed.

Lemma find_le s v : wf s -> (v < length s)%nat -> (find s v <= v)%nat.
Proof. intros W H. apply (find_f_spec s W (S v) v); lia. Qed.

Lemma find_lt s v : wf s -> (v < length s)%nat -> (find s v < length s)%nat.
Proof. intros W H. pose proof (find_le s v W H). lia. Qed.

Lemma find_sat s v al : wf s -> (v < length s)%nat -> sat al s -> al (find s v) = al v.
Proof. intros W H. apply (find_f_spec s W (S v) v); lia. Qed.

(* enough fuel: the result does not depend on it *)
Lemma find_f_stable s : wf s -> forall f1 f2 v, (v < f1)%nat -> (v < f2)%nat -> (v < length s)%nat ->
  find_f f1 s v = find_f f2 s v.
Proof.
  intros W. induction f1 as [|f1 IH]; intros f2 v H1 H2 Hv; [lia|].
  destruct f2 as [|f2]; [lia|]. cbn [find_f].
  destruct (sget s v) as [|w| |a b|a b] eqn:E; try reflexivity.
  pose proof (W v Hv) as Wv. rewrite E in Wv. cbn in Wv. apply IH; lia.
Qed.

Lemma find_link s v w : wf s -> (v < length s)%nat -> sget s v = BLink w -> find s v = find s w.
Proof.
  intros W Hv E. unfold find at 1. cbn [find_f]. rewrite E. unfold find.
  pose proof (W v Hv) as Wv. rewrite E in Wv. cbn in Wv.
  apply find_f_stable; auto; lia.
Qed.

Lemma find_of_root s v : is_root s v -> find s v = v.
Proof. unfold is_root, find. cbn [find_f]. destruct (sget s v); tauto. Qed.

(* ------------------------------------------------------------------ counting representatives *)

Lemma nroots_le s : (nroots s <= length s)%nat.
Proof. induction s as [|[] r IH]; cbn; lia. Qed.

Definition is_link (b : bnd) : bool := match b with BLink _ => true | _ => false end.

Lemma nroots_supd s : forall v b, (v < length s)%nat ->
  (nroots (supd s v b) + (if is_link (sget s v) then 0 else 1) =
   nroots s + (if is_link b then 0 else 1))%nat.
Proof.
  unfold sget. induction s as [|x r IH]; intros [|v] b H; cbn [length] in H; try lia.
  - cbn [supd nth]. destruct x, b; cbn; lia.
  - cbn [supd nth]. specialize (IH v b ltac:(lia)). destruct x; cbn [nroots]; lia.
Qed.

(* ------------------------------------------------------------------ well-formedness is preserved *)

Lemma wf_supd s v b : wf s -> (v < length s)%nat -> wf_bnd (length s) v b -> wf (supd s v b).
Proof.
  intros W Hv Hb u Hu. rewrite supd_length in *.
  destruct (Nat.eq_dec v u) as [->|N].
  - rewrite sget_supd_eq by exact Hv. exact Hb.
  - rewrite sget_supd_neq by exact N. apply W. exact Hu.
Qed.

Lemma wf_bnd_root s v u : wf s -> (v < length s)%nat -> is_root s v -> wf_bnd (length s) u (sget s v).
Proof.
  intros W Hv R. pose proof (W v Hv) as Wv. unfold is_root in R.
  destruct (sget s v); cbn in *; tauto.
Qed.

(* ------------------------------------------------------------------ soundness and invariants of unify *)

Ltac min_max_cases rx ry :=
  let H := fresh "Hmm" in
  destruct (Nat.min_spec rx ry) as [[H ->]|[H ->]];
  [rewrite (Nat.max_r rx ry) in * by lia | rewrite (Nat.max_l rx ry) in * by lia].

Lemma unify_sound : forall fuel s x y s',
  wf s -> (x < length s)%nat -> (y < length s)%nat ->
  unify fuel s x y = Ok s' ->
  wf s' /\ length s' = length s /\ (nroots s' <= nroots s)%nat /\
  (forall al, sat al s' -> sat al s /\ al x = al y).
Proof.
  induction fuel as [|f IH]; intros s x y s' W Hx Hy U; [discriminate|].
  cbn [unify] in U.
  pose proof (find_root s x W Hx) as Rx. pose proof (find_root s y W Hy) as Ry.
  pose proof (find_lt s x W Hx) as Lx. pose proof (find_lt s y W Hy) as Ly.
  assert (FS : forall al, sat al s -> al x = al (find s x) /\ al y = al (find s y)).
  { intros al S. split; symmetry; apply find_sat; auto. }
  set (rx := find s x) in *. set (ry := find s y) in *.
  destruct (Nat.eqb rx ry) eqn:Eq.
  { apply Nat.eqb_eq in Eq. injection U as <-. repeat split; auto.
    destruct (FS al H) as [-> ->]. rewrite Eq. reflexivity. }
  apply Nat.eqb_neq in Eq.
  (* lo and hi are the two distinct roots, lo < hi *)
  assert (exists lo hi, Nat.min rx ry = lo /\ Nat.max rx ry = hi /\ (lo < hi)%nat /\
            (lo < length s)%nat /\ (hi < length s)%nat /\ is_root s lo /\ is_root s hi /\
            (forall al : valuation, al hi = al lo -> al rx = al ry)) as (lo & hi & El & Eh & Llh & Llo & Lhi & Rlo & Rhi & Eqv).
  { destruct (Nat.lt_ge_cases rx ry).
    - exists rx, ry. rewrite Nat.min_l, Nat.max_r by lia. repeat split; auto.
    - exists ry, rx. rewrite Nat.min_r, Nat.max_l by lia. repeat split; auto; lia. }
  rewrite El, Eh in U. clear El Eh.
  (* the linked store *)
  assert (Wl : forall b, wf_bnd (length s) lo b -> wf (supd (supd s lo b) hi (BLink lo))).
  { intros b Hb. apply wf_supd; [apply wf_supd; auto|rewrite supd_length; exact Lhi|cbn; exact Llh]. }
  assert (W1 : wf (supd s hi (BLink lo))) by (apply wf_supd; auto; cbn; exact Llh).
  assert (N1 : (nroots (supd s hi (BLink lo)) + 1 = nroots s)%nat).
  { pose proof (nroots_supd s hi (BLink lo) Lhi) as N. unfold is_root in Rhi.
    destruct (sget s hi); cbn in *; try tauto; lia. }
  (* sat of the linked store gives sat of the old one when the bound of hi holds for lo *)
  assert (S1 : forall al, sat al (supd s hi (BLink lo)) -> holds al lo (sget s hi) -> sat al s /\ al hi = al lo).
  { intros al S Hh.
    assert (E : al hi = al lo).
    { pose proof (S hi ltac:(rewrite supd_length; exact Lhi)) as Sh.
      rewrite sget_supd_eq in Sh by exact Lhi. exact Sh. }
    split; [|exact E]. intros v Hv. destruct (Nat.eq_dec hi v) as [<-|Nv].
    - destruct (sget s hi); cbn in *; congruence.
    - pose proof (S v ltac:(rewrite supd_length; exact Hv)) as Sv.
      rewrite sget_supd_neq in Sv by exact Nv. exact Sv. }
  assert (Fin : forall al, sat al s -> al hi = al lo -> sat al s /\ al x = al y).
  { intros al S E. split; [exact S|]. destruct (FS al S) as [-> ->]. apply Eqv. exact E. }
  destruct (sget s lo) as [|wl| |a b|a b] eqn:Elo.
  - (* lo free: copy the bound of hi *)
    injection U as <-.
    assert (Hb : wf_bnd (length s) lo (sget s hi)) by (apply wf_bnd_root; auto).
    split; [apply Wl; exact Hb|]. split; [rewrite !supd_length; reflexivity|]. split.
    { pose proof (nroots_supd (supd s lo (sget s hi)) hi (BLink lo) ltac:(rewrite supd_length; exact Lhi)) as N.
      rewrite sget_supd_neq in N by lia.
      pose proof (nroots_supd s lo (sget s hi) Llo) as N2. rewrite Elo in N2.
      unfold is_root in Rhi. destruct (sget s hi); cbn in *; try tauto; lia. }
    intros al S.
    assert (E : al hi = al lo).
    { pose proof (S hi ltac:(rewrite !supd_length; exact Lhi)) as Sh.
      rewrite sget_supd_eq in Sh by (rewrite supd_length; exact Lhi). exact Sh. }
    assert (Hlo : holds al lo (sget s hi)).
    { pose proof (S lo ltac:(rewrite !supd_length; exact Llo)) as Sl.
      rewrite sget_supd_neq in Sl by lia. rewrite sget_supd_eq in Sl by exact Llo. exact Sl. }
    apply Fin; [|exact E].
    intros v Hv. destruct (Nat.eq_dec hi v) as [<-|Nh].
    + destruct (sget s hi); cbn in *; congruence.
    + destruct (Nat.eq_dec lo v) as [<-|Nl]; [rewrite Elo; exact I|].
      pose proof (S v ltac:(rewrite !supd_length; exact Hv)) as Sv.
      rewrite !sget_supd_neq in Sv by assumption. exact Sv.
  - unfold is_root in Rlo. rewrite Elo in Rlo. tauto.
  - (* lo unit *)
    destruct (sget s hi) as [|wh| |c d|c d] eqn:Ehi; try discriminate; injection U as <-.
    + split; [exact W1|]. split; [apply supd_length|]. split; [lia|].
      intros al S. destruct (S1 al S I) as [S0 E]. apply Fin; assumption.
    + split; [exact W1|]. split; [apply supd_length|]. split; [lia|].
      intros al S.
      assert (Hlo : al lo = One).
      { pose proof (S lo ltac:(rewrite supd_length; exact Llo)) as Sl.
        rewrite sget_supd_neq in Sl by lia. rewrite Elo in Sl. exact Sl. }
      destruct (S1 al S Hlo) as [S0 E]. apply Fin; assumption.
  - (* lo sum *)
    destruct (sget s hi) as [|wh| |c d|c d] eqn:Ehi; try discriminate.
    + injection U as <-. split; [exact W1|]. split; [apply supd_length|]. split; [lia|].
      intros al S. destruct (S1 al S I) as [S0 E]. apply Fin; assumption.
    + pose proof (W lo Llo) as Wlo. rewrite Elo in Wlo. cbn in Wlo.
      pose proof (W hi Lhi) as Whi. rewrite Ehi in Whi. cbn in Whi.
      destruct (unify f (supd s hi (BLink lo)) a c) as [s2| | |] eqn:U2; cbn [obind] in U; try discriminate.
      destruct (IH (supd s hi (BLink lo)) a c s2 W1 ltac:(rewrite supd_length; tauto) ltac:(rewrite supd_length; tauto) U2)
        as (W2 & L2 & N2 & A2).
      rewrite supd_length in L2.
      destruct (IH s2 b d s' W2 ltac:(rewrite L2; tauto) ltac:(rewrite L2; tauto) U)
        as (W3 & L3 & N3 & A3).
      split; [exact W3|]. split; [congruence|]. split; [lia|].
      intros al S. destruct (A3 al S) as [S2 Ebd]. destruct (A2 al S2) as [S1' Eac].
      assert (Hlo : al lo = Sum (al a) (al b)).
      { pose proof (S1' lo ltac:(rewrite supd_length; exact Llo)) as Sl.
        rewrite sget_supd_neq in Sl by lia. rewrite Elo in Sl. exact Sl. }
      assert (Hh : holds al lo (BSum c d)) by (cbn; rewrite Hlo, Eac, Ebd; reflexivity).
      destruct (S1 al S1' Hh) as [S0 E]. apply Fin; assumption.
  - (* lo product *)
    destruct (sget s hi) as [|wh| |c d|c d] eqn:Ehi; try discriminate.
    + injection U as <-. split; [exact W1|]. split; [apply supd_length|]. split; [lia|].
      intros al S. destruct (S1 al S I) as [S0 E]. apply Fin; assumption.
    + pose proof (W lo Llo) as Wlo. rewrite Elo in Wlo. cbn in Wlo.
      pose proof (W hi Lhi) as Whi. rewrite Ehi in Whi. cbn in Whi.
      destruct (unify f (supd s hi (BLink lo)) a c) as [s2| | |] eqn:U2; cbn [obind] in U; try discriminate.
      destruct (IH (supd s hi (BLink lo)) a c s2 W1 ltac:(rewrite supd_length; tauto) ltac:(rewrite supd_length; tauto) U2)
        as (W2 & L2 & N2 & A2).
      rewrite supd_length in L2.
      destruct (IH s2 b d s' W2 ltac:(rewrite L2; tauto) ltac:(rewrite L2; tauto) U)
        as (W3 & L3 & N3 & A3).
      split; [exact W3|]. split; [congruence|]. split; [lia|].
      intros al S. destruct (A3 al S) as [S2 Ebd]. destruct (A2 al S2) as [S1' Eac].
      assert (Hlo : al lo = Prod (al a) (al b)).
      { pose proof (S1' lo ltac:(rewrite supd_length; exact Llo)) as Sl.
        rewrite sget_supd_neq in Sl by lia. rewrite Elo in Sl. exact Sl. }
      assert (Hh : holds al lo (BProd c d)) by (cbn; rewrite Hlo, Eac, Ebd; reflexivity).
      destruct (S1 al S1' Hh) as [S0 E]. apply Fin; assumption.
Qed.

(* ------------------------------------------------------------------ completeness and totality of unify *)

Lemma sat_link s lo hi al : sat al s -> (hi < length s)%nat -> al hi = al lo -> sat al (supd s hi (BLink lo)).
Proof.
  intros S Lhi E v Hv. rewrite supd_length in Hv. destruct (Nat.eq_dec hi v) as [<-|N].
  - rewrite sget_supd_eq by exact Lhi. exact E.
  - rewrite sget_supd_neq by exact N. apply S. exact Hv.
Qed.

Lemma unify_complete : forall fuel s x y al,
  wf s -> (x < length s)%nat -> (y < length s)%nat -> (nroots s < fuel)%nat ->
  sat al s -> al x = al y ->
  exists s', unify fuel s x y = Ok s' /\ sat al s'.
Proof.
  induction fuel as [|f IH]; intros s x y al W Hx Hy Hf S E; [lia|].
  cbn [unify].
  pose proof (find_root s x W Hx) as Rx. pose proof (find_root s y W Hy) as Ry.
  pose proof (find_lt s x W Hx) as Lx. pose proof (find_lt s y W Hy) as Ly.
  assert (Er : al (find s x) = al (find s y)).
  { rewrite (find_sat s x al W Hx S), (find_sat s y al W Hy S). exact E. }
  set (rx := find s x) in *. set (ry := find s y) in *.
  destruct (Nat.eqb rx ry) eqn:Eq; [eexists; split; [reflexivity|exact S]|].
  apply Nat.eqb_neq in Eq.
  assert (exists lo hi, Nat.min rx ry = lo /\ Nat.max rx ry = hi /\ (lo < hi)%nat /\
            (lo < length s)%nat /\ (hi < length s)%nat /\ is_root s lo /\ is_root s hi /\
            al hi = al lo) as (lo & hi & El & Eh & Llh & Llo & Lhi & Rlo & Rhi & Ehl).
  { destruct (Nat.lt_ge_cases rx ry).
    - exists rx, ry. rewrite Nat.min_l, Nat.max_r by lia. repeat split; auto.
    - exists ry, rx. rewrite Nat.min_r, Nat.max_l by lia. repeat split; auto; lia. }
  rewrite El, Eh. clear El Eh.
  pose proof (S lo Llo) as Slo. pose proof (S hi Lhi) as Shi.
  assert (S1 : sat al (supd s hi (BLink lo))) by (apply sat_link; assumption).
  assert (W1 : wf (supd s hi (BLink lo))) by (apply wf_supd; auto; cbn; exact Llh).
  assert (N1 : (nroots (supd s hi (BLink lo)) + 1 = nroots s)%nat).
  { pose proof (nroots_supd s hi (BLink lo) Lhi) as N. unfold is_root in Rhi.
    destruct (sget s hi); cbn in *; try tauto; lia. }
  destruct (sget s lo) as [|wl| |a b|a b] eqn:Elo.
  - eexists; split; [reflexivity|].
    apply sat_link; [|rewrite supd_length; exact Lhi|exact Ehl].
    intros v Hv. rewrite supd_length in Hv. destruct (Nat.eq_dec lo v) as [<-|N].
    + rewrite sget_supd_eq by exact Llo. destruct (sget s hi); cbn in *; congruence.
    + rewrite sget_supd_neq by exact N. apply S. exact Hv.
  - unfold is_root in Rlo. rewrite Elo in Rlo. tauto.
  - cbn in Slo. destruct (sget s hi) as [|wh| |c d|c d] eqn:Ehi; cbn in Shi;
      try (eexists; split; [reflexivity|exact S1]); try congruence.
    unfold is_root in Rhi. rewrite Ehi in Rhi. tauto.
  - cbn in Slo. destruct (sget s hi) as [|wh| |c d|c d] eqn:Ehi; cbn in Shi;
      try (eexists; split; [reflexivity|exact S1]); try congruence.
    + unfold is_root in Rhi. rewrite Ehi in Rhi. tauto.
    + pose proof (W lo Llo) as Wlo. rewrite Elo in Wlo. cbn in Wlo.
      pose proof (W hi Lhi) as Whi. rewrite Ehi in Whi. cbn in Whi.
      assert (Eac : al a = al c /\ al b = al d) by (split; congruence).
      destruct (IH (supd s hi (BLink lo)) a c al W1 ltac:(rewrite supd_length; tauto)
                  ltac:(rewrite supd_length; tauto) ltac:(lia) S1 (proj1 Eac)) as (s2 & U2 & S2).
      rewrite U2. cbn [obind].
      destruct (unify_sound f (supd s hi (BLink lo)) a c s2 W1 ltac:(rewrite supd_length; tauto)
                  ltac:(rewrite supd_length; tauto) U2) as (W2 & L2 & N2 & _).
      rewrite supd_length in L2.
      apply IH; auto; try (rewrite L2; tauto); lia || exact (proj2 Eac).
  - cbn in Slo. destruct (sget s hi) as [|wh| |c d|c d] eqn:Ehi; cbn in Shi;
      try (eexists; split; [reflexivity|exact S1]); try congruence.
    + unfold is_root in Rhi. rewrite Ehi in Rhi. tauto.
    + pose proof (W lo Llo) as Wlo. rewrite Elo in Wlo. cbn in Wlo.
      pose proof (W hi Lhi) as Whi. rewrite Ehi in Whi. cbn in Whi.
      assert (Eac : al a = al c /\ al b = al d) by (split; congruence).
      destruct (IH (supd s hi (BLink lo)) a c al W1 ltac:(rewrite supd_length; tauto)
                  ltac:(rewrite supd_length; tauto) ltac:(lia) S1 (proj1 Eac)) as (s2 & U2 & S2).
      rewrite U2. cbn [obind].
      destruct (unify_sound f (supd s hi (BLink lo)) a c s2 W1 ltac:(rewrite supd_length; tauto)
                  ltac:(rewrite supd_length; tauto) U2) as (W2 & L2 & N2 & _).
      rewrite supd_length in L2.
      apply IH; auto; try (rewrite L2; tauto); lia || exact (proj2 Eac).
Qed.

Definition no_fuel_panic {E A} (o : outcome E A) : Prop :=
  match o with OutOfFuel | Panic _ => False | _ => True end.

Lemma unify_total : forall fuel s x y,
  wf s -> (x < length s)%nat -> (y < length s)%nat -> (nroots s < fuel)%nat ->
  no_fuel_panic (unify fuel s x y).
Proof.
  induction fuel as [|f IH]; intros s x y W Hx Hy Hf; [lia|].
  cbn [unify].
  pose proof (find_root s x W Hx) as Rx. pose proof (find_root s y W Hy) as Ry.
  pose proof (find_lt s x W Hx) as Lx. pose proof (find_lt s y W Hy) as Ly.
  set (rx := find s x) in *. set (ry := find s y) in *.
  destruct (Nat.eqb rx ry) eqn:Eq; [exact I|].
  apply Nat.eqb_neq in Eq.
  assert (exists lo hi, Nat.min rx ry = lo /\ Nat.max rx ry = hi /\ (lo < hi)%nat /\
            (lo < length s)%nat /\ (hi < length s)%nat /\ is_root s lo /\ is_root s hi)
    as (lo & hi & El & Eh & Llh & Llo & Lhi & Rlo & Rhi).
  { destruct (Nat.lt_ge_cases rx ry).
    - exists rx, ry. rewrite Nat.min_l, Nat.max_r by lia. repeat split; auto.
    - exists ry, rx. rewrite Nat.min_r, Nat.max_l by lia. repeat split; auto; lia. }
  rewrite El, Eh. clear El Eh.
  assert (W1 : wf (supd s hi (BLink lo))) by (apply wf_supd; auto; cbn; exact Llh).
  assert (N1 : (nroots (supd s hi (BLink lo)) + 1 = nroots s)%nat).
  { pose proof (nroots_supd s hi (BLink lo) Lhi) as N. unfold is_root in Rhi.
    destruct (sget s hi); cbn in *; try tauto; lia. }
  pose proof (W lo Llo) as Wlo. pose proof (W hi Lhi) as Whi.
  destruct (sget s lo) as [|wl| |a b|a b] eqn:Elo; try exact I;
    destruct (sget s hi) as [|wh| |c d|c d] eqn:Ehi; try exact I; cbn in Wlo, Whi.
  - pose proof (IH (supd s hi (BLink lo)) a c W1 ltac:(rewrite supd_length; tauto)
                  ltac:(rewrite supd_length; tauto) ltac:(lia)) as T1.
    destruct (unify f (supd s hi (BLink lo)) a c) as [s2| | |] eqn:U2; cbn [obind]; try exact I; try contradiction.
    destruct (unify_sound f (supd s hi (BLink lo)) a c s2 W1 ltac:(rewrite supd_length; tauto)
                ltac:(rewrite supd_length; tauto) U2) as (W2 & L2 & N2 & _).
    rewrite supd_length in L2. apply IH; auto; try (rewrite L2; tauto); lia.
  - pose proof (IH (supd s hi (BLink lo)) a c W1 ltac:(rewrite supd_length; tauto)
                  ltac:(rewrite supd_length; tauto) ltac:(lia)) as T1.
    destruct (unify f (supd s hi (BLink lo)) a c) as [s2| | |] eqn:U2; cbn [obind]; try exact I; try contradiction.
    destruct (unify_sound f (supd s hi (BLink lo)) a c s2 W1 ltac:(rewrite supd_length; tauto)
                ltac:(rewrite supd_length; tauto) U2) as (W2 & L2 & N2 & _).
    rewrite supd_length in L2. apply IH; auto; try (rewrite L2; tauto); lia.
Qed.

(* ------------------------------------------------------------------ solving a list of equations *)

Definition eqs_in (n : nat) (eqs : list (nat * nat)) : Prop :=
  forall x y, In (x, y) eqs -> (x < n)%nat /\ (y < n)%nat.

Definition eqs_hold (al : valuation) (eqs : list (nat * nat)) : Prop :=
  forall x y, In (x, y) eqs -> al x = al y.

Lemma solve_sound : forall eqs s s', wf s -> eqs_in (length s) eqs -> solve s eqs = Ok s' ->
  wf s' /\ length s' = length s /\ (forall al, sat al s' -> sat al s /\ eqs_hold al eqs).
Proof.
  induction eqs as [|[x y] r IH]; intros s s' W In_ U.
  - injection U as <-. repeat split; auto. intros ? ? [].
  - cbn [solve] in U. destruct (unify_top s x y) as [s1| | |] eqn:U1; cbn [obind] in U; try discriminate.
    destruct (In_ x y (or_introl eq_refl)) as [Hx Hy].
    destruct (unify_sound _ _ _ _ _ W Hx Hy U1) as (W1 & L1 & _ & A1).
    destruct (IH s1 s' W1) as (W2 & L2 & A2); [rewrite L1; intros a b Hab; apply In_; right; exact Hab|exact U|].
    split; [exact W2|]. split; [congruence|].
    intros al S. destruct (A2 al S) as [S1 Er]. destruct (A1 al S1) as [S0 Exy].
    split; [exact S0|]. intros a b [Hab|Hab]; [injection Hab as <- <-; exact Exy|apply Er; exact Hab].
Qed.

Lemma solve_complete : forall eqs s al, wf s -> eqs_in (length s) eqs -> sat al s -> eqs_hold al eqs ->
  exists s', solve s eqs = Ok s' /\ sat al s'.
Proof.
  induction eqs as [|[x y] r IH]; intros s al W In_ Sa E.
  - eexists; split; [reflexivity|exact Sa].
  - cbn [solve]. destruct (In_ x y (or_introl eq_refl)) as [Hx Hy].
    destruct (unify_complete (S (nroots s)) s x y al W Hx Hy ltac:(lia) Sa (E x y (or_introl eq_refl)))
      as (s1 & U1 & S1).
    unfold unify_top. rewrite U1. cbn [obind].
    destruct (unify_sound _ _ _ _ _ W Hx Hy U1) as (W1 & L1 & _ & _).
    apply IH; auto.
    + rewrite L1. intros a b Hab. apply In_. right. exact Hab.
    + intros a b Hab. apply E. right. exact Hab.
Qed.

Lemma solve_total : forall eqs s, wf s -> eqs_in (length s) eqs -> no_fuel_panic (solve s eqs).
Proof.
  induction eqs as [|[x y] r IH]; intros s W In_; [exact I|].
  cbn [solve]. destruct (In_ x y (or_introl eq_refl)) as [Hx Hy].
  pose proof (unify_total (S (nroots s)) s x y W Hx Hy ltac:(lia)) as T.
  unfold unify_top. destruct (unify (S (nroots s)) s x y) as [s1| | |] eqn:U1; cbn [obind]; try exact I; try contradiction.
  destruct (unify_sound _ _ _ _ _ W Hx Hy U1) as (W1 & L1 & _ & _).
  apply IH; auto. rewrite L1. intros a b Hab. apply In_. right. exact Hab.
Qed.
