//! C18: the DAG iterators of src/dag.rs on table-backed DAGs.
//! Output format mirrors coq/Dag/Run.v (`run_dag`).
//!
//! case kinds
//!   dag  <root> <table> <mode> <keys> <max_depth>
//!        table     : nodes separated by ',' : `0` | `1:c` | `2:l:r` (children = smaller positions)
//!        mode      : 0 = dag::NoSharing, 1 = dag::InternalSharing (both from the library),
//!                    2 = KeyedSharing (harness tracker keyed by <keys>, the shape of MaxSharing)
//!        keys      : per node `x` (no sharing id) or a number, separated by ','  (`-` = none given)
//!        max_depth : `-` or a number (VerbosePreOrderIter)
//!   prog <root> <table>
//!        the same table built as a real CommitNode program (unit / injl / pair) with `Arc`
//!        sharing equal to the table, iterated with MaxSharing<Commit> (sharing id = IHR),
//!        InternalSharing and NoSharing; nodes are reported as table positions.
//!   progs <root> <table> <max_depth>
//!        as prog, but only MaxSharing and InternalSharing (for tables whose tree expansion is
//!        astronomically large: an iterator that expands shared nodes does not terminate there).
//!
//! result: five sections  post, rtl, pre, verbose-pre, is_shared_as; a section is
//!   `0 <len> <items..>` or `9` (panic); post/rtl item = node index left+1|0 right+1|0;
//!   pre item = node; verbose item = node parent+1|0 index depth n_children_yielded complete;
//!   is_shared_as = `0 <bool>`.
use crate::util::*;
use simplicity::dag::{
    Dag, DagLike, InternalSharing, MaxSharing, NoSharing, PostOrderIterItem, PreOrderIterItem,
    SharingTracker,
};
use simplicity::node::{Commit, CommitNode, ConstructNode, CoreConstructible};
use simplicity::types;
use std::cell::RefCell;
use std::collections::hash_map::Entry;
use std::collections::HashMap;
use std::sync::Arc;

#[derive(Debug, Clone, Copy)]
pub enum Kind {
    Nul,
    Un(usize),
    Bin(usize, usize),
}

/// One entry of the node table; it knows its own position so that a tracker (which only
/// gets `&D`, possibly wrapped in `SwapChildren`) can find the node's key.
#[derive(Debug)]
pub struct Shape {
    id: usize,
    kind: Kind,
}

/// Table-backed DAG reference: (position, table) - the pattern decode.rs uses for
/// `(usize, &[DecodeNode])`.
#[derive(Clone, Copy, Debug)]
pub struct TD<'a>(usize, &'a [Shape]);

impl<'a> DagLike for TD<'a> {
    type Node = Shape;

    fn data(&self) -> &Shape {
        &self.1[self.0]
    }

    fn as_dag_node(&self) -> Dag<Self> {
        match self.1[self.0].kind {
            Kind::Nul => Dag::Nullary,
            Kind::Un(i) => Dag::Unary(TD(i, self.1)),
            Kind::Bin(i, j) => Dag::Binary(TD(i, self.1), TD(j, self.1)),
        }
    }
}

thread_local! {
    static KEYS: RefCell<Vec<Option<u64>>> = RefCell::new(Vec::new());
}

/// Sharing by a harness-supplied identity key per node (the shape of `MaxSharing`:
/// nodes without a key are never shared).
pub struct KeyedSharing {
    keys: Vec<Option<u64>>,
    map: HashMap<u64, usize>,
}

impl Default for KeyedSharing {
    fn default() -> Self {
        KeyedSharing {
            keys: KEYS.with(|k| k.borrow().clone()),
            map: HashMap::new(),
        }
    }
}

impl<D: DagLike<Node = Shape>> SharingTracker<D> for KeyedSharing {
    fn record(&mut self, d: &D, index: usize) -> Option<usize> {
        let id = self.keys[d.data().id]?;
        match self.map.entry(id) {
            Entry::Occupied(occ) => Some(*occ.get()),
            Entry::Vacant(vac) => {
                vac.insert(index);
                None
            }
        }
    }
    fn seen_before(&self, d: &D) -> Option<usize> {
        self.keys[d.data().id].and_then(|id| self.map.get(&id)).copied()
    }
}

fn parse_table(s: &str) -> Vec<Shape> {
    s.split(',')
        .enumerate()
        .map(|(id, t)| {
            let p: Vec<usize> = t.split(':').map(|x| x.parse().expect("number")).collect();
            let kind = match p[0] {
                0 => Kind::Nul,
                1 => Kind::Un(p[1]),
                2 => Kind::Bin(p[1], p[2]),
                _ => panic!("arity"),
            };
            Shape { id, kind }
        })
        .collect()
}

fn opt(o: Option<usize>) -> u64 {
    match o {
        Some(i) => i as u64 + 1,
        None => 0,
    }
}

fn section(v: Option<Vec<u64>>, width: usize) -> String {
    match v {
        Some(v) => {
            let mut out = vec![0u64, (v.len() / width) as u64];
            out.extend(v);
            join(&out)
        }
        None => "9".to_string(),
    }
}

/// The five observations for one DAG reference type `D`, tracker `S` (and the matching
/// tracker type `R` for the SwapChildren-wrapped iterator); `id` maps a node to its position.
fn observe<D, S, F>(root: D, max_depth: Option<usize>, id: F) -> String
where
    D: DagLike + Clone,
    S: SharingTracker<D> + SharingTracker<simplicity::dag::SwapChildren<D>> + Default,
    F: Fn(&D) -> usize + Copy,
{
    let item = |it: &PostOrderIterItem<D>, out: &mut Vec<u64>| {
        out.push(id(&it.node) as u64);
        out.push(it.index as u64);
        out.push(opt(it.left_index));
        out.push(opt(it.right_index));
    };
    let r1 = root.clone();
    let post = guarded(move || {
        let mut out = vec![];
        for it in r1.post_order_iter::<S>() {
            item(&it, &mut out);
        }
        out
    });
    let r2 = root.clone();
    let rtl = guarded(move || {
        let mut out = vec![];
        for it in r2.rtl_post_order_iter::<S>() {
            item(&it, &mut out);
        }
        out
    });
    let r3 = root.clone();
    let pre = guarded(move || {
        let mut out = vec![];
        for n in r3.pre_order_iter::<S>() {
            out.push(id(&n) as u64);
        }
        out
    });
    let r4 = root.clone();
    let vpre = guarded(move || {
        let mut out = vec![];
        for it in r4.verbose_pre_order_iter::<S>(max_depth) {
            let it: PreOrderIterItem<D> = it;
            out.push(id(&it.node) as u64);
            out.push(opt(it.parent.as_ref().map(id)));
            out.push(it.index as u64);
            out.push(it.depth as u64);
            out.push(it.n_children_yielded as u64);
            out.push(it.is_complete as u64);
        }
        out
    });
    let r5 = root;
    let isa = guarded(move || r5.is_shared_as::<S>());
    format!(
        "{} {} {} {} {}",
        section(post, 4),
        section(rtl, 4),
        section(pre, 1),
        section(vpre, 6),
        match isa {
            Some(b) => format!("0 {}", b as u64),
            None => "9".to_string(),
        }
    )
}

fn run_dag(t: &[&str]) -> String {
    let root: usize = t[0].parse().expect("root");
    let table = parse_table(t[1]);
    let mode: u32 = t[2].parse().expect("mode");
    let keys: Vec<Option<u64>> = if t[3] == "-" {
        vec![None; table.len()]
    } else {
        t[3].split(',')
            .map(|x| if x == "x" { None } else { Some(x.parse().expect("key")) })
            .collect()
    };
    let max_depth: Option<usize> = if t[4] == "-" {
        None
    } else {
        Some(t[4].parse().expect("depth"))
    };
    KEYS.with(|k| *k.borrow_mut() = keys);
    let d = TD(root, &table);
    let id = |n: &TD| n.0;
    match mode {
        0 => observe::<TD, NoSharing, _>(d, max_depth, id),
        1 => observe::<TD, InternalSharing, _>(d, max_depth, id),
        2 => observe::<TD, KeyedSharing, _>(d, max_depth, id),
        _ => panic!("mode"),
    }
}

/// Build the table as a real program: Nul -> unit, Un -> injl, Bin -> pair; every node has the
/// same source type, so any table is well-typed; `Arc` sharing = the table's sharing.
fn run_prog(t: &[&str], with_nosharing: bool) -> String {
    let root: usize = t[0].parse().expect("root");
    let table = parse_table(t[1]);
    let max_depth: Option<usize> = if t[2] == "-" {
        None
    } else {
        Some(t[2].parse().expect("depth"))
    };
    let res = guarded(|| {
        types::Context::with_context(|ctx| {
            let mut nodes: Vec<Arc<ConstructNode>> = Vec::with_capacity(table.len());
            for s in &table {
                let n = match s.kind {
                    Kind::Nul => Arc::<ConstructNode>::unit(&ctx),
                    Kind::Un(i) => Arc::<ConstructNode>::injl(&nodes[i]),
                    Kind::Bin(i, j) => {
                        Arc::<ConstructNode>::pair(&nodes[i], &nodes[j]).expect("pair")
                    }
                };
                nodes.push(n);
            }
            nodes[root].finalize_types_non_program().expect("finalize")
        })
    });
    let commit: Arc<CommitNode> = match res {
        Some(c) => c,
        None => return "9".to_string(),
    };
    // positions of the commit nodes: finalisation preserves the pointer structure of the part
    // reachable from the root; walk both structures in lock step (pointer sharing) to name them
    let mut names: HashMap<usize, usize> = HashMap::new();
    {
        let d = TD(root, &table);
        let a: Vec<usize> = d.post_order_iter::<InternalSharing>().map(|it| it.node.0).collect();
        let b: Vec<usize> = commit
            .as_ref()
            .post_order_iter::<InternalSharing>()
            .map(|it| it.node as *const _ as usize)
            .collect();
        if a.len() != b.len() {
            return format!("6 {} {}", a.len(), b.len());
        }
        for (x, y) in a.iter().zip(b.iter()) {
            names.insert(*y, *x);
        }
    }
    let names = &names;
    let id = move |n: &&CommitNode| names[&(*n as *const _ as usize)];
    let c: &CommitNode = commit.as_ref();
    if !with_nosharing {
        return format!(
            "{} {}",
            observe::<&CommitNode, MaxSharing<Commit>, _>(c, max_depth, id),
            observe::<&CommitNode, InternalSharing, _>(c, max_depth, id)
        );
    }
    format!(
        "{} {} {}",
        observe::<&CommitNode, MaxSharing<Commit>, _>(c, max_depth, id),
        observe::<&CommitNode, InternalSharing, _>(c, max_depth, id),
        observe::<&CommitNode, NoSharing, _>(c, max_depth, id)
    )
}

pub fn run(t: &[&str]) -> String {
    match t[0] {
        "dag" => run_dag(&t[1..]),
        "prog" => run_prog(&t[1..], true),
        "progs" => run_prog(&t[1..], false),
        _ => panic!("unknown case kind"),
    }
}
