(* C04, phase 3 - layers (d) + (e) assembled at the level of the executable entry points.

     run_refines_partial   for EVERY input (finalisation mode, program flag, construction order, jets, node table):
                           if the slab run (RunSlab.run_rinfer) does not end in Panic / OutOfFuel, then
                             strip99 (run_rinfer ..) = run_infer ..
                           - shape errors, Error::Bind with its stage, Error::OccursCheck, and success with the same
                           arrow of every node - with ONE case left open: the reference reports OccursCheck and the slab
                           model finalises every arrow (a cycle among classes that no node arrow reaches).

   So of C04_slab_refines_reference_statement what is not proved is exactly: (i) the slab model never ends in
   Panic / OutOfFuel, (ii) every class of the state after construction is reachable from a node arrow (or complete). *)
From RS Require Import Lib.Tac Lib.Outcome Lib.Sweep Ty.Ty Core.Prog Infer.Constraints Infer.Unify Infer.Infer Infer.Gen Infer.Theorems
  Infer.Principal Infer.Order Infer.Run Infer.Run2 Infer.UnionFind Infer.Slab Infer.RunSlab Infer.SlabProofs Infer.Rational Infer.ErrClass
  Infer.SlabSim Infer.SlabSimInst Infer.SlabPrims Infer.SlabNodes Infer.SlabNodes2 Infer.SlabNodes3 Infer.SlabNodes4 Infer.SlabNodes5
  Infer.SlabConstruct Infer.SlabResult Infer.SlabRun Infer.SlabFin Infer.SlabFinK.
Import ListNotations.
Local Open Scope outcome_scope.

Lemma strip99_step x y z l : strip99 (x :: y :: z :: l) = x :: strip99 (y :: z :: l).
Proof.
  cbn [strip99]. destruct x as [|pp]; [reflexivity|].
  repeat (destruct pp as [pp|pp|]; try reflexivity).
Qed.

Lemma strip99_app : forall X z, strip99 (X ++ [99; z]%N) = X.
Proof.
  induction X as [|x X IH]; intros z; [reflexivity|].
  cbn [app]. destruct (X ++ [99%N; z]) as [|y [|w l]] eqn:E.
  - destruct X; discriminate.
  - destruct X as [|? [|? ?]]; discriminate.
  - rewrite strip99_step, <- E, IH. reflexivity.
Qed.

Lemma flat_map_map {A B C} (f : B -> list C) (g : A -> B) l : flat_map f (map g l) = flat_map (fun x => f (g x)) l.
Proof. induction l as [|x r IH]; cbn [map flat_map]; [reflexivity|rewrite IH; reflexivity]. Qed.

Theorem run_refines_partial : forall (fmode : nat) (program : bool) (order : list nat)
    (jets : list (N * N * list N * list N)) (p : prog),
  let a := run_infer program order jets p in
  let b := run_rinfer fmode program order jets p in
  (forall k, b <> [9; k]%N) -> b <> [8]%N ->
  strip99 b = a \/ (a = [1; 22; 2]%N /\ exists l, b = 0%N :: l).
Proof.
  intros fmode program order jets p a b NP NF. subst a b. unfold run_infer, run_rinfer in *.
  set (n := length p) in *.
  set (order' := match order with [] => seq 0 n | _ => order end) in *.
  destruct (valid_order n order') eqn:V; cbn [negb] in *; [|left; reflexivity].
  set (pos := pos_of order') in *. set (jt := jets_of jets) in *. set (p' := permute p order') in *.
  assert (Lp' : length p' = n).
  { unfold p', permute. rewrite map_length. unfold valid_order in V. apply andb_true_iff in V. destruct V as [VL _]. apply Nat.eqb_eq in VL. exact VL. }
  assert (Hd : match nth (n - 1) p NIden with NHidden _ => true | _ => false end = is_hidden (nth (n - 1) p NIden)) by reflexivity.
  rewrite Hd in *. clear Hd.
  destruct (gen jt p') as [g|] eqn:G.
  2:{ left. unfold infer. rewrite G. reflexivity. }
  destruct (gen_nodes_inv jt p' empty_g g ginv_empty G) as (Ig & _).
  set (rootopt := if program then Some (pos (n - 1)%nat) else None) in *.
  assert (Hroot : (0 < n)%nat -> (arr_of (g_arr g) (pos (n - 1)%nat) = None <-> is_hidden (nth (n - 1) p NIden) = true)).
  { intros Hn. destruct (pos_of_valid n order' (n - 1) V ltac:(lia)) as [Lpos _]. fold pos in Lpos.
    pose proof (gen_arr_hidden jt p' empty_g g ginv_empty G (pos (n - 1)%nat) ltac:(lia)) as HH. cbn [empty_g g_arr length Nat.add] in HH.
    rewrite HH. unfold p', pos. rewrite (permute_nth p order' n (n - 1) V ltac:(lia)), is_hidden_rename. tauto. }
  destruct (root_tmpl g rootopt) as [[rb re]|] eqn:R.
  - assert (Chk : (program && is_hidden (nth (n - 1) p NIden))%bool = false).
    { destruct program; [|reflexivity]. cbn [andb]. destruct (is_hidden (nth (n - 1) p NIden)) eqn:Hh; [|reflexivity]. exfalso.
      assert (Hn : (0 < n)%nat).
      { destruct p as [|x r]; [cbn in Hh; discriminate|cbn [length] in n; unfold n; lia]. }
      unfold rootopt in R. cbn [root_tmpl] in R. rewrite (proj2 (Hroot Hn) eq_refl) in R. discriminate. }
    rewrite Chk in *. rewrite r_infer_split in *.
    pose proof (construct_sim (model_fuel jt p) jt program p' (pos (n - 1)%nat) g rb re G R) as CS. fold rootopt in CS.
    pose proof (construct_result_spec (model_fuel jt p) jt program p' (pos (n - 1)%nat) g rb re) as RS.
    destruct (r_construct (model_fuel jt p) jt program p' (pos (n - 1)%nat)) as [[c ar]|[[|st ex nb|] ce]|k|]; cbn [obind show_rresult] in *;
      try (destruct CS; fail).
    + (* construction succeeded *)
      specialize (RS c ar G R eq_refl). cbv zeta in RS. fold rootopt in RS. destruct RS as (CW & ROk & _ & _).
      destruct CS as [(em & S0 & Ea & Ai) Cls].
      destruct Cls as [(tau & Ht)|Ht].
      * (* the reference accepts: the slab model finalises to the least model *)
        left. destruct (ROk tau Ht) as (be & LM & Etau).
        assert (I0 : Inv be c) by (split; [exact CW|split; [apply LM|apply least_frees_one; assumption]]).
        pose proof (r_finish_spec be fmode p' (map pos (seq 0 n)) (pos (n - 1)%nat) c ar I0 Ai) as F.
        rewrite Ht. cbn [show_result].
        destruct (r_finish fmode p' (map pos (seq 0 n)) (pos (n - 1)%nat) c ar) as [tau'|e|k|]; cbn [show_rresult] in *.
        -- rewrite F. cbn [app]. destruct (strip99_ok_head (flat_map show_arrow (map (fun i => img be (nth i ar None)) (map pos (seq 0 n))) ++ [99; 0]%N)) as (r0 & Er0).
           assert (Es : strip99 (0%N :: flat_map show_arrow (map (fun i => img be (nth i ar None)) (map pos (seq 0 n))) ++ [99; 0]%N) =
                        0%N :: flat_map show_arrow (map (fun i => img be (nth i ar None)) (map pos (seq 0 n)))).
           { set (X := flat_map show_arrow (map (fun i => img be (nth i ar None)) (map pos (seq 0 n)))).
             destruct X as [|x X'] eqn:EX; [reflexivity|].
             change (0%N :: (x :: X') ++ [99; 0]%N) with (0%N :: x :: X' ++ [99; 0]%N).
             destruct (X' ++ [99%N; 0%N]) as [|y l] eqn:E2; [destruct X'; discriminate|].
             rewrite strip99_step. f_equal. rewrite <- E2. change (x :: X' ++ [99; 0]%N) with ((x :: X') ++ [99; 0]%N). apply strip99_app. }
           rewrite Es. f_equal. rewrite !flat_map_map. apply flat_map_ext. intros i. f_equal.
           rewrite Etau. change (@None tarrow) with (img be None). rewrite map_nth. reflexivity.
        -- destruct F.
        -- exfalso. apply (NP k). reflexivity.
        -- exfalso. apply NF. reflexivity.
      * (* the reference reports the occurs check *)
        rewrite Ht. cbn [show_result].
        destruct (r_finish fmode p' (map pos (seq 0 n)) (pos (n - 1)%nat) c ar) as [tau'|[x cx]|k|] eqn:F; cbn [show_rresult] in *.
        -- right. split; [reflexivity|]. eexists. reflexivity.
        -- left. rewrite (r_finish_err _ _ _ _ _ _ _ _ F). reflexivity.
        -- exfalso. apply (NP k). reflexivity.
        -- exfalso. apply NF. reflexivity.
    + left. rewrite CS. cbn [show_result]. apply strip99_bind.
    + exfalso. apply (NP k). reflexivity.
    + exfalso. apply NF. reflexivity.
  - left.
    assert (Ea : infer jt rootopt p' = Err EShape) by (unfold infer; rewrite G, R; reflexivity).
    rewrite Ea. cbn [show_result].
    destruct program; [|discriminate R]. cbn [andb] in *. unfold rootopt in R. cbn [root_tmpl] in R.
    destruct (arr_of (g_arr g) (pos (n - 1)%nat)) as [[rs rt]|] eqn:Ar; [discriminate|].
    destruct (Nat.eq_dec n 0) as [N0|N0].
    + assert (Ep : p = []) by (destruct p; [reflexivity|cbn in n; unfold n in N0; lia]).
      assert (Eo : order' = []).
      { unfold valid_order in V. apply andb_true_iff in V. destruct V as [VL _]. apply Nat.eqb_eq in VL.
        destruct order'; [reflexivity|cbn in VL; lia]. }
      unfold p', pos, n in *. rewrite Eo. rewrite Ep. vm_compute. reflexivity.
    + rewrite (proj1 (Hroot ltac:(lia)) eq_refl). reflexivity.
Qed.
