(* C01 / C02 - the jet hypotheses of Codec/ProgCodec.v discharged for the real Core and Elements families:
   the code tables and decode trees translated from src/jet/init/{core,elements}.rs (Generated/Jets_core.v,
   Generated/Jets_elements.v, regenerated on every run) with the round-trip / completeness facts that C14
   proves about them (Jets/CheckCore.v, Jets/CheckElements.v).
   A jet is its position in `J::ALL`; Jet::encode is `write_bits_be(n, len)` = jet_code of the row;
   Jet::decode is the decode_bits! tree. *)
From RS Require Import Lib.Tac Lib.Outcome Lib.Bits Lib.Sweep Bits.Natural Jets.JetTable Jets.JetLemmas
  Jets.CheckCore Jets.CheckElements Generated.Jets_core Generated.Jets_elements
  Codec.NodeCodec Codec.ProgCodec.
Import ListNotations.
Local Open Scope N_scope.

Section Fam.
Variable fam : family.
Hypothesis fam_rt : forall j, In j (f_rows fam) -> forall r,
  decode (f_tree fam) (jet_code j ++ r) = Ok (j_idx j, r).
Hypothesis fam_complete : forall b i r, decode (f_tree fam) b = Ok (i, r) ->
  exists j, row_at fam i = Some j /\ j_idx j = i /\ b = jet_code j ++ r.
Hypothesis fam_idx : map j_idx (f_rows fam) = upto (length (f_rows fam)).

Definition fam_okb (j : N) : bool := j <? N.of_nat (length (f_rows fam)).
Definition fam_enc (j : N) : list bool :=
  match row_at fam j with Some r => jet_code r | None => [] end.
Definition fam_dec (l : list bool) : outcome NodeCodec.dec_err (N * list bool) :=
  match decode (f_tree fam) l with
  | Ok x => Ok x
  | Err DEndOfStream => Err EEndOfStream
  | Err DInvalidJet => Err EInvalidJet
  | Panic c => Panic c
  | OutOfFuel => OutOfFuel
  end.

Lemma row_at_idx j row : row_at fam j = Some row -> j_idx row = j /\ In row (f_rows fam).
Proof.
  unfold row_at. intros H. split; [|eapply nth_error_In; exact H].
  pose proof (map_nth_error j_idx _ _ H) as M. rewrite fam_idx in M.
  unfold upto in M. apply nth_error_In in H as Hin.
  assert (Hlt : (N.to_nat j < length (f_rows fam))%nat) by (apply nth_error_Some; congruence).
  rewrite nth_error_map in M. rewrite (nth_error_nth' _ 0%nat) in M by (rewrite seq_length; exact Hlt).
  rewrite seq_nth in M by exact Hlt. cbn in M. injection M as M. lia.
Qed.

Lemma fam_dec_enc j r : fam_okb j = true -> fam_dec (fam_enc j ++ r) = Ok (j, r).
Proof.
  unfold fam_okb, fam_enc, fam_dec. intros H. apply N.ltb_lt in H.
  destruct (row_at fam j) as [row|] eqn:E.
  - destruct (row_at_idx j row E) as [Hi Hin]. rewrite (fam_rt row Hin r), Hi. reflexivity.
  - unfold row_at in E. apply nth_error_None in E. lia.
Qed.

Lemma fam_enc_dec l j r : fam_dec l = Ok (j, r) -> l = fam_enc j ++ r /\ fam_okb j = true.
Proof.
  unfold fam_dec. intros H.
  destruct (decode (f_tree fam) l) as [[i r']|[]| |] eqn:E; try discriminate. injection H as <- <-.
  destruct (fam_complete _ _ _ E) as (row & Hr & _ & ->).
  unfold fam_enc, fam_okb. rewrite Hr. split; [reflexivity|].
  apply N.ltb_lt. unfold row_at in Hr.
  assert (Hlt : (N.to_nat i < length (f_rows fam))%nat) by (apply nth_error_Some; congruence). lia.
Qed.

Lemma decode_total t : forall l, match decode t l with Panic _ | OutOfFuel => False | _ => True end.
Proof.
  induction t as [|k|f IHf t' IHt]; intros l; cbn [decode]; try exact I.
  destruct l as [|[|] l']; [exact I|apply IHt|apply IHf].
Qed.

Lemma fam_dec_total l : match fam_dec l with Panic _ | OutOfFuel => False | _ => True end.
Proof.
  unfold fam_dec. pose proof (decode_total (f_tree fam) l) as T.
  destruct (decode (f_tree fam) l) as [[i r']|[]| |]; auto.
Qed.

End Fam.

(* ------------------------------------------------------------------ Core *)
Definition core_okb := fam_okb core_family.
Definition core_enc := fam_enc core_family.
Definition core_dec := fam_dec core_family.

Lemma core_rt' : forall j, In j (f_rows core_family) -> forall r,
  decode (f_tree core_family) (jet_code j ++ r) = Ok (j_idx j, r).
Proof. intros j Hj r. exact (proj2 (core_roundtrip j Hj r)). Qed.

Lemma core_idx' : map j_idx (f_rows core_family) = upto (length (f_rows core_family)).
Proof. rewrite core_length. exact (proj1 (proj2 core_table)). Qed.

Theorem syntax_rt_core : forall ns r, wf_prog N core_okb ns ->
  dec_prog N core_dec (enc_prog N core_enc ns ++ r) = Ok (ns, r).
Proof.
  apply (syntax_rt N core_okb core_enc core_dec).
  - intros j r. apply (fam_dec_enc core_family core_rt' core_decode_complete core_idx').
  - intros l j r. apply (fam_enc_dec core_family core_rt' core_decode_complete).
  - apply fam_dec_total.
Qed.

Theorem syntax_canon_core : forall b ns r, dec_prog N core_dec b = Ok (ns, r) ->
  b = enc_prog N core_enc ns ++ r /\ wf_prog N core_okb ns.
Proof.
  apply (syntax_canon N core_okb core_enc core_dec).
  - intros j r. apply (fam_dec_enc core_family core_rt' core_decode_complete core_idx').
  - intros l j r. apply (fam_enc_dec core_family core_rt' core_decode_complete).
  - apply fam_dec_total.
Qed.

Theorem dec_total_core : forall b,
  match dec_prog N core_dec b with
  | Panic _ | OutOfFuel => False
  | Ok (ns, r) => (2 * length ns + length r <= length b)%nat
  | Err _ => True
  end.
Proof.
  apply (dec_total N core_okb core_enc core_dec).
  - intros j r. apply (fam_dec_enc core_family core_rt' core_decode_complete core_idx').
  - intros l j r. apply (fam_enc_dec core_family core_rt' core_decode_complete).
  - apply fam_dec_total.
Qed.

(* ------------------------------------------------------------------ Elements *)
Definition elements_okb := fam_okb elements_family.
Definition elements_enc := fam_enc elements_family.
Definition elements_dec := fam_dec elements_family.

Lemma elements_rt' : forall j, In j (f_rows elements_family) -> forall r,
  decode (f_tree elements_family) (jet_code j ++ r) = Ok (j_idx j, r).
Proof. intros j Hj r. exact (proj2 (elements_roundtrip j Hj r)). Qed.

Lemma elements_idx' : map j_idx (f_rows elements_family) = upto (length (f_rows elements_family)).
Proof. rewrite elements_length. exact (proj1 (proj2 elements_table)). Qed.

Theorem syntax_rt_elements : forall ns r, wf_prog N elements_okb ns ->
  dec_prog N elements_dec (enc_prog N elements_enc ns ++ r) = Ok (ns, r).
Proof.
  apply (syntax_rt N elements_okb elements_enc elements_dec).
  - intros j r. apply (fam_dec_enc elements_family elements_rt' elements_decode_complete elements_idx').
  - intros l j r. apply (fam_enc_dec elements_family elements_rt' elements_decode_complete).
  - apply fam_dec_total.
Qed.

Theorem syntax_canon_elements : forall b ns r, dec_prog N elements_dec b = Ok (ns, r) ->
  b = enc_prog N elements_enc ns ++ r /\ wf_prog N elements_okb ns.
Proof.
  apply (syntax_canon N elements_okb elements_enc elements_dec).
  - intros j r. apply (fam_dec_enc elements_family elements_rt' elements_decode_complete elements_idx').
  - intros l j r. apply (fam_enc_dec elements_family elements_rt' elements_decode_complete).
  - apply fam_dec_total.
Qed.

Theorem dec_total_elements : forall b,
  match dec_prog N elements_dec b with
  | Panic _ | OutOfFuel => False
  | Ok (ns, r) => (2 * length ns + length r <= length b)%nat
  | Err _ => True
  end.
Proof.
  apply (dec_total N elements_okb elements_enc elements_dec).
  - intros j r. apply (fam_dec_enc elements_family elements_rt' elements_decode_complete elements_idx').
  - intros l j r. apply (fam_enc_dec elements_family elements_rt' elements_decode_complete).
  - apply fam_dec_total.
Qed.
