(* Big-step (denotational) semantics of Simplicity terms on mathematical values.
   This is the specification side of C05: the Simplicity tech report's semantics, with
   assertions, fail nodes and jets as the three ways an evaluation can fail, witness and word
   constants yielding their values and disconnect passing the CMR of its right branch. *)
From RS Require Import Lib.Tac Lib.Outcome Lib.Bits Ty.Ty Core.Prog Core.Term Core.Typing.
Import ListNotations.
Local Open Scope N_scope.

Inductive sem_error :=
| Pruned (cmr : list N)         (* an assertion reached its hidden side *)
| FailNode (entropy : list N)   (* a fail node was reached *)
| JetFailed.                    (* a jet rejected its input *)

Inductive result :=
| ROk (v : sval)
| RErr (e : sem_error)
| RStuck.                       (* value of the wrong shape: excluded by typing *)

Definition rbind (r : result) (f : sval -> result) : result :=
  match r with ROk v => f v | RErr e => RErr e | RStuck => RStuck end.

(* a 256-bit value from 32 bytes *)
Definition cmr_value (c : list N) : sval := of_padded W256 (bits_of_bytes c).

Section Sem.
  Variable jet_ty : N -> option arrow.
  Variable jet_sem : N -> sval -> option sval.

  Fixpoint eval (t : term) (a : sval) : result :=
    match t with
    | Iden _ => ROk a
    | Unit _ => ROk SU
    | InjL _ t => rbind (eval t a) (fun b => ROk (SL b))
    | InjR _ t => rbind (eval t a) (fun b => ROk (SR b))
    | Take _ t => match a with SP x _ => eval t x | _ => RStuck end
    | Drop _ t => match a with SP _ y => eval t y | _ => RStuck end
    | Comp _ s t => rbind (eval s a) (eval t)
    | Case _ s t =>
        match a with
        | SP (SL x) c => eval s (SP x c)
        | SP (SR y) c => eval t (SP y c)
        | _ => RStuck
        end
    | AssertL _ s h =>
        match a with
        | SP (SL x) c => eval s (SP x c)
        | SP (SR _) _ => RErr (Pruned h)
        | _ => RStuck
        end
    | AssertR _ h t =>
        match a with
        | SP (SL _) _ => RErr (Pruned h)
        | SP (SR y) c => eval t (SP y c)
        | _ => RStuck
        end
    | Pair _ s t => rbind (eval s a) (fun b => rbind (eval t a) (fun c => ROk (SP b c)))
    | Disconnect _ s t c =>
        rbind (eval s (SP (cmr_value c) a))
              (fun bc => match bc with
                         | SP b x => rbind (eval t x) (fun d => ROk (SP b d))
                         | _ => RStuck
                         end)
    | Witness ar bits => ROk (of_padded (snd ar) bits)
    | Fail _ e => RErr (FailNode e)
    | Jet _ j => match jet_sem j a with Some b => ROk b | None => RErr JetFailed end
    | Word ar _ bits => ROk (of_padded (snd ar) bits)
    end.

  (* jets map values of their source type to values of their target type *)
  Definition jets_typed : Prop :=
    forall j A B a b, jet_ty j = Some (A, B) -> has_ty a A = true -> jet_sem j a = Some b ->
                      has_ty b B = true.

  Hypothesis Hjets : jets_typed.

  Lemma cmr_value_typed c : length c = 32%nat -> has_ty (cmr_value c) W256 = true.
  Proof.
    intros H. unfold cmr_value. eapply padded_of_has_ty. apply of_padded_total.
    unfold bits_of_bytes. rewrite flat_map_concat_map.
    assert (L : forall l : list N, length (concat (map bits_of_byte l)) = (8 * length l)%nat).
    { induction l as [|x l IH]; [reflexivity|]. cbn [map concat]. rewrite app_length, IH.
      unfold bits_of_byte. rewrite bits_be_length. cbn [length]. lia. }
    rewrite L, H. reflexivity.
  Qed.

  (* type safety: evaluation of a well-typed term on a value of its source type never gets
     stuck and a result has the target type *)
  Theorem eval_typed t A B : typed jet_ty t A B -> forall a, has_ty a A = true ->
    match eval t a with
    | ROk b => has_ty b B = true
    | RErr _ => True
    | RStuck => False
    end.
  Proof.
    induction 1; intros a Ha; cbn [eval].
    - exact Ha.
    - reflexivity.
    - specialize (IHtyped a Ha). destruct (eval t a); cbn [rbind]; auto.
    - specialize (IHtyped a Ha). destruct (eval t a); cbn [rbind]; auto.
    - destruct a; cbn in Ha; try discriminate. apply andb_true_iff in Ha. destruct Ha. apply IHtyped. assumption.
    - destruct a; cbn in Ha; try discriminate. apply andb_true_iff in Ha. destruct Ha. apply IHtyped. assumption.
    - specialize (IHtyped1 a Ha). destruct (eval s a) as [b| |]; cbn [rbind]; auto.
      apply IHtyped2. exact IHtyped1.
    - destruct a as [| | |x c]; cbn in Ha; try discriminate. apply andb_true_iff in Ha. destruct Ha as [Hx Hc].
      destruct x; cbn in Hx; try discriminate.
      + apply IHtyped1. cbn. rewrite Hx, Hc. reflexivity.
      + apply IHtyped2. cbn. rewrite Hx, Hc. reflexivity.
    - destruct a as [| | |x c]; cbn in Ha; try discriminate. apply andb_true_iff in Ha. destruct Ha as [Hx Hc].
      destruct x; cbn in Hx; try discriminate; [|exact I].
      apply IHtyped. cbn. rewrite Hx, Hc. reflexivity.
    - destruct a as [| | |x c]; cbn in Ha; try discriminate. apply andb_true_iff in Ha. destruct Ha as [Hx Hc].
      destruct x; cbn in Hx; try discriminate; [exact I|].
      apply IHtyped. cbn. rewrite Hx, Hc. reflexivity.
    - specialize (IHtyped1 a Ha). specialize (IHtyped2 a Ha).
      destruct (eval s a) as [b| |]; cbn [rbind]; auto.
      destruct (eval t a) as [c| |]; cbn [rbind]; auto. cbn. rewrite IHtyped1, IHtyped2. reflexivity.
    - assert (Hin : has_ty (SP (cmr_value c) a) (Prod W256 A) = true).
      { cbn [has_ty]. rewrite cmr_value_typed by assumption. exact Ha. }
      specialize (IHtyped1 _ Hin). destruct (eval s (SP (cmr_value c) a)) as [bc| |]; cbn [rbind]; auto.
      destruct bc as [| | |b x]; cbn in IHtyped1; try discriminate.
      apply andb_true_iff in IHtyped1. destruct IHtyped1 as [Hb Hx].
      specialize (IHtyped2 _ Hx). destruct (eval t x) as [d| |]; cbn [rbind]; auto.
      cbn. rewrite Hb, IHtyped2. reflexivity.
    - cbn [snd]. eapply padded_of_has_ty. apply of_padded_total. assumption.
    - exact I.
    - destruct (jet_sem j a) as [b|] eqn:E; [|exact I]. eapply Hjets; eauto.
    - cbn [snd]. eapply padded_of_has_ty. apply of_padded_total. assumption.
  Qed.
End Sem.
