(* C18 - DAG iteration visits every node once, children first, with true indices.
   Only pinned statements (`Theorem .. exact lemma`) and `Print Assumptions`.
   Model: Dag/DagModel.v (PostOrderIter::next with its explicit stack, SwapChildren/unswap,
   PreOrderIter, VerbosePreOrderIter, is_shared_as; trackers = key function + finite map).
   Spec and proofs: Dag/PostOrderSpec.v PostOrderProps.v VisitFacts.v Variants.v PreOrder.v
   Acyclic.v Coverage.v Shared.v SharedInj.v Keyless.v VerbosePre.v; non-vacuity: Dag/Examples.v.

   children : nat -> dagnode   the node table (as_dag_node of the node at a position)
   key      : nat -> option N  the sharing id used by the tracker
                               (key_none = NoSharing, key_ptr = InternalSharing, any other
                                function = MaxSharing / EncodeSharing / identity-hash sharing)
   wfc children                children sit at smaller positions (acyclic by construction) *)
From Coq Require Import Permutation.
From RS Require Import Lib.Tac Lib.Outcome Dag.DagModel Dag.PostOrderSpec Dag.PostOrderProps
  Dag.VisitFacts Dag.Variants Dag.PreOrder Dag.Acyclic Dag.Coverage Dag.Shared Dag.VerbosePre
  Dag.Examples Dag.SharedInj Dag.Keyless Dag.Convert Dag.ConvertProps Dag.ConvertOrder Dag.ConvertStruct
  Dag.ConvertTree Dag.ConvertOrderErr Dag.ConvertHooksOnce Dag.RunConvert.
Import ListNotations.
Local Open Scope N_scope.

(* 1. refinement: the explicit-stack iterator (processed flags, Previous back-patching, the three
   assert!s) computes the recursive specification `visit`; explicit fuel, no Panic *)
Theorem C18_po_refines : forall children key, wfc children -> forall root,
  po_run children key (po_fuel children root) (po_init root) = Ok (po_spec children key root).
Proof. exact po_refines. Qed.
Print Assumptions C18_po_refines.

Theorem C18_po_no_panic : forall children key, wfc children -> forall root fuel c,
  (po_fuel children root <= fuel)%nat -> po_run children key fuel (po_init root) <> Panic c.
Proof. exact po_no_panic. Qed.
Print Assumptions C18_po_no_panic.

(* 2. the items are numbered consecutively 0, 1, 2, ... *)
Theorem C18_po_indices : forall children key, wfc children -> forall root i it,
  nth_error (po_spec children key root) i = Some it -> it_index it = N.of_nat i.
Proof. exact po_indices. Qed.
Print Assumptions C18_po_indices.

(* 3. each sharing class (nodes with one sharing id) is yielded at most once ... *)
Theorem C18_po_once : forall children key, wfc children -> forall root i j it1 it2 k,
  nth_error (po_spec children key root) i = Some it1 ->
  nth_error (po_spec children key root) j = Some it2 ->
  key (it_node it1) = Some k -> key (it_node it2) = Some k -> i = j.
Proof. exact po_once. Qed.
Print Assumptions C18_po_once.

(* ... the root's class is yielded, and only reachable nodes are *)
Theorem C18_po_root : forall children key, wfc children -> forall root,
  exists it, In it (po_spec children key root) /\ same_class key root (it_node it).
Proof. exact po_root. Qed.
Print Assumptions C18_po_root.

Theorem C18_po_only_reachable : forall children key, wfc children -> forall root it,
  In it (po_spec children key root) -> reach children root (it_node it).
Proof. exact po_only_reachable. Qed.
Print Assumptions C18_po_only_reachable.

(* 4. children first, true child indices: left_index / right_index are defined exactly for the
   existing children, are smaller than the item's own index, and point at the item whose
   sharing id equals the child's (for a child without id: at an item for that very node) *)
Theorem C18_po_children : forall children key, wfc children -> forall root it,
  In it (po_spec children key root) -> item_ok children key (po_spec children key root) it.
Proof. exact po_children. Qed.
Print Assumptions C18_po_children.

(* "that very occurrence": an item of a node without sharing id is the left/right child index of
   at most one item (both sides of one item counted) *)
Theorem C18_po_keyless_once : forall children key, wfc children -> forall root q it,
  item_at (po_spec children key root) q = Some it -> key (it_node it) = None ->
  (cnt (allptrs (po_spec children key root)) q <= 1)%nat.
Proof. exact po_keyless_once. Qed.
Print Assumptions C18_po_keyless_once.

(* 5. for keys that never give a node the id of its own proper descendant: the root is the last
   item, everything before it is a smaller node, and no item is unreferenced: every item except
   the root is the left or right child index of some yielded item (behaviour after 7ce2109) *)
Theorem C18_po_root_last_no_orphans : forall children key, wfc children -> key_acyclic children key ->
  forall root, exists o it, po_spec children key root = o ++ [it] /\ it_node it = root /\
    (forall x, In x o -> (it_node x < root)%nat) /\
    (forall x, In x o -> exists it', In it' (po_spec children key root) /\ refs it' x).
Proof. exact po_root_last_no_orphans. Qed.
Print Assumptions C18_po_root_last_no_orphans.

(* 6. for congruent keys every reachable node's class is yielded *)
Theorem C18_po_covers_reachable : forall children key, wfc children -> key_congruent children key ->
  forall root x, reach children root x ->
  exists it, In it (po_spec children key root) /\ same_class key x (it_node it).
Proof. exact po_covers_reachable. Qed.
Print Assumptions C18_po_covers_reachable.

(* 7. NoSharing yields the post-order of the tree expansion *)
Theorem C18_po_nosharing_tree : forall children, wfc children -> forall root,
  po_spec children key_none root = tree_post (expand children (S root) root) 0.
Proof. exact po_nosharing_tree. Qed.
Print Assumptions C18_po_nosharing_tree.

(* 8. the right-to-left variant is the mirror image *)
Theorem C18_rtl_is_mirror : forall d key fuel root,
  rtl_run (node_at d) key fuel root =
  omap (map (unswap (node_at d))) (po_run (node_at (mirror d)) key fuel (po_init root)).
Proof. exact rtl_is_mirror. Qed.
Print Assumptions C18_rtl_is_mirror.

Theorem C18_rtl_refines : forall children key, wfc children -> forall root,
  rtl_run children key (po_fuel (swapped children) root) root = Ok (rtl_spec children key root).
Proof. exact rtl_refines. Qed.
Print Assumptions C18_rtl_refines.

Theorem C18_rtl_indices : forall children key, wfc children -> forall root i it,
  nth_error (rtl_spec children key root) i = Some it -> it_index it = N.of_nat i.
Proof. exact rtl_indices. Qed.
Print Assumptions C18_rtl_indices.

Theorem C18_rtl_once : forall children key, wfc children -> forall root i j it1 it2 k,
  nth_error (rtl_spec children key root) i = Some it1 ->
  nth_error (rtl_spec children key root) j = Some it2 ->
  key (it_node it1) = Some k -> key (it_node it2) = Some k -> i = j.
Proof. exact rtl_once. Qed.
Print Assumptions C18_rtl_once.

(* after unswap the left/right indices are those of the true left/right children *)
Theorem C18_rtl_children : forall children key, wfc children -> forall root it,
  In it (rtl_spec children key root) -> item_ok children key (rtl_spec children key root) it.
Proof. exact rtl_children. Qed.
Print Assumptions C18_rtl_children.

(* 9. pre-order: refinement, parents first, same nodes as the post-order *)
Theorem C18_pre_refines : forall children key, wfc children -> forall root,
  pre_run children key (pre_fuel children root) (pre_init root) = Ok (pre_spec children key root).
Proof. exact pre_refines. Qed.
Print Assumptions C18_pre_refines.

Theorem C18_pre_parents_first : forall children key, wfc children -> forall root,
  nth_error (pre_spec children key root) 0 = Some root /\
  forall i x, nth_error (pre_spec children key root) (S i) = Some x ->
    exists j p, (j <= i)%nat /\ nth_error (pre_spec children key root) j = Some p /\ is_child children p x.
Proof. exact pre_parents_first. Qed.
Print Assumptions C18_pre_parents_first.

Theorem C18_pre_post_same_nodes : forall children key, wfc children -> key_acyclic children key ->
  forall root, Permutation (map it_node (po_spec children key root)) (pre_spec children key root).
Proof. exact pre_post_same_nodes. Qed.
Print Assumptions C18_pre_post_same_nodes.

(* 10. verbose pre-order (max_depth): refinement without Panic, depth bound, first yields *)
Theorem C18_vp_refines : forall children key max_depth, wfc children -> forall root,
  vp_run children key max_depth (vp_fuel children root) (vp_init children root) =
  Ok (vp_spec children key max_depth root).
Proof. exact vp_refines. Qed.
Print Assumptions C18_vp_refines.

Theorem C18_vp_depth_bound : forall children key max_depth d root v,
  max_depth = Some d -> In v (vp_spec children key max_depth root) -> v_depth v <= d.
Proof. exact vp_depth_bound. Qed.
Print Assumptions C18_vp_depth_bound.

Theorem C18_vp_first_yields_pre_order : forall children key root,
  first_yields (vp_spec children key None root) = pre_spec children key root.
Proof. exact vp_first_yields_pre_order. Qed.
Print Assumptions C18_vp_first_yields_pre_order.

(* 11. the sharing check *)
Theorem C18_is_shared_as_refines : forall children key, wfc children -> forall root,
  is_shared_as children key (po_fuel children root) root =
  Ok (zip_same (po_spec children key_ptr root) (po_spec children key root)).
Proof. exact is_shared_as_refines. Qed.
Print Assumptions C18_is_shared_as_refines.

Theorem C18_is_shared_as_prefix : forall children key, wfc children -> forall root,
  is_shared_as children key (po_fuel children root) root = Ok true <->
  ((exists t, map it_node (po_spec children key_ptr root) = map it_node (po_spec children key root) ++ t) \/
   (exists t, map it_node (po_spec children key root) = map it_node (po_spec children key_ptr root) ++ t)).
Proof. exact is_shared_as_prefix. Qed.
Print Assumptions C18_is_shared_as_prefix.

Theorem C18_is_shared_as_iff : forall children key, wfc children -> key_acyclic children key ->
  forall root,
  is_shared_as children key (po_fuel children root) root = Ok true <->
  map it_node (po_spec children key root) = map it_node (po_spec children key_ptr root).
Proof. exact is_shared_as_iff. Qed.
Print Assumptions C18_is_shared_as_iff.

(* with an id on every reachable node: accepted exactly when the ids are pairwise different on the
   reachable nodes (the pointer structure already is the requested sharing) *)
Theorem C18_is_shared_as_injective : forall children key, wfc children -> key_acyclic children key ->
  forall root, (forall x, reach children root x -> key x <> None) ->
  (is_shared_as children key (po_fuel children root) root = Ok true <->
   (forall x y, reach children root x -> reach children root y -> key x = key y -> x = y)).
Proof. exact is_shared_as_injective. Qed.
Print Assumptions C18_is_shared_as_injective.

(* two key functions that induce the same classes on the reachable nodes give the same iteration *)
Theorem C18_po_spec_key_equiv : forall children key1 key2, wfc children -> forall root,
  (forall x, reach children root x -> (key1 x = None <-> key2 x = None)) ->
  (forall x y k1 k2, reach children root x -> reach children root y ->
     key1 x = Some k1 -> key2 x = Some k2 -> (key1 y = Some k1 <-> key2 y = Some k2)) ->
  po_spec children key1 root = po_spec children key2 root.
Proof. exact po_spec_sim. Qed.
Print Assumptions C18_po_spec_key_equiv.

(* 12. the hypotheses hold for the library's own trackers, and for a hash-like key on the diamond *)
Theorem C18_key_none_acyclic : forall children, key_acyclic children key_none.
Proof. exact key_none_acyclic. Qed.
Print Assumptions C18_key_none_acyclic.
Theorem C18_key_ptr_acyclic : forall children, wfc children -> key_acyclic children key_ptr.
Proof. exact key_ptr_acyclic. Qed.
Print Assumptions C18_key_ptr_acyclic.
Theorem C18_key_none_congruent : forall children, key_congruent children key_none.
Proof. exact key_none_congruent. Qed.
Print Assumptions C18_key_none_congruent.
Theorem C18_key_ptr_congruent : forall children, key_congruent children key_ptr.
Proof. exact key_ptr_congruent. Qed.
Print Assumptions C18_key_ptr_congruent.

Theorem C18_example_hypotheses :
  wf diamond /\ wf child_grandchild /\ wf repeated_child /\
  key_acyclic (node_at diamond) (key_list diamond_hash) /\
  key_congruent (node_at diamond) (key_list diamond_hash).
Proof. exact (conj diamond_wf (conj child_grandchild_wf (conj repeated_child_wf
         (conj diamond_hash_acyclic diamond_hash_congruent)))). Qed.
Print Assumptions C18_example_hypotheses.

Theorem C18_example_diamond_hash :
  po_run (node_at diamond) (key_list diamond_hash) (po_fuel (node_at diamond) 3) (po_init 3) =
  Ok [mk_item 0 0 None None; mk_item 1 1 (Some 0) None; mk_item 3 2 (Some 1) (Some 1)].
Proof. exact diamond_hash_sharing. Qed.
Print Assumptions C18_example_diamond_hash.

Theorem C18_example_child_grandchild :
  po_run (node_at child_grandchild) key_ptr (po_fuel (node_at child_grandchild) 2) (po_init 2) =
  Ok [mk_item 0 0 None None; mk_item 1 1 (Some 0) None; mk_item 2 2 (Some 1) (Some 0)].
Proof. exact child_grandchild_pointer. Qed.
Print Assumptions C18_example_child_grandchild.

Theorem C18_example_repeated_child :
  po_run (node_at repeated_child) key_ptr (po_fuel (node_at repeated_child) 1) (po_init 1) =
  Ok [mk_item 0 0 None None; mk_item 1 1 (Some 0) (Some 0)].
Proof. exact repeated_child_pointer. Qed.
Print Assumptions C18_example_repeated_child.

(* 13. the hypotheses cannot be dropped (witnesses by computation) *)
Theorem C18_coverage_needs_congruence :
  reach (node_at twins) 4 1 /\
  ~ exists it, In it (po_spec (node_at twins) (key_list twins_keys) 4) /\
               same_class (key_list twins_keys) 1 (it_node it).
Proof. exact coverage_needs_congruence. Qed.
Print Assumptions C18_coverage_needs_congruence.

Theorem C18_no_orphans_needs_acyclic :
  po_spec (node_at cyc) (key_list cyc_keys) 3 =
  [mk_item 0 0 None None; mk_item 1 1 None None; mk_item 3 2 (Some 1) None].
Proof. exact no_orphans_needs_acyclic. Qed.
Print Assumptions C18_no_orphans_needs_acyclic.

Theorem C18_is_shared_as_needs_acyclic :
  is_shared_as (node_at cyc2) (key_list [Some 0; Some 0]) (po_fuel (node_at cyc2) 1) 1 = Ok true /\
  map it_node (po_spec (node_at cyc2) (key_list [Some 0; Some 0]) 1) <>
  map it_node (po_spec (node_at cyc2) key_ptr 1).
Proof. exact is_shared_as_needs_acyclic. Qed.
Print Assumptions C18_is_shared_as_needs_acyclic.

(* 14. Node::convert - the generic conversion driven by the iterator (model Dag/Convert.v: the
   loop over post_order_iter::<S>() with the vector `converted`, children looked up by
   left_index / right_index, the Converter hooks as an abstract state-passing record, unwrap and
   indexing as Panic outcomes).
     dis        Disconnectable::disconnect_dag_ref of the source's disconnect data
     swf dis t  the source table has its children at smaller positions
   A successful conversion returns the converter state and the whole vector (root = last entry). *)

(* no unwrap of a child index fails, every `converted[..]` lookup is in range, the final pop
   finds a node: for every table, tracker and converter the outcome is Ok or the converter's Err *)
Theorem C18_convert_no_panic : forall (X W D X' W' D' St Er : Type) (dis : X -> option nat)
    (cv : @converter X W X' W' D' St Er) key (t : list (@snode X W D)),
  swf dis t -> forall root, (root < length t)%nat -> forall fuel s,
  (po_fuel (src_children dis t) root <= fuel)%nat ->
  match convert dis cv key t fuel root s with Panic _ | OutOfFuel => False | _ => True end.
Proof. exact @convert_no_panic. Qed.
Print Assumptions C18_convert_no_panic.

(* each yielded item is converted exactly once, in iteration order, into a node carrying the CMR
   of the item's node; a keyed class has one converted node; every child pointer of a converted
   node is an earlier entry of `converted`, namely the one made for the class of that child
   (so children shared in the source - by the tracker's notion - are shared in the result) *)
Theorem C18_convert_once : forall (X W D X' W' D' St Er : Type) (dis : X -> option nat)
    (cv : @converter X W X' W' D' St Er) key (t : list (@snode X W D)),
  swf dis t -> forall root, (root < length t)%nat -> forall fuel s s' tbl,
  (po_fuel (src_children dis t) root <= fuel)%nat ->
  convert dis cv key t fuel root s = Ok (s', tbl) ->
  let items := po_spec (src_children dis t) key root in
  length tbl = length items /\
  (forall i j it1 it2 k, nth_error items i = Some it1 -> nth_error items j = Some it2 ->
     key (it_node it1) = Some k -> key (it_node it2) = Some k -> i = j) /\
  (forall i it, nth_error items i = Some it ->
     exists sn tn, nth_error t (it_node it) = Some sn /\ nth_error tbl i = Some tn /\
       tn_cmr tn = sn_cmr sn /\
       (forall c, In c (ichildren (tn_inner tn)) -> (c < i)%nat) /\
       kids_refer dis key t root (sn_inner sn) (tn_inner tn)).
Proof. exact @convert_once. Qed.
Print Assumptions C18_convert_once.

(* shape of every converted node, for any converter: the source combinator over the item's
   child indices with its fixed payload, or - for a Case - AssertR / AssertL keeping one child
   and carrying the CMR of the other converted child *)
Theorem C18_convert_shape : forall (X W D X' W' D' St Er : Type) (dis : X -> option nat)
    (cv : @converter X W X' W' D' St Er) key (t : list (@snode X W D)),
  swf dis t -> forall root, (root < length t)%nat -> forall fuel s s' tbl,
  (po_fuel (src_children dis t) root <= fuel)%nat ->
  convert dis cv key t fuel root s = Ok (s', tbl) ->
  length tbl = length (po_spec (src_children dis t) key root) /\
  forall i it tn, nth_error (po_spec (src_children dis t) key root) i = Some it -> nth_error tbl i = Some tn ->
    exists sn, nth_error t (it_node it) = Some sn /\ tn_cmr tn = sn_cmr sn /\
      shape_rel (cmr_at tbl) (sn_inner sn) (it_left it) (it_right it) (tn_inner tn) /\
      (forall c, In c (ichildren (tn_inner tn)) -> (c < i)%nat).
Proof. exact @convert_table. Qed.
Print Assumptions C18_convert_shape.

(* hooks are called in post-order: for the instrumented converter `logging cv` (same decisions as
   cv, every call logged with its item) the log of a successful conversion is, item by item in
   iteration order, visit_node, [convert_witness | convert_disconnect | prune_case], convert_data *)
Theorem C18_convert_order : forall (X W D X' W' D' St Er : Type) (dis : X -> option nat)
    (cv : @converter X W X' W' D' St Er) key (t : list (@snode X W D)),
  swf dis t -> forall root, (root < length t)%nat -> forall fuel s s' lg tbl,
  (po_fuel (src_children dis t) root <= fuel)%nat ->
  convert dis (logging cv) key t fuel root (s, []) = Ok ((s', lg), tbl) ->
  map ev_key lg = flat_map (hooks_at t) (po_spec (src_children dis t) key root).
Proof. exact @convert_order. Qed.
Print Assumptions C18_convert_order.

Theorem C18_convert_logging_same : forall (X W D X' W' D' St Er : Type) (dis : X -> option nat)
    (cv : @converter X W X' W' D' St Er) key (t : list (@snode X W D)),
  swf dis t -> forall root, (root < length t)%nat -> forall fuel s lg,
  (po_fuel (src_children dis t) root <= fuel)%nat ->
  match convert dis (logging cv) key t fuel root (s, lg), convert dis cv key t fuel root s with
  | Ok ((s1, _), n1), Ok (s2, n2) => s1 = s2 /\ n1 = n2
  | Err ((s1, _), e1), Err (s2, e2) => s1 = s2 /\ e1 = e2
  | Panic c1, Panic c2 => c1 = c2
  | OutOfFuel, OutOfFuel => True
  | _, _ => False
  end.
Proof. exact @convert_logging_same. Qed.
Print Assumptions C18_convert_logging_same.

(* structure: the converter that keeps witnesses, cached data and the converted disconnected
   child and hides by an arbitrary decision function returns exactly the closed-form table
   spec_tbl (the source up to the hide decisions); with "hide nothing" that table is the
   quotient DAG - one node per yielded class, child pointers = positions of the children's classes *)
Theorem C18_convert_structure_prune : forall (W D Er : Type) key (t : list (@snode (option nat) W D)),
  swf dis_id t -> forall root, (root < length t)%nat -> forall dec fuel,
  (po_fuel (src_children dis_id t) root <= fuel)%nat ->
  convert dis_id (@prune_cv W D Er t dec) key t fuel root tt =
  Ok (tt, spec_tbl t dec (po_spec (src_children dis_id t) key root) []).
Proof. exact @convert_structure_prune. Qed.
Print Assumptions C18_convert_structure_prune.

Theorem C18_convert_structure_identity : forall (W D Er : Type) key (t : list (@snode (option nat) W D)),
  swf dis_id t -> forall root, (root < length t)%nat -> forall fuel,
  (po_fuel (src_children dis_id t) root <= fuel)%nat ->
  convert dis_id (@prune_cv W D Er t (fun _ => HideNeither)) key t fuel root tt =
  Ok (tt, quot_tbl t (po_spec (src_children dis_id t) key root)).
Proof. exact @convert_structure_identity. Qed.
Print Assumptions C18_convert_structure_identity.

(* the hypotheses are satisfiable and the model runs: a case over a diamond, left branch hidden *)
Theorem C18_convert_example :
  run_conv [1;0;0;0;0;  2;0;0;0;1;  3;0;0;0;2;  7;1;2;0;3] 3 [1;2;3;4] [0;0;0;1] 0 100 =
  [0; 9;
   0;0;0;0;0;0;0;  4;0;0;0;0;0;0;
   0;1;1;1;0;0;0;  4;1;1;1;0;1;0;
   0;2;2;1;0;0;0;  4;2;2;1;0;1;0;
   0;3;3;2;3;0;0;  3;3;3;2;3;2;3;  4;3;3;2;3;3;0;
   4;
   1;0;0;0;0;0;0;0;
   2;1;0;0;1;0;0;1;
   3;1;0;0;2;0;0;2;
   9;3;0;2;3;0;0;3;
   5].
Proof. exact run_conv_smoke. Qed.
Print Assumptions C18_convert_example.

(* tree level: un-sharing the result of the identity conversion at any item gives the un-shared
   source at that item's node (label = combinator with payloads, CMR, cached data); the returned
   root is the un-shared source root.  Hypothesis: sound sharing ids - nodes with the same id
   unfold to the same tree - which holds for pointer identity and for no sharing (below) and for
   any hash of the structure below a node. *)
Theorem C18_convert_identity_tree : forall (W D Er : Type) key (t : list (@snode (option nat) W D)),
  swf dis_id t -> forall root, (root < length t)%nat ->
  (forall x y k, key x = Some k -> key y = Some k -> stree t x = stree t y) ->
  forall fuel, (po_fuel (src_children dis_id t) root <= fuel)%nat ->
  exists tbl, convert dis_id (@prune_cv W D Er t (fun _ => HideNeither)) key t fuel root tt = Ok (tt, tbl) /\
    length tbl = length (po_spec (src_children dis_id t) key root) /\
    (forall i it, nth_error (po_spec (src_children dis_id t) key root) i = Some it ->
       unfold_tree (rview tbl) (S i) i = stree t (it_node it)) /\
    (key_acyclic (src_children dis_id t) key ->
       unfold_tree (rview tbl) (length tbl) (length tbl - 1) = stree t root).
Proof. intros W D Er key t Hwf root Hroot Hkey fuel Hf. exact (convert_identity_tree key t Hwf root Hroot Hkey Er fuel Hf). Qed.
Print Assumptions C18_convert_identity_tree.

Theorem C18_convert_sound_keys : forall (W D : Type) (t : list (@snode (option nat) W D)),
  (forall x y k, key_ptr x = Some k -> key_ptr y = Some k -> stree t x = stree t y) /\
  (forall x y k, key_none x = Some k -> key_none y = Some k -> stree t x = stree t y).
Proof. exact (fun W D t => conj (key_ptr_sound t) (key_none_sound t)). Qed.
Print Assumptions C18_convert_sound_keys.

(* a conversion that fails stopped inside the post-order hook sequence: the log is a prefix of it *)
Theorem C18_convert_order_err : forall (X W D X' W' D' St Er : Type) (dis : X -> option nat)
    (cv : @converter X W X' W' D' St Er) key (t : list (@snode X W D)),
  swf dis t -> forall root, (root < length t)%nat -> forall fuel s s' lg e,
  (po_fuel (src_children dis t) root <= fuel)%nat ->
  convert dis (logging cv) key t fuel root (s, []) = Err ((s', lg), e) ->
  exists k, map ev_key lg = firstn k (flat_map (hooks_at t) (po_spec (src_children dis t) key root)).
Proof. exact @convert_order_err. Qed.
Print Assumptions C18_convert_order_err.

(* visit_node and convert_data are called exactly once per yielded item, in iteration order *)
Theorem C18_convert_hooks_once : forall (X W D X' W' D' St Er : Type) (dis : X -> option nat)
    (cv : @converter X W X' W' D' St Er) key (t : list (@snode X W D)),
  swf dis t -> forall root, (root < length t)%nat -> forall fuel s s' lg tbl,
  (po_fuel (src_children dis t) root <= fuel)%nat ->
  convert dis (logging cv) key t fuel root (s, []) = Ok ((s', lg), tbl) ->
  map snd (filter (is_hook HVisit) (map ev_key lg)) = po_spec (src_children dis t) key root /\
  map snd (filter (is_hook HData) (map ev_key lg)) = po_spec (src_children dis t) key root.
Proof. exact @convert_hooks_once. Qed.
Print Assumptions C18_convert_hooks_once.
