"""Shared by C01 and C02: an independent python reference of the program bit encoding
(src/bit_encoding/{encode,decode}.rs): bit-level assembler and disassembler of node lists, the
decoder's structural second pass (canonical order, hidden rules) without types, the encoder's
linearisation of a PDL program (explicit-stack post-order with identity-key sharing) and the witness
stream.  Numeric forms are those of harness_codec/src/codec.rs and coq/Codec/Run.v.

dnodes (python): ('iden',) ('unit',) ('injl',i) ('injr',i) ('take',i) ('drop',i) ('comp',i,j) ('case',i,j)
  ('pair',i,j) ('disc1',i) ('disc',i,j) ('wit',) ('fail',(64 bytes)) ('hid',(32 bytes)) ('jet',idx)
  ('word',n,(2^n bits))            -- child indices absolute
"""
import os
import subprocess

import proggen as pg

KIND_CODE = {"iden": 0, "unit": 1, "injl": 2, "injr": 3, "take": 4, "drop": 5, "comp": 6, "case": 7, "pair": 8,
             "disc1": 9, "disc": 10, "wit": 11, "fail": 12, "hid": 13, "jet": 14, "word": 15}
CODE_KIND = {v: k for k, v in KIND_CODE.items()}
UNARY = ("injl", "injr", "take", "drop", "disc1")
BINARY = ("comp", "case", "pair", "disc")

ERR = {9: "panic", 10: "TrailingBytes", 11: "IllegalPadding", 12: "BothChildrenHidden", 13: "EndOfStream",
       14: "HiddenNode", 15: "InvalidJet", 16: "BadIndex", 17: "NaturalEndOfStream", 18: "NaturalOverflow",
       19: "NotInCanonicalOrder", 20: "SharingNotMaximal", 21: "Type", 23: "DisconnectRedeemTime"}
SYNTACTIC = (13, 15, 16, 17, 18)
STRUCTURAL = (12, 14, 19, 20)


# ------------------------------------------------------------------ bits
def enc_nat(n):
    """natural-number code (tech report); independent of the Rust loop"""
    assert n >= 1
    if n == 1:
        return [0]
    ln = n.bit_length() - 1
    return [1] + enc_nat(ln) + [(n >> i) & 1 for i in range(ln - 1, -1, -1)]


def bits_be(v, ln):
    return [(v >> i) & 1 for i in range(ln - 1, -1, -1)]


def bits_of_bytes(bs):
    return [(b >> (7 - i)) & 1 for b in bs for i in range(8)]


def pack(bits):
    out = []
    for i in range(0, len(bits), 8):
        ch = bits[i:i + 8]
        ch = ch + [0] * (8 - len(ch))
        v = 0
        for b in ch:
            v = 2 * v + b
        out.append(v)
    return out


def hexs(bs):
    return "".join("%02x" % b for b in bs) if bs else "-"


def unhex(s):
    return [] if s == "-" else [int(s[i:i + 2], 16) for i in range(0, len(s), 2)]


class Eos(Exception):
    pass


class DecErr(Exception):
    def __init__(self, triple):
        self.triple = list(triple)


class Reader:
    def __init__(self, bits):
        self.bits = bits
        self.pos = 0

    def bit(self):
        if self.pos >= len(self.bits):
            raise Eos()
        self.pos += 1
        return self.bits[self.pos - 1]

    def take(self, n):
        if self.pos + n > len(self.bits):
            # the implementation reads what is there first; position is irrelevant after a failure
            self.pos = len(self.bits)
            raise Eos()
        r = self.bits[self.pos:self.pos + n]
        self.pos += n
        return r

    def natural(self, tymax, bound):
        """read_natural: returns n or raises DecErr(16/17/18)"""
        try:
            depth = 0
            while self.bit():
                depth += 1
            n = 1
            for _ in range(depth):
                ln = n
                if ln > 31:
                    raise DecErr([18, 0, 0])
                v = 1
                for b in self.take(ln):
                    v = 2 * v + b
                n = v
        except Eos:
            raise DecErr([17, 0, 0])
        if n > tymax:
            raise DecErr([18, 0, 0])
        if bound is not None and n > bound:
            raise DecErr([16, n, bound])
        return n


# ------------------------------------------------------------------ jets
class JetTable:
    """codes of one family (from the implementation: harness `c01 jetcodes`), with the induced prefix tree"""

    def __init__(self, codes):
        self.codes = [tuple(c) for c in codes]
        self.by_code = {c: i for i, c in enumerate(self.codes)}
        self.prefixes = set()
        for c in self.codes:
            for k in range(len(c)):
                self.prefixes.add(c[:k])

    def decode(self, rd):
        cur = ()
        while True:
            if cur in self.by_code:
                return self.by_code[cur]
            if cur not in self.prefixes:
                raise DecErr([15, 0, 0])
            try:
                cur = cur + (rd.bit(),)
            except Eos:
                raise DecErr([13, 0, 0])

    def coq_pairs(self):
        """(n, len) pairs for coq/Codec/Run.v"""
        out = []
        for c in self.codes:
            v = 0
            for b in c:
                v = 2 * v + b
            out.append((v, len(c)))
        return out


_jt_cache = {}


def jet_table(binary, fam, workdir):
    key = (binary, fam)
    if key not in _jt_cache:
        os.makedirs(workdir, exist_ok=True)
        p = os.path.join(workdir, "jetcodes_%s.txt" % fam)
        open(p, "w").write("j jetcodes %s\n" % fam)
        out = subprocess.run([binary, "c01", p], capture_output=True, text=True, timeout=120).stdout
        nums = [int(x) for x in out.split()[1:]]
        codes = []
        pos = 0
        while pos < len(nums):
            ln = nums[pos]
            codes.append(nums[pos + 1:pos + 1 + ln])
            pos += 1 + ln
        _jt_cache[key] = JetTable(codes)
    return _jt_cache[key]


# ------------------------------------------------------------------ assembler
def enc_hash(bs):
    out = []
    for b in bs:
        out += bits_be(b, 8)
    return out


def enc_dnode(idx, d, jt, rel=None):
    """bits of node `d` at position idx.  rel: optional override of the relative indices (hand-made violations)"""
    k = d[0]
    if k == "hid":
        return [0, 1, 1, 0] + enc_hash(d[1])
    if k in BINARY:
        code = {"comp": 0, "case": 1, "pair": 2, "disc": 3}[k]
        i, j = rel if rel else (idx - d[1], idx - d[2])
        return bits_be(code, 5) + enc_nat(i) + enc_nat(j)
    if k in UNARY:
        code = {"injl": 4, "injr": 5, "take": 6, "drop": 7, "disc1": 11}[k]
        i = rel[0] if rel else idx - d[1]
        return bits_be(code, 5) + enc_nat(i)
    if k == "iden":
        return bits_be(8, 5)
    if k == "unit":
        return bits_be(9, 5)
    if k == "fail":
        return bits_be(10, 5) + enc_hash(d[1])
    if k == "wit":
        return [0, 1, 1, 1]
    if k == "jet":
        return [1, 1] + list(jt.codes[d[1]])
    if k == "word":
        return [1, 0] + enc_nat(1 + d[1]) + list(d[2])
    raise ValueError(k)


def enc_prog(dnodes, jt, length=None):
    bits = enc_nat(len(dnodes) if length is None else length)
    for i, d in enumerate(dnodes):
        bits += enc_dnode(i, d, jt)
    return bits


# ------------------------------------------------------------------ disassembler (decode_node loop)
USIZE_MAX = 2 ** 64 - 1
U32_MAX = 2 ** 32 - 1


def dec_dnode(rd, index, jt):
    try:
        if rd.bit():
            if rd.bit():
                return ("jet", jt.decode(rd))
            n = rd.natural(U32_MAX, 32)
            try:
                bits = rd.take(2 ** (n - 1))
            except Eos:
                raise DecErr([13, 0, 0])
            return ("word", n - 1, tuple(bits))
        code = 2 * rd.bit() + rd.bit()
        if code == 0:
            sub = 2 * rd.bit() + rd.bit()
            i = index - rd.natural(USIZE_MAX, index)
            j = index - rd.natural(USIZE_MAX, index)
            return (("comp", "case", "pair", "disc")[sub], i, j)
        if code == 1:
            sub = 2 * rd.bit() + rd.bit()
            i = index - rd.natural(USIZE_MAX, index)
            return (("injl", "injr", "take", "drop")[sub], i)
        if code == 2:
            sub = 2 * rd.bit() + rd.bit()
            if sub == 0:
                return ("iden",)
            if sub == 1:
                return ("unit",)
            if sub == 2:
                return ("fail", tuple(pack(rd.take(512))))
            return ("disc1", index - rd.natural(USIZE_MAX, index))
        if rd.bit():
            return ("wit",)
        return ("hid", tuple(pack(rd.take(256))))
    except Eos:
        raise DecErr([13, 0, 0])


def dec_prog(bits, jt):
    """returns ('ok', dnodes, bits consumed) | ('err', triple)"""
    rd = Reader(bits)
    try:
        ln = rd.natural(USIZE_MAX, None)
        nodes = []
        for _ in range(ln):
            nodes.append(dec_dnode(rd, len(nodes), jt))
        return ("ok", nodes, rd.pos)
    except DecErr as e:
        return ("err", e.triple)


# ------------------------------------------------------------------ explicit-stack post order (port of dag.rs PostOrderIter)
def post_order(root, children, key):
    """children(elem) -> () | (l,) | (l, r); key(elem) -> hashable | None (never shared).
    Yields (elem, index, left_index, right_index).  Faithful port: both children are classified when the
    parent is first processed; an unprocessed item whose key has been recorded since it was pushed only
    patches its parent (commit 7ce2109); `record` at yield time may find the key already present (no yield)."""
    seen = {}
    index = 0
    out = []
    # item: [elem, processed, left_idx, right_idx, previous]
    stack = [[root, False, None, None, "root"]]

    def classify(c):
        k = key(c)
        if k is not None and k in seen:
            return ("repeat", seen[k])
        return ("new", c)

    while stack:
        cur = stack.pop()
        if not cur[1]:
            k0 = key(cur[0])
            if k0 is not None and k0 in seen:
                p = cur[4]
                if p == "pl":
                    stack[-1][2] = seen[k0]
                elif p == "pr":
                    stack[-1][3] = seen[k0]
                elif p == "sl":
                    stack[-2][2] = seen[k0]
                continue
            cur[1] = True
            ch = children(cur[0])
            if len(ch) == 0:
                stack.append(cur)
            elif len(ch) == 1:
                c = classify(ch[0])
                if c[0] == "repeat":
                    cur[2] = c[1]
                    stack.append(cur)
                else:
                    stack.append(cur)
                    stack.append([c[1], False, None, None, "pl"])
            else:
                l = classify(ch[0])
                r = classify(ch[1])
                if l[0] == "repeat" and r[0] == "repeat":
                    cur[2], cur[3] = l[1], r[1]
                    stack.append(cur)
                elif l[0] == "new" and r[0] == "repeat":
                    cur[3] = r[1]
                    stack.append(cur)
                    stack.append([l[1], False, None, None, "pl"])
                elif l[0] == "repeat" and r[0] == "new":
                    cur[2] = l[1]
                    stack.append(cur)
                    stack.append([r[1], False, None, None, "pr"])
                else:
                    stack.append(cur)
                    stack.append([r[1], False, None, None, "pr"])
                    stack.append([l[1], False, None, None, "sl"])
        else:
            k = key(cur[0])
            already = k is not None and k in seen
            if already:
                ci = seen[k]
            else:
                ci = index
                if k is not None:
                    seen[k] = index
            p = cur[4]
            if p == "pl":
                stack[-1][2] = ci
            elif p == "pr":
                stack[-1][3] = ci
            elif p == "sl":
                stack[-2][2] = ci
            if already:
                continue
            index += 1
            out.append((cur[0], ci, cur[2], cur[3]))
    return out


# ------------------------------------------------------------------ decoder, second pass (no types)
def dnode_children(d):
    if d[0] in UNARY:
        return (d[1],)
    if d[0] in BINARY:
        return (d[1], d[2])
    return ()


def struct_check(nodes):
    """decode_expression after the node loop, without typing: None | error triple"""
    hidden = set()
    conv = []   # True = Node, False = Hidden
    order = post_order(len(nodes) - 1, lambda i: dnode_children(nodes[i]), lambda i: i)
    for (n, idx, _l, _r) in order:
        if idx != n:
            return [19, 0, 0]
        d = nodes[n]
        k = d[0]
        if k in ("injl", "injr", "take", "drop", "disc1"):
            if not conv[d[1]]:
                return [14, 0, 0]
            conv.append(True)
        elif k in ("comp", "pair", "disc"):
            if not conv[d[1]] or not conv[d[2]]:
                return [14, 0, 0]
            conv.append(True)
        elif k == "case":
            if not conv[d[1]] and not conv[d[2]]:
                return [12, 0, 0]
            conv.append(True)
        elif k == "hid":
            if d[1] in hidden:
                return [20, 0, 0]
            hidden.add(d[1])
            conv.append(False)
        else:
            conv.append(True)
    if not conv[len(nodes) - 1]:
        return [14, 0, 0]
    return None


def close_check(bits, pos):
    """BitIter::close after reading `pos` bits of the byte-aligned stream `bits`"""
    nbytes = len(bits) // 8
    pulled = (pos + 7) // 8
    if pos == 0:
        pulled = 0
    if pulled < nbytes:
        v = 0
        for b in bits[8 * pulled:8 * pulled + 8]:
            v = 2 * v + b
        return [10, v, 0]
    rest = bits[pos:]
    if any(rest):
        v = 0
        for b in rest:
            v = 2 * v + b
        return [11, v, len(rest)]
    return None


def stage_a_ref(pbytes, jt):
    """reference verdict of ConstructNode::decode without typing:
    ('synt', triple) | ('struct', triple, nodes) | ('close', triple, nodes) | ('ok', nodes)"""
    bits = bits_of_bytes(pbytes)
    r = dec_prog(bits, jt)
    if r[0] == "err":
        return ("synt", r[1])
    nodes, pos = r[1], r[2]
    e = struct_check(nodes)
    if e is not None:
        return ("struct", e, nodes)
    e = close_check(bits, pos)
    if e is not None:
        return ("close", e, nodes)
    return ("ok", nodes)


# ------------------------------------------------------------------ numeric forms
def dnode_nums(d):
    k = d[0]
    out = [KIND_CODE[k]]
    if k in UNARY or k in BINARY:
        out += list(d[1:])
    elif k in ("fail", "hid"):
        out += list(d[1])
    elif k == "jet":
        out.append(d[1])
    elif k == "word":
        out.append(d[1])
        out += pack(list(d[2]))
    return out


def dnodes_nums(nodes):
    out = []
    for d in nodes:
        out += dnode_nums(d)
    return out


def parse_dnodes(nums):
    out = []
    pos = 0
    while pos < len(nums):
        k = CODE_KIND[nums[pos]]
        pos += 1
        if k in UNARY:
            out.append((k, nums[pos]))
            pos += 1
        elif k in BINARY:
            out.append((k, nums[pos], nums[pos + 1]))
            pos += 2
        elif k == "fail":
            out.append((k, tuple(nums[pos:pos + 64])))
            pos += 64
        elif k == "hid":
            out.append((k, tuple(nums[pos:pos + 32])))
            pos += 32
        elif k == "jet":
            out.append((k, nums[pos]))
            pos += 1
        elif k == "word":
            n = nums[pos]
            nb = max(1, (2 ** n + 7) // 8)
            bits = bits_of_bytes(nums[pos + 1:pos + 1 + nb])[:2 ** n]
            out.append((k, n, tuple(bits)))
            pos += 1 + nb
        else:
            out.append((k,))
    return out


def coq_dnode(d):
    k = d[0]
    if k in ("iden", "unit", "wit"):
        return {"iden": "DIden", "unit": "DUnit", "wit": "DWitness"}[k]
    if k in UNARY:
        return "(%s %d)" % ({"injl": "DInjL", "injr": "DInjR", "take": "DTake", "drop": "DDrop", "disc1": "DDisconnect1"}[k], d[1])
    if k in BINARY:
        return "(%s %d %d)" % ({"comp": "DComp", "case": "DCase", "pair": "DPair", "disc": "DDisconnect"}[k], d[1], d[2])
    if k == "fail":
        return "(DFail [%s])" % "; ".join(str(b) for b in d[1])
    if k == "hid":
        return "(DHidden [%s])" % "; ".join(str(b) for b in d[1])
    if k == "jet":
        return "(DJet %d)" % d[1]
    if k == "word":
        return "(DWord %d %s)" % (d[1], pg.coq_bools(d[2]))
    raise ValueError(k)


# ------------------------------------------------------------------ sharing keys of a PDL program
def hexbytes(h):
    return tuple(int(h[i:i + 2], 16) for i in range(0, len(h), 2))


def imr_keys(prog, arrows, alias=None):
    """structural stand-in for the IMR of every node (None for hidden nodes): two nodes get the same key iff
    the implementation computes the same IMR for them (up to hash collisions).
    alias: {hidden node index: node index} for hidden nodes that carry the CMR of a witness-free node of the
    same program; the IMR of such a node equals its CMR, so `assertl L #cmr(R)` and `case L R` have equal IMRs"""
    keys = []
    for i, n in enumerate(prog):
        k = n[0]
        if k == "hid":
            if alias and str(i) in alias:
                keys.append(keys[alias[str(i)]])
            else:
                keys.append(("H", hexbytes(n[1])))
        elif k in ("iden", "unit"):
            keys.append((k,))
        elif k in ("injl", "injr", "take", "drop"):
            keys.append((k, keys[n[1]]))
        elif k in ("comp", "case", "pair"):
            keys.append((k, keys[n[1]], keys[n[2]]))
        elif k == "disc":
            keys.append((k, keys[n[1]], None if n[2] is None else keys[n[2]]))
        elif k == "fail":
            keys.append((k, n[1]))
        elif k == "jet":
            keys.append((k, n[2]))
        elif k == "word":
            keys.append((k, n[1], tuple(n[2])))
        elif k == "wit":
            w = n[1]
            tgt = arrows[i][1] if arrows[i] else None
            if w is None:
                # finalize_unpruned fills unpopulated witness nodes with the zero value of their type
                wb = tuple(pg.compact_bits(pg.zero_value(tgt))) if tgt is not None else None
            else:
                wb = tuple(w[-1])
            keys.append((k, wb, tgt))
        else:
            raise ValueError(k)
    return keys


def has_no_id(prog):
    """commitment time: nodes that contain a witness or disconnect node have no identity hash"""
    out = []
    for n in prog:
        k = n[0]
        if k in ("wit", "disc"):
            out.append(True)
        else:
            out.append(any(out[c] for c in pg.children(n)))
    return out


def ihr_keys(prog, arrows, time, alias=None):
    """sharing id per PDL node as the encoder sees it (None = never shared)"""
    ik = imr_keys(prog, arrows, alias)
    noid = has_no_id(prog) if time == "c" else [False] * len(prog)
    out = []
    for i, n in enumerate(prog):
        if n[0] == "hid":
            out.append(("H", hexbytes(n[1])))
        elif noid[i] or arrows[i] is None:
            out.append(None)
        else:
            out.append(("N", ik[i], arrows[i][0], arrows[i][1]))
    return out


# ------------------------------------------------------------------ linearisation = what encode_program emits
def enc_children(prog, time):
    def ch(i):
        n = prog[i]
        k = n[0]
        if k == "disc":
            # commitment-time nodes carry NoDisconnect: unary
            if time == "c" or n[2] is None:
                return (n[1],)
            return (n[1], n[2])
        return tuple(pg.children(n))
    return ch


def linearise(prog, arrows, time, jet_index, ptr=False, alias=None):
    """dnode list the encoder writes for the program (root = last node), and the order of PDL nodes.
    ptr=True: no identity-hash sharing (every PDL node is its own node): a non-maximally shared encoding"""
    keys = list(range(len(prog))) if ptr else ihr_keys(prog, arrows, time, alias)
    ch = enc_children(prog, time)
    order = post_order(len(prog) - 1, ch, lambda i: keys[i])
    out = []
    for (i, _idx, l, r) in order:
        n = prog[i]
        k = n[0]
        if k == "hid":
            out.append(("hid", hexbytes(n[1])))
        elif k in ("injl", "injr", "take", "drop"):
            out.append((k, l))
        elif k in ("comp", "case", "pair"):
            out.append((k, l, r))
        elif k == "disc":
            out.append(("disc1", l) if r is None else ("disc", l, r))
        elif k == "fail":
            out.append(("fail", hexbytes(n[1])))
        elif k == "jet":
            out.append(("jet", jet_index[(n[1], n[2])]))
        elif k == "word":
            out.append(("word", n[1], tuple(n[2])))
        elif k == "wit":
            out.append(("wit",))
        else:
            out.append((k,))
    return out, [o[0] for o in order]


def witness_bits(prog, arrows, ptr=False, alias=None):
    """encode_witness: compact bits of the witness values in post order of the redeem DAG under MaxSharing
    (hidden children are not nodes of that DAG)"""
    keys = list(range(len(prog))) if ptr else ihr_keys(prog, arrows, "r", alias)

    def ch(i):
        return tuple(c for c in pg.children(prog[i]) if prog[c][0] != "hid")
    order = post_order(len(prog) - 1, ch, lambda i: keys[i])
    bits = []
    for (i, _idx, _l, _r) in order:
        n = prog[i]
        if n[0] == "wit":
            w = n[1]
            if w is None:
                bits += pg.compact_bits(pg.zero_value(arrows[i][1]))
            else:
                bits += list(w[-1])
    return bits


def witness_types_in_decode_order(nodes, tys):
    """not used by the checks; kept for replay diagnostics"""
    return [tys[i] for i, d in enumerate(nodes) if d[0] == "wit"]


# ------------------------------------------------------------------ hand-assembled families
def bomb_dnodes(n):
    """F-C02 family: case (take injl^n iden) (take injl^n (take iden))"""
    nodes = [("iden",)]
    for _ in range(n):
        nodes.append(("injl", len(nodes) - 1))
    nodes.append(("take", len(nodes) - 1))
    left = len(nodes) - 1
    nodes.append(("iden",))
    nodes.append(("take", len(nodes) - 1))
    for _ in range(n):
        nodes.append(("injl", len(nodes) - 1))
    nodes.append(("take", len(nodes) - 1))
    right = len(nodes) - 1
    nodes.append(("case", left, right))
    return nodes


def c07_dnodes(depth=70):
    """F-C07 regression witness: `depth` nested pairs of a word, composed with comp (injl unit) unit"""
    nodes = [("word", 3, (0,) * 8)]
    for _ in range(depth):
        nodes.append(("pair", len(nodes) - 1, len(nodes) - 1))
    bomb = len(nodes) - 1
    nodes.append(("unit",))
    nodes.append(("injl", len(nodes) - 1))
    nodes.append(("unit",))
    nodes.append(("comp", len(nodes) - 2, len(nodes) - 1))
    nodes.append(("comp", bomb, len(nodes) - 1))
    return nodes


# ------------------------------------------------------------------ views compared with the Coq model (C02)
def c02_project(d):
    """what the expression decoder (stage A) lets us observe, as
    [syntactic triple | [0,0,0], node numbers | None, structural triple | None, close triple | None]
    (None = not observable on the implementation: a later/earlier layer rejected first)"""
    if d.get("status") != "ok":
        return d.get("status")
    a = d["A"]
    if a[0] == "ok":
        return [[0, 0, 0], list(a[1]), [0, 0, 0], [0, 0, 0]]
    t = list(a[1])
    if t[0] in SYNTACTIC:
        return [t, None, None, None]
    if t[0] in STRUCTURAL:
        return [[0, 0, 0], None, t, None]
    if t[0] in (10, 11):
        return [[0, 0, 0], None, [0, 0, 0], t]
    # type error (or panic): only the syntactic layer is known to have passed
    return [[0, 0, 0], None, None, None]


def c02_parse_model(v):
    """flat list printed by Codec/Run.v run_c02 -> the same structure"""
    if v[0] != 0:
        return [list(v[:3]), None, None, None]
    ln = v[1]
    nodes = list(v[2:2 + ln])
    s = list(v[2 + ln:5 + ln])
    c = list(v[5 + ln:8 + ln])
    return [[0, 0, 0], nodes, s, c if s == [0, 0, 0] else None]


def c02_mask_model(v, impl_view):
    m = c02_parse_model(v)
    if not isinstance(impl_view, list):
        return m
    return [m[k] if impl_view[k] is not None else None for k in range(4)]


def c02_exprs(cases, jts, limit=None):
    """Gallina expressions for Codec/Run.v (when present)"""
    if not os.path.exists(os.path.join(os.path.dirname(os.path.dirname(os.path.dirname(os.path.abspath(__file__)))), "coq", "Codec", "Run.v")):
        return
    budget = {}
    for c in cases:
        m = c.meta
        if len(m.get("prog", [])) > 400:
            continue
        fam = m["family"].split(":")[0] if not m["family"].startswith("rule") else "rule"
        budget[fam] = budget.get(fam, 0) + 1
        if limit and budget[fam] > limit.get(fam, limit.get("*", 10 ** 9)):
            continue
        c.expr = "run_c02 jt_%s [%s]" % (m["fam"], "; ".join(str(b) for b in m["prog"]))


def class_ids(keys):
    """option-N class numbers for a list of hashable keys (None stays None)"""
    ids = {}
    out = []
    for k in keys:
        if k is None:
            out.append(None)
        else:
            out.append(ids.setdefault(k, len(ids)))
    return out


def c01_exprs(cases, jts, jidx, limit=None):
    if not os.path.exists(os.path.join(os.path.dirname(os.path.dirname(os.path.dirname(os.path.abspath(__file__)))), "coq", "Codec", "Run.v")):
        return
    count = {}
    for c in cases:
        m = c.meta
        prog, ar, tm = m["prog"], m["arrows"], m["time"]
        if len(prog) > 120:
            continue
        if sum(len(n[1][-1]) for n in prog if n[0] == "wit" and n[1] is not None) > 1500:
            continue   # (long witness streams are compared with the python reference only)
        fam = m["family"].split(":")[0]
        count[fam] = count.get(fam, 0) + 1
        if limit and count[fam] > limit.get(fam, limit.get("*", 10 ** 9)):
            continue
        # witness values as the encoder sees them (unpopulated nodes hold the zero value)
        q = []
        for n, a in zip(prog, ar):
            if n[0] == "wit" and n[1] is None and a is not None:
                n = ("wit", ("c", pg.compact_bits(pg.zero_value(a[1]))))
            q.append(n)
        keys = class_ids(ihr_keys(prog, ar, tm, m.get("hid_alias")))
        jet_ids = {k: v for k, v in jidx.items()}
        import re
        pc = re.sub(r"\(NDisconnect (\d+) \(Some (\d+)\)\)", r"(NDisconnect \1 (Some \2%nat))", pg.prog_coq(q, jet_ids))
        c.expr = "run_c01 jt_%s %s %s [%s]" % (m["fam"], "true" if tm == "r" else "false", pc,
                                               "; ".join("None" if k is None else "Some %d" % k for k in keys))


def prog_coq_fixed(q, jidx):
    import re
    return re.sub(r"\(NDisconnect (\d+) \(Some (\d+)\)\)", r"(NDisconnect \1 (Some \2%nat))", pg.prog_coq(q, dict(jidx)))


def c01_roots_expr(m, jidx, jty):
    """Gallina expression for Codec/RunRoots.v run_c01_roots: jets used (with their types), program, sharing ids"""
    prog, ar = m["prog"], m["arrows"]
    q = []
    used = []
    for n, a in zip(prog, ar):
        if n[0] == "wit" and n[1] is None and a is not None:
            n = ("wit", ("c", pg.compact_bits(pg.zero_value(a[1]))))
        if n[0] == "jet" and (n[1], n[2]) not in used:
            used.append((n[1], n[2]))
        q.append(n)
    keys = class_ids(ihr_keys(prog, ar, "r", m.get("hid_alias")))
    jets = "; ".join("(%d, %d, [%s], [%s])" % (0 if f == "c" else 1, jidx[(f, nm)],
                                             "; ".join(str(x) for x in pg.ty_nums(jty[(f, nm)][0])),
                                             "; ".join(str(x) for x in pg.ty_nums(jty[(f, nm)][1]))) for f, nm in used)
    return "run_c01_roots [%s] %s [%s]" % (jets, prog_coq_fixed(q, jidx),
                                           "; ".join("None" if k is None else "Some %d" % k for k in keys))


def parse_rr(r):
    """result of harness c01 rr -> {'status', 'nodes': [(tag, cmr, ihr, amr, src, tgt)], 'model_view': [...], 'c': ...}"""
    if r in ("CRASH", "TIMEOUT") or r is None:
        return {"status": r or "CRASH"}
    if r == [9]:
        return {"status": "panic"}
    if r[0] != 0:
        return {"status": "err", "code": r[1:]}
    n = r[1]
    pos = 2
    nodes = []
    for _ in range(n):
        if r[pos] == 5:
            nodes.append((5, r[pos + 1:pos + 33], None, None, None, None))
            pos += 33
        else:
            cmr, ihr, amr = r[pos + 1:pos + 33], r[pos + 33:pos + 65], r[pos + 65:pos + 97]
            assert r[pos + 97] == 4
            src, p1 = pg.ty_from_nums(r, pos + 98)
            tgt, p2 = pg.ty_from_nums(r, p1)
            nodes.append((1, cmr, ihr, amr, src, tgt))
            pos = p2
    def num(bs):
        v = 0
        for b in bs:
            v = 256 * v + b
        return v
    mv = [0, n]
    for nd in nodes:
        if nd[0] == 5:
            mv += [5, num(nd[1])]
        else:
            mv += [1, num(nd[1]), num(nd[2]), num(nd[3]), 4] + pg.ty_nums(nd[4]) + pg.ty_nums(nd[5])
    d = {"status": "ok", "nodes": nodes, "model_view": mv}
    c = r[pos:]
    d["c"] = c
    return d


def jet_preamble(jts):
    out = []
    for fam in ("c", "e"):
        out.append("Definition jt_%s : list (list bool) := jet_table_of [%s]." % (
            fam, "; ".join("(%d, %d)" % p for p in jts[fam].coq_pairs())))
    return "\n".join(out) + "\n"


# ------------------------------------------------------------------ model evaluation with a preamble (jet tables)
def coq_eval_pre(imports, preamble, exprs, batch=100, timeout=1500, workdir=None, tag="ev"):
    """vplib.coq_eval with definitions placed before the case list (the jet code tables are defined once per file)"""
    import concurrent.futures
    import json
    import re
    import vplib
    os.makedirs(workdir, exist_ok=True)
    batches = [exprs[i:i + batch] for i in range(0, len(exprs), batch)]

    def one(k):
        name = "%s_%d" % (tag, k)
        path = os.path.join(workdir, name + ".v")
        with open(path, "w") as f:
            f.write("From Coq Require Import List NArith ZArith String.\n")
            f.write("From RS Require Import %s.\n" % " ".join(imports))
            f.write("Import ListNotations.\nLocal Open Scope N_scope.\n")
            f.write("Set Printing Width 2000000000.\nSet Printing Depth 2000000000.\n")
            f.write(preamble)
            f.write("Definition cases : list (list N) :=\n [ ")
            f.write(";\n   ".join("(" + e + ")" for e in batches[k]))
            f.write(" ].\nEval vm_compute in cases.\n")
        rc, out = vplib.sh(["coqc", "-noglob", "-Q", vplib.COQ, "RS", "-o", os.path.join(workdir, name + ".vo"), path],
                           timeout=timeout, cwd=workdir)
        if rc != 0:
            return None, out
        m = re.search(r"^\s*= (\[.*\])\s*$", out, re.M)
        if not m:
            return None, out
        txt = m.group(1).replace("%N", "").replace(";", ",")
        try:
            vals = json.loads(txt)
        except Exception:
            return None, out
        if len(vals) != len(batches[k]):
            return None, out
        return vals, out

    results = []
    logs = []
    with concurrent.futures.ThreadPoolExecutor(max_workers=vplib.NCPU) as ex:
        for vals, out in ex.map(one, range(len(batches))):
            if vals is None:
                results.extend([None] * len(batches[len(logs)]))
                logs.append(out)
            else:
                results.extend(vals)
                logs.append("")
    return results, logs


def eval_cases(rep, binary, command, cases, imports, jts, tag=None, batch=100, harness_timeout=600):
    """vplib.eval_cases with the jet-table preamble"""
    import time
    import vplib
    t0 = time.time()
    impl = vplib.run_harness(binary, command, ["%s %s %s" % (c.cid, c.kind, c.line) for c in cases],
                             workdir=rep.workdir(), timeout=harness_timeout)
    t1 = time.time()
    mc = [c for c in cases if c.expr is not None]
    vals, logs = coq_eval_pre(imports, jet_preamble(jts), [c.expr for c in mc], workdir=rep.workdir(), tag=tag or command, batch=batch)
    t2 = time.time()
    model = {}
    bad = [l for l in logs if l]
    for c, v in zip(mc, vals):
        if v is not None:
            model[c.cid] = v
    cor = rep.coverage.setdefault("correspondence", {})
    cor["impl_eval_s"] = round(cor.get("impl_eval_s", 0) + t1 - t0, 2)
    cor["model_eval_s"] = round(cor.get("model_eval_s", 0) + t2 - t1, 2)
    if bad:
        raise vplib.Infra("model evaluation failed in Coq:\n" + bad[0][-3000:])
    return impl, model
