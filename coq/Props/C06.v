(* C06 - Rust and C evaluators reach the same verdict.                   (claimed level: other)

   The C evaluator is not modelled and no theorem mentions it.  The check is a differential
   comparison (tools/props/c06.py): BitMachine::exec vs evalTCOExpression without anti-DoS flags
   on the same marshalled environment.  The only statements pinned here are about the small
   classification the comparison is made through (Cdiff/VerdictRef.v): it is injective on the
   Rust side and maps exactly one C code to each verdict the property names, so "same kind"
   means what the property says. *)
From RS Require Import Lib.Tac Cdiff.VerdictRef.
Import ListNotations.
Local Open Scope Z_scope.

Theorem C06_kind_code_injective : forall a b, kind_code a = kind_code b -> a = b.
Proof. exact kind_code_inj. Qed.
Print Assumptions C06_kind_code_injective.

Theorem C06_rust_kind_injective : forall a b, rust_exec_kind a = rust_exec_kind b -> a = b.
Proof. exact rust_exec_kind_inj. Qed.
Print Assumptions C06_rust_kind_injective.

Theorem C06_same_verdict_spec : forall r c, same_verdict r c = true ->
  (r = None <-> c = 0) /\
  (r = Some RReachedPrunedBranch <-> c = -40) /\
  (r = Some RJetFailed <-> c = -38).
Proof. exact same_verdict_spec. Qed.
Print Assumptions C06_same_verdict_spec.

(* ================================================================== phase 2: the Coq semantics as third party
   For programs 1 -> 1 over the jets specified in Jets/JetSpec.v the verdict of Core/Sem.v `eval` is compared with
   both evaluators (tools/props/c06.py, three-way).  The statements below specialise C05's exec_correct (the lemma
   exec_master_noinput pinned as C05_exec_correct_noinput) to such programs: they are about the MODEL of the Rust
   machine (Core/Machine.v), for any jet semantics that respects the jets' types; the C evaluator is not modelled
   and stays tied by comparison only. *)
From RS Require Import Lib.Outcome Ty.Ty Core.Prog Core.Term Core.Typing Core.Sem Core.Bounds Core.Limits Core.Machine
  Core.MachineCorrect Jets.JetSpec Cdiff.EvalRef.
Local Open Scope N_scope.

(* the Rust machine model returns success iff eval does *)
Theorem C06_machine_succeeds_iff_eval : forall prof jet_ty jet_cost jet_sem t,
  jets_typed jet_ty jet_sem -> typed jet_ty t One One ->
  check_program prof (bw One) (bw One) (bounds jet_cost t) = Ok tt ->
  forall m0, length m0 = N.to_nat (machine_cells jet_cost t) ->
    ((exists st bits, machine_exec prof jet_cost jet_sem t m0 None = Ok (st, bits)) <->
     eval jet_sem t SU = ROk SU).
Proof. exact machine_succeeds_iff_eval. Qed.
Print Assumptions C06_machine_succeeds_iff_eval.

(* ... and fails with ReachedPrunedBranch(cmr) / ReachedFailNode / JetFailed iff eval fails with the assertion on
   that hidden CMR / that fail node / a jet failure *)
Theorem C06_machine_fails_iff_eval : forall prof jet_ty jet_cost jet_sem t,
  jets_typed jet_ty jet_sem -> typed jet_ty t One One ->
  check_program prof (bw One) (bw One) (bounds jet_cost t) = Ok tt ->
  forall m0, length m0 = N.to_nat (machine_cells jet_cost t) ->
  forall x,
    ((exists st, machine_exec prof jet_cost jet_sem t m0 None = Err (x, st)) <->
     (exists e, eval jet_sem t SU = RErr e /\ x = err_of e)).
Proof. exact machine_fails_iff_eval. Qed.
Print Assumptions C06_machine_fails_iff_eval.

(* no other outcome exists once for_program accepted the program: no panic, no fuel, no limit error, no InputWrongType *)
Theorem C06_machine_total : forall prof jet_ty jet_cost jet_sem t,
  jets_typed jet_ty jet_sem -> typed jet_ty t One One ->
  check_program prof (bw One) (bw One) (bounds jet_cost t) = Ok tt ->
  forall m0, length m0 = N.to_nat (machine_cells jet_cost t) ->
    match machine_exec prof jet_cost jet_sem t m0 None with
    | Ok _ => True
    | Err (ReachedPrunedBranch _, _) | Err (ReachedFailNode _, _) | Err (EJetFailed, _) => True
    | _ => False
    end.
Proof. exact machine_total. Qed.
Print Assumptions C06_machine_total.

(* instance: the 306 specified Core jets respect their types, so the three statements apply to every program over
   them (jet_ty := jet_spec_ty, jet_sem := jet_spec) *)
Theorem C06_specified_jets_success_iff : forall prof jet_cost t,
  typed jet_spec_ty t One One ->
  check_program prof (bw One) (bw One) (bounds jet_cost t) = Ok tt ->
  forall m0, length m0 = N.to_nat (machine_cells jet_cost t) ->
    ((exists st bits, machine_exec prof jet_cost jet_spec t m0 None = Ok (st, bits)) <->
     eval jet_spec t SU = ROk SU).
Proof. exact specified_jets_success_iff. Qed.
Print Assumptions C06_specified_jets_success_iff.

Theorem C06_error_kinds_distinct : forall e1 e2, err_of e1 = err_of e2 -> e1 = e2.
Proof. exact err_of_inj. Qed.
Print Assumptions C06_error_kinds_distinct.
