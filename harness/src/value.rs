//! C10 / C11: `Value` layout, accessors, decoders, pruning, equality/ordering/hash on the
//! implementation.  A case is a "pool machine" program; the output format mirrors
//! coq/Value/Run.v (`run_pool`, `run_pair`).
//!
//! case line:  pool <op> / <op> / ...
//!             pair <i,j,k,...> <op> / <op> / ...     (indices of the entries to compare pairwise)
//!             wpair <i,j,k,...> <op> / <op> / ...    (Value::to_word on the selected entries: n+1 | 0 each,
//!                                                     then ==, cmp, hash of all ordered pairs of the Words)
//! ops (each appends one entry to the pool):
//!   unit | wi <k> <n> | wb <k> <hex> | ba <hex> | buf <n> <hex>
//!   left <i> <T> | right <T> <i> | prod <i> <j> | none <T> | some <i> | zero <T>
//!   asl <i> | asr <i> | fst <i> | snd <i>            (accessor + to_value)
//!   pad <T> <hex> | cmp <T> <hex>                    (from_padded_bits / from_compact_bits)
//!   prune <i> <T>
//!   mach <k> <w> <L|R> <j|-> <u>                     (Bit Machine output, stale frame cells as padding)
//!   machw <i>                                        (Bit Machine output of a witness node holding pool[i])
//!   ctx8 <hex32> <count> <hex>                       (Value::ctx8(midstate, bytes_hashed, buffer))
//!   encv <i> <pre>                                  (encode_value after <pre> bits, decoded back; extra number: bits written)
//!   isty <i> <T>                                     (pool[i] again; extra number: is_of_type(T))
//! types T in prefix notation without spaces: 1 unit, +ab sum, *ab product, w<hexdigit k> = 2^(2^k)
use crate::util::*;

use simplicity::node::{CoreConstructible, WitnessConstructible};
use simplicity::types::{self, CompleteBound, Final};
use simplicity::{BitIter, BitMachine, ConstructNode, Value, Word};
use std::cmp::Ordering;
use std::collections::hash_map::DefaultHasher;
use std::hash::{Hash, Hasher};
use std::sync::Arc;

type Entry = Result<Value, u128>;

fn parse_ty(s: &[u8], pos: &mut usize) -> Arc<Final> {
    let c = s[*pos];
    *pos += 1;
    match c {
        b'1' => Final::unit(),
        b'+' => {
            let a = parse_ty(s, pos);
            let b = parse_ty(s, pos);
            Final::sum(a, b)
        }
        b'*' => {
            let a = parse_ty(s, pos);
            let b = parse_ty(s, pos);
            Final::product(a, b)
        }
        b'w' => {
            let k = (s[*pos] as char).to_digit(16).expect("word digit") as usize;
            *pos += 1;
            Final::two_two_n(k).expect("word type")
        }
        _ => panic!("bad type"),
    }
}

fn ty_of(s: &str) -> Arc<Final> {
    let mut pos = 0;
    let t = parse_ty(s.as_bytes(), &mut pos);
    assert_eq!(pos, s.len());
    t
}

/// pre-order tokens: 0 unit, 1 sum, 2 product, 3 k = word type
fn ty_tokens(t: &Final, out: &mut Vec<u128>) {
    // explicit stack: types can be deep
    let mut stack: Vec<&Final> = vec![t];
    while let Some(t) = stack.pop() {
        if let Some(k) = t.as_word() {
            out.push(3);
            out.push(k as u128);
            continue;
        }
        match t.bound() {
            CompleteBound::Unit => out.push(0),
            CompleteBound::Sum(a, b) => {
                out.push(1);
                stack.push(b);
                stack.push(a);
            }
            CompleteBound::Product(a, b) => {
                out.push(2);
                stack.push(b);
                stack.push(a);
            }
        }
    }
}

/// raw buffer bytes and raw bit offset, parsed from the Debug form of Value
fn raw_of(v: &Value) -> (Vec<u128>, u128) {
    let d = format!("{:?}", v);
    let i = d.rfind("raw_value: [").expect("raw_value field") + "raw_value: [".len();
    let j = i + d[i..].find(']').expect("]");
    let bytes: Vec<u128> = d[i..j]
        .split(',')
        .map(|s| s.trim())
        .filter(|s| !s.is_empty())
        .map(|s| s.parse().expect("byte"))
        .collect();
    let k = d.rfind("raw_bit_offset: ").expect("raw_bit_offset field") + "raw_bit_offset: ".len();
    let off: String = d[k..].chars().take_while(|c| c.is_ascii_digit()).collect();
    (bytes, off.parse().expect("offset"))
}

fn word_int(k: usize, n: u128) -> Value {
    match k {
        0 => Value::u1(n as u8),
        1 => Value::u2(n as u8),
        2 => Value::u4(n as u8),
        3 => Value::u8(n as u8),
        4 => Value::u16(n as u16),
        5 => Value::u32(n as u32),
        6 => Value::u64(n as u64),
        7 => Value::u128(n),
        _ => panic!("wi k"),
    }
}

fn byte_array(b: &[u8]) -> Value {
    macro_rules! go {
        ($n:expr) => {{
            let mut a = [0u8; $n];
            a.copy_from_slice(b);
            Value::from_byte_array(a)
        }};
    }
    match b.len() {
        1 => go!(1),
        2 => go!(2),
        3 => go!(3),
        4 => go!(4),
        6 => go!(6),
        8 => go!(8),
        16 => go!(16),
        32 => go!(32),
        64 => go!(64),
        128 => go!(128),
        _ => panic!("ba length"),
    }
}

fn word_node_value(k: usize, n: u128) -> Word {
    match k {
        3 => Word::u8(n as u8),
        4 => Word::u16(n as u16),
        5 => Word::u32(n as u32),
        6 => Word::u64(n as u64),
        0 => Word::u1(n as u8),
        1 => Word::u2(n as u8),
        2 => Word::u4(n as u8),
        _ => panic!("word k"),
    }
}

/// comp(comp(word w, unit), comp(inj(payload), iden)): the frame of the second comp reuses the
/// cells of the dropped frame that held w; the injection skips its padding, so the padding
/// of the value copied to the output frame is whatever w left there.
fn mach_stale(k: usize, w: u128, side: &str, j: Option<usize>, u: u128) -> Value {
    types::Context::with_context(|ctx| {
        let unit = || Arc::<ConstructNode>::unit(&ctx);
        let wnode = Arc::<ConstructNode>::const_word(&ctx, word_node_value(k, w));
        let p1 = Arc::<ConstructNode>::comp(&wnode, &unit()).unwrap();
        let payload = match j {
            None => unit(),
            Some(j) => Arc::<ConstructNode>::const_word(&ctx, word_node_value(j, u)),
        };
        let pty = match j {
            None => Final::unit(),
            Some(j) => Final::two_two_n(j).unwrap(),
        };
        let other = Final::two_two_n(k).unwrap();
        let (inj, sum) = if side == "L" {
            (Arc::<ConstructNode>::injl(&payload), Final::sum(pty, other))
        } else {
            (Arc::<ConstructNode>::injr(&payload), Final::sum(other, pty))
        };
        let sum_ty = types::Type::complete(&ctx, sum);
        ctx.unify(&inj.arrow().target, &sum_ty, "harness: pin the sum type")
            .unwrap();
        let iden = Arc::<ConstructNode>::iden(&ctx);
        let p2 = Arc::<ConstructNode>::comp(&inj, &iden).unwrap();
        let prog = Arc::<ConstructNode>::comp(&p1, &p2).unwrap();
        let redeem = prog.finalize_unpruned().expect("finalize");
        let mut mac = BitMachine::for_program(&redeem).expect("limits");
        let env = simplicity::jet::CoreEnv::new();
        mac.exec(&redeem, &env).expect("exec")
    })
}

/// a single witness node of the value's type: the machine writes the witness's padded
/// bits (padding included) to the output frame and reads the output value back from it
fn mach_witness(v: &Value) -> Value {
    types::Context::with_context(|ctx| {
        let wit = Arc::<ConstructNode>::witness(&ctx, Some(v.shallow_clone()));
        let t = types::Type::complete(&ctx, Arc::new(v.ty().clone()));
        ctx.unify(&wit.arrow().target, &t, "harness: pin the witness type")
            .unwrap();
        let u = types::Type::unit(&ctx);
        ctx.unify(&wit.arrow().source, &u, "harness: unit source").unwrap();
        let redeem = wit.finalize_unpruned().expect("finalize");
        let mut mac = BitMachine::for_program(&redeem).expect("limits");
        let env = simplicity::jet::CoreEnv::new();
        mac.exec(&redeem, &env).expect("exec")
    })
}

fn get(pool: &[Entry], s: &str) -> Option<Value> {
    let i: usize = s.parse().expect("index");
    match pool.get(i) {
        Some(Ok(v)) => Some(v.shallow_clone()),
        _ => None,
    }
}

/// one op: the new entry and the extra status numbers
fn run_op(pool: &[Entry], t: &[&str]) -> (Entry, Vec<u128>) {
    let none = (Err(1u128), vec![]);
    macro_rules! operand {
        ($s:expr) => {
            match get(pool, $s) {
                Some(v) => v,
                None => return none,
            }
        };
    }
    let of_opt = |o: Option<Value>| -> (Entry, Vec<u128>) {
        match o {
            Some(v) => (Ok(v), vec![]),
            None => (Err(1), vec![]),
        }
    };
    match t[0] {
        "unit" => (Ok(Value::unit()), vec![]),
        "wi" => (Ok(word_int(t[1].parse().unwrap(), t[2].parse().unwrap())), vec![]),
        "wb" => {
            let b = unhex(t[2]);
            let v = match t[1] {
                "8" => {
                    let mut a = [0u8; 32];
                    a.copy_from_slice(&b);
                    Value::u256(a)
                }
                "9" => {
                    let mut a = [0u8; 64];
                    a.copy_from_slice(&b);
                    Value::u512(a)
                }
                _ => panic!("wb k"),
            };
            (Ok(v), vec![])
        }
        "ba" => (Ok(byte_array(&unhex(t[1]))), vec![]),
        "buf" => match Value::buffer8_two_n_plus_one(t[1].parse().unwrap(), &unhex(t[2])) {
            Ok(v) => (Ok(v), vec![]),
            Err(_) => (Err(3), vec![]),
        },
        "left" => {
            let v = operand!(t[1]);
            (Ok(Value::left(v, ty_of(t[2]))), vec![])
        }
        "right" => {
            let v = operand!(t[2]);
            (Ok(Value::right(ty_of(t[1]), v)), vec![])
        }
        "prod" => {
            let a = operand!(t[1]);
            let b = operand!(t[2]);
            (Ok(Value::product(a, b)), vec![])
        }
        "none" => (Ok(Value::none(ty_of(t[1]))), vec![]),
        "some" => {
            let v = operand!(t[1]);
            (Ok(Value::some(v)), vec![])
        }
        "zero" => (Ok(Value::zero(&ty_of(t[1]))), vec![]),
        "asl" => {
            let v = operand!(t[1]);
            of_opt(v.as_left().map(|r| r.to_value()))
        }
        "asr" => {
            let v = operand!(t[1]);
            of_opt(v.as_right().map(|r| r.to_value()))
        }
        "fst" => {
            let v = operand!(t[1]);
            of_opt(v.as_product().map(|r| r.0.to_value()))
        }
        "snd" => {
            let v = operand!(t[1]);
            of_opt(v.as_product().map(|r| r.1.to_value()))
        }
        "pad" | "cmp" => {
            let ty = ty_of(t[1]);
            let bytes = unhex(t[2]);
            let mut it = BitIter::new(bytes.into_iter());
            let r = if t[0] == "pad" {
                Value::from_padded_bits(&mut it, &ty)
            } else {
                Value::from_compact_bits(&mut it, &ty)
            };
            match r {
                Ok(v) => (Ok(v), vec![it.n_total_read() as u128]),
                Err(_) => (Err(2), vec![]),
            }
        }
        "prune" => {
            let v = operand!(t[1]);
            of_opt(v.prune(&ty_of(t[2])))
        }
        "mach" => {
            let j = if t[4] == "-" { None } else { Some(t[4].parse().unwrap()) };
            let v = mach_stale(t[1].parse().unwrap(), t[2].parse().unwrap(), t[3], j, t[5].parse().unwrap());
            (Ok(v), vec![])
        }
        "machw" => {
            let v = operand!(t[1]);
            (Ok(mach_witness(&v)), vec![])
        }
        "ctx8" => {
            let mut mid = [0u8; 32];
            mid.copy_from_slice(&unhex(t[1]));
            match Value::ctx8(mid, t[2].parse().unwrap(), &unhex(t[3])) {
                Ok(v) => (Ok(v), vec![]),
                Err(_) => (Err(3), vec![]),
            }
        }
        "encv" => {
            // encode_value into a BitWriter after <pre> one-bits, read the written bits back and decode them at the value's type
            let v = operand!(t[1]);
            let pre: usize = t[2].parse().unwrap();
            let mut bytes = Vec::new();
            let mut w = simplicity::BitWriter::new(&mut bytes);
            for _ in 0..pre {
                w.write_bit(true).unwrap();
            }
            let n = simplicity::encode_value(&v, &mut w).unwrap();
            w.flush_all().unwrap();
            drop(w);
            let mut it = BitIter::from(bytes.into_iter());
            for _ in 0..pre {
                it.next();
            }
            let ty = Arc::new(v.ty().clone());
            match Value::from_compact_bits(&mut it, &ty) {
                Ok(x) => (Ok(x), vec![n as u128]),
                Err(_) => (Err(2), vec![]),
            }
        }
        "isty" => {
            let v = operand!(t[1]);
            let r = v.is_of_type(&ty_of(t[2]));
            (Ok(v), vec![r as u128])
        }
        _ => panic!("unknown op"),
    }
}

fn h(v: &Value) -> u64 {
    let mut s = DefaultHasher::new();
    v.hash(&mut s);
    s.finish()
}

fn with_len(out: &mut Vec<u128>, l: Vec<u128>) {
    out.push(l.len() as u128);
    out.extend(l);
}

fn obs_value(v: &Value, out: &mut Vec<u128>) {
    let mut tt = vec![];
    ty_tokens(v.ty(), &mut tt);
    with_len(out, tt);
    let (bytes, off) = raw_of(v);
    out.push(off);
    with_len(out, bytes);
    with_len(out, v.iter_padded().map(|b| b as u128).collect());
    with_len(out, v.iter_compact().map(|b| b as u128).collect());
    out.push(v.compact_len() as u128);
    out.push(v.padded_len() as u128);
}

fn obs_pair(a: &Value, b: &Value, out: &mut Vec<u128>) {
    out.push((a == b) as u128);
    let c = a.cmp(b);
    if a.ty() == b.ty() {
        out.push(match c {
            Ordering::Less => 0,
            Ordering::Equal => 1,
            Ordering::Greater => 2,
        });
    } else {
        // different types: the code orders by the types' TMRs; the model cannot predict a
        // hash order, so only report whether the answer is that order
        let tc = a.ty().cmp(b.ty());
        out.push(if c == tc && c != Ordering::Equal && a.partial_cmp(b) == Some(c) { 3 } else { 5 });
    }
    out.push((h(a) == h(b)) as u128);
}

fn hw(w: &Word) -> u64 {
    let mut s = DefaultHasher::new();
    w.hash(&mut s);
    s.finish()
}

/// the derived traits of `Word` on one ordered pair
fn obs_wpair(a: &Word, b: &Word, out: &mut Vec<u128>) {
    out.push((a == b) as u128);
    let c = a.cmp(b);
    if a.as_value().ty() == b.as_value().ty() {
        out.push(match c {
            Ordering::Less => 0,
            Ordering::Equal => 1,
            Ordering::Greater => 2,
        });
    } else {
        let tc = a.as_value().ty().cmp(b.as_value().ty());
        out.push(if c == tc && c != Ordering::Equal && a.partial_cmp(b) == Some(c) { 3 } else { 5 });
    }
    out.push((hw(a) == hw(b)) as u128);
}

pub fn run(t: &[&str]) -> String {
    match guarded(|| run_inner(t)) {
        Some(v) => join(&v),
        None => "9".to_string(),
    }
}

fn run_inner(t: &[&str]) -> Vec<u128> {
    let kind = t[0];
    let mut pool: Vec<Entry> = vec![];
    let mut out: Vec<u128> = vec![];
    let first_op = if kind == "pair" || kind == "wpair" { 2 } else { 1 };
    for op in t[first_op..].split(|x| *x == "/") {
        if op.is_empty() {
            continue;
        }
        let (e, extra) = match guarded(|| run_op(&pool, op)) {
            Some(r) => r,
            None => (Err(9), vec![]),
        };
        out.push(match &e {
            Ok(_) => 0,
            Err(c) => *c,
        });
        out.extend(extra);
        pool.push(e);
    }
    out.push(777);
    let vals: Vec<&Value> = pool.iter().filter_map(|e| e.as_ref().ok()).collect();
    match kind {
        "pool" => {
            for v in &vals {
                obs_value(v, &mut out);
            }
        }
        "pair" => {
            let sel: Vec<&Value> = t[1]
                .split(',')
                .filter(|s| !s.is_empty())
                .filter_map(|s| pool.get(s.parse::<usize>().expect("sel")).and_then(|e| e.as_ref().ok()))
                .collect();
            for a in &sel {
                for b in &sel {
                    obs_pair(a, b, &mut out);
                }
            }
        }
        "wpair" => {
            let sel: Vec<&Value> = t[1]
                .split(',')
                .filter(|s| !s.is_empty())
                .filter_map(|s| pool.get(s.parse::<usize>().expect("sel")).and_then(|e| e.as_ref().ok()))
                .collect();
            let mut words: Vec<Word> = vec![];
            for v in &sel {
                match v.to_word() {
                    Some(w) => {
                        out.push(w.n() as u128 + 1);
                        words.push(w);
                    }
                    None => out.push(0),
                }
            }
            for a in &words {
                for b in &words {
                    obs_wpair(a, b, &mut out);
                }
            }
        }
        _ => panic!("kind"),
    }
    out
}
