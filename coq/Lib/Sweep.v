(* Finite sweeps over bytes and small offsets, lifted to universally quantified
   statements with forallb_forall.  Used for the shift/mask lemmas of the
   bit reader, the bit writer and the value buffer. *)
From Coq Require Import List NArith Lia Bool.
Import ListNotations.
Local Open Scope N_scope.

Definition upto (n : nat) : list N := map N.of_nat (seq 0 n).

Lemma in_upto n x : x < N.of_nat n -> In x (upto n).
Proof.
  intros H. unfold upto. apply in_map_iff. exists (N.to_nat x). split; [lia|].
  apply in_seq. lia.
Qed.

Lemma sweep1 (n : nat) (P : N -> bool) :
  forallb P (upto n) = true -> forall x, x < N.of_nat n -> P x = true.
Proof. intros H x Hx. rewrite forallb_forall in H. apply H, in_upto, Hx. Qed.

Lemma sweep2 (n m : nat) (P : N -> N -> bool) :
  forallb (fun x => forallb (P x) (upto m)) (upto n) = true ->
  forall x y, x < N.of_nat n -> y < N.of_nat m -> P x y = true.
Proof.
  intros H x y Hx Hy. pose proof (sweep1 n _ H x Hx) as H1. cbv beta in H1.
  apply (sweep1 m _ H1 y Hy).
Qed.

Lemma sweep3 (n m k : nat) (P : N -> N -> N -> bool) :
  forallb (fun x => forallb (fun y => forallb (P x y) (upto k)) (upto m)) (upto n) = true ->
  forall x y z, x < N.of_nat n -> y < N.of_nat m -> z < N.of_nat k -> P x y z = true.
Proof.
  intros H x y z Hx Hy Hz. pose proof (sweep2 n m _ H x y Hx Hy) as H1. cbv beta in H1.
  apply (sweep1 k _ H1 z Hz).
Qed.

Fixpoint list_beq {A} (eqb : A -> A -> bool) (l1 l2 : list A) : bool :=
  match l1, l2 with
  | [], [] => true
  | a :: r1, b :: r2 => eqb a b && list_beq eqb r1 r2
  | _, _ => false
  end.

Lemma list_beq_bool l1 : forall l2, list_beq Bool.eqb l1 l2 = true -> l1 = l2.
Proof.
  induction l1 as [|a r IH]; intros [|b r2] H; cbn in H; try discriminate; auto.
  apply andb_true_iff in H. destruct H as [H1 H2].
  apply eqb_prop in H1. f_equal; auto.
Qed.

Lemma list_beq_N l1 : forall l2, list_beq N.eqb l1 l2 = true -> l1 = l2.
Proof.
  induction l1 as [|a r IH]; intros [|b r2] H; cbn in H; try discriminate; auto.
  apply andb_true_iff in H. destruct H as [H1 H2].
  apply N.eqb_eq in H1. f_equal; auto.
Qed.
