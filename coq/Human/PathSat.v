(* C17 - the path count of parse_inner as it is since commit c273481 ("the path count of witness/disconnect
   names saturates instead of overflowing"): the same loop as Human/PathCount.v `pc_loop`, every addition

       let total = new_counts.entry(name).or_insert(0usize);  *total = total.saturating_add(count);

   i.e. min (a + b) usize::MAX.  `wd_check_old` of PathCount.v is the code BEFORE that commit (plain `+=`:
   panic with overflow checks, wrap without).  Theorems: every map of the saturating loop is, name by name,
   min (unbounded count, usize::MAX); hence no panic, the reported names are exactly those of the unbounded
   report (reached by more than one path), each with the count min (paths, 2^64 - 1). *)
From RS Require Import Lib.Tac Lib.Outcome Human.Namer Human.Render Human.RenderProofs Human.Resolve Human.RoundTrip
  Human.PathCount.
Import ListNotations.
Local Open Scope N_scope.

Definition sat_add (a b : N) : N := N.min (a + b) usize_max.

Fixpoint cnt_add_sat (c : counts) (n : name) (k : N) : counts :=
  match c with
  | [] => [(n, sat_add 0 k)]
  | (m, k0) :: r => if name_eqb m n then (m, sat_add k0 k) :: r else (m, k0) :: cnt_add_sat r n k
  end.

Definition cnt_merge_sat (a b : counts) : counts :=
  fold_left (fun acc nk => cnt_add_sat acc (fst nk) (snd nk)) b a.

Definition pc_new_sat (n : nnode) (ml mr : option counts) : counts :=
  let c0 : counts := [] in
  let c1 := match ml with Some m => cnt_merge_sat c0 m | None => c0 end in
  let c2 := match mr with Some m => cnt_merge_sat c1 m | None => c1 end in
  if counted n then cnt_add_sat c2 (nn_name n) 1 else c2.

Definition pc_step_sat (d : ndag) (yielded : list nat) (cs : list counts) (i : nat) : counts :=
  let n := nget d i in
  pc_new_sat n (option_map (fun c => nth (pos_of c yielded) cs []) (nn_l n))
               (option_map (fun c => nth (pos_of c yielded) cs []) (nn_r n)).

Fixpoint pc_loop_sat (d : ndag) (todo yielded : list nat) (cs : list counts) : list counts :=
  match todo with
  | [] => cs
  | i :: r => pc_loop_sat d r (yielded ++ [i]) (cs ++ [pc_step_sat d yielded cs i])
  end.

Definition pc_all_sat (d : ndag) : list counts := pc_loop_sat d (post_order d) [] [].

(* `counts.last().unwrap()` and the report; Panic 2: unwrap on an empty vector (never: wd_check_sat_ok) *)
Definition wd_check_sat (d : ndag) : outcome unit (list (name * N)) :=
  match rev (pc_all_sat d) with
  | [] => Panic 2
  | m :: _ => Ok (wd_of m)
  end.

Definition wd_sat (d : ndag) : list (name * N) := wd_of (last (pc_all_sat d) []).

(* ------------------------------------------------------------------ saturating maps *)
Definition bounded (c : counts) : Prop := forall m, cnt_get c m <= usize_max.

Lemma sat_add_le a b : sat_add a b <= usize_max.
Proof. unfold sat_add. apply N.le_min_r. Qed.

Lemma cnt_add_sat_keys c n k : map fst (cnt_add_sat c n k) = map fst (cnt_add c n k).
Proof.
  induction c as [|[m0 k0] r IH]; cbn [cnt_add_sat cnt_add map fst]; [reflexivity|].
  destruct (name_eqb m0 n); cbn [map fst]; [reflexivity | rewrite IH; reflexivity].
Qed.

Lemma cnt_add_sat_keys_ok c n k : keys_ok c -> keys_ok (cnt_add_sat c n k).
Proof. unfold keys_ok. rewrite cnt_add_sat_keys. apply cnt_add_keys_ok. Qed.

Lemma cnt_get_add_sat c n k m :
  cnt_get (cnt_add_sat c n k) m = if name_eqb n m then sat_add (cnt_get c m) k else cnt_get c m.
Proof.
  induction c as [|[m0 k0] r IH]; cbn [cnt_add_sat cnt_get].
  - destruct (name_eqb n m); reflexivity.
  - destruct (name_eqb m0 n) eqn:E0; cbn [cnt_get].
    + apply name_eqb_eq in E0. subst m0. destruct (name_eqb n m); reflexivity.
    + destruct (name_eqb m0 m) eqn:E1; [|exact IH].
      apply name_eqb_eq in E1. subst m0.
      assert (E : name_eqb n m = false).
      { apply name_eqb_neq. intros ->. rewrite name_eqb_refl in E0. discriminate E0. }
      rewrite E. reflexivity.
Qed.

Lemma cnt_add_sat_bounded c n k : bounded c -> bounded (cnt_add_sat c n k).
Proof.
  intros B m. rewrite cnt_get_add_sat. destruct (name_eqb n m); [apply sat_add_le | apply B].
Qed.

Lemma cnt_merge_sat_keys_ok : forall b a, keys_ok a -> keys_ok (cnt_merge_sat a b).
Proof.
  unfold cnt_merge_sat. induction b as [|[m0 k0] r IH]; intros a H; cbn [fold_left]; [exact H|].
  apply IH. apply cnt_add_sat_keys_ok. exact H.
Qed.

Lemma cnt_merge_sat_spec : forall b a, keys_ok b -> bounded a ->
  bounded (cnt_merge_sat a b) /\
  forall m, cnt_get (cnt_merge_sat a b) m = sat_add (cnt_get a m) (cnt_get b m).
Proof.
  unfold cnt_merge_sat. induction b as [|[m0 k0] r IH]; intros a K B; cbn [fold_left fst snd].
  - split; [exact B|]. intros m. cbn [cnt_get]. unfold sat_add. specialize (B m). rewrite N.add_0_r.
    symmetry. apply N.min_l. exact B.
  - inversion K as [|? ? Hn Hr]; subst.
    destruct (IH (cnt_add_sat a m0 k0) Hr (cnt_add_sat_bounded a m0 k0 B)) as [B' G].
    split; [exact B'|]. intros m. rewrite G, cnt_get_add_sat. cbn [cnt_get].
    destruct (name_eqb m0 m) eqn:E.
    + apply name_eqb_eq in E. subst m0. rewrite (cnt_get_notin r m Hn).
      unfold sat_add. rewrite N.add_0_r. apply N.min_l. apply N.le_min_r.
    + reflexivity.
Qed.

Section Sat.
Variable d : ndag.
Hypothesis W : wf_ndag d = true.

(* a map that is, name by name, min (name_paths of node c, usize::MAX) *)
Definition is_smap_of (c : nat) (m : counts) : Prop :=
  keys_ok m /\ forall n, cnt_get m n = N.min (name_paths d c n) usize_max.

Definition is_osmap_of (o : option nat) (m : counts) : Prop :=
  match o with Some c => is_smap_of c m | None => m = [] end.

Lemma osmap_get o m : is_osmap_of o m ->
  keys_ok m /\ forall n, cnt_get m n = N.min (oname_paths d o n) usize_max.
Proof.
  destruct o as [c|]; cbn [is_osmap_of oname_paths]; [intros H; exact H|].
  intros ->. split; [constructor | intros n; reflexivity].
Qed.

Lemma min_min_add a b : sat_add (N.min a usize_max) (N.min b usize_max) = N.min (a + b) usize_max.
Proof. unfold sat_add. lia. Qed.

Lemma pc_new_sat_spec j ml mr : (j < length d)%nat ->
  is_osmap_of (nn_l (nget d j)) ml -> is_osmap_of (nn_r (nget d j)) mr ->
  is_smap_of j (pc_new_sat (nget d j)
                  (match nn_l (nget d j) with Some _ => Some ml | None => None end)
                  (match nn_r (nget d j) with Some _ => Some mr | None => None end)).
Proof.
  intros Hj Hl Hr. unfold pc_new_sat.
  destruct (osmap_get _ _ Hl) as [Kl Gl]. destruct (osmap_get _ _ Hr) as [Kr Gr].
  assert (B0 : bounded []) by (intros m; cbn; unfold usize_max; lia).
  set (c1 := match match nn_l (nget d j) with Some _ => Some ml | None => None end with
             | Some m => cnt_merge_sat [] m | None => [] end).
  assert (K1 : keys_ok c1 /\ bounded c1 /\ forall n, cnt_get c1 n = N.min (oname_paths d (nn_l (nget d j)) n) usize_max).
  { subst c1. destruct (nn_l (nget d j)) as [c|].
    - destruct (cnt_merge_sat_spec ml [] Kl B0) as [B G].
      split; [apply cnt_merge_sat_keys_ok; constructor|]. split; [exact B|].
      intros n. rewrite G, Gl. cbn [cnt_get]. unfold sat_add. lia.
    - split; [constructor|]. split; [exact B0 | intros n; reflexivity]. }
  destruct K1 as [K1 [B1 G1]].
  set (c2 := match match nn_r (nget d j) with Some _ => Some mr | None => None end with
             | Some m => cnt_merge_sat c1 m | None => c1 end).
  assert (K2 : keys_ok c2 /\ forall n, cnt_get c2 n =
             N.min (oname_paths d (nn_l (nget d j)) n + oname_paths d (nn_r (nget d j)) n) usize_max).
  { subst c2. destruct (nn_r (nget d j)) as [c|].
    - destruct (cnt_merge_sat_spec mr c1 Kr B1) as [B G].
      split; [apply cnt_merge_sat_keys_ok; exact K1|]. intros n. rewrite G, G1, Gr. apply min_min_add.
    - split; [exact K1|]. intros n. rewrite G1. cbn [oname_paths]. rewrite N.add_0_r. reflexivity. }
  destruct K2 as [K2 G2]. clearbody c2. clear c1 K1 B1 G1.
  split.
  - destruct (counted (nget d j)); [apply cnt_add_sat_keys_ok|]; exact K2.
  - intros n. rewrite (name_paths_step d W j n Hj). unfold own, is_named, nname.
    destruct (counted (nget d j)); cbn [andb].
    + rewrite cnt_get_add_sat. destruct (name_eqb (nn_name (nget d j)) n); rewrite G2; unfold sat_add; lia.
    + rewrite G2; f_equal; lia.
Qed.

Definition loop_inv_sat (yielded : list nat) (cs : list counts) : Prop :=
  length cs = length yielded /\
  forall k, (k < length yielded)%nat -> is_smap_of (nth k yielded 0%nat) (nth k cs []).

Lemma pc_loop_sat_inv : forall todo yielded cs,
  loop_inv_sat yielded cs ->
  (forall a, In a todo -> (a < length d)%nat) ->
  cc d (rev (yielded ++ todo)) ->
  loop_inv_sat (yielded ++ todo) (pc_loop_sat d todo yielded cs).
Proof.
  induction todo as [|i r IH]; intros yielded cs Inv Hr Hc; cbn [pc_loop_sat].
  - rewrite app_nil_r. exact Inv.
  - replace (yielded ++ i :: r) with ((yielded ++ [i]) ++ r) by (rewrite <- app_assoc; reflexivity).
    apply IH.
    + destruct Inv as [Hlen Hm]. split; [rewrite !app_length, Hlen; reflexivity|].
      intros k Hk. rewrite app_length in Hk. cbn [length] in Hk.
      destruct (Nat.lt_ge_cases k (length yielded)) as [Hlt|Hge].
      * rewrite !app_nth1 by lia. apply Hm. exact Hlt.
      * assert (k = length yielded) by lia. subst k.
        rewrite app_nth2 by lia. rewrite Nat.sub_diag. cbn [nth].
        rewrite <- Hlen at 1. rewrite app_nth2 by lia. rewrite Nat.sub_diag. cbn [nth].
        assert (Hch : forall c, child d i c -> In c yielded).
        { intros c Hcc. rewrite rev_app_distr in Hc. cbn [rev] in Hc. rewrite <- app_assoc in Hc.
          clear - Hc Hcc. induction (rev r) as [|x l IHl]; cbn [app cc] in Hc.
          - destruct Hc as [Hc _]. apply in_rev. exact (Hc c Hcc).
          - apply IHl. exact (proj2 Hc). }
        assert (Ho : forall o, (forall c, o = Some c -> child d i c) ->
                  is_osmap_of o (match o with Some c => nth (pos_of c yielded) cs [] | None => [] end)).
        { intros [c|] Hoc; cbn [is_osmap_of]; [|reflexivity].
          destruct (pos_of_spec c yielded (Hch c (Hoc c eq_refl))) as [P1 P2].
          specialize (Hm _ P1). rewrite P2 in Hm. exact Hm. }
        pose proof (Ho (nn_l (nget d i)) (fun c E => or_introl E)) as Hl.
        pose proof (Ho (nn_r (nget d i)) (fun c E => or_intror E)) as Hrr.
        pose proof (pc_new_sat_spec i _ _ (Hr i (or_introl eq_refl)) Hl Hrr) as S.
        unfold pc_step_sat. destruct (nn_l (nget d i)) as [cl|], (nn_r (nget d i)) as [cr|]; cbn [option_map]; exact S.
    + intros a Ha. apply Hr. right. exact Ha.
    + rewrite <- app_assoc. exact Hc.
Qed.

Lemma pc_all_sat_inv : loop_inv_sat (post_order d) (pc_all_sat d).
Proof.
  unfold pc_all_sat. apply (pc_loop_sat_inv (post_order d) [] []).
  - split; [reflexivity|]. intros k Hk. cbn in Hk. lia.
  - intros a Ha. exact (pf_range _ _ (post_order_facts d W) a Ha).
  - cbn [app]. exact (post_order_cc d W).
Qed.

Lemma pc_sat_last : is_smap_of (root_of d) (last (pc_all_sat d) []).
Proof.
  destruct pc_all_sat_inv as [Hlen Hm]. destruct (po_head d) as [rest E].
  assert (P : post_order d = rev rest ++ [root_of d]) by (unfold post_order; rewrite E; reflexivity).
  assert (Hn : (length (post_order d) = S (length rest))%nat).
  { rewrite P, app_length, rev_length. cbn. lia. }
  specialize (Hm (length rest) ltac:(lia)).
  rewrite P in Hm at 1. rewrite app_nth2 in Hm by (rewrite rev_length; lia).
  rewrite rev_length, Nat.sub_diag in Hm. cbn [nth] in Hm.
  assert (L : last (pc_all_sat d) [] = nth (length rest) (pc_all_sat d) []).
  { clear Hm. revert Hlen. rewrite Hn. generalize (pc_all_sat d) (length rest).
    induction l as [|x l IHl]; intros n Hl; [discriminate Hl|].
    destruct l as [|y l]; [cbn in Hl; assert (n = 0)%nat by lia; subst; reflexivity|].
    destruct n as [|n]; [cbn in Hl; lia|]. cbn [last nth]. apply IHl. cbn in Hl |- *. lia. }
  rewrite L. exact Hm.
Qed.

(* the check never panics: it returns the report of the last map *)
Theorem wd_check_sat_ok : wd_check_sat d = Ok (wd_sat d).
Proof.
  unfold wd_check_sat, wd_sat. destruct pc_all_sat_inv as [Hlen _]. destruct (po_head d) as [rest E].
  assert (Hn : (length (pc_all_sat d) = S (length rest))%nat).
  { rewrite Hlen. unfold post_order. rewrite E. cbn [rev]. rewrite app_length, rev_length. cbn. lia. }
  destruct (pc_all_sat d) as [|x l] using rev_ind; [discriminate Hn|].
  rewrite rev_app_distr. cbn [rev app]. rewrite last_last. reflexivity.
Qed.

(* what is reported: the names reached by more than one path, each once, with min (paths, usize::MAX) *)
Theorem wd_sat_spec n c :
  In (n, c) (wd_sat d) <-> c = N.min (name_paths d (root_of d) n) usize_max /\ 1 < name_paths d (root_of d) n.
Proof.
  unfold wd_sat. destruct pc_sat_last as [K G]. rewrite (wd_of_spec d _ n c K), G.
  unfold usize_max. split; intros [-> H]; split; try reflexivity; lia.
Qed.

Theorem wd_sat_names : NoDup (map fst (wd_sat d)).
Proof. unfold wd_sat. apply wd_of_keys. apply pc_sat_last. Qed.

(* the same names as the unbounded report *)
Theorem wd_sat_same_names n : In n (map fst (wd_sat d)) <-> In n (map fst (wd_errors d)).
Proof.
  split; intros H; apply in_map_iff in H; destruct H as [[n' c] [E Hin]]; cbn [fst] in E; subst n'.
  - apply wd_sat_spec in Hin. destruct Hin as [_ H1].
    apply in_map_iff. exists (n, name_paths d (root_of d) n). split; [reflexivity|].
    apply (wd_errors_spec d W). split; [reflexivity | exact H1].
  - apply (wd_errors_spec d W) in Hin. destruct Hin as [-> H1].
    apply in_map_iff. exists (n, N.min (name_paths d (root_of d) n) usize_max). split; [reflexivity|].
    apply wd_sat_spec. split; [reflexivity | exact H1].
Qed.

Theorem wd_sat_nil_iff : wd_sat d = [] <-> path_errs d = [].
Proof.
  rewrite <- (proj1 (no_error_iff d W)). split; intros H.
  - destruct (wd_errors d) as [|[n c] r] eqn:E; [reflexivity|].
    assert (Hin : In n (map fst (wd_sat d))) by (apply wd_sat_same_names; rewrite E; left; reflexivity).
    rewrite H in Hin. inversion Hin.
  - destruct (wd_sat d) as [|[n c] r] eqn:E; [reflexivity|].
    assert (Hin : In n (map fst (wd_errors d))) by (apply wd_sat_same_names; rewrite E; left; reflexivity).
    rewrite H in Hin. inversion Hin.
Qed.
End Sat.

Theorem wd_sat_spec_thm : forall d n c, wf_ndag d = true ->
  (In (n, c) (wd_sat d) <-> c = N.min (name_paths d (root_of d) n) usize_max /\ 1 < name_paths d (root_of d) n).
Proof. intros d n c W. exact (wd_sat_spec d W n c). Qed.

Theorem wd_sat_same_names_thm : forall d n, wf_ndag d = true ->
  (In n (map fst (wd_sat d)) <-> In n (map fst (wd_errors d))).
Proof. intros d n W. exact (wd_sat_same_names d W n). Qed.
