(* C04, phase 2 - Display of `types::Error` (src/types/mod.rs) on the slab model.

     Error::Bind { existing_bound, new_bound, hint }
         "failed to apply bound `{new_bound}` to existing bound `{existing_bound}`: {hint}"
     Error::OccursCheck { infinite_bound }      "infinitely-sized type {infinite_bound}"
   where both bounds are `Incomplete`s built by Incomplete::from_bound_ref from the state the failing
   operation left behind (Slab.inc_of_bound) and printed by `impl Display for Incomplete`
   (Display.print_inc with MAX_DISPLAY_DEPTH / MAX_DISPLAY_LENGTH from Generated/Consts.v); a
   complete type embedded in the bound is printed by Final's unbounded Display (Display.dfin).

   Computed here and compared with the harness on every generated type error:
     err_fsz            (RunSlab.v) tree size of the embedded complete types            = harness `fsz`
     err_min_bytes      bytes of the message apart from the hint and the variable names  <= harness `dlen`
     err_names          number of printed variable names (each at most 32 bytes)
     f_c04_predicate    "the error embeds a complete type whose tree expansion exceeds
                         MAX_DISPLAY_LENGTH": the match predicate of finding F-C04 *)
From RS Require Import Lib.Tac Lib.Outcome Ty.Ty Core.Prog Generated.Consts
  Lib.Sweep Infer.Constraints Infer.Unify Infer.Infer Infer.Order Infer.Run Infer.Display Infer.UnionFind Infer.Slab Infer.RunSlab.
Import ListNotations.
Local Open Scope outcome_scope.

(* BoundRef of the class of a UbElement, without mutation *)
Definition bref (c : ctx) (e : nat) : nat :=
  match ub_data (ufget (c_uf c) (rep (c_uf c) e)) with
  | URoot b => b
  | UEq _ => 0%nat
  end.

(* the graph `(ctx, BoundRef)` as a DagLike: one node per slab entry *)
Definition graph_of_ctx (c : ctx) : igraph :=
  map (fun b => match slab_get c b with
                | RFree => IFree
                | RComplete t => IFinal t
                | RSum x y => ISum (bref c x) (bref c y)
                | RProd x y => IProd (bref c x) (bref c y)
                end) (seq 0 (length (c_slab c))).

Definition disp_depth : nat := N.to_nat c_max_display_depth.
Definition disp_length : nat := N.to_nat c_max_display_length.

(* Display of Incomplete::from_bound_ref(ctx, b) *)
Definition inc_display (c : ctx) (b : nat) : outcome unit (list tok) :=
  match occurs_check c b with
  | Ok (_, true) => Ok [TSelf]
  | Ok (_, false) => print_inc (graph_of_ctx c) b disp_depth disp_length
  | _ => Panic 30
  end.

(* (new_bound tokens, existing_bound tokens) *)
Definition err_display (e : rerr) (c : ctx) : outcome unit (list tok * list tok) :=
  match e with
  | RBind _ ex nb => n <- inc_display c nb ;; x <- inc_display c ex ;; Ok (n, x)
  | ROccurs => Ok ([TSelf], [])
  | RShape => Ok ([], [])
  end.

Local Open Scope N_scope.

(* byte / char length of Final's Display without building the token list (same recursion as dfin) *)
Fixpoint dfin_len (t : ty) : option nat * bool * N * N :=
  match t with
  | One => (None, false, 1, 1)
  | Sum a b =>
      let '(_, pa, ba, ca) := dfin_len a in
      let '(_, pb, bb, cb) := dfin_len b in
      let w := fun (p : bool) (x : N) => if p then x + 2 else x in
      match a, b with
      | One, One => (Some O, false, 1, 1)
      | One, _ => (None, false, w pb bb + 1, w pb cb + 1)
      | _, _ => (None, true, w pa ba + 3 + w pb bb, w pa ca + 3 + w pb cb)
      end
  | Prod a b =>
      let '(wa, pa, ba, ca) := dfin_len a in
      let '(wb, pb, bb, cb) := dfin_len b in
      let w := fun (p : bool) (x : N) => if p then x + 2 else x in
      match wa, wb with
      | Some n, Some m =>
          if (Nat.eqb n m && Nat.leb (S n) 31)%bool then (Some (S n), false, tok_bytes (TPow (S n)), tok_chars (TPow (S n)))
          else (None, true, w pa ba + 4 + w pb bb, w pa ca + 3 + w pb cb)
      | _, _ => (None, true, w pa ba + 4 + w pb bb, w pa ca + 3 + w pb cb)
      end
  end.

Definition final_bytes (t : ty) : N := snd (fst (dfin_len t)).

Definition tok_bytes_x (t : tok) : N :=
  match t with
  | TFinal ty => final_bytes ty
  | TTrunc => 29 + ndigits c_max_display_length     (* "... [truncated type after " N " nodes]" *)
  | other => tok_bytes other
  end.

Definition toks_bytes (l : list tok) : N := fold_left (fun acc x => acc + tok_bytes_x x) l 0.
Definition toks_names (l : list tok) : N := N.of_nat (length (filter (fun t => match t with TName => true | _ => false end) l)).

(* the fixed text of the message, without the hint *)
Definition err_fixed_bytes (e : rerr) : N :=
  match e with
  | RBind _ _ _ => 47       (* "failed to apply bound `" 23 + "` to existing bound `" 21 + "`: " 3 *)
  | ROccurs => 22           (* "infinitely-sized type " *)
  | RShape => 0
  end.

Definition err_min_bytes (e : rerr) (c : ctx) : N :=
  match err_display e c with
  | Ok (n, x) => err_fixed_bytes e + toks_bytes n + toks_bytes x
  | _ => 0
  end.

Definition err_names (e : rerr) (c : ctx) : N :=
  match err_display e c with
  | Ok (n, x) => toks_names n + toks_names x
  | _ => 0
  end.

(* the match predicate of the open finding F-C04 *)
Definition f_c04_predicate (e : rerr) (c : ctx) : bool := c_max_display_length <? err_fsz e c.

(* kind prog / progf: canonical result ++ [99; fsz; min bytes; names; F-C04 predicate] *)
Definition show_rresult_x (r : rres (list (option tarrow))) : list N :=
  match r with
  | Err (RBind st ex nb, c) =>
      let e := RBind st ex nb in
      [1; 20; st; 99; err_fsz e c; err_min_bytes e c; err_names e c; if f_c04_predicate e c then 1 else 0]
  | Err (ROccurs, c) => [1; 22; 2; 99; 0; err_min_bytes ROccurs c; 0; 0]
  | other => strip99 (show_rresult other) ++ [99; 0; 0; 0; 0]
  end.

Local Close Scope N_scope.

Definition run_rinfer_x (fmode : nat) (program : bool) (order : list nat) (jets : list (N * N * list N * list N)) (p : prog) : list N :=
  let n := length p in
  let order := match order with [] => seq 0 n | _ => order end in
  let shape := [1; 11; 0; 99; 0; 0; 0; 0]%N in
  if negb (valid_order n order) then shape else
  let pos := pos_of order in
  let jt := jets_of jets in
  let p' := permute p order in
  match gen jt p' with
  | None => shape
  | Some _ =>
      if (program && match nth (n - 1) p NIden with NHidden _ => true | _ => false end)%bool then shape else
      show_rresult_x (r_infer (model_fuel jt p) jt fmode program p' (map pos (seq 0 n)) (pos (n - 1)%nat))
  end.

Fixpoint strip99x (l : list N) : list N :=
  match l with
  | [] => []
  | x :: r => if N.eqb x 99 then [] else x :: strip99x r
  end.

Definition run_both_x (fmode : nat) (program : bool) (order : list nat) (jets : list (N * N * list N * list N)) (p : prog) : list N :=
  let a := run_infer program order jets p in
  let b := run_rinfer_x fmode program order jets p in
  if Sweep.list_beq N.eqb a (strip99x b) then b else (777 :: a ++ 778 :: b)%N.

(* ================================================================== theorems *)

(* a complete bound is printed by Final's Display alone: the Incomplete of a Bound::Complete is the
   single node Incomplete::Final *)
Lemma occurs_check_complete c b t : slab_get c b = RComplete t -> occurs_check c b = Ok (c, false).
Proof.
  intros E. unfold occurs_check, occurs_fuel.
  replace (4 * length (c_slab c) + 4)%nat with (S (S (S (4 * length (c_slab c) + 1)))) by lia.
  cbn [occurs_loop mem existsb]. unfold kids. rewrite E. cbn [obind]. cbn [occurs_loop]. reflexivity.
Qed.

Lemma graph_of_ctx_get c b : (b < length (c_slab c))%nat ->
  iget (graph_of_ctx c) b =
  match slab_get c b with
  | RFree => IFree
  | RComplete t => IFinal t
  | RSum x y => ISum (bref c x) (bref c y)
  | RProd x y => IProd (bref c x) (bref c y)
  end.
Proof.
  intros H. unfold iget, graph_of_ctx.
  rewrite (nth_indep _ IFree (match slab_get c 0 with RFree => IFree | RComplete t => IFinal t
                                                  | RSum x y => ISum (bref c x) (bref c y) | RProd x y => IProd (bref c x) (bref c y) end))
    by (rewrite map_length, seq_length; exact H).
  rewrite (map_nth (fun b => match slab_get c b with RFree => IFree | RComplete t => IFinal t
                                                 | RSum x y => ISum (bref c x) (bref c y) | RProd x y => IProd (bref c x) (bref c y) end)
                   (seq 0 (length (c_slab c))) 0%nat b).
  rewrite seq_nth by exact H. reflexivity.
Qed.

Lemma print_inc_final g root t D L : iget g root = IFinal t -> (0 < D)%nat ->
  print_inc g root D L = Ok [TFinal t].
Proof.
  intros E HD. destruct D as [|D]; [lia|]. unfold print_inc, print_fuel.
  replace (3 * (L + 1) + 2)%nat with (S (S (3 * L + 3))) by lia.
  cbn [prun]. unfold pstep at 1. cbn [st_stack it_ncy Nat.eqb it_node st_next it_depth it_index].
  rewrite E. cbn [ikids].
  replace (Nat.ltb L 0) with false by (symmetry; apply Nat.ltb_ge; lia).
  cbn [st_skip st_out]. unfold emit, sets_skip. cbn [it_node it_ncy]. rewrite E. cbn [push_opt].
  unfold pstep. cbn [st_stack st_out rev app]. reflexivity.
Qed.

Theorem inc_display_complete c b t : (b < length (c_slab c))%nat -> slab_get c b = RComplete t ->
  inc_display c b = Ok [TFinal t].
Proof.
  intros H E. unfold inc_display. rewrite (occurs_check_complete c b t E).
  apply print_inc_final; [rewrite graph_of_ctx_get by exact H; rewrite E; reflexivity|].
  unfold disp_depth. vm_compute. lia.
Qed.

(* hence: a Bind error whose existing bound is a complete type t prints all of Final's Display of t *)
Definition expand_tok (t : tok) : list tok := match t with TFinal ty => display_final ty | x => [x] end.
Definition expand (l : list tok) : list tok := flat_map expand_tok l.

Theorem err_display_embeds c st ex nb t : (ex < length (c_slab c))%nat -> slab_get c ex = RComplete t ->
  forall n x, err_display (RBind st ex nb) c = Ok (n, x) ->
  x = [TFinal t] /\ (length (display_final t) <= length (expand n ++ expand x))%nat.
Proof.
  intros H E n x D. unfold err_display in D.
  destruct (inc_display c nb) as [n'| | |]; cbn [obind] in D; try discriminate.
  rewrite (inc_display_complete c ex t H E) in D. cbn [obind] in D. injection D as <- <-.
  split; [reflexivity|]. rewrite app_length. unfold expand at 2. cbn [flat_map expand_tok]. rewrite app_nil_r. lia.
Qed.

(* F-C04 for the model: no bound on the text of a type error *)
Definition bomb_ctx (n : nat) : ctx := mk_ctx [RComplete (bomb_ty n)] [mk_ub (URoot 0) 0].

Theorem err_display_unbounded_refuted : forall B : nat, exists c e n x,
  err_display e c = Ok (n, x) /\ (B < length (expand n ++ expand x))%nat.
Proof.
  intros B. exists (bomb_ctx B), (RBind 0 0 0).
  assert (H0 : (0 < length (c_slab (bomb_ctx B)))%nat) by (cbn; lia).
  assert (E0 : slab_get (bomb_ctx B) 0 = RComplete (bomb_ty B)) by reflexivity.
  exists [TFinal (bomb_ty B)], [TFinal (bomb_ty B)]. split.
  - unfold err_display. rewrite (inc_display_complete _ 0 _ H0 E0). reflexivity.
  - rewrite app_length. unfold expand. cbn [flat_map expand_tok]. rewrite app_nil_r.
    pose proof (display_final_bomb B). pose proof (Nat.pow_gt_lin_r 2 B ltac:(lia)). lia.
Qed.

(* and the bounded part: apart from embedded complete types, the two bounds take at most
   2 (3 (LENGTH + 1) + 1) tokens *)
Theorem err_display_bounded c e n x : err_display e c = Ok (n, x) ->
  (length n <= 3 * (disp_length + 1) + 1)%nat /\ (length x <= 3 * (disp_length + 1) + 1)%nat.
Proof.
  assert (B : forall b l, inc_display c b = Ok l -> (length l <= 3 * (disp_length + 1) + 1)%nat).
  { intros b l H. unfold inc_display in H. destruct (occurs_check c b) as [[c1 [|]]| | |]; try discriminate.
    - injection H as <-. cbn. lia.
    - destruct (print_inc_bounded (graph_of_ctx c) b disp_depth disp_length) as (out & E & Le). congruence. }
  destruct e as [|st ex nb|]; cbn [err_display]; intros H.
  - injection H as <- <-. cbn. lia.
  - destruct (inc_display c nb) as [n'| | |] eqn:Dn; cbn [obind] in H; try discriminate.
    destruct (inc_display c ex) as [x'| | |] eqn:Dx; cbn [obind] in H; try discriminate.
    injection H as <- <-. split; eapply B; eauto.
  - injection H as <- <-. cbn. lia.
Qed.
