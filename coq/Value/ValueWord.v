(* C11 / C10 - the `Word` struct of src/value.rs ({ value: Value, n: u8 } with derived
   PartialEq, Eq, PartialOrd, Ord, Hash) and a few small specifications (is_of_type,
   padded_len, compact_len <= padded_len, the zero value serialises to zeroes).
   Derived traits compare / hash the fields in declaration order: value first, then n. *)
From RS Require Import Lib.Tac Lib.Outcome Lib.Bits Lib.Sweep Lib.ListExtra Ty.Ty
  Value.ValueModel Value.ValueBits Value.ValueRefine Value.ValueCons Value.ValueInv Value.ValueEq
  Value.ValueWords Value.ValueEos.
Import ListNotations.
Local Open Scope N_scope.

Record word : Type := mkW { w_value : value; w_n : N }.

(* #[derive(PartialEq)]: self.value == other.value && self.n == other.n *)
Definition w_eq (a b : word) : res bool :=
  obind (v_eq (w_value a) (w_value b)) (fun e => Ok (e && (w_n a =? w_n b))).

(* #[derive(Ord)]: lexicographic over (value, n) *)
Definition w_cmp (tcmp : ty -> ty -> comparison) (a b : word) : res comparison :=
  obind (v_cmp tcmp (w_value a) (w_value b)) (fun c =>
    Ok (match c with Eq => N.compare (w_n a) (w_n b) | c => c end)).

(* #[derive(Hash)]: value.hash(state); n.hash(state) *)
Definition w_hash (a : word) : res ((ty * list bool) * N) :=
  obind (v_hash (w_value a)) (fun h => Ok (h, w_n a)).

(* Final::as_word: the n < 32 with self.tmr == TWO_TWO_N[n] (TMR equality = structural equality) *)
Fixpoint word_of (t : ty) : option N :=
  match t with
  | Sum One One => Some 0
  | Prod a b =>
      match word_of a, word_of b with
      | Some x, Some y => if x =? y then Some (x + 1) else None
      | _, _ => None
      end
  | _ => None
  end.
Definition as_word (t : ty) : option N :=
  match word_of t with Some n => if n <? 32 then Some n else None | None => None end.

(* Value::to_word *)
Definition to_word (v : value) : option word :=
  match as_word (vty v) with Some n => Some (mkW v n) | None => None end.

(* Word::product *)
Definition w_product (a b : word) : res (option word) :=
  if (w_n a =? w_n b) && (w_n a <? 30) then
    obind (v_product (w_value a) (w_value b)) (fun v => Ok (Some (mkW v (w_n a + 1))))
  else Ok None.

(* the invariant of the struct: a WF value of type 2^(2^n), n < 32 *)
Definition WFW (w : word) : Prop :=
  WF (w_value w) /\ vty (w_value w) = word_ty (N.to_nat (w_n w)) /\ w_n w < 32.

Lemma word_of_word_ty k : word_of (word_ty k) = Some (N.of_nat k).
Proof.
  induction k as [|k IH]; [reflexivity|].
  cbn [word_ty word_of]. rewrite IH, N.eqb_refl.
  f_equal. lia.
Qed.

Lemma word_of_sound : forall t n, word_of t = Some n -> t = word_ty (N.to_nat n).
Proof.
  induction t as [|a IHa b IHb|a IHa b IHb]; intros n H; cbn [word_of] in H.
  - discriminate.
  - destruct a; try discriminate. destruct b; try discriminate. injection H as <-. reflexivity.
  - destruct (word_of a) as [x|] eqn:Ea; [|destruct a; discriminate].
    destruct (word_of b) as [y|] eqn:Eb; [|destruct a; discriminate].
    destruct (x =? y) eqn:Exy; [|destruct a; discriminate]. apply N.eqb_eq in Exy. subst y.
    assert (Hn : n = x + 1) by (destruct a; congruence). subst n.
    rewrite (IHa x eq_refl), (IHb x eq_refl) at 1.
    replace (N.to_nat (x + 1)) with (S (N.to_nat x)) by lia. reflexivity.
Qed.

Lemma word_ty_inj a b : word_ty a = word_ty b -> a = b.
Proof.
  intros H. pose proof (word_of_word_ty a) as Ha. rewrite H, word_of_word_ty in Ha.
  injection Ha as Ha. lia.
Qed.

(* to_word yields a word exactly for the word types below 2^(2^32), with the struct invariant *)
Theorem to_word_spec v : WF v ->
  match to_word v with
  | Some w => w_value w = v /\ WFW w
  | None => forall k, (k < 32)%nat -> vty v <> word_ty k
  end.
Proof.
  intros HW. unfold to_word, as_word. destruct (word_of (vty v)) as [n|] eqn:E.
  - destruct (n <? 32) eqn:L.
    + apply N.ltb_lt in L. split; [reflexivity|]. split; [exact HW|]. split; [apply word_of_sound, E|exact L].
    + apply N.ltb_ge in L. intros k Hk Ht. rewrite Ht, word_of_word_ty in E. injection E as <-. lia.
  - intros k Hk Ht. rewrite Ht, word_of_word_ty in E. discriminate.
Qed.

(* THEOREM word_eq_iff: the derived == of Word is the == of the underlying Value (the field n is
   determined by the value's type), hence semantic *)
Theorem word_eq_iff a b : WFW a -> WFW b ->
  (w_eq a b = Ok true <-> v_eq (w_value a) (w_value b) = Ok true) /\
  (w_eq a b = Ok true <-> w_n a = w_n b /\ absv (w_value a) = absv (w_value b)).
Proof.
  intros (Ha & Hta & _) (Hb & Htb & _).
  assert (Hn : vty (w_value a) = vty (w_value b) <-> w_n a = w_n b).
  { rewrite Hta, Htb. split; [intros H; apply word_ty_inj in H; lia|intros ->; reflexivity]. }
  destruct (v_eq_spec _ _ Ha Hb) as (r & E & Hr). unfold w_eq. rewrite E. cbn [obind].
  split.
  - split.
    + intros H. injection H as H. apply andb_true_iff in H. destruct H as [-> _]. reflexivity.
    + intros H. injection H as ->. f_equal. apply andb_true_iff. split; [reflexivity|].
      apply N.eqb_eq, Hn, Hr. reflexivity.
  - split.
    + intros H. injection H as H. apply andb_true_iff in H. destruct H as [-> Hnn].
      apply N.eqb_eq in Hnn. split; [exact Hnn|]. apply Hr. reflexivity.
    + intros [Hnn Habs]. f_equal. apply andb_true_iff. split; [|apply N.eqb_eq, Hnn].
      apply Hr. split; [apply Hn, Hnn|exact Habs].
Qed.

(* the derived order is the order of the values *)
Theorem word_cmp_delegates (tcmp : ty -> ty -> comparison) a b :
  (forall x y, tcmp x y = Eq <-> x = y) -> WFW a -> WFW b ->
  w_cmp tcmp a b = v_cmp tcmp (w_value a) (w_value b).
Proof.
  intros Ht (Ha & Hta & _) (Hb & Htb & _). unfold w_cmp.
  rewrite (v_cmp_spec tcmp _ _ Ha Hb). cbn [obind].
  destruct (scmp tcmp (w_value a) (w_value b)) eqn:E; try reflexivity.
  apply (scmp_eq_iff tcmp Ht) in E. destruct E as [Et _]. rewrite Hta, Htb in Et.
  apply word_ty_inj in Et. assert (w_n a = w_n b) as -> by lia. rewrite N.compare_refl. reflexivity.
Qed.

(* equal words hash equally; equal hash streams mean equal words *)
Theorem word_hash_eq a b : WFW a -> WFW b -> (w_eq a b = Ok true <-> w_hash a = w_hash b).
Proof.
  intros HWa HWb. destruct (word_eq_iff a b HWa HWb) as [H1 H2].
  destruct HWa as (Ha & Hta & _), HWb as (Hb & Htb & _).
  unfold w_hash. rewrite !v_hash_spec by assumption. cbn [obind]. split.
  - intros H. apply H2 in H. destruct H as [Hn Habs]. rewrite Hta, Htb, Hn, Habs. reflexivity.
  - intros H. injection H as Ht Hc Hn. apply H2. split; [exact Hn|].
    apply (compact_eq_iff _ _ Ht). exact Hc.
Qed.

(* the constructors establish the invariant: Word::u1 .. u128 *)
Theorem word_int_WFW k n v : (k <= 7)%nat -> v_word_int k n = Ok v ->
  WFW (mkW v (N.of_nat k)) /\ absv v = word_sval k (bits_be (2 ^ k) n).
Proof.
  intros Hk E. destruct (v_word_int_abs k n v Hk E) as (HW & Ht & _ & Ha).
  split; [|exact Ha]. split; [exact HW|]. cbn [w_value w_n]. rewrite Nnat.Nat2N.id.
  split; [exact Ht|lia].
Qed.

(* Word::product keeps the invariant and concatenates the bits *)
Theorem w_product_spec a b : WFW a -> WFW b ->
  match w_product a b with
  | Ok (Some w) => WFW w /\ w_n w = w_n a + 1 /\ w_n a = w_n b /\
                   vbits (w_value w) = vbits (w_value a) ++ vbits (w_value b)
  | Ok None => w_n a <> w_n b \/ 30 <= w_n a
  | _ => False
  end.
Proof.
  intros (Ha & Hta & La) (Hb & Htb & Lb). unfold w_product.
  destruct (w_n a =? w_n b) eqn:En; cbn [andb]; [|left; apply N.eqb_neq, En].
  apply N.eqb_eq in En. destruct (w_n a <? 30) eqn:L30; [|right; apply N.ltb_ge, L30].
  apply N.ltb_lt in L30.
  destruct (v_product_spec _ _ Ha Hb) as (x & Ex & HWx & Htx & Hbx & _).
  { rewrite Hta, Htb, <- En. apply (small_word (S (N.to_nat (w_n a)))). lia. }
  rewrite Ex. cbn [obind]. split; [|split; [reflexivity|split; [exact En|exact Hbx]]].
  split; [exact HWx|]. cbn [w_value w_n]. split; [|lia].
  rewrite Htx, Hta, Htb, <- En. replace (N.to_nat (w_n a + 1)) with (S (N.to_nat (w_n a))) by lia. reflexivity.
Qed.

(* ------------------------------------------------------------------ small specifications *)
(* Value::is_of_type : self.ty == ty (TMR equality = structural equality) *)
Definition is_of_type (v : value) (t : ty) : bool := ty_eqb (vty v) t.

Theorem is_of_type_spec v t : (is_of_type v t = true <-> vty v = t) /\
  (is_of_type v t = true -> has_ty (absv v) t = true).
Proof.
  unfold is_of_type. split; [apply ty_eqb_eq|].
  intros H. apply ty_eqb_eq in H. subst t. apply absv_has_ty.
Qed.

(* Value::padded_len is the width, the length of iter_padded; compact_len never exceeds it *)
Theorem padded_len_spec v : WF v ->
  padded_len v = width (vty v) /\
  (exists p, iter_padded v = Ok p /\ N.of_nat (length p) = padded_len v) /\
  (exists c, compact_len v = Ok c /\ c <= padded_len v).
Proof.
  intros HW. assert (Hs : small (vty v)) by apply HW.
  unfold padded_len. rewrite (bw_small _ Hs). split; [reflexivity|]. split.
  - exists (vbits v). rewrite (iter_padded_spec v HW). split; [reflexivity|]. rewrite vbits_length. lia.
  - rewrite (compact_len_spec v HW). eexists. split; [reflexivity|].
    pose proof (compact_enc_le_width (vty v) (absv v) (absv_has_ty v)). lia.
Qed.

(* "The zero value serializes to a string of zeroes" *)
Lemma szero_compact_zeros : forall t, compact_enc (szero t) = repeat false (length (compact_enc (szero t))).
Proof.
  induction t as [|a IHa b IHb|a IHa b IHb]; cbn [szero compact_enc].
  - reflexivity.
  - cbn [length repeat]. f_equal. exact IHa.
  - rewrite app_length, repeat_app, <- IHa, <- IHb. reflexivity.
Qed.

Theorem v_zero_serialises_to_zeros t : small t ->
  exists n, iter_compact (v_zero t) = Ok (repeat false n) /\
            iter_padded (v_zero t) = Ok (repeat false (N.to_nat (width t))).
Proof.
  intros Hs. destruct (v_zero_spec t Hs) as (HW & Ht & Ha).
  exists (length (compact_enc (szero t))). split.
  - rewrite (iter_compact_spec _ HW), Ha. f_equal. apply szero_compact_zeros.
  - rewrite (iter_padded_spec _ HW). f_equal. unfold vbits, v_zero. cbn [buf off vty].
    apply bitrange_zeros.
Qed.
