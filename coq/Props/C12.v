(* C12 - Redemption programs only ever carry well-typed witnesses.
   Only pinned statements, `Theorem .. exact lemma` and `Print Assumptions`.
   Models: Redeem/Finalize.v, Redeem/Routes.v. *)
From RS Require Import Lib.Tac Lib.Outcome Lib.Bits Ty.Ty Core.Prog
  Redeem.Finalize Redeem.PruneProg Redeem.Routes.
Import ListNotations.
Local Open Scope N_scope.

(* 1. every route returns a program whose witnesses have exactly the target type of their node,
   or an error *)
Theorem C12_route_typed_construct : forall (tp : typed_prog) (p : rprog),
  route_construct true tp = Ok p -> all_wit_ok tp p.
Proof. exact route_typed_construct. Qed.
Print Assumptions C12_route_typed_construct.

Theorem C12_route_typed_named : forall (names : nat -> N) (m : wmap) (tp : typed_prog) (p : rprog),
  route_named true names m tp = Ok p -> all_wit_ok tp p.
Proof. exact route_typed_named. Qed.
Print Assumptions C12_route_typed_named.

Theorem C12_route_typed_decode : forall (targets : list ty) (stream : list bool) (cs : list cval),
  route_decode targets stream = Ok cs -> Forall2 (fun c t => wit_ok c t = true) cs targets.
Proof. exact route_typed_decode. Qed.
Print Assumptions C12_route_typed_decode.

(* the finaliser is typed for any source of construction-time witnesses *)
Theorem C12_finalize_typed : forall (tp : typed_prog) (src : wit_source) (p : rprog),
  finalize true tp src = Ok p -> all_wit_ok tp p.
Proof. exact finalize_typed. Qed.
Print Assumptions C12_finalize_typed.

(* the pruning route: the witness pass of prune keeps typed witnesses typed and does not panic *)
Theorem C12_route_typed_pruned : forall (tp : typed_prog) (retarget : nat -> option ty) (p : rprog),
  all_wit_ok tp p ->
  (forall (i : nat) (t t' : ty), target_of tp i = Some t -> retarget i = Some t' -> ty_le t' t = true) ->
  exists p' : rprog,
    prune_witnesses retarget p = Ok p' /\ length p' = length p /\
    (forall (i : nat) (c' : cval), nth_error p' i = Some (RWitness c') ->
       match retarget i with
       | Some t' => wit_ok c' t' = true
       | None => nth_error p i = Some (RWitness c')
       end).
Proof. exact prune_witnesses_typed. Qed.
Print Assumptions C12_route_typed_pruned.

(* 2. no route panics *)
Theorem C12_route_no_panic_construct : forall (fixed : bool) (tp : typed_prog),
  no_panic (route_construct fixed tp).
Proof. exact route_no_panic_construct. Qed.
Print Assumptions C12_route_no_panic_construct.

Theorem C12_route_no_panic_named : forall (fixed : bool) (names : nat -> N) (m : wmap) (tp : typed_prog),
  no_panic (route_named fixed names m tp).
Proof. exact route_no_panic_named. Qed.
Print Assumptions C12_route_no_panic_named.

Theorem C12_route_no_panic_decode : forall (targets : list ty) (stream : list bool),
  no_panic (route_decode targets stream).
Proof. exact route_no_panic_decode. Qed.
Print Assumptions C12_route_no_panic_decode.

(* 3. a witness that already has the target type is returned unchanged; a missing one becomes zero *)
Theorem C12_route_identity_on_typed : forall (tp : typed_prog) (p : rprog) (i : nat) (ws : wit_spec)
    (ar : arrow) (c : cval),
  route_construct true tp = Ok p ->
  nth_error tp i = Some (NWitness ws, Some ar) ->
  cval_of_spec ws (snd ar) = Ok (Some c) -> wit_ok c (snd ar) = true ->
  nth_error p i = Some (RWitness (CV (snd ar) (cv_val c))).
Proof. exact route_identity_on_typed. Qed.
Print Assumptions C12_route_identity_on_typed.

Theorem C12_route_named_identity_on_typed : forall (names : nat -> N) (m : wmap) (tp : typed_prog)
    (p : rprog) (i : nat) (ws : wit_spec) (ar : arrow) (c : cval),
  route_named true names m tp = Ok p ->
  nth_error tp i = Some (NWitness ws, Some ar) ->
  wmap_get m (names i) = Some c -> wit_ok c (snd ar) = true ->
  nth_error p i = Some (RWitness (CV (snd ar) (cv_val c))).
Proof. exact route_named_identity_on_typed. Qed.
Print Assumptions C12_route_named_identity_on_typed.

Theorem C12_sprune_id : forall (v : sval) (t : ty), has_ty v t = true -> sprune v t = Some v.
Proof. exact sprune_id. Qed.
Print Assumptions C12_sprune_id.

Theorem C12_route_missing_is_zero : forall (tp : typed_prog) (p : rprog) (i : nat) (ar : arrow),
  route_construct true tp = Ok p ->
  nth_error tp i = Some (NWitness WNone, Some ar) ->
  nth_error p i = Some (RWitness (value_zero (snd ar))).
Proof. exact route_missing_is_zero. Qed.
Print Assumptions C12_route_missing_is_zero.

(* 4. the serialisation of typed witnesses decodes back to the same values at the same types and is
   consumed exactly; padded to whole bytes it also closes *)
Theorem C12_typed_encodes : forall (cs : list cval) (targets : list ty) (rest : list bool),
  Forall2 (fun c t => wit_ok c t = true) cs targets ->
  decode_witnesses targets (witness_stream cs ++ rest) = Ok (cs, rest).
Proof. exact typed_encodes. Qed.
Print Assumptions C12_typed_encodes.

Theorem C12_typed_stream_decodes : forall (cs : list cval) (targets : list ty),
  Forall2 (fun c t => wit_ok c t = true) cs targets ->
  decode_stream targets (pad_to_byte (witness_stream cs)) = Ok cs.
Proof. exact typed_stream_decodes. Qed.
Print Assumptions C12_typed_stream_decodes.

(* 5. the machine writes exactly [width target] cells for a typed witness *)
Theorem C12_typed_witness_width : forall (c : cval) (t : ty),
  wit_ok c t = true -> length (padded_enc t (cv_val c)) = N.to_nat (width t).
Proof. exact typed_witness_width. Qed.
Print Assumptions C12_typed_witness_width.

(* 6. the code before commit 7523d2e: the construction route returned an ill-typed witness (F-C12) *)
Theorem C12_route_typed_old_refuted :
  exists tp p, route_construct false tp = Ok p /\ ~ all_wit_ok tp p.
Proof. exact route_typed_old_refuted. Qed.
Print Assumptions C12_route_typed_old_refuted.

Theorem C12_route_old_witness_now : route_construct true old_witness_prog = Err FType.
Proof. exact route_old_witness_now. Qed.
Print Assumptions C12_route_old_witness_now.
