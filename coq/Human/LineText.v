(* C17 - one definition line at the level of lexer tokens: how `Forest::string_serialize`
   (src/human_encoding/mod.rs, pass 1) writes `name := expr operands : A -> B`, and how
   parse/ast.rs reads a token vector back (parse_line_vector, parse_line, parse_expr /
   parse_expr_inner with Parser::depth, parse_cmr, parse_literal, parse_arrow, parse_symbol_value).

   Tokens are the classes of the logos lexer, abstracted: a literal token `0b..` / `0x..` stands
   for the pair (bytes, bit length) that parse_literal computes from it, a `#<64 hex>` token for
   its 32 bytes, a `jet_..` token for the index of the jet in J::ALL (None: no such jet), a symbol
   for its name (Human/Namer.v: two names are equal iff their texts are).  The tokens of the type
   grammar are those of Human/TypeText.v, and the arrow is read by its parser `parse_ty`.
   Not modelled: characters (logos itself, comments, layout, digits of literals): the check
   tokenises the implementation's text with an independent reader. *)
From RS Require Import Lib.Tac Lib.Outcome Ty.Ty Human.Namer Human.Render Human.Resolve Human.TypeText.
Import ListNotations.
Local Open Scope N_scope.
Local Open Scope outcome_scope.

Inductive ltok : Type :=
| LAssign                          (* := *)
| LArrow                           (* -> *)
| LHashBrace                       (* #{ *)
| LRBrace                          (* } *)
| LColon                           (* : *)
| LKw (k : kind)                   (* const assertl assertr fail disconnect case comp pair injl injr take drop unit
                                      iden witness  (KWord = `const`; never KJet) *)
| LJet (j : option N)              (* jet_<name> *)
| LLit (data : list N) (nbits : N) (* 0b.. / 0x.. *)
| LCmr (bytes : list N)            (* #<64 hex digits> *)
| LSym (n : name)                  (* a symbol other than `_` *)
| LTy (t : token).                 (* 1 2 2^y ? ( ) + * _ and a lexer failure *)

Definition sym_code (n : name) : N :=
  match n with
  | NMain => 0
  | NGen p i => 1 + 4 * (16 * i + prefix_code p)
  | NHole i => 2 + 4 * i
  | NUser u => 3 + 4 * u
  end.

(* the same token seen by the type parser *)
Definition to_ty (t : ltok) : token :=
  match t with
  | LTy x => x
  | LSym n => TSym (sym_code n)
  | _ => TOther 0
  end.

Inductive lerr : Type :=
| PLex                      (* LexFailed *)
| PParse                    (* ParseFailed(token or end of input) *)
| PNest                     (* ParseFailed("expression nested too deeply") *)
| PBadWord (nbits : N)      (* BadWordLength *)
| PEntropyLow (nbits : N)   (* EntropyInsufficient *)
| PEntropyHigh (nbits : N)  (* EntropyTooMuch *)
| PUnknownJet
| PType (e : perr).         (* an error of the type parser *)

(* the name `_` (parse_symbol_value accepts the underscore token as a symbol) *)
Definition underscore_name : name := NUser 0.

Definition psym (ts : list ltok) : outcome lerr (name * list ltok) :=
  match ts with
  | LSym n :: r => Ok (n, r)
  | LTy TUnderscore :: r => Ok (underscore_name, r)
  | _ => Err PParse
  end.

(* parse_literal: `_` is the empty literal *)
Definition plit (ts : list ltok) : outcome lerr (list N * N * list ltok) :=
  match ts with
  | LTy TUnderscore :: r => Ok ([], 0, r)
  | LLit data nbits :: r => Ok (data, nbits, r)
  | _ => Err PParse
  end.

Definition pad_to (n : nat) (l : list N) : list N := l ++ repeat 0 (n - length l).

Definition is_unary (k : kind) : bool := match k with KInjL | KInjR | KTake | KDrop => true | _ => false end.
Definition is_binary (k : kind) : bool := match k with KCase | KComp | KPair | KDisconnect => true | _ => false end.
Definition is_nullary_kw (k : kind) : bool := match k with KUnit | KIden | KWitness => true | _ => false end.

(* parse_expr (descend, depth + 1) and parse_expr_inner; parse_cmr inline *)
Fixpoint pexpr (fuel : nat) (depth : N) (ts : list ltok) {struct fuel} : outcome lerr (expr * list ltok) :=
  match fuel with
  | O => OutOfFuel
  | S f =>
      if max_nesting <=? depth then Err PNest
      else
        let d := depth + 1 in
        let pcmr (ts : list ltok) : outcome lerr ((list N + expr) * list ltok) :=
            match ts with
            | LHashBrace :: r =>
                x <- pexpr f d r ;;
                match snd x with
                | LRBrace :: r2 => Ok (inr (fst x), r2)
                | _ => Err PParse
                end
            | LCmr bytes :: r => Ok (inl bytes, r)
            | _ => Err PParse
            end in
        let mk_assert (k : kind) (c : expr) (h : list N + expr) : expr :=
            match h with inl bytes => EAssertLit k c bytes | inr e => EAssertExpr k c e end in
        match ts with
        | LTy TLParen :: r =>
            x <- pexpr f d r ;;
            match snd x with
            | LTy TRParen :: r2 => Ok (fst x, r2)
            | _ => Err PParse
            end
        | LTy TQuestion :: r =>
            x <- psym r ;; Ok (EHole (fst x), snd x)
        | LKw KWord :: r =>
            x <- plit r ;;
            let '(data, nbits, r1) := x in
            if negb (is_pow2 nbits) || (2 ^ 31 <? nbits) then Err (PBadWord nbits)
            else Ok (ENode KWord (N.log2 nbits :: data) None None, r1)
        | LKw KAssertL :: r =>
            x <- pexpr f d r ;;
            h <- pcmr (snd x) ;;
            Ok (mk_assert KAssertL (fst x) (fst h), snd h)
        | LKw KAssertR :: r =>
            h <- pcmr r ;;
            x <- pexpr f d (snd h) ;;
            Ok (mk_assert KAssertR (fst x) (fst h), snd x)
        | LKw KFail :: r =>
            x <- plit r ;;
            let '(data, nbits, r1) := x in
            if nbits <? 128 then Err (PEntropyLow nbits)
            else if 512 <? nbits then Err (PEntropyHigh nbits)
            else Ok (ENode KFail (pad_to 64 data) None None, r1)
        | LJet (Some j) :: r => Ok (ENode KJet [j] None None, r)
        | LJet None :: r => Err PUnknownJet
        | LKw k :: r =>
            if is_nullary_kw k then Ok (ENode k [] None None, r)
            else if is_unary k then
              x <- pexpr f d r ;; Ok (ENode k [] (Some (fst x)) None, snd x)
            else if is_binary k then
              x <- pexpr f d r ;;
              y <- pexpr f d (snd x) ;;
              Ok (ENode k [] (Some (fst x)) (Some (fst y)), snd y)
            else Err PParse                      (* LKw KJet / KCase..: not produced by the lexer *)
        | LSym _ :: _ | LTy TUnderscore :: _ =>
            x <- psym ts ;; Ok (ERef (fst x), snd x)
        | _ => Err PParse
        end
  end.

(* a type through Human/TypeText.v: the rest is the suffix that the type parser left *)
Definition ptype (ts : list ltok) : outcome lerr (option aty * list ltok) :=
  match parse_ty (map to_ty ts) with
  | Ok p => Ok (r_ty p, skipn (length ts - length (r_rest p)) ts)
  | Err e => Err (PType e)
  | Panic c => Panic c
  | OutOfFuel => OutOfFuel
  end.

Definition parrow (ts : list ltok) : outcome lerr ((option aty * option aty) * list ltok) :=
  s <- ptype ts ;;
  match snd s with
  | LArrow :: r =>
      t <- ptype r ;; Ok ((fst s, fst t), snd t)
  | _ => Err PParse
  end.

(* ast::Line *)
Record pline_t := mk_pl { pl_line : line; pl_arrow : option aty * option aty }.

Definition expr_fuel (ts : list ltok) : nat := S (length ts).

Definition pline (ts : list ltok) : outcome lerr (pline_t * list ltok) :=
  s <- psym ts ;;
  match snd s with
  | LAssign :: r =>
      x <- pexpr (expr_fuel r) 0 r ;;
      match snd x with
      | LColon :: r2 =>
          a <- parrow r2 ;; Ok (mk_pl (mk_line (fst s) (Some (fst x))) (fst a), snd a)
      | r2 => Ok (mk_pl (mk_line (fst s) (Some (fst x))) (None, None), r2)
      end
  | LColon :: r =>
      a <- parrow r ;; Ok (mk_pl (mk_line (fst s) None) (fst a), snd a)
  | _ => Err PParse
  end.

Definition is_lbad (t : ltok) : bool := match t with LTy TBad => true | _ => false end.

Fixpoint plines_go (fuel : nat) (ts : list ltok) : outcome lerr (list pline_t) :=
  match ts with
  | [] => Ok []
  | _ :: _ =>
      match fuel with
      | O => OutOfFuel
      | S f =>
          x <- pline ts ;;
          rest <- plines_go f (snd x) ;;
          Ok (fst x :: rest)
      end
  end.

(* parse_line_vector: lex_all first (one bad lexeme anywhere fails everything), then lines to the end *)
Definition plines (ts : list ltok) : outcome lerr (list pline_t) :=
  if existsb is_lbad ts then Err PLex else plines_go (length ts) ts.

(* ------------------------------------------------------------------ string_serialize, one line *)
Definition kw_tokens (l : defline) : list ltok :=
  match dl_kind l with
  | KAssertR => [LKw KAssertR; LCmr (dl_pay l)]
  | KFail => [LKw KFail; LLit (dl_pay l) 512]
  | KJet => [LJet (Some (hd 0 (dl_pay l)))]
  | KWord => [LKw KWord; LLit (tl (dl_pay l)) (2 ^ hd 0 (dl_pay l))]
  | k => [LKw k]
  end.

Definition osym (o : option name) : list ltok := match o with Some n => [LSym n] | None => [] end.

Definition expr_tokens (l : defline) : list ltok :=
  kw_tokens l ++ osym (dl_l l) ++
  match dl_r l with
  | Some b => [LSym b]
  | None =>
      match dl_kind l with
      | KAssertL => [LCmr (dl_pay l)]
      | KDisconnect => match dl_hole l with Some h => [LTy TQuestion; LSym h] | None => [] end
      | _ => []
      end
  end.

Definition line_tokens (l : defline) (src tgt : ty) : list ltok :=
  LSym (dl_name l) :: LAssign :: expr_tokens l ++
  [LColon] ++ map LTy (print_ty src) ++ [LArrow] ++ map LTy (print_ty tgt).

(* what a rendered line looks like (line_of on a well-formed table, with the payloads of the kinds) *)
Definition pay_nil (l : defline) : bool := (length (dl_pay l) =? 0)%nat.
Definition no_ops (l : defline) : bool := negb (opt_some (dl_l l)) && negb (opt_some (dl_r l)).

Definition line_ok (l : defline) : bool :=
  match dl_kind l with
  | KIden | KUnit | KWitness => no_ops l && pay_nil l
  | KJet => no_ops l && (length (dl_pay l) =? 1)%nat
  | KFail => no_ops l && (length (dl_pay l) =? 64)%nat
  | KWord => no_ops l && negb (length (dl_pay l) =? 0)%nat && (hd 0 (dl_pay l) <=? 31)
  | KInjL | KInjR | KTake | KDrop => opt_some (dl_l l) && negb (opt_some (dl_r l)) && pay_nil l
  | KAssertL | KAssertR => opt_some (dl_l l) && negb (opt_some (dl_r l))
  | KDisconnect => opt_some (dl_l l) && negb (opt_some (dl_r l)) && opt_some (dl_hole l) && pay_nil l
  | KComp | KCase | KPair => opt_some (dl_l l) && opt_some (dl_r l) && pay_nil l
  end.
