(* C18 - NoSharing yields the post-order of the tree expansion; the right-to-left variant is
   the post-order of the mirrored DAG with the child indices swapped back. *)
From RS Require Import Lib.Tac Lib.Outcome Dag.DagModel Dag.PostOrderSpec Dag.PostOrderProps.
Import ListNotations.
Local Open Scope N_scope.

(* ------------------------------------------------------------------ tree expansion *)
Inductive tree : Type :=
| TNul (n : nat)
| TUn (n : nat) (t : tree)
| TBin (n : nat) (l r : tree).

Fixpoint tsz (t : tree) : N :=
  match t with
  | TNul _ => 1
  | TUn _ c => 1 + tsz c
  | TBin _ l r => 1 + tsz l + tsz r
  end.

(* post-order of a tree, items numbered from `start`; a child's index is the last index of
   its subtree *)
Fixpoint tree_post (t : tree) (start : N) : list po_item :=
  match t with
  | TNul n => [mk_item n start None None]
  | TUn n c =>
      let e := start + tsz c in
      tree_post c start ++ [mk_item n e (Some (e - 1)) None]
  | TBin n l r =>
      let el := start + tsz l in
      let er := el + tsz r in
      tree_post l start ++ tree_post r el ++ [mk_item n er (Some (el - 1)) (Some (er - 1))]
  end.

Lemma tsz_pos t : 1 <= tsz t.
Proof. destruct t; cbn [tsz]; lia. Qed.

Section NoSharing.
Variable children : nat -> dagnode.
Hypothesis Hwf : wfc children.

Fixpoint expand (h : nat) (n : nat) : tree :=
  match h with
  | O => TNul n
  | S h' =>
      match children n with
      | Nul => TNul n
      | Un c => TUn n (expand h' c)
      | Bin a b => TBin n (expand h' a) (expand h' b)
      end
  end.

Lemma seen_before_none m c : seen_before key_none m c = None.
Proof. reflexivity. Qed.
Lemma finish_none n li ri idx m :
  finish key_none n li ri idx m = mk_vres idx (idx + 1) m [mk_item n idx li ri].
Proof. reflexivity. Qed.

Lemma visit_nosharing : forall h n, (n < h)%nat -> forall idx,
  visit children key_none h n idx [] =
  mk_vres (idx + tsz (expand h n) - 1) (idx + tsz (expand h n)) [] (tree_post (expand h n) idx).
Proof.
  induction h as [|h IH]; intros n Hn idx; [lia|].
  pose proof (Hwf n) as Hok. cbn [visit expand]. rewrite seen_before_none.
  destruct (children n) as [|c|a b]; cbn [node_ok] in Hok;
    cbn [left_child_of right_child_of classify]; rewrite ?seen_before_none;
    cbn [vchild c_i c_index c_trk c_out tsz tree_post].
  - rewrite finish_none. cbn [r_ci r_index r_trk r_out app]. f_equal; lia.
  - rewrite (IH c ltac:(lia) idx). cbn [r_ci r_index r_trk r_out].
    rewrite finish_none. cbn [r_ci r_index r_trk r_out app].
    pose proof (tsz_pos (expand h c)). f_equal; lia.
  - destruct Hok as [Ha Hb]. rewrite (IH a ltac:(lia) idx). cbn [r_ci r_index r_trk r_out].
    rewrite (IH b ltac:(lia)). cbn [r_ci r_index r_trk r_out].
    rewrite finish_none. cbn [r_ci r_index r_trk r_out app].
    pose proof (tsz_pos (expand h a)). pose proof (tsz_pos (expand h b)).
    f_equal; lia.
Qed.

(* THEOREM: without sharing the iteration is the post-order of the tree expansion *)
Theorem po_nosharing_tree : forall root,
  po_spec children key_none root = tree_post (expand (S root) root) 0.
Proof.
  intros root. unfold po_spec. rewrite (visit_nosharing (S root) root ltac:(lia) 0). reflexivity.
Qed.

End NoSharing.

(* ------------------------------------------------------------------ right to left *)
Lemma node_at_mirror d n : node_at (mirror d) n = swapnode (node_at d n).
Proof. unfold node_at, mirror. change Nul with (swapnode Nul) at 1. apply map_nth. Qed.

Lemma swapped_wfc children : wfc children -> wfc (swapped children).
Proof.
  intros H n. unfold swapped. specialize (H n). destruct (children n); cbn in *; tauto.
Qed.

Lemma mirror_wf d : wf d -> wf (mirror d).
Proof.
  intros H n. rewrite node_at_mirror. apply (swapped_wfc _ H n).
Qed.

Lemma po_step_ext c1 c2 key st : (forall n, c1 n = c2 n) -> po_step c1 key st = po_step c2 key st.
Proof.
  intros H. unfold po_step, item_left_child, item_right_child.
  destruct (po_stack st) as [|cur stk]; [reflexivity|].
  rewrite (H (s_elem (set_processed cur))). reflexivity.
Qed.

Lemma po_run_ext c1 c2 key : (forall n, c1 n = c2 n) -> forall f st, po_run c1 key f st = po_run c2 key f st.
Proof.
  intros H. induction f as [|f IH]; intros st; [reflexivity|].
  cbn [po_run]. rewrite (po_step_ext c1 c2 key st H).
  destruct (po_step c2 key st); try reflexivity; rewrite IH; reflexivity.
Qed.

(* THEOREM (mirror image): rtl_post_order_iter on a table = post_order_iter on the mirrored
   table (every Binary node has its children exchanged), with left/right child indices
   exchanged back exactly on the binary nodes. *)
Theorem rtl_is_mirror : forall d key fuel root,
  rtl_run (node_at d) key fuel root =
  omap (map (unswap (node_at d))) (po_run (node_at (mirror d)) key fuel (po_init root)).
Proof.
  intros d key fuel root. unfold rtl_run. f_equal.
  apply po_run_ext. intros n. unfold swapped. symmetry. apply node_at_mirror.
Qed.

Section Rtl.
Variable children : nat -> dagnode.
Variable key : nat -> option N.
Hypothesis Hwf : wfc children.

Definition rtl_spec (root : nat) : list po_item :=
  map (unswap children) (po_spec (swapped children) key root).

(* refinement of the right-to-left iterator *)
Theorem rtl_refines : forall root,
  rtl_run children key (po_fuel (swapped children) root) root = Ok (rtl_spec root).
Proof.
  intros root. unfold rtl_run, rtl_spec.
  rewrite (po_refines (swapped children) key (swapped_wfc _ Hwf) root). reflexivity.
Qed.

Lemma unswap_node it : it_node (unswap children it) = it_node it.
Proof. unfold unswap. destruct (swapped children (it_node it)); reflexivity. Qed.
Lemma unswap_index it : it_index (unswap children it) = it_index it.
Proof. unfold unswap. destruct (swapped children (it_node it)); reflexivity. Qed.

Lemma nth_error_map_inv {A B} (f : A -> B) l i y :
  nth_error (map f l) i = Some y -> exists x, nth_error l i = Some x /\ y = f x.
Proof.
  revert i. induction l as [|a l IH]; intros [|i] H; cbn in *; try discriminate.
  - injection H as <-. eauto.
  - apply IH. exact H.
Qed.

Theorem rtl_indices : forall root i it, nth_error (rtl_spec root) i = Some it -> it_index it = N.of_nat i.
Proof.
  intros root i it H. apply nth_error_map_inv in H. destruct H as (x & Hx & ->).
  rewrite unswap_index. apply (po_indices (swapped children) key (swapped_wfc _ Hwf) root _ _ Hx).
Qed.

Theorem rtl_once : forall root i j it1 it2 k,
  nth_error (rtl_spec root) i = Some it1 -> nth_error (rtl_spec root) j = Some it2 ->
  key (it_node it1) = Some k -> key (it_node it2) = Some k -> i = j.
Proof.
  intros root i j it1 it2 k H1 H2 K1 K2.
  apply nth_error_map_inv in H1. destruct H1 as (x1 & Hx1 & ->).
  apply nth_error_map_inv in H2. destruct H2 as (x2 & Hx2 & ->).
  rewrite unswap_node in K1, K2.
  apply (po_once (swapped children) key (swapped_wfc _ Hwf) root _ _ _ _ _ Hx1 Hx2 K1 K2).
Qed.

Lemma child_ok_unswap all b oc oi :
  child_ok key all b oc oi -> child_ok key (map (unswap children) all) b oc oi.
Proof.
  unfold child_ok. destruct oc, oi; auto. intros (Hb & it' & Hi & Hc). split; [exact Hb|].
  exists (unswap children it'). split.
  - unfold item_at in *. rewrite nth_error_map, Hi. reflexivity.
  - rewrite unswap_node. exact Hc.
Qed.

(* the reported left/right indices are those of the true left/right children *)
Theorem rtl_children : forall root it, In it (rtl_spec root) -> item_ok children key (rtl_spec root) it.
Proof.
  intros root it H. unfold rtl_spec in *. apply in_map_iff in H. destruct H as (x & <- & Hx).
  pose proof (po_children (swapped children) key (swapped_wfc _ Hwf) root x Hx) as [Hl Hr].
  apply child_ok_unswap in Hl, Hr.
  unfold item_ok. rewrite unswap_node, unswap_index.
  unfold unswap, swapped in *. destruct (children (it_node x)); cbn [swapnode left_child_of right_child_of] in *;
    cbn [it_left it_right]; split; assumption.
Qed.

End Rtl.
