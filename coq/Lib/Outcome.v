(* Outcome type shared by every model: a Rust function either returns a value,
   returns an error value, panics (unwrap / expect / assert / index out of range /
   debug overflow), or - for fuelled model functions only - runs out of fuel. *)
From Coq Require Import List NArith.
Import ListNotations.

Inductive outcome (E A : Type) : Type :=
| Ok (a : A)
| Err (e : E)
| Panic (code : N)
| OutOfFuel.
Arguments Ok {E A} a.
Arguments Err {E A} e.
Arguments Panic {E A} code.
Arguments OutOfFuel {E A}.

Definition obind {E A B} (x : outcome E A) (f : A -> outcome E B) : outcome E B :=
  match x with
  | Ok a => f a
  | Err e => Err e
  | Panic c => Panic c
  | OutOfFuel => OutOfFuel
  end.

Definition omap {E A B} (f : A -> B) (x : outcome E A) : outcome E B :=
  obind x (fun a => Ok (f a)).

Definition is_ok {E A} (x : outcome E A) : bool :=
  match x with Ok _ => true | _ => false end.

Definition is_panic {E A} (x : outcome E A) : bool :=
  match x with Panic _ => true | _ => false end.

Declare Scope outcome_scope.
Notation "x <- e1 ;; e2" := (obind e1 (fun x => e2))
  (at level 61, e1 at next level, right associativity) : outcome_scope.
Notation "' p <- e1 ;; e2" := (obind e1 (fun p => e2))
  (at level 61, p pattern, e1 at next level, right associativity) : outcome_scope.
