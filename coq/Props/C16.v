(* C16 - Policies compile, satisfy and canonicalise consistently.
   Only pinned statements (`Theorem name : statement. Proof. exact lemma. Qed.`) and
   `Print Assumptions`.  Models: Policy/{PolicyAst,Sort,Compile,Satisfy,Sem,Cost,Run,Examples}.v.

   Conventions: `hf : hashfns H` is an arbitrary family of tagged hashes (one per combinator,
   jet and word) - nothing is assumed about it; `fin_cost` is an arbitrary cost function
   (finalize_unpruned().bounds().cost, None = finalisation failed); `e : envo` is the
   environment/cryptography oracle behind the jets; `H_eqb` is any reflexive test on roots. *)
From Coq Require Import Permutation.
From RS Require Import Lib.Tac Lib.Outcome Policy.PolicyAst Policy.Sort Policy.Compile Policy.Satisfy
  Policy.Sem Policy.Cost Policy.Run Policy.Examples.
Import ListNotations.
Local Open Scope N_scope.

(* ---- 1. roots ---------------------------------------------------------------------------- *)
(* Policy::cmr() (ConstructibleCmr) = commit().cmr(); both panic on the same policies *)
Theorem C16_policy_cmr_commit : forall (H : Type) (hf : hashfns H) (p : policy),
  omap (cmr hf) (policy_commit H p) = policy_cmr hf p.
Proof. exact policy_cmr_commit. Qed.
Print Assumptions C16_policy_cmr_commit.

(* the same for every instance of the constructor interface whose root reading commutes with
   the constructors (serialize.rs is generic over the node type) *)
Theorem C16_compile_hom : forall (H : Type) (hf : hashfns H) (A : Type) (al : alg H A) (f : A -> H),
  alg_hom hf al f -> forall p, omap f (compile al p) = policy_cmr hf p.
Proof. exact compile_hom. Qed.
Print Assumptions C16_compile_hom.

(* ... of which the Hiding wrapper over any such instance is one *)
Theorem C16_hiding_hom : forall (H : Type) (hf : hashfns H) (A : Type) (base : alg H A) (bc : A -> H),
  alg_hom hf base bc -> alg_hom hf (hiding_alg hf base bc) (hcmr bc).
Proof. exact hiding_hom. Qed.
Print Assumptions C16_hiding_hom.

(* whatever the satisfier answers, what satisfy_internal builds - a program with witnesses,
   assertl/assertr in place of hidden branches, or a hidden root - carries the policy's root *)
Theorem C16_satisfy_internal_cmr : forall (H : Type) (hf : hashfns H) (fin_cost : node H -> option N) (cmax : N)
    (s : satisfier) (p : policy) (r : SatResult H),
  satisfy_internal hf fin_cost cmax s p = Ok r -> policy_cmr hf p = Ok (scmr hf r).
Proof. exact satisfy_internal_cmr. Qed.
Print Assumptions C16_satisfy_internal_cmr.

(* one pruning pass, with any content of the tracker, keeps the root *)
Theorem C16_prune_with_cmr : forall (H : Type) (hf : hashfns H) (H_eqb : H -> H -> bool) tr (n : node H),
  cmr hf (prune_with hf H_eqb tr n) = cmr hf n.
Proof. exact prune_with_cmr. Qed.
Print Assumptions C16_prune_with_cmr.

(* RedeemNode::prune (passes repeated until nothing changes) keeps the root *)
Theorem C16_prune_cmr : forall (H : Type) (hf : hashfns H) (H_eqb : H -> H -> bool),
  (forall a, H_eqb a a = true) ->
  forall (e : envo) (n n' : node H),
  prune hf H_eqb e n = Some n' -> cmr hf n' = cmr hf n.
Proof. exact prune_cmr. Qed.
Print Assumptions C16_prune_cmr.

(* ---- 2. satisfaction ------------------------------------------------------------------------ *)
(* satisfy_internal yields a program exactly when the answers make the policy true
   (and-both, or-either, threshold-at-least-k), and does not panic *)
Theorem C16_satisfy_iff : forall (H : Type) (hf : hashfns H) (fin_cost : node H -> option N) (cmax : N)
    (s : satisfier) (p : policy),
  wf p -> cost_ok hf fin_cost cmax s p ->
  exists r, satisfy_internal hf fin_cost cmax s p = Ok r /\ is_node r = holds s p.
Proof. exact satisfy_iff. Qed.
Print Assumptions C16_satisfy_iff.

(* the premise about the sentinel cost cannot be dropped *)
Theorem C16_sentinel_premise_needed :
  exists (fc : node fh -> option N) (s : satisfier) (p : policy),
    wf p /\ holds s p = true /\
    exists h, satisfy_internal free_hf fc CONSENSUS_MAX s p = Ok (inr h).
Proof. exact sentinel_premise_needed. Qed.
Print Assumptions C16_sentinel_premise_needed.

(* every program satisfy_internal returns to a truthful satisfier runs (unit in, unit out) *)
Theorem C16_satisfy_internal_runs : forall (H : Type) (hf : hashfns H) (e : envo) (fin_cost : node H -> option N)
    (cmax : N) (s : satisfier),
  truthful e s ->
  forall p r, satisfy_internal hf fin_cost cmax s p = Ok r ->
  forall a, r = inl a -> eval e a VUnit = Some VUnit.
Proof. exact satisfy_internal_runs. Qed.
Print Assumptions C16_satisfy_internal_runs.

(* Policy::satisfy (finalise, run, prune): what it returns has the policy's root and runs *)
Theorem C16_satisfy_sound : forall (H : Type) (hf : hashfns H) (H_eqb : H -> H -> bool),
  (forall a, H_eqb a a = true) ->
  forall (e : envo) (fin_cost : node H -> option N) (cmax : N) (s : satisfier),
  truthful e s ->
  forall p prog, satisfy hf H_eqb e fin_cost cmax s p = Ok prog ->
  policy_cmr hf p = Ok (cmr hf prog) /\ eval e prog VUnit = Some VUnit.
Proof. exact satisfy_sound. Qed.
Print Assumptions C16_satisfy_sound.

(* ... it succeeds exactly when the policy is true under the answers ... *)
Theorem C16_satisfy_complete : forall (H : Type) (hf : hashfns H) (H_eqb : H -> H -> bool),
  (forall a, H_eqb a a = true) ->
  forall (e : envo) (fin_cost : node H -> option N) (cmax : N) (s : satisfier),
  truthful e s ->
  forall p, wf p -> cost_ok hf fin_cost cmax s p ->
  (forall n, satisfy_internal hf fin_cost cmax s p = Ok (inl n) -> fin_cost n <> None) ->
  if holds s p then exists prog, satisfy hf H_eqb e fin_cost cmax s p = Ok prog
  else satisfy hf H_eqb e fin_cost cmax s p = Err Unsatisfiable.
Proof. exact satisfy_complete. Qed.
Print Assumptions C16_satisfy_complete.

(* ... and never reports AssemblyFailed *)
Theorem C16_satisfy_never_assembly_failed : forall (H : Type) (hf : hashfns H) (H_eqb : H -> H -> bool),
  (forall a, H_eqb a a = true) ->
  forall (e : envo) (fin_cost : node H -> option N) (cmax : N) (s : satisfier),
  truthful e s ->
  forall p, satisfy hf H_eqb e fin_cost cmax s p <> Err AssemblyFailed.
Proof. exact satisfy_never_assembly_failed. Qed.
Print Assumptions C16_satisfy_never_assembly_failed.

(* a pruning pass with a tracker that contains the run keeps the run *)
Theorem C16_prune_with_runs : forall (H : Type) (hf : hashfns H) (H_eqb : H -> H -> bool),
  (forall a, H_eqb a a = true) ->
  forall (e : envo) tr (n : node H) v out,
  incl (trace e n v) tr -> eval e n v = Some out -> eval e (prune_with hf H_eqb tr n) v = Some out.
Proof. exact prune_with_eval. Qed.
Print Assumptions C16_prune_with_runs.

(* RedeemNode::prune of a program that runs: terminates within the fuel, and the result runs *)
Theorem C16_prune_total_runs : forall (H : Type) (hf : hashfns H) (H_eqb : H -> H -> bool),
  (forall a, H_eqb a a = true) ->
  forall (e : envo) (n : node H) out,
  eval e n VUnit = Some out ->
  exists n', prune hf H_eqb e n = Some n' /\ eval e n' VUnit = Some out.
Proof. exact prune_total_runs. Qed.
Print Assumptions C16_prune_total_runs.

(* the executable instance compared with the implementation is truthful, and the premises are
   satisfiable: a policy, an environment and a satisfier for which everything is computed *)
Theorem C16_run_instance_truthful : forall lock_time sequence after_max older_max keys pres,
  after_max <= lock_height lock_time sequence -> older_max <= lock_distance sequence ->
  truthful (mk_env lock_time sequence) (mk_sat after_max older_max keys pres).
Proof. exact mk_truthful. Qed.
Print Assumptions C16_run_instance_truthful.

Theorem C16_example_premises :
  wf ex_policy /\ truthful ex_env ex_sat /\ cost_ok free_hf (fin_cost (H := fh)) CONSENSUS_MAX ex_sat ex_policy /\
  holds ex_sat ex_policy = true.
Proof. exact (conj ex_wf (conj ex_truthful (conj ex_cost_ok ex_holds))). Qed.
Print Assumptions C16_example_premises.

Theorem C16_example_satisfy :
  exists prog, satisfy free_hf fh_eq ex_env (fin_cost (H := fh)) CONSENSUS_MAX ex_sat ex_policy = Ok prog /\
               policy_cmr free_hf ex_policy = Ok (cmr free_hf prog) /\
               eval ex_env prog VUnit = Some VUnit.
Proof. exact ex_satisfy. Qed.
Print Assumptions C16_example_satisfy.

(* ---- 3. canonical sorting ------------------------------------------------------------------- *)
(* the derived order is a total order *)
Theorem C16_order_total :
  (forall p, pcmp p p = Eq) /\
  (forall p q, pcmp p q = Eq -> p = q) /\
  (forall p q, pcmp q p = CompOpp (pcmp p q)) /\
  (forall p q r, pcmp p q = Lt -> pcmp q r = Lt -> pcmp p r = Lt).
Proof. exact (conj pcmp_refl (conj pcmp_eq (conj pcmp_antisym pcmp_trans))). Qed.
Print Assumptions C16_order_total.

Theorem C16_sort_idem : forall p, sort (sort p) = sort p.
Proof. exact sort_idem. Qed.
Print Assumptions C16_sort_idem.

(* any reordering of the children of and / or / threshold nodes at any depth sorts to the same policy *)
Theorem C16_sort_perm : forall p q, perm_equiv p q -> sort p = sort q.
Proof. exact sort_perm_equiv. Qed.
Print Assumptions C16_sort_perm.

Theorem C16_sort_canonical : forall p, canonical (sort p).
Proof. exact sort_canonical. Qed.
Print Assumptions C16_sort_canonical.

Theorem C16_sort_is_reordering : forall p, perm_equiv p (sort p).
Proof. exact sort_is_reordering. Qed.
Print Assumptions C16_sort_is_reordering.

(* normalisation (not named by the property; included because it shares the AST): the meaning
   under any answers is unchanged *)
Theorem C16_normalized_holds : forall s p, holds s (normalized p) = holds s p.
Proof. exact normalized_holds. Qed.
Print Assumptions C16_normalized_holds.

(* documentation of the defect fixed by /repo commit 46aa179: the earlier function (children
   sorted in discarded clones) was not canonical *)
Theorem C16_sort_old_refuted : exists p q, perm_equiv p q /\ sort_old p <> sort_old q.
Proof. exact sort_old_refuted. Qed.
Print Assumptions C16_sort_old_refuted.
