(* C04, phase 3 - layer (c): every arrow constructor of the slab model (Slab.r_node) simulates what
   Constraints.node_tmpl appends to the reference constraint set. *)
From RS Require Import Lib.Tac Lib.Outcome Ty.Ty Core.Prog Infer.Constraints Infer.Unify Infer.Infer Infer.Gen
  Infer.UnionFind Infer.Slab Infer.SlabProofs Infer.Rational Infer.SlabSim Infer.SlabSimInst Infer.SlabPrims Infer.SlabNodes
  Infer.SlabNodes2.
Import ListNotations.
Local Open Scope outcome_scope.

Definition amap (em : nat -> nat) (a : option varrow) : option varrow :=
  match a with Some (x, y) => Some (em x, em y) | None => None end.

Lemma arr_of_amap em ar ch : arr_of (map (amap em) ar) ch = amap em (arr_of ar ch).
Proof. unfold arr_of. rewrite nth_error_map. destruct (nth_error ar ch) as [[[x y]|]|]; reflexivity. Qed.

Lemma hidden_at_amap em ar ch : hidden_at (map (amap em) ar) ch = hidden_at ar ch.
Proof. unfold hidden_at. rewrite nth_error_map. destruct (nth_error ar ch) as [[[x y]|]|]; reflexivity. Qed.

Lemma amap_ext em em' n a : (forall e, (e < n)%nat -> em' e = em e) ->
  (forall x y, a = Some (x, y) -> (x < n)%nat /\ (y < n)%nat) -> amap em' a = amap em a.
Proof. intros A H. destruct a as [[x y]|]; [|reflexivity]. destruct (H x y eq_refl). cbn. rewrite !A by assumption. reflexivity. Qed.

Lemma map_amap_ext em em' n ar : (forall e, (e < n)%nat -> em' e = em e) -> arr_in n ar ->
  map (amap em') ar = map (amap em) ar.
Proof.
  intros A H. apply map_ext_in. intros a Hin. apply (amap_ext em em' n); [exact A|].
  intros x y ->. apply In_nth_error in Hin. destruct Hin as (k & Hk). apply (H k). unfold arr_of. rewrite Hk. reflexivity.
Qed.

Definition node_post (fuel : nat) (jt : jet_table) (c : ctx) (s : store) (eqs : list (nat * nat)) (em : nat -> nat)
  (ar_s : list (option varrow)) (nd : node) (nb : list bnd) (ne : list (nat * nat)) (a_r : option varrow) : Prop :=
  match r_node fuel jt c ar_s nd with
  | Ok (c', a_s) =>
      exists em', (forall e, (e < length (c_uf c))%nat -> em' e = em e) /\ Sim c' (s ++ nb) (eqs ++ ne) em' /\
        a_r = amap em' a_s /\ (length (c_uf c) <= length (c_uf c'))%nat /\
        (forall x y, a_s = Some (x, y) -> (x < length (c_uf c'))%nat /\ (y < length (c_uf c'))%nat)
  | Err (RBind 0 _ _, _) => ~ consistent (s ++ nb) (eqs ++ ne)
  | Err _ => False
  | _ => True
  end.

Section Nodes.
  Variable fuel : nat.
  Variable jt : jet_table.

  Ltac start :=
    intros c s eqs em ar_s nb ne a_r S0 Ai H; unfold node_post; cbn [r_node]; cbn [node_tmpl] in H;
    try rewrite !arr_of_amap in H; try rewrite !hidden_at_amap in H.

  Lemma node_iden : forall c s eqs em ar_s nb ne a_r, Sim c s eqs em -> arr_in (length (c_uf c)) ar_s ->
    node_tmpl jt (length s) (map (amap em) ar_s) NIden = Some (nb, ne, a_r) -> node_post fuel jt c s eqs em ar_s NIden nb ne a_r.
  Proof.
    start. injection H as <- <- <-.
    destruct (sim_free c s eqs em S0) as (S1 & E1 & L1). destruct (ty_free c) as [c1 f] eqn:N1. cbn [fst snd] in *. subst f.
    exists (upd em (length (c_uf c)) (length s)). split; [intros e He; apply upd_lt; exact He|].
    rewrite app_nil_r. split; [exact S1|]. split; [cbn [amap]; rewrite upd_eq; reflexivity|]. split; [lia|].
    intros x y E. injection E as <- <-. lia.
  Qed.

  Lemma blk_g g n : is_block ty eq One Sum Prod (fst (galloc g n)) n (snd (galloc g n)) (gty_ty g) /\
                    is_block itree teq tone tsum tprod (fst (galloc g n)) n (snd (galloc g n)) (gty_ty g).
  Proof. split; [apply (is_block_galloc ty eq One Sum Prod); fin_hyps|apply (is_block_galloc itree teq tone tsum tprod); dom_hyps]. Qed.

  Lemma blk_w k n : is_block ty eq One Sum Prod (fst (walloc k n)) n (snd (walloc k n)) (word_ty k) /\
                    is_block itree teq tone tsum tprod (fst (walloc k n)) n (snd (walloc k n)) (word_ty k).
  Proof. split; [apply (is_block_walloc ty eq One Sum Prod); fin_hyps|apply (is_block_walloc itree teq tone tsum tprod); dom_hyps]. Qed.

  Ltac upds := repeat first [rewrite upd_eq | rewrite upd_lt by lia].

  (* unit: [BFree; BOne] *)
  Lemma node_unit : forall c s eqs em ar_s nb ne a_r, Sim c s eqs em -> arr_in (length (c_uf c)) ar_s ->
    node_tmpl jt (length s) (map (amap em) ar_s) NUnit = Some (nb, ne, a_r) -> node_post fuel jt c s eqs em ar_s NUnit nb ne a_r.
  Proof.
    start. injection H as <- <- <-.
    destruct (sim_free c s eqs em S0) as (S1 & E1 & L1). destruct (ty_free c) as [c1 f] eqn:N1. cbn [fst snd] in *. subst f.
    destruct (blk_g GOne (length (s ++ [BFree]))) as [Bf Bt]. cbn [galloc fst snd gty_ty] in Bf, Bt.
    destruct (sim_block c1 _ eqs _ _ _ One S1 Bf Bt) as (S2 & E2 & L2).
    destruct (ty_complete c1 One) as [c2 t] eqn:N2. cbn [fst snd] in *. subst t.
    eexists. split; [|split; [|split; [|split]]].
    2:{ rewrite app_nil_r. replace (s ++ [BFree; BOne]) with ((s ++ [BFree]) ++ [BOne]) by (rewrite <- app_assoc; reflexivity). exact S2. }
    - intros e He. upds. reflexivity.
    - cbn [amap]. upds. rewrite app_length. cbn [length]. f_equal. f_equal. lia.
    - lia.
    - intros x y E. injection E as <- <-. lia.
  Qed.

  (* injl / injr / take / drop: [BFree; BSum/BProd ..] *)
  Lemma node_injl ch : forall c s eqs em ar_s nb ne a_r, Sim c s eqs em -> arr_in (length (c_uf c)) ar_s ->
    node_tmpl jt (length s) (map (amap em) ar_s) (NInjL ch) = Some (nb, ne, a_r) -> node_post fuel jt c s eqs em ar_s (NInjL ch) nb ne a_r.
  Proof.
    start. destruct (arr_of ar_s ch) as [[cs ct]|] eqn:Es; cbn [amap] in H; [|discriminate]. injection H as <- <- <-.
    destruct (Ai ch cs ct Es) as [Lcs Lct].
    destruct (sim_free c s eqs em S0) as (S1 & E1 & L1). destruct (ty_free c) as [c1 f] eqn:N1. cbn [fst snd] in *. subst f.
    destruct (sim_pair true c1 _ eqs _ ct (length (c_uf c)) S1 ltac:(lia) ltac:(lia)) as (c2 & E2 & S2 & L2).
    rewrite E2. cbn [lift_unwrap obind].
    eexists. split; [|split; [|split; [|split]]].
    2:{ rewrite app_nil_r. replace (s ++ [BFree; BSum (em ct) (length s)]) with
          ((s ++ [BFree]) ++ [BSum (upd em (length (c_uf c)) (length s) ct) (upd em (length (c_uf c)) (length s) (length (c_uf c)))])
          by (rewrite <- app_assoc; upds; reflexivity). exact S2. }
    - intros e He. upds. reflexivity.
    - cbn [amap]. upds. rewrite app_length. cbn [length]. f_equal. f_equal. lia.
    - lia.
    - intros x y E. injection E as <- <-. lia.
  Qed.

  Lemma node_injr ch : forall c s eqs em ar_s nb ne a_r, Sim c s eqs em -> arr_in (length (c_uf c)) ar_s ->
    node_tmpl jt (length s) (map (amap em) ar_s) (NInjR ch) = Some (nb, ne, a_r) -> node_post fuel jt c s eqs em ar_s (NInjR ch) nb ne a_r.
  Proof.
    start. destruct (arr_of ar_s ch) as [[cs ct]|] eqn:Es; cbn [amap] in H; [|discriminate]. injection H as <- <- <-.
    destruct (Ai ch cs ct Es) as [Lcs Lct].
    destruct (sim_free c s eqs em S0) as (S1 & E1 & L1). destruct (ty_free c) as [c1 f] eqn:N1. cbn [fst snd] in *. subst f.
    destruct (sim_pair true c1 _ eqs _ (length (c_uf c)) ct S1 ltac:(lia) ltac:(lia)) as (c2 & E2 & S2 & L2).
    rewrite E2. cbn [lift_unwrap obind].
    eexists. split; [|split; [|split; [|split]]].
    2:{ rewrite app_nil_r. replace (s ++ [BFree; BSum (length s) (em ct)]) with
          ((s ++ [BFree]) ++ [BSum (upd em (length (c_uf c)) (length s) (length (c_uf c))) (upd em (length (c_uf c)) (length s) ct)])
          by (rewrite <- app_assoc; upds; reflexivity). exact S2. }
    - intros e He. upds. reflexivity.
    - cbn [amap]. upds. rewrite app_length. cbn [length]. f_equal. f_equal. lia.
    - lia.
    - intros x y E. injection E as <- <-. lia.
  Qed.

  Lemma node_take ch : forall c s eqs em ar_s nb ne a_r, Sim c s eqs em -> arr_in (length (c_uf c)) ar_s ->
    node_tmpl jt (length s) (map (amap em) ar_s) (NTake ch) = Some (nb, ne, a_r) -> node_post fuel jt c s eqs em ar_s (NTake ch) nb ne a_r.
  Proof.
    start. destruct (arr_of ar_s ch) as [[cs ct]|] eqn:Es; cbn [amap] in H; [|discriminate]. injection H as <- <- <-.
    destruct (Ai ch cs ct Es) as [Lcs Lct].
    destruct (sim_free c s eqs em S0) as (S1 & E1 & L1). destruct (ty_free c) as [c1 f] eqn:N1. cbn [fst snd] in *. subst f.
    destruct (sim_pair false c1 _ eqs _ cs (length (c_uf c)) S1 ltac:(lia) ltac:(lia)) as (c2 & E2 & S2 & L2).
    rewrite E2. cbn [lift_unwrap obind].
    eexists. split; [|split; [|split; [|split]]].
    2:{ rewrite app_nil_r. replace (s ++ [BFree; BProd (em cs) (length s)]) with
          ((s ++ [BFree]) ++ [BProd (upd em (length (c_uf c)) (length s) cs) (upd em (length (c_uf c)) (length s) (length (c_uf c)))])
          by (rewrite <- app_assoc; upds; reflexivity). exact S2. }
    - intros e He. upds. reflexivity.
    - cbn [amap]. upds. rewrite app_length. cbn [length]. f_equal. f_equal. lia.
    - lia.
    - intros x y E. injection E as <- <-. lia.
  Qed.

  Lemma node_drop ch : forall c s eqs em ar_s nb ne a_r, Sim c s eqs em -> arr_in (length (c_uf c)) ar_s ->
    node_tmpl jt (length s) (map (amap em) ar_s) (NDrop ch) = Some (nb, ne, a_r) -> node_post fuel jt c s eqs em ar_s (NDrop ch) nb ne a_r.
  Proof.
    start. destruct (arr_of ar_s ch) as [[cs ct]|] eqn:Es; cbn [amap] in H; [|discriminate]. injection H as <- <- <-.
    destruct (Ai ch cs ct Es) as [Lcs Lct].
    destruct (sim_free c s eqs em S0) as (S1 & E1 & L1). destruct (ty_free c) as [c1 f] eqn:N1. cbn [fst snd] in *. subst f.
    destruct (sim_pair false c1 _ eqs _ (length (c_uf c)) cs S1 ltac:(lia) ltac:(lia)) as (c2 & E2 & S2 & L2).
    rewrite E2. cbn [lift_unwrap obind].
    eexists. split; [|split; [|split; [|split]]].
    2:{ rewrite app_nil_r. replace (s ++ [BFree; BProd (length s) (em cs)]) with
          ((s ++ [BFree]) ++ [BProd (upd em (length (c_uf c)) (length s) (length (c_uf c))) (upd em (length (c_uf c)) (length s) cs)])
          by (rewrite <- app_assoc; upds; reflexivity). exact S2. }
    - intros e He. upds. reflexivity.
    - cbn [amap]. upds. rewrite app_length. cbn [length]. f_equal. f_equal. lia.
    - lia.
    - intros x y E. injection E as <- <-. lia.
  Qed.

  (* comp: one equation *)
  Lemma node_comp l r : forall c s eqs em ar_s nb ne a_r, Sim c s eqs em -> arr_in (length (c_uf c)) ar_s ->
    node_tmpl jt (length s) (map (amap em) ar_s) (NComp l r) = Some (nb, ne, a_r) -> node_post fuel jt c s eqs em ar_s (NComp l r) nb ne a_r.
  Proof.
    start. destruct (arr_of ar_s l) as [[ls lt]|] eqn:El; cbn [amap] in H; [|discriminate].
    destruct (arr_of ar_s r) as [[rs rt]|] eqn:Er; cbn [amap] in H; [|discriminate]. injection H as <- <- <-.
    destruct (Ai l ls lt El) as [Lls Llt]. destruct (Ai r rs rt Er) as [Lrs Lrt].
    pose proof (sim_unify fuel c s eqs em lt rs S0 Llt Lrs) as U. unfold a_unify.
    destruct (ctx_unify fuel c lt rs) as [c1|[[ex new] ce]| |]; cbn [lift_bind obind alloc_bound]; try exact I.
    - destruct U as [S1 L1]. exists em. split; [reflexivity|]. rewrite app_nil_r. split; [exact S1|]. split; [reflexivity|].
      split; [lia|]. intros x y E. injection E as <- <-. lia.
    - rewrite app_nil_r. exact U.
  Qed.

  (* pair: one equation, one product *)
  Lemma node_pair l r : forall c s eqs em ar_s nb ne a_r, Sim c s eqs em -> arr_in (length (c_uf c)) ar_s ->
    node_tmpl jt (length s) (map (amap em) ar_s) (NPair l r) = Some (nb, ne, a_r) -> node_post fuel jt c s eqs em ar_s (NPair l r) nb ne a_r.
  Proof.
    start. destruct (arr_of ar_s l) as [[ls lt]|] eqn:El; cbn [amap] in H; [|discriminate].
    destruct (arr_of ar_s r) as [[rs rt]|] eqn:Er; cbn [amap] in H; [|discriminate]. injection H as <- <- <-.
    destruct (Ai l ls lt El) as [Lls Llt]. destruct (Ai r rs rt Er) as [Lrs Lrt].
    pose proof (sim_unify fuel c s eqs em ls rs S0 Lls Lrs) as U. unfold a_unify.
    destruct (ctx_unify fuel c ls rs) as [c1|[[ex new] ce]| |]; cbn [lift_bind obind alloc_bound]; try exact I.
    - destruct U as [S1 L1].
      destruct (sim_pair false c1 _ _ _ lt rt S1 ltac:(lia) ltac:(lia)) as (c2 & E2 & S2 & L2).
      rewrite E2. cbn [lift_unwrap obind].
      eexists. split; [|split; [|split; [|split]]].
      2:{ exact S2. }
      + intros e He. upds. reflexivity.
      + cbn [amap]. upds. reflexivity.
      + lia.
      + intros x y E. injection E as <- <-. lia.
    - intros C. apply U. apply (consistent_mono s [BProd (em lt) (em rt)] _ []). rewrite app_nil_r. exact C.
  Qed.

  Lemma node_hidden h : forall c s eqs em ar_s nb ne a_r, Sim c s eqs em -> arr_in (length (c_uf c)) ar_s ->
    node_tmpl jt (length s) (map (amap em) ar_s) (NHidden h) = Some (nb, ne, a_r) -> node_post fuel jt c s eqs em ar_s (NHidden h) nb ne a_r.
  Proof.
    start. injection H as <- <- <-. exists em. split; [reflexivity|]. rewrite !app_nil_r. split; [exact S0|]. split; [reflexivity|].
    split; [lia|]. intros x y E. discriminate.
  Qed.

  Lemma two_free c s eqs em : Sim c s eqs em ->
    exists c2, (let '(c1, x) := ty_free c in let '(c2, y) := ty_free c1 in (c2, x, y)) = (c2, length (c_uf c), S (length (c_uf c))) /\
      Sim c2 (s ++ [BFree; BFree]) eqs (upd (upd em (length (c_uf c)) (length s)) (S (length (c_uf c))) (S (length s))) /\
      length (c_uf c2) = S (S (length (c_uf c))).
  Proof.
    intros S0.
    destruct (sim_free c s eqs em S0) as (S1 & E1 & L1). destruct (ty_free c) as [c1 f] eqn:N1. cbn [fst snd] in *. subst f.
    destruct (sim_free c1 _ eqs _ S1) as (S2 & E2 & L2). destruct (ty_free c1) as [c2 g] eqn:N2. cbn [fst snd] in *. subst g.
    exists c2. split; [rewrite L1; reflexivity|]. split; [|lia].
    replace (s ++ [BFree; BFree]) with ((s ++ [BFree]) ++ [BFree]) by (rewrite <- app_assoc; reflexivity).
    rewrite L1 in S2. replace (S (length s)) with (length (s ++ [BFree])) by (rewrite app_length; cbn; lia). exact S2.
  Qed.

  Lemma node_fail h : forall c s eqs em ar_s nb ne a_r, Sim c s eqs em -> arr_in (length (c_uf c)) ar_s ->
    node_tmpl jt (length s) (map (amap em) ar_s) (NFail h) = Some (nb, ne, a_r) -> node_post fuel jt c s eqs em ar_s (NFail h) nb ne a_r.
  Proof.
    start. injection H as <- <- <-.
    destruct (two_free c s eqs em S0) as (c2 & E & S2 & L2).
    destruct (ty_free c) as [c1 x]. destruct (ty_free c1) as [c2' y]. injection E as -> -> ->.
    eexists. split; [|split; [|split; [|split]]].
    2:{ rewrite app_nil_r. exact S2. }
    - intros e He. upds. reflexivity.
    - cbn [amap]. upds. reflexivity.
    - lia.
    - intros x y E. injection E as <- <-. lia.
  Qed.

  Lemma node_witness w : forall c s eqs em ar_s nb ne a_r, Sim c s eqs em -> arr_in (length (c_uf c)) ar_s ->
    node_tmpl jt (length s) (map (amap em) ar_s) (NWitness w) = Some (nb, ne, a_r) -> node_post fuel jt c s eqs em ar_s (NWitness w) nb ne a_r.
  Proof.
    start. injection H as <- <- <-.
    destruct (two_free c s eqs em S0) as (c2 & E & S2 & L2).
    destruct (ty_free c) as [c1 x]. destruct (ty_free c1) as [c2' y]. injection E as -> -> ->.
    eexists. split; [|split; [|split; [|split]]].
    2:{ rewrite app_nil_r. exact S2. }
    - intros e He. upds. reflexivity.
    - cbn [amap]. upds. reflexivity.
    - lia.
    - intros x y E. injection E as <- <-. lia.
  Qed.
End Nodes.
