(* C09: programs whose committed structures differ (other than by hiding) get different
   roots -- for a collision-free compression function.

   Hypotheses of the Section (the idealisation; never axioms):
     compress_inj   the compression function is injective in (state, block)
     iv_inj         the initial values of the commitment tags are pairwise different
                    (checked by computation for the real constants: Real.real_iv_inj)
     iv_leaf        no initial value is the compression of a block from an initial value;
                    derived below (iv_leaf_from_free) from compress_inj + "every IV is
                    compress iv0 (tag block)" (true by computation: Real.iv_unfold) + "iv0 is
                    not an IV" + "iv0 has no preimage"
   Conclusion: equal roots => structures equal up to hiding (CmrStructure.heq). *)
From RS Require Import Lib.Tac Lib.Outcome Ty.Ty Core.Prog Merkle.Tagged Merkle.Cmr Merkle.CmrStructure.
Import ListNotations.
Local Open Scope N_scope.

Section Hash.
  Variable H : Type.
  Variable compress : H -> H * H -> H.
  Variable iv : tag -> H.
  Variable zero : H.
  Variable of_weight : N -> H.
  Variable jet_cmr : N -> N -> H.

  Local Notation cstruct := (cstruct H).
  Local Notation cmr_spec := (cmr_spec H compress iv zero of_weight jet_cmr).
  Local Notation scribe_root := (scribe_root H compress iv zero).
  Local Notation heq := (heq H compress iv zero of_weight jet_cmr).
  Local Notation cwf := (cwf H).

  Hypothesis compress_inj : forall s b s' b', compress s b = compress s' b' -> s = s' /\ b = b'.
  Hypothesis iv_inj : forall a b, In a cmr_tags -> In b cmr_tags -> iv a = iv b -> a = b.
  Hypothesis iv_leaf : forall a b x, In a cmr_tags -> In b cmr_tags -> iv a <> compress (iv b) x.

  Local Ltac tag_in := cbn; repeat (first [left; reflexivity | right]).

  Local Ltac unfold_cmr :=
    unfold cmr_iden, cmr_unit, cmr_injl, cmr_injr, cmr_take, cmr_drop, cmr_comp, cmr_case, cmr_pair,
      cmr_disconnect, cmr_witness, cmr_fail, word_root, update_0_then_32, update_weight_then_32,
      update_2x32, update_64 in *.

  (* two roots built from different tags cannot be equal *)
  Local Ltac kill E :=
    match type of E with
    | iv ?a = iv ?b =>
        apply iv_inj in E; [discriminate E | tag_in | tag_in]
    | iv ?a = compress (iv ?b) _ =>
        exfalso; apply (iv_leaf a b _ ltac:(tag_in) ltac:(tag_in) E)
    | compress (iv ?b) _ = iv ?a =>
        exfalso; apply (iv_leaf a b _ ltac:(tag_in) ltac:(tag_in) (eq_sym E))
    | compress (iv ?a) _ = compress (iv ?b) _ =>
        let E1 := fresh "E1" in let E2 := fresh "E2" in
        apply compress_inj in E; destruct E as [E1 E2];
        apply iv_inj in E1; [discriminate E1 | tag_in | tag_in]
    end.

  Lemma scribe_root_inj n : forall n' bits bits',
    length bits = (2 ^ n)%nat -> length bits' = (2 ^ n')%nat ->
    scribe_root n bits = scribe_root n' bits' -> n = n' /\ bits = bits'.
  Proof.
    induction n as [|n IH]; intros [|n'] bits bits' L L' E.
    - destruct bits as [|b [|? ?]]; cbn in L; try discriminate.
      destruct bits' as [|b' [|? ?]]; cbn in L'; try discriminate.
      split; [reflexivity|].
      cbn in E. unfold Cmr.cmr_bit in E. destruct b, b'; try reflexivity; unfold_cmr; kill E.
    - cbn in E. unfold Cmr.cmr_bit in E. destruct (hd false bits); unfold_cmr; kill E.
    - cbn in E. unfold Cmr.cmr_bit in E. destruct (hd false bits'); unfold_cmr; kill E.
    - cbn [Cmr.scribe_root] in E. unfold_cmr.
      apply compress_inj in E. destruct E as [_ E]. injection E as E1 E2.
      assert (P : (2 ^ S n = 2 ^ n + 2 ^ n)%nat) by (cbn; lia).
      assert (P' : (2 ^ S n' = 2 ^ n' + 2 ^ n')%nat) by (cbn; lia).
      apply IH in E1; [|rewrite firstn_length; lia|rewrite firstn_length; lia].
      destruct E1 as [<- F1].
      apply IH in E2; [|rewrite skipn_length; lia|rewrite skipn_length; lia].
      destruct E2 as [_ F2]. split; [reflexivity|].
      rewrite <- (firstn_skipn (2 ^ n) bits), <- (firstn_skipn (2 ^ n) bits'), F1, F2. reflexivity.
  Qed.

  Lemma word_inj n n' bits bits' :
    length bits = (2 ^ n)%nat -> length bits' = (2 ^ n')%nat ->
    cmr_spec (CWord n bits) = cmr_spec (CWord n' bits') -> n = n' /\ bits = bits'.
  Proof.
    intros L L' E. cbn in E. unfold_cmr.
    apply compress_inj in E. destruct E as [_ E]. injection E as _ E.
    apply compress_inj in E. destruct E as [E _].
    apply compress_inj in E. destruct E as [_ E]. injection E as E.
    eapply scribe_root_inj; eauto.
  Qed.

  (* cmr_injective *)
  Theorem cmr_injective : forall s1 s2, cwf s1 -> cwf s2 -> cmr_spec s1 = cmr_spec s2 -> heq s1 s2.
  Proof.
    induction s1; intros s2 W1 W2 E; destruct s2;
      try (apply heq_opaque_l; [reflexivity|exact E]);
      try (apply heq_opaque_r; [reflexivity|exact E]);
      cbn [Cmr.cmr_spec] in E; unfold_cmr; try (kill E; fail);
      try (first [apply heq_iden | apply heq_unit | apply heq_witness]).
    - (* injl *) apply compress_inj in E. destruct E as [_ E]. injection E as E. apply heq_injl. auto.
    - apply compress_inj in E. destruct E as [_ E]. injection E as E. apply heq_injr. auto.
    - apply compress_inj in E. destruct E as [_ E]. injection E as E. apply heq_take. auto.
    - apply compress_inj in E. destruct E as [_ E]. injection E as E. apply heq_drop. auto.
    - (* comp *) apply compress_inj in E. destruct E as [_ E]. injection E as E1 E2.
      cbn in W1, W2. apply heq_comp; [apply IHs1_1|apply IHs1_2]; tauto.
    - apply compress_inj in E. destruct E as [_ E]. injection E as E1 E2.
      cbn in W1, W2. apply heq_case; [apply IHs1_1|apply IHs1_2]; tauto.
    - apply compress_inj in E. destruct E as [_ E]. injection E as E1 E2.
      cbn in W1, W2. apply heq_pair; [apply IHs1_1|apply IHs1_2]; tauto.
    - (* disconnect *) apply compress_inj in E. destruct E as [_ E]. injection E as E. apply heq_disconnect. auto.
    - (* fail *) apply compress_inj in E. destruct E as [_ E]. subst. apply heq_fail.
    - (* word *)
      assert (R : n = n0 /\ bits = bits0).
      { apply word_inj; [exact W1|exact W2|]. cbn [Cmr.cmr_spec]. unfold_cmr. exact E. }
      destruct R as [-> ->]. apply heq_word.
  Qed.

  (* without hidden nodes and jets: different structures, different roots *)
  Corollary cmr_injective_plain s1 s2 :
    cwf s1 -> cwf s2 -> plain H s1 -> plain H s2 -> cmr_spec s1 = cmr_spec s2 -> s1 = s2.
  Proof.
    intros W1 W2 P1 P2 E. eapply heq_plain; eauto. apply cmr_injective; auto.
  Qed.

End Hash.

(* ------------------------------------------------------------------ where iv_leaf comes from *)
Section Free.
  Variable H : Type.
  Variable compress : H -> H * H -> H.
  Variable iv : tag -> H.
  Variable iv0 : H.
  Variable tag_block : tag -> H * H.
  Hypothesis compress_inj : forall s b s' b', compress s b = compress s' b' -> s = s' /\ b = b'.
  Hypothesis iv_unfold : forall t, iv t = compress iv0 (tag_block t).
  Hypothesis iv0_no_preimage : forall s b, compress s b <> iv0.

  Lemma iv_leaf_from_free : forall a b x, iv a <> compress (iv b) x.
  Proof.
    intros a b x E. rewrite (iv_unfold a) in E. apply compress_inj in E. destruct E as [E _].
    rewrite (iv_unfold b) in E. symmetry in E. exact (iv0_no_preimage _ _ E).
  Qed.

  Lemma iv_inj_from_free : (forall a b, tag_block a = tag_block b -> a = b) ->
    forall a b, iv a = iv b -> a = b.
  Proof.
    intros TB a b E. rewrite !iv_unfold in E. apply compress_inj in E. apply TB, E.
  Qed.
End Free.

(* ------------------------------------------------------------------ the hypotheses are satisfiable *)
(* The free term algebra: a compression function that is injective and in whose image the
   starting state does not lie.  (No function on a finite type has these properties: for
   SHA-256 they are the usual idealisation.) *)
Inductive term := TAtom (n : N) | TNode (s l r : term).

Definition t_compress (s : term) (b : term * term) : term := TNode s (fst b) (snd b).
Definition t_iv0 : term := TAtom 0.
Definition t_tag_block (t : tag) : term * term := (TAtom (1 + tag_code t), TAtom (1 + tag_code t)).
Definition t_iv (t : tag) : term := t_compress t_iv0 (t_tag_block t).

Example free_compress_inj : forall s b s' b', t_compress s b = t_compress s' b' -> s = s' /\ b = b'.
Proof.
  intros s [l r] s' [l' r'] E. unfold t_compress in E. cbn in E. injection E as -> -> ->. auto.
Qed.

Example free_iv0_no_preimage : forall s b, t_compress s b <> t_iv0.
Proof. intros s b E. discriminate E. Qed.

Example free_iv_inj : forall a b, t_iv a = t_iv b -> a = b.
Proof.
  apply (iv_inj_from_free term t_compress t_iv t_iv0 t_tag_block free_compress_inj (fun _ => eq_refl)).
  intros a b E. unfold t_tag_block in E.
  assert (E1 : 1 + tag_code a = 1 + tag_code b) by congruence. apply tag_code_inj. lia.
Qed.

Example free_iv_leaf : forall a b x, t_iv a <> t_compress (t_iv b) x.
Proof.
  exact (iv_leaf_from_free term t_compress t_iv t_iv0 t_tag_block free_compress_inj (fun _ => eq_refl)
           free_iv0_no_preimage).
Qed.

(* injectivity instantiated at the free algebra: no hypotheses left *)
Example free_cmr_injective (jets : N -> N -> term) : forall s1 s2 : cstruct term,
  cwf term s1 -> cwf term s2 ->
  cmr_spec term t_compress t_iv (TAtom 0) (fun w => TAtom (1000 + w)) jets s1 =
  cmr_spec term t_compress t_iv (TAtom 0) (fun w => TAtom (1000 + w)) jets s2 ->
  heq term t_compress t_iv (TAtom 0) (fun w => TAtom (1000 + w)) jets s1 s2.
Proof.
  apply cmr_injective.
  - exact free_compress_inj.
  - intros a b _ _. apply free_iv_inj.
  - intros a b x _ _. apply free_iv_leaf.
Qed.
