(* C09 theorems: the commitment root is a function of the committed structure alone.
   Everything is proved for an arbitrary compression function (Section Hash of Cmr.v);
   injectivity additionally assumes that the compression function is injective and that
   the initial values are separated (hypotheses of the Section, discharged for SHA-256's
   IV constants in Merkle/Real.v as far as they are computable). *)
From RS Require Import Lib.Tac Lib.Outcome Ty.Ty Core.Prog Merkle.Tagged Merkle.Cmr.
Import ListNotations.
Local Open Scope N_scope.

(* ------------------------------------------------------------------ table folds *)
Lemma Ok_inj {E A} (a b : A) : @Ok E A a = Ok b -> a = b.
Proof. congruence. Qed.

Lemma tfold_snoc {A B} (f : list B -> A -> B) l : forall pre a,
  tfold f pre (l ++ [a]) = tfold f pre l ++ [f (tfold f pre l) a].
Proof.
  induction l as [|x l IH]; intros pre a; cbn; [reflexivity|]. apply IH.
Qed.

Lemma tfold_length {A B} (f : list B -> A -> B) l : forall pre,
  length (tfold f pre l) = (length pre + length l)%nat.
Proof.
  induction l as [|x l IH]; intros pre; cbn; [lia|]. rewrite IH, app_length. cbn. lia.
Qed.

Lemma tfoldM_inv {A B} (f : list B -> A -> outcome N B) (Inv : list A -> list B -> Prop) :
  (forall sa sb a b, Inv sa sb -> f sb a = Ok b -> Inv (sa ++ [a]) (sb ++ [b])) ->
  forall l sa sb r, Inv sa sb -> tfoldM f sb l = Ok r -> Inv (sa ++ l) r.
Proof.
  intros Step. induction l as [|a l IH]; intros sa sb r I E; cbn in E.
  - injection E as <-. rewrite app_nil_r. exact I.
  - destruct (f sb a) as [b| | |] eqn:Fa; cbn in E; try discriminate.
    replace (sa ++ a :: l) with ((sa ++ [a]) ++ l) by (rewrite <- app_assoc; reflexivity).
    eapply IH; [|exact E]. eapply Step; eauto.
Qed.

Lemma tfoldM_length {A B} (f : list B -> A -> outcome N B) l : forall pre r,
  tfoldM f pre l = Ok r -> length r = (length pre + length l)%nat.
Proof.
  induction l as [|a l IH]; intros pre r E; cbn in E.
  - injection E as <-. cbn. lia.
  - destruct (f pre a) as [b| | |]; cbn in E; try discriminate.
    apply IH in E. rewrite app_length in E. cbn in *. lia.
Qed.

Lemma map_nth_rel {A B C} (f : A -> C) (g : B -> C) la lb (db : B) k a :
  map f la = map g lb -> nth_error la k = Some a -> g (nth k lb db) = f a.
Proof.
  intros E Ha.
  assert (L : length la = length lb) by (rewrite <- (map_length f la), E, map_length; reflexivity).
  assert (K : (k < length la)%nat) by (apply nth_error_Some; congruence).
  pose proof (map_nth_error f _ _ Ha) as E1. rewrite E in E1.
  destruct (nth_error lb k) as [b|] eqn:Hb.
  - rewrite (map_nth_error g _ _ Hb) in E1. injection E1 as E1.
    rewrite (nth_error_nth _ _ db Hb). exact E1.
  - apply nth_error_None in Hb. lia.
Qed.

(* the constant tables of the code agree with hashing from scratch *)
Definition tables_ok (H : Type) (compress : H -> H * H -> H) (iv : tag -> H) (zero : H)
    (bit_cmr : bool -> H) (tmr_unit : H) (tmr_two_two_n : list H) : Prop :=
  (forall b, bit_cmr b = cmr_bit H compress iv zero b) /\
  tmr_unit = iv TtUnit /\
  (forall n, (n < 32)%nat -> nth_error tmr_two_two_n n = Some (tmr_pow H compress iv n)).

Section Hash.
  Variable H : Type.
  Variable compress : H -> H * H -> H.
  Variable iv : tag -> H.
  Variable zero : H.
  Variable of_weight : N -> H.
  Variable bit_cmr : bool -> H.
  Variable tmr_unit : H.
  Variable tmr_two_two_n : list H.
  Variable jet_cmr : N -> N -> H.
  Variable h_of_bytes : list N -> H.

  Local Notation cstruct := (cstruct H).
  Local Notation cmr_spec := (cmr_spec H compress iv zero of_weight jet_cmr).
  Local Notation scribe_root := (scribe_root H compress iv zero).
  Local Notation cmr_bit := (cmr_bit H compress iv zero).
  Local Notation c_pair := (cmr_pair H compress iv).
  Local Notation c_case := (cmr_case H compress iv).
  Local Notation c_const_word := (cmr_const_word H compress iv zero of_weight bit_cmr tmr_unit tmr_two_two_n).
  Local Notation erase_prog := (erase_prog H h_of_bytes).
  Local Notation erase_node := (erase_node H h_of_bytes).
  Local Notation algebra := (algebra H).
  Local Notation homomorphic := (homomorphic H compress iv zero of_weight bit_cmr tmr_unit tmr_two_two_n jet_cmr).
  Local Notation node_alg := (node_alg H compress iv zero of_weight bit_cmr tmr_unit tmr_two_two_n jet_cmr).
  Local Notation ccmr_alg := (ccmr_alg H compress iv zero of_weight bit_cmr tmr_unit tmr_two_two_n jet_cmr).
  Local Notation cstruct_alg := (cstruct_alg H compress iv zero of_weight jet_cmr).
  Local Notation drive := (drive H h_of_bytes).
  Local Notation drive_node := (drive_node H h_of_bytes).
  Local Notation construct := (construct H compress iv zero of_weight bit_cmr tmr_unit tmr_two_two_n jet_cmr h_of_bytes).
  Local Notation from_parts_cmr := (from_parts_cmr H compress iv zero of_weight bit_cmr tmr_unit tmr_two_two_n jet_cmr).
  Local Notation hiding_alg := (hiding_alg H compress iv zero).
  Local Notation drive_hiding := (drive_hiding H compress iv zero h_of_bytes).
  Local Notation consistent := (consistent H compress iv zero of_weight bit_cmr tmr_unit tmr_two_two_n jet_cmr).
  Local Notation consistent_from := (consistent_from H compress iv zero of_weight bit_cmr tmr_unit tmr_two_two_n jet_cmr).
  Local Notation entry_ok := (entry_ok H compress iv zero of_weight bit_cmr tmr_unit tmr_two_two_n jet_cmr).

  (* The constant tables of the code agree with hashing from scratch (true of the real
     tables: Merkle/Real.v real_bits_ok, real_tmr_unit_ok, two_two_n_checked). *)
  Hypothesis bit_ok : forall b, bit_cmr b = cmr_bit b.
  Hypothesis tmr_unit_ok : tmr_unit = iv TtUnit.
  Hypothesis two_two_n_ok : forall n, (n < 32)%nat ->
    nth_error tmr_two_two_n n = Some (tmr_pow H compress iv n).

  (* ================================================================ const_word *)
  Local Notation merge := (merge H compress iv).
  Local Notation word_loop := (word_loop H compress iv bit_cmr).

  Lemma merge_double m st : merge (N.double m) st = Ok st.
  Proof. destruct m; reflexivity. Qed.

  Lemma merge_succ_double m a b st :
    merge (N.succ_double m) (a :: b :: st) = merge m (c_pair b a :: st).
  Proof. destruct m; reflexivity. Qed.

  Lemma scribe_root_app k l r : length l = (2 ^ k)%nat ->
    scribe_root (S k) (l ++ r) = c_pair (scribe_root k l) (scribe_root k r).
  Proof.
    intros L. cbn [Cmr.scribe_root].
    rewrite <- L, firstn_app, Nat.sub_diag, firstn_all, firstn_O, app_nil_r.
    rewrite skipn_app, Nat.sub_diag, skipn_all, skipn_O. reflexivity.
  Qed.

  (* a block of 2^k bits starting at a multiple m * 2^k of its size leaves the root of its
     pair-tree on the stack and then merges as the counter m dictates *)
  Lemma word_loop_block k : forall bits m idx st rest,
    length bits = (2 ^ k)%nat -> idx = m * 2 ^ N.of_nat k ->
    word_loop idx (bits ++ rest) st =
    obind (merge m (scribe_root k bits :: st)) (word_loop (idx + 2 ^ N.of_nat k) rest).
  Proof.
    induction k as [|k IH]; intros bits m idx st rest L I.
    - destruct bits as [|b [|? ?]]; cbn in L; try discriminate.
      cbn [app Tagged.word_loop Cmr.scribe_root hd]. rewrite bit_ok.
      replace idx with m by (cbn in I; lia). cbn [N.of_nat N.pow]. reflexivity.
    - assert (P : 2 ^ N.of_nat (S k) = 2 * 2 ^ N.of_nat k).
      { rewrite Nat2N.inj_succ, N.pow_succ_r by lia. reflexivity. }
      assert (L2 : (2 ^ S k = 2 ^ k + 2 ^ k)%nat) by (cbn; lia).
      set (l := firstn (2 ^ k) bits). set (r := skipn (2 ^ k) bits).
      assert (Ll : length l = (2 ^ k)%nat) by (unfold l; rewrite firstn_length; lia).
      assert (Lr : length r = (2 ^ k)%nat) by (unfold r; rewrite skipn_length; lia).
      assert (B : bits = l ++ r) by (unfold l, r; symmetry; apply firstn_skipn).
      rewrite B, <- app_assoc.
      rewrite (IH l (N.double m) idx st (r ++ rest) Ll) by (rewrite N.double_spec; lia).
      rewrite merge_double. cbn [obind].
      rewrite (IH r (N.succ_double m) (idx + 2 ^ N.of_nat k) (scribe_root k l :: st) rest Lr)
        by (rewrite N.succ_double_spec; lia).
      rewrite merge_succ_double, <- (scribe_root_app k l r Ll).
      replace (idx + 2 ^ N.of_nat k + 2 ^ N.of_nat k) with (idx + 2 ^ N.of_nat (S k)) by lia.
      reflexivity.
  Qed.

  (* const_word_scribe: the stack algorithm computes the jet-tagged identity root of the
     pair-tree of bit constants, for every word size *)
  Theorem const_word_scribe n bits :
    length bits = (2 ^ n)%nat -> (n < 32)%nat ->
    c_const_word n bits = Ok (cmr_spec (CWord n bits)).
  Proof.
    intros L Hn. unfold Tagged.cmr_const_word.
    pose proof (word_loop_block n bits 0 0 [] [] L eq_refl) as E.
    rewrite app_nil_r in E. rewrite E. cbn [Tagged.merge obind Tagged.word_loop].
    rewrite (two_two_n_ok n Hn), tmr_unit_ok. reflexivity.
  Qed.

  Lemma scribe_root_spec n : forall bits, scribe_root n bits = cmr_spec (scribe H n bits).
  Proof.
    induction n as [|n IH]; intros bits; cbn.
    - destruct (hd false bits); reflexivity.
    - rewrite !IH. reflexivity.
  Qed.

  Lemma word_ok_spec n bits : word_ok n bits = true <-> (length bits = (2 ^ n)%nat /\ (n < 32)%nat).
  Proof.
    unfold word_ok. rewrite andb_true_iff, Nat.ltb_lt, N.eqb_eq.
    assert (E : 2 ^ N.of_nat n = N.of_nat (2 ^ n)).
    { induction n as [|n IH]; [reflexivity|].
      rewrite Nat2N.inj_succ, N.pow_succ_r, IH by lia. cbn [Nat.pow]. lia. }
    rewrite E. split; intros [A B]; split; auto; lia.
  Qed.

  (* ================================================================ algebras are homomorphic *)
  Lemma node_alg_hom {D} (d : inner H wit_spec -> D) : homomorphic (node_alg d).
  Proof.
    constructor; try reflexivity.
    intros n bits x _ E. cbn in E.
    destruct (c_const_word n bits) as [h| | |]; cbn in E; try discriminate.
    injection E as <-. reflexivity.
  Qed.

  Lemma ccmr_alg_hom : homomorphic ccmr_alg.
  Proof. constructor; try reflexivity. intros n bits x _ E. exact E. Qed.

  Lemma cstruct_alg_hom : homomorphic cstruct_alg.
  Proof.
    constructor; try reflexivity.
    intros n bits x Wk E. cbn in E. injection E as <-.
    apply word_ok_spec in Wk. destruct Wk as [L Hn]. cbn [a_cmr cstruct_alg].
    apply const_word_scribe; assumption.
  Qed.

  (* ================================================================ node_cmr_spec *)
  Section DriveSpec.
    Context {A : Type} (alg : algebra A) (hom : homomorphic alg).
    Local Notation vc := (val_cmr H alg).

    Lemma get_val_rel sb es k x :
      map vc sb = map cmr_spec es -> get_val H sb k = Ok x ->
      fst x = k /\ cmr_spec (cs_at H es k) = a_cmr H A alg (snd x).
    Proof.
      intros M G. unfold get_val in G.
      destruct (nth_error sb k) as [[a|h]|] eqn:E; try discriminate.
      injection G as <-. split; [reflexivity|].
      unfold cs_at. rewrite (map_nth_rel vc cmr_spec sb es CUnit k (inl a) M E). reflexivity.
    Qed.

    Lemma drive_step sa sb nd v :
      map vc sb = map cmr_spec (erase_prog sa) ->
      drive_node alg sb nd = Ok v ->
      vc v = cmr_spec (erase_node (erase_prog sa) nd).
    Proof.
      intros M E. set (es := erase_prog sa) in *.
      destruct hom.
      destruct nd; cbn [Cmr.drive_node Cmr.erase_node] in *.
      - injection E as <-. cbn. auto.
      - injection E as <-. cbn. auto.
      - destruct (get_val H sb c) as [x| | |] eqn:G; cbn in E; try discriminate. injection E as <-.
        destruct (get_val_rel _ _ _ _ M G) as [_ R]. cbn. rewrite R. auto.
      - destruct (get_val H sb c) as [x| | |] eqn:G; cbn in E; try discriminate. injection E as <-.
        destruct (get_val_rel _ _ _ _ M G) as [_ R]. cbn. rewrite R. auto.
      - destruct (get_val H sb c) as [x| | |] eqn:G; cbn in E; try discriminate. injection E as <-.
        destruct (get_val_rel _ _ _ _ M G) as [_ R]. cbn. rewrite R. auto.
      - destruct (get_val H sb c) as [x| | |] eqn:G; cbn in E; try discriminate. injection E as <-.
        destruct (get_val_rel _ _ _ _ M G) as [_ R]. cbn. rewrite R. auto.
      - destruct (get_val H sb l) as [x| | |] eqn:G1; cbn in E; try discriminate.
        destruct (get_val H sb r) as [y| | |] eqn:G2; cbn in E; try discriminate. injection E as <-.
        destruct (get_val_rel _ _ _ _ M G1) as [_ R1]. destruct (get_val_rel _ _ _ _ M G2) as [_ R2].
        cbn. rewrite R1, R2. auto.
      - (* case *)
        destruct (nth_error sb l) as [[a|h1]|] eqn:E1; destruct (nth_error sb r) as [[b|h2]|] eqn:E2;
          try discriminate; injection E as <-; cbn.
        + rewrite hm_case. cbn.
          unfold cs_at. rewrite (map_nth_rel vc cmr_spec sb es CUnit l _ M E1),
            (map_nth_rel vc cmr_spec sb es CUnit r _ M E2). reflexivity.
        + rewrite hm_assertl. cbn.
          unfold cs_at. rewrite (map_nth_rel vc cmr_spec sb es CUnit l _ M E1),
            (map_nth_rel vc cmr_spec sb es CUnit r _ M E2). reflexivity.
        + rewrite hm_assertr. cbn.
          unfold cs_at. rewrite (map_nth_rel vc cmr_spec sb es CUnit l _ M E1),
            (map_nth_rel vc cmr_spec sb es CUnit r _ M E2). reflexivity.
      - destruct (get_val H sb l) as [x| | |] eqn:G1; cbn in E; try discriminate.
        destruct (get_val H sb r) as [y| | |] eqn:G2; cbn in E; try discriminate. injection E as <-.
        destruct (get_val_rel _ _ _ _ M G1) as [_ R1]. destruct (get_val_rel _ _ _ _ M G2) as [_ R2].
        cbn. rewrite R1, R2. auto.
      - (* disconnect: the right branch is looked up and forgotten *)
        destruct (match r with Some k => omap (fun _ => tt) (get_val H sb k) | None => Ok tt end)
          as [u| | |]; cbn in E; try discriminate.
        destruct (get_val H sb l) as [x| | |] eqn:G1; cbn in E; try discriminate. injection E as <-.
        destruct (get_val_rel _ _ _ _ M G1) as [_ R1]. cbn. rewrite R1. auto.
      - injection E as <-. reflexivity.
      - injection E as <-. cbn. auto.
      - injection E as <-. cbn. auto.
      - destruct (word_ok n bits) eqn:Wk; try discriminate.
        destruct (a_word H A alg n bits) as [x| | |] eqn:Wd; cbn in E; try discriminate. injection E as <-.
        apply hm_word in Wd; [|exact Wk]. apply word_ok_spec in Wk. destruct Wk as [L Hn].
        rewrite (const_word_scribe n bits L Hn) in Wd. injection Wd as Wd. cbn. auto.
      - injection E as <-. cbn. auto.
    Qed.

    (* every value a homomorphic algebra computes over a node table carries the root of the
       erased structure of its node *)
    Theorem drive_cmr_spec p t :
      drive alg p = Ok t -> map vc t = map cmr_spec (erase_prog p).
    Proof.
      intros E.
      apply (tfoldM_inv (drive_node alg)
               (fun sa sb => map vc sb = map cmr_spec (erase_prog sa))) with (sa := []) (sb := []) (l := p) (r := t);
        [|reflexivity|exact E].
      intros sa sb a b I Fa.
      unfold Cmr.erase_prog. rewrite tfold_snoc, !map_app. cbn [map]. f_equal; [exact I|].
      f_equal. eapply drive_step; eauto.
    Qed.
  End DriveSpec.


  (* route 1: every cached cmr of a node table built by the Node constructors is the root of
     the erased structure of its node *)
  Theorem node_cmr_spec {D} (d : inner H wit_spec -> D) p t :
    construct d p = Ok t ->
    map (val_cmr H (node_alg d)) t = map cmr_spec (erase_prog p).
  Proof. apply drive_cmr_spec, node_alg_hom. Qed.

  (* route 4: ConstructibleCmr computes the same roots *)
  Theorem ccmr_cmr_spec p t :
    drive ccmr_alg p = Ok t -> map (val_cmr H ccmr_alg) t = map cmr_spec (erase_prog p).
  Proof. apply drive_cmr_spec, ccmr_alg_hom. Qed.

  (* hence: two tables (or two algebras) agree on nodes with equal erasure *)
  Corollary equal_erasure_equal_root {A B} (alg1 : algebra A) (alg2 : algebra B) p1 p2 t1 t2 i j v1 v2 :
    homomorphic alg1 -> homomorphic alg2 ->
    drive alg1 p1 = Ok t1 -> drive alg2 p2 = Ok t2 ->
    nth_error t1 i = Some v1 -> nth_error t2 j = Some v2 ->
    nth i (erase_prog p1) CUnit = nth j (erase_prog p2) CUnit ->
    val_cmr H alg1 v1 = val_cmr H alg2 v2.
  Proof.
    intros h1 h2 E1 E2 N1 N2 Er.
    pose proof (drive_cmr_spec alg1 h1 p1 t1 E1) as M1.
    pose proof (drive_cmr_spec alg2 h2 p2 t2 E2) as M2.
    rewrite <- (map_nth_rel _ cmr_spec t1 (erase_prog p1) CUnit i v1 M1 N1).
    rewrite <- (map_nth_rel _ cmr_spec t2 (erase_prog p2) CUnit j v2 M2 N2).
    rewrite Er. reflexivity.
  Qed.

  (* the erasure forgets witness values and the disconnected branch *)
  Definition strip (nd : node) : node :=
    match nd with
    | NWitness _ => NWitness WNone
    | NDisconnect l _ => NDisconnect l None
    | x => x
    end.

  Lemma erase_node_strip es nd : erase_node es (strip nd) = erase_node es nd.
  Proof. destruct nd; reflexivity. Qed.

  Lemma erase_prog_strip p : erase_prog (map strip p) = erase_prog p.
  Proof.
    induction p as [|nd p IH] using rev_ind; [reflexivity|].
    rewrite map_app. cbn [map]. unfold Cmr.erase_prog in *.
    rewrite !tfold_snoc, IH, erase_node_strip. reflexivity.
  Qed.

  (* independence of witness data and of the presence / content of disconnected branches:
     two descriptions that differ only there have the same roots, node by node *)
  Theorem cmr_indep_witness_disconnect {D} (d : inner H wit_spec -> D) p1 p2 t1 t2 :
    map strip p1 = map strip p2 ->
    construct d p1 = Ok t1 -> construct d p2 = Ok t2 ->
    map (val_cmr H (node_alg d)) t1 = map (val_cmr H (node_alg d)) t2.
  Proof.
    intros S E1 E2. rewrite (node_cmr_spec d p1 t1 E1), (node_cmr_spec d p2 t2 E2).
    rewrite <- (erase_prog_strip p1), <- (erase_prog_strip p2), S. reflexivity.
  Qed.

  (* ================================================================ equality up to hiding *)
  (* Opaque leaves: a hidden node, and a jet (a jet is identified by the root its table
     gives it).  s1 ~ s2: the same structure, except that where one side has an opaque leaf
     the other side may have any sub-structure with that root. *)
  Definition opaque (s : cstruct) : bool :=
    match s with CHidden _ | CJet _ _ => true | _ => false end.

  Inductive heq : cstruct -> cstruct -> Prop :=
  | heq_opaque_l s1 s2 : opaque s1 = true -> cmr_spec s1 = cmr_spec s2 -> heq s1 s2
  | heq_opaque_r s1 s2 : opaque s2 = true -> cmr_spec s1 = cmr_spec s2 -> heq s1 s2
  | heq_iden : heq CIden CIden
  | heq_unit : heq CUnit CUnit
  | heq_witness : heq CWitness CWitness
  | heq_injl a b : heq a b -> heq (CInjL a) (CInjL b)
  | heq_injr a b : heq a b -> heq (CInjR a) (CInjR b)
  | heq_take a b : heq a b -> heq (CTake a) (CTake b)
  | heq_drop a b : heq a b -> heq (CDrop a) (CDrop b)
  | heq_disconnect a b : heq a b -> heq (CDisconnect a) (CDisconnect b)
  | heq_comp a b c d : heq a b -> heq c d -> heq (CComp a c) (CComp b d)
  | heq_case a b c d : heq a b -> heq c d -> heq (CCase a c) (CCase b d)
  | heq_pair a b c d : heq a b -> heq c d -> heq (CPair a c) (CPair b d)
  | heq_fail e : heq (CFail e) (CFail e)
  | heq_word n bits : heq (CWord n bits) (CWord n bits).

  Lemma heq_refl s : heq s s.
  Proof.
    induction s; try (constructor; assumption).
    - apply heq_opaque_l; reflexivity.
    - apply heq_opaque_l; reflexivity.
  Qed.

  Lemma heq_sym a b : heq a b -> heq b a.
  Proof.
    induction 1; try (constructor; assumption).
    - apply heq_opaque_r; auto.
    - apply heq_opaque_l; auto.
  Qed.

  (* hide_cmr (soundness of ~): structures equal up to hiding have equal roots *)
  Theorem heq_cmr a b : heq a b -> cmr_spec a = cmr_spec b.
  Proof. induction 1; cbn; congruence. Qed.

  (* on structures without opaque leaves, ~ is equality *)
  Fixpoint plain (s : cstruct) : Prop :=
    match s with
    | CHidden _ | CJet _ _ => False
    | CInjL c | CInjR c | CTake c | CDrop c | CDisconnect c => plain c
    | CComp l r | CCase l r | CPair l r => plain l /\ plain r
    | _ => True
    end.

  Lemma heq_plain a b : heq a b -> plain a -> plain b -> a = b.
  Proof.
    induction 1; cbn; intros Pa Pb; try reflexivity;
      try (destruct s1; cbn in *; try discriminate; tauto);
      try (destruct s2; cbn in *; try discriminate; tauto);
      try (f_equal; tauto).
  Qed.

  (* replacing sub-expressions by hidden nodes carrying their roots *)
  Inductive hides : cstruct -> cstruct -> Prop :=
  | hides_here s : hides s (CHidden (cmr_spec s))
  | hides_refl s : hides s s
  | hides_injl a b : hides a b -> hides (CInjL a) (CInjL b)
  | hides_injr a b : hides a b -> hides (CInjR a) (CInjR b)
  | hides_take a b : hides a b -> hides (CTake a) (CTake b)
  | hides_drop a b : hides a b -> hides (CDrop a) (CDrop b)
  | hides_disconnect a b : hides a b -> hides (CDisconnect a) (CDisconnect b)
  | hides_comp a b c d : hides a b -> hides c d -> hides (CComp a c) (CComp b d)
  | hides_case a b c d : hides a b -> hides c d -> hides (CCase a c) (CCase b d)
  | hides_pair a b c d : hides a b -> hides c d -> hides (CPair a c) (CPair b d).

  Lemma hides_heq a b : hides a b -> heq a b.
  Proof.
    induction 1; try (constructor; assumption).
    - apply heq_opaque_r; reflexivity.
    - apply heq_refl.
  Qed.

  (* hide_cmr: replacing any sub-expressions (anywhere) by hidden nodes carrying their roots
     preserves the root *)
  Theorem hide_cmr a b : hides a b -> cmr_spec b = cmr_spec a.
  Proof. intros Hd. symmetry. apply heq_cmr, hides_heq, Hd. Qed.

  Lemma Forall2_nth_heq l1 l2 k : Forall2 heq l1 l2 -> heq (nth k l1 CUnit) (nth k l2 CUnit).
  Proof.
    intros F. revert k. induction F; intros [|k]; cbn; auto using heq_unit.
  Qed.

  Lemma Forall2_snoc {A B} (R : A -> B -> Prop) l1 l2 a b :
    Forall2 R l1 l2 -> R a b -> Forall2 R (l1 ++ [a]) (l2 ++ [b]).
  Proof. intros F r. apply Forall2_app; [exact F|constructor; [exact r|constructor]]. Qed.

  (* ================================================================ Hiding<N> *)
  Section HidingSpec.
    Context {A : Type} (alg : algebra A) (hom : homomorphic alg).
    Local Notation hc := (h_cmr H alg).

    Lemma hiding_alg_hom : homomorphic (hiding_alg alg).
    Proof.
      destruct hom.
      constructor; cbn [a_cmr a_iden a_unit a_injl a_injr a_take a_drop a_comp a_case a_assertl
                        a_assertr a_pair a_disconnect a_witness a_fail a_jet a_word Cmr.hiding_alg].
      all: try (intros [k [a|h]] [k' [b|h']]); try (intros [k [a|h]] r); try (intros h' [k [a|h]]);
        try (intros [k [a|h]]); intros; cbn;
        try reflexivity;
        try (rewrite ?hm_iden, ?hm_unit, ?hm_injl, ?hm_injr, ?hm_take, ?hm_drop, ?hm_comp, ?hm_case,
               ?hm_assertl, ?hm_assertr, ?hm_pair, ?hm_disconnect, ?hm_witness, ?hm_fail, ?hm_jet; reflexivity).
      match goal with E : omap _ _ = Ok _ |- _ => rename E into E0 end.
      match goal with Wk : word_ok _ _ = true |- _ => rename Wk into Wk0 end.
      destruct (a_word H A alg n bits) as [y| | |] eqn:Wd; cbn in E0; try discriminate.
      injection E0 as <-. cbn. eapply hm_word; eauto.
    Qed.

    Lemma hget_rel (sb : list (A + H)) es k x :
      map hc sb = map cmr_spec es -> hget H sb k = Ok x ->
      cmr_spec (cs_at H es k) = hc (snd x).
    Proof.
      intros M G. unfold hget, hid in G. destruct (nth_error sb k) as [v|] eqn:E; try discriminate.
      injection G as <-. cbn. unfold cs_at. apply (map_nth_rel hc cmr_spec sb es CUnit k v M E).
    Qed.

    Lemma drive_hiding_step hs sa sb nd v :
      map hc sb = map cmr_spec (erase_prog sa) ->
      drive_hiding_node H compress iv zero h_of_bytes alg hs sb nd = Ok v ->
      hc v = cmr_spec (erase_node (erase_prog sa) nd).
    Proof.
      intros M E. set (es := erase_prog sa) in *.
      pose proof hiding_alg_hom as hh. destruct hh.
      unfold drive_hiding_node in E.
      match type of E with omap ?post ?body = Ok v =>
        destruct body as [w| | |] eqn:B; cbn in E; try discriminate;
        injection E as <-;
        assert (P : hc (post w) = hc w) by (cbn beta; destruct (hs (length sb)); reflexivity);
        rewrite P; clear P
      end.
      change (h_cmr H alg) with (a_cmr H (hid H) (hiding_alg alg)).
      destruct nd; cbn [Cmr.erase_node Cmr.cmr_spec] in *.
      - apply Ok_inj in B; rewrite <- B; clear B. rewrite hm_iden. reflexivity.
      - apply Ok_inj in B; rewrite <- B; clear B. rewrite hm_unit. reflexivity.
      - destruct (hget H sb c) as [x| | |] eqn:G; cbn [omap obind] in B; try discriminate. apply Ok_inj in B; rewrite <- B; clear B.
        rewrite hm_injl, (hget_rel _ _ _ _ M G). reflexivity.
      - destruct (hget H sb c) as [x| | |] eqn:G; cbn [omap obind] in B; try discriminate. apply Ok_inj in B; rewrite <- B; clear B.
        rewrite hm_injr, (hget_rel _ _ _ _ M G). reflexivity.
      - destruct (hget H sb c) as [x| | |] eqn:G; cbn [omap obind] in B; try discriminate. apply Ok_inj in B; rewrite <- B; clear B.
        rewrite hm_take, (hget_rel _ _ _ _ M G). reflexivity.
      - destruct (hget H sb c) as [x| | |] eqn:G; cbn [omap obind] in B; try discriminate. apply Ok_inj in B; rewrite <- B; clear B.
        rewrite hm_drop, (hget_rel _ _ _ _ M G). reflexivity.
      - destruct (hget H sb l) as [x| | |] eqn:G1; cbn [omap obind] in B; try discriminate.
        destruct (hget H sb r) as [y| | |] eqn:G2; cbn [omap obind] in B; try discriminate. apply Ok_inj in B; rewrite <- B; clear B.
        rewrite hm_comp, (hget_rel _ _ _ _ M G1), (hget_rel _ _ _ _ M G2). reflexivity.
      - destruct (hget H sb l) as [x| | |] eqn:G1; cbn [omap obind] in B; try discriminate.
        destruct (hget H sb r) as [y| | |] eqn:G2; cbn [omap obind] in B; try discriminate. apply Ok_inj in B; rewrite <- B; clear B.
        rewrite hm_case, (hget_rel _ _ _ _ M G1), (hget_rel _ _ _ _ M G2). reflexivity.
      - destruct (hget H sb l) as [x| | |] eqn:G1; cbn [omap obind] in B; try discriminate.
        destruct (hget H sb r) as [y| | |] eqn:G2; cbn [omap obind] in B; try discriminate. apply Ok_inj in B; rewrite <- B; clear B.
        rewrite hm_pair, (hget_rel _ _ _ _ M G1), (hget_rel _ _ _ _ M G2). reflexivity.
      - match type of B with obind ?chk _ = _ => destruct chk as [u| | |]; cbn [omap obind] in B; try discriminate end.
        destruct (hget H sb l) as [x| | |] eqn:G1; cbn [omap obind] in B; try discriminate. apply Ok_inj in B; rewrite <- B; clear B.
        rewrite hm_disconnect, (hget_rel _ _ _ _ M G1). reflexivity.
      - apply Ok_inj in B; rewrite <- B; clear B. reflexivity.
      - apply Ok_inj in B; rewrite <- B; clear B. rewrite hm_fail. reflexivity.
      - apply Ok_inj in B; rewrite <- B; clear B. rewrite hm_jet. reflexivity.
      - destruct (word_ok n bits) eqn:Wk; try discriminate.
        apply hm_word in B; [|exact Wk]. apply word_ok_spec in Wk. destruct Wk as [L Hn].
        rewrite (const_word_scribe n bits L Hn) in B. injection B as B. cbn [Cmr.cmr_spec] in B. auto.
      - apply Ok_inj in B; rewrite <- B; clear B. rewrite hm_witness. reflexivity.
    Qed.

    (* route 5: whatever sub-expressions are hidden on the way (explicit hidden nodes of the
       description and any set hs of `.hide()` calls), every value of the wrapper carries the
       root of the un-hidden structure of its node *)
    Theorem hiding_cmr_spec hs p t :
      drive_hiding alg hs p = Ok t -> map hc t = map cmr_spec (erase_prog p).
    Proof.
      intros E.
      apply (tfoldM_inv (drive_hiding_node H compress iv zero h_of_bytes alg hs)
               (fun sa sb => map hc sb = map cmr_spec (erase_prog sa))) with (sa := []) (sb := []) (l := p) (r := t);
        [|reflexivity|exact E].
      intros sa sb a b I Fa.
      unfold Cmr.erase_prog. rewrite tfold_snoc, !map_app. cbn [map]. f_equal; [exact I|].
      f_equal. eapply drive_hiding_step; eauto.
    Qed.
  End HidingSpec.


  (* what the wrapper builds: with the structure-tracking algebra underneath, an un-hidden
     value is the node's structure up to hiding, a hidden value is its root *)
  Definition hid_rel (v : cstruct + H) (s : cstruct) : Prop :=
    match v with inl s' => heq s' s | inr h => h = cmr_spec s end.

  Lemma hid_rel_cmr v s : hid_rel v s -> h_cmr H cstruct_alg v = cmr_spec s.
  Proof. destruct v; cbn; [apply heq_cmr|auto]. Qed.

  Lemma Forall2_nth_rel {A} (R : A -> cstruct -> Prop) l1 l2 k v :
    Forall2 R l1 l2 -> nth_error l1 k = Some v -> R v (nth k l2 CUnit).
  Proof.
    intros F. revert k. induction F; intros [|k] E; cbn in *; try discriminate.
    - injection E as <-. assumption.
    - eauto.
  Qed.

  Lemma hidden_heq h s : h = cmr_spec s -> heq (CHidden h) s.
  Proof. intros ->. apply heq_opaque_l; reflexivity. Qed.

  Theorem hiding_structure hs p t :
    drive_hiding cstruct_alg hs p = Ok t -> Forall2 hid_rel t (erase_prog p).
  Proof.
    intros E.
    apply (tfoldM_inv (drive_hiding_node H compress iv zero h_of_bytes cstruct_alg hs)
             (fun sa sb => Forall2 hid_rel sb (erase_prog sa))) with (sa := []) (sb := []) (l := p) (r := t);
      [|constructor|exact E].
    clear E p t. intros sa sb nd v I E.
    unfold Cmr.erase_prog. rewrite tfold_snoc. apply Forall2_snoc; [exact I|].
    fold (erase_prog sa). set (es := erase_prog sa) in *.
    unfold drive_hiding_node in E.
    match type of E with omap ?post ?body = Ok v =>
      destruct body as [w| | |] eqn:B; cbn [omap obind] in E; try discriminate;
      apply Ok_inj in E; rewrite <- E; clear E;
      assert (P : hid_rel w (erase_node es nd) -> hid_rel (post w) (erase_node es nd))
        by (cbn beta; destruct (hs (length sb)); [intros R; cbn; apply hid_rel_cmr, R | auto]);
      apply P; clear P
    end.
    assert (G : forall k x, hget H sb k = Ok x -> hid_rel (snd x) (cs_at H es k)).
    { intros k x Gk. unfold hget in Gk.
      match type of Gk with context [match ?t with _ => _ end] => destruct t as [u|] eqn:Eu end; try discriminate.
      apply Ok_inj in Gk. rewrite <- Gk. cbn. apply (Forall2_nth_rel hid_rel sb es k u I Eu). }
    destruct nd; cbn [Cmr.erase_node] in *;
      repeat match type of B with
             | context [hget H sb ?k] =>
                 let x := fresh "x" in let Gx := fresh "Gx" in
                 destruct (hget H sb k) as [x| | |] eqn:Gx; cbn [omap obind] in B; try discriminate;
                 apply G in Gx; destruct x as [? [?|?]]; cbn [snd] in Gx
             end;
      try (match type of B with obind ?chk _ = _ => destruct chk as [?| | |]; cbn [omap obind] in B; try discriminate end);
      repeat match type of B with
             | context [hget H sb ?k] =>
                 let x := fresh "x" in let Gx := fresh "Gx" in
                 destruct (hget H sb k) as [x| | |] eqn:Gx; cbn [omap obind] in B; try discriminate;
                 apply G in Gx; destruct x as [? [?|?]]; cbn [snd] in Gx
             end;
      try (destruct (word_ok n bits); try discriminate);
      cbn in B; apply Ok_inj in B; rewrite <- B; clear B; cbn in *;
      try (subst; reflexivity);
      try (constructor; assumption);
      try (constructor; auto using hidden_heq; fail);
      try (repeat match goal with Hx : heq _ _ |- _ => apply heq_cmr in Hx end; congruence).
  Qed.

  (* ================================================================ consistent tables, convert *)
  Lemma consistent_from_snoc {W D} l : forall (pre : list (entry H W D)) e,
    consistent_from pre (l ++ [e]) <-> consistent_from pre l /\ entry_ok (pre ++ l) e.
  Proof.
    induction l as [|x l IH]; intros pre e; cbn.
    - rewrite app_nil_r. tauto.
    - rewrite IH, <- app_assoc. cbn. tauto.
  Qed.

  Lemma consistent_snoc {W D} (l : list (entry H W D)) e :
    consistent (l ++ [e]) <-> consistent l /\ entry_ok l e.
  Proof. unfold Cmr.consistent. rewrite consistent_from_snoc. reflexivity. Qed.

  Lemma cmr_at_rel {W D} (t : list (entry H W D)) es k h :
    map entry_cmr t = map cmr_spec es -> cmr_at t k = Some h -> cmr_spec (cs_at H es k) = h.
  Proof.
    intros M C. unfold Cmr.cmr_at in C. destruct (nth_error t k) as [e|] eqn:E; try discriminate.
    injection C as <-. unfold cs_at. apply (map_nth_rel entry_cmr cmr_spec t es CUnit k e M E).
  Qed.

  Lemma from_parts_spec {W D} (pre : list (entry H W D)) es (i : inner H W) h :
    map entry_cmr pre = map cmr_spec es ->
    match i with IWord n bits => word_ok n bits = true | _ => True end ->
    from_parts_cmr (cmr_at pre) i = Ok h -> h = cmr_spec (erase_inner H es i).
  Proof.
    intros M Wk E.
    destruct i; cbn [Cmr.from_parts_cmr Cmr.erase_inner Cmr.cmr_spec] in *;
      repeat match type of E with
             | context [cmr_at pre ?k] =>
                 let x := fresh "x" in let Cx := fresh "Cx" in
                 destruct (cmr_at pre k) as [x|] eqn:Cx; cbn [omap obind] in E; try discriminate;
                 apply (cmr_at_rel pre es k x M) in Cx
             end;
      try (apply Ok_inj in E; rewrite <- E; congruence).
    apply word_ok_spec in Wk. destruct Wk as [L Hn].
    rewrite (const_word_scribe n bits L Hn) in E. apply Ok_inj in E. auto.
  Qed.

  (* a table whose cached roots are the ones from_parts computes carries, at every position,
     the root of the erased structure *)
  Theorem consistent_cmr_spec {W D} (t : list (entry H W D)) :
    consistent t -> map entry_cmr t = map cmr_spec (erase_table H t).
  Proof.
    induction t as [|e t IH] using rev_ind; intros C; [reflexivity|].
    apply consistent_snoc in C. destruct C as [C Ok_e]. specialize (IH C).
    unfold Cmr.erase_table in *. rewrite tfold_snoc, !map_app. cbn [map]. f_equal; [exact IH|]. f_equal.
    destruct e as [r|h]; cbn [Cmr.entry_cmr Cmr.erase_entry]; [|reflexivity].
    destruct Ok_e as [Fp Wk]. eapply from_parts_spec; eauto.
  Qed.

  (* routes 1 and 2 agree: the tables the Node constructors build are from_parts-consistent *)
  Lemma cmr_at_to_entry {W D} (sb : list (nrec H W D + H)) k v :
    nth_error sb k = Some v ->
    cmr_at (map (to_entry H) sb) k = Some (match v with inl r => r_cmr r | inr h => h end).
  Proof.
    intros E. unfold Cmr.cmr_at. rewrite (map_nth_error _ _ _ E). destruct v; reflexivity.
  Qed.

  Theorem construct_consistent {D} (d : inner H wit_spec -> D) p t :
    construct d p = Ok t -> consistent (map (to_entry H) t).
  Proof.
    intros E.
    refine (tfoldM_inv (drive_node (node_alg d))
             (fun (sa : prog) sb => consistent (map (to_entry H) sb)) _ p [] [] t I E).
    clear E p t. intros _ sb nd v C E. rewrite map_app. cbn [map]. apply consistent_snoc. split; [exact C|].
    assert (G : forall k x, get_val H sb k = Ok x ->
                 exists a, x = (k, a) /\ cmr_at (map (to_entry H) sb) k = Some (r_cmr a)).
    { intros k x Gk. unfold get_val in Gk. destruct (nth_error sb k) as [[a|h]|] eqn:Eu; try discriminate.
      apply Ok_inj in Gk. exists a. split; [auto|]. apply (cmr_at_to_entry sb k _ Eu). }
    destruct nd; cbn [Cmr.drive_node] in E;
      repeat match type of E with
             | context [get_val H sb ?k] =>
                 let x := fresh "x" in let Gx := fresh "Gx" in let a := fresh "a" in
                 destruct (get_val H sb k) as [x| | |] eqn:Gx; cbn [omap obind] in E; try discriminate;
                 apply G in Gx; destruct Gx as [a [-> Gx]]
             end;
      try (apply Ok_inj in E; rewrite <- E; cbn; rewrite ?Gx, ?Gx0; cbn; auto; fail).
    - (* case *)
      destruct (nth_error sb l) as [[a1|h1]|] eqn:E1; destruct (nth_error sb r) as [[b1|h2]|] eqn:E2;
        try discriminate; apply Ok_inj in E; rewrite <- E; cbn;
        rewrite ?(cmr_at_to_entry sb l _ E1), ?(cmr_at_to_entry sb r _ E2); cbn; auto.
    - (* disconnect *)
      match type of E with obind ?chk _ = _ => destruct chk as [?| | |]; cbn [omap obind] in E; try discriminate end.
      destruct (get_val H sb l) as [x| | |] eqn:Gx; cbn [omap obind] in E; try discriminate.
      apply G in Gx. destruct Gx as [a1 [-> Gx]].
      apply Ok_inj in E. rewrite <- E. cbn. rewrite Gx. cbn. auto.
    - (* word *)
      destruct (word_ok n bits) eqn:Wk; try discriminate. cbn in E.
      destruct (c_const_word n bits) as [h| | |] eqn:Cw; cbn in E; try discriminate.
      apply Ok_inj in E. rewrite <- E. cbn. auto.
  Qed.

  Local Ltac hcong :=
    solve [ apply heq_refl | apply heq_injl; auto using heq_refl | apply heq_injr; auto using heq_refl | apply heq_take; auto using heq_refl
          | apply heq_drop; auto using heq_refl | apply heq_disconnect; auto using heq_refl | apply heq_comp; auto using heq_refl
          | apply heq_case; auto using heq_refl | apply heq_pair; auto using heq_refl | apply heq_witness | apply heq_iden
          | apply heq_unit | apply heq_fail | apply heq_word ].

  (* route 3: Node::convert, for ANY converter *)
  Section ConvertSpec.
    Context {W D W' D' : Type} (cv : converter H W D W' D').

    Lemma convert_entry_cmr done e e' :
      convert_entry H cv done e = Ok e' -> entry_cmr e' = entry_cmr e.
    Proof.
      destruct e as [r|h]; cbn; intros E.
      - destruct (conv_inner H cv (length done) (r_inner r)) as [i1| | |]; cbn in E; try discriminate.
        destruct (prune_inner H cv (length done) done i1) as [i2| | |]; cbn in E; try discriminate.
        destruct (cv_data H W D W' D' cv (length done) i2) as [d| | |]; cbn in E; try discriminate.
        apply Ok_inj in E. rewrite <- E. reflexivity.
      - apply Ok_inj in E. rewrite <- E. reflexivity.
    Qed.

    (* convert_cmr, part 1: the converted table has the same roots, position by position *)
    Theorem convert_cmr src dst :
      convert H cv src = Ok dst -> map entry_cmr dst = map entry_cmr src.
    Proof.
      intros E.
      apply (tfoldM_inv (convert_entry H cv)
               (fun sa sb => map entry_cmr sb = map entry_cmr sa)) with (sa := []) (sb := []) (l := src) (r := dst);
        [|reflexivity|exact E].
      intros sa sb a b I Fa. rewrite !map_app. cbn [map]. f_equal; [exact I|]. f_equal.
      eapply convert_entry_cmr; eauto.
    Qed.

    Lemma cmr_at_ext (sa : list (entry H W D)) (sb : list (entry H W' D')) :
      map entry_cmr sb = map entry_cmr sa -> forall k, cmr_at sb k = cmr_at sa k.
    Proof.
      intros M k. unfold Cmr.cmr_at.
      pose proof (f_equal (fun l => nth_error l k) M) as Ek. cbn in Ek.
      rewrite !nth_error_map in Ek. exact Ek.
    Qed.

    Lemma from_parts_ext {V} (f g : nat -> option H) (i : inner H V) :
      (forall k, f k = g k) -> from_parts_cmr f i = from_parts_cmr g i.
    Proof. intros Ex. destruct i; cbn; rewrite ?Ex; reflexivity. Qed.

    (* what convert_entry does to the inner node, as far as the root is concerned *)
    Lemma convert_entry_ok (sa : list (entry H W D)) (sb : list (entry H W' D')) e e' :
      map entry_cmr sb = map entry_cmr sa ->
      entry_ok sa e -> convert_entry H cv sb e = Ok e' -> entry_ok sb e'.
    Proof.
      intros M Oke E. destruct e as [r|h]; cbn in E.
      2:{ apply Ok_inj in E. rewrite <- E. exact I. }
      destruct (conv_inner H cv (length sb) (r_inner r)) as [i1| | |] eqn:C1; cbn in E; try discriminate.
      destruct (prune_inner H cv (length sb) sb i1) as [i2| | |] eqn:C2; cbn in E; try discriminate.
      destruct (cv_data H W D W' D' cv (length sb) i2) as [d| | |]; cbn in E; try discriminate.
      apply Ok_inj in E. rewrite <- E. cbn [Cmr.entry_ok r_inner r_cmr].
      destruct Oke as [Fp Wk].
      rewrite (from_parts_ext _ (cmr_at sa) i2 (cmr_at_ext sa sb M)).
      destruct (r_inner r) as [ | |c|c|c|c|l rr|l rr|l h|h rr|l rr|l rr|w|e|fam id|n bits] eqn:Ri; cbn in C1;
        try (apply Ok_inj in C1; rewrite <- C1 in C2; cbn in C2; apply Ok_inj in C2; rewrite <- C2;
             split; [exact Fp|exact Wk]).
      - (* case: possibly pruned *)
        apply Ok_inj in C1. rewrite <- C1 in C2. cbn in C2.
        destruct (cv_prune H W D W' D' cv (length sb)) as [[| |]| | |]; cbn in C2; try discriminate.
        + apply Ok_inj in C2. rewrite <- C2. split; [exact Fp|exact I].
        + destruct (cmr_at sb l) as [hl|] eqn:Cl; try discriminate.
          apply Ok_inj in C2. rewrite <- C2. split; [|exact I].
          rewrite (cmr_at_ext sa sb M) in Cl. cbn in *. rewrite Cl in Fp. exact Fp.
        + destruct (cmr_at sb rr) as [hr|] eqn:Cr; try discriminate.
          apply Ok_inj in C2. rewrite <- C2. split; [|exact I].
          rewrite (cmr_at_ext sa sb M) in Cr. cbn in *.
          destruct (cmr_at sa l) as [hl|]; cbn in *; try discriminate. rewrite Cr in Fp. exact Fp.
      - (* disconnect *)
        match type of C1 with omap _ ?t = _ => destruct t as [r'| | |] end; cbn in C1; try discriminate.
        apply Ok_inj in C1. rewrite <- C1 in C2. cbn in C2. apply Ok_inj in C2. rewrite <- C2.
        split; [exact Fp|exact I].
      - (* witness *)
        match type of C1 with omap _ ?t = _ => destruct t as [w'| | |] end; cbn in C1; try discriminate.
        apply Ok_inj in C1. rewrite <- C1 in C2. cbn in C2. apply Ok_inj in C2. rewrite <- C2.
        split; [exact Fp|exact I].
    Qed.

    Lemma consistent_prefix {V E} (l1 l2 : list (entry H V E)) : consistent (l1 ++ l2) -> consistent l1.
    Proof.
      induction l2 as [|x l2 IH] using rev_ind; [rewrite app_nil_r; auto|].
      rewrite app_assoc. intros C. apply consistent_snoc in C. tauto.
    Qed.

    (* convert_cmr, part 2: the copied root is the one from_parts would compute from the
       converted (possibly pruned) inner node *)
    Theorem convert_consistent src dst :
      consistent src -> convert H cv src = Ok dst -> consistent dst.
    Proof.
      intros C E.
      assert (R : (consistent src -> consistent dst) /\ map entry_cmr dst = map entry_cmr src); [|tauto].
      apply (tfoldM_inv (convert_entry H cv)
               (fun sa sb => (consistent sa -> consistent sb) /\ map entry_cmr sb = map entry_cmr sa))
        with (sa := []) (sb := []) (l := src) (r := dst); [|split; auto; reflexivity|exact E].
      intros sa sb a b [IC IM] Fa. split.
      - intros Ca. apply consistent_snoc in Ca. destruct Ca as [Ca Oka].
        apply consistent_snoc. split; [auto|]. eapply convert_entry_ok; eauto.
      - rewrite !map_app. cbn [map]. f_equal; [exact IM|]. f_equal. eapply convert_entry_cmr; eauto.
    Qed.

    Lemma erase_entry_heq (sa : list (entry H W D)) (sb : list (entry H W' D')) e e' esa esb :
      map entry_cmr sb = map entry_cmr sa ->
      map entry_cmr sa = map cmr_spec esa ->
      Forall2 heq esb esa ->
      convert_entry H cv sb e = Ok e' ->
      heq (erase_entry H esb e') (erase_entry H esa e).
    Proof.
      intros M Ma F E. destruct e as [r|h]; cbn in E.
      2:{ apply Ok_inj in E. rewrite <- E. apply heq_refl. }
      destruct (conv_inner H cv (length sb) (r_inner r)) as [i1| | |] eqn:C1; cbn in E; try discriminate.
      destruct (prune_inner H cv (length sb) sb i1) as [i2| | |] eqn:C2; cbn in E; try discriminate.
      destruct (cv_data H W D W' D' cv (length sb) i2) as [d| | |]; cbn in E; try discriminate.
      apply Ok_inj in E. rewrite <- E. cbn [Cmr.erase_entry r_inner].
      assert (Nh : forall k, heq (cs_at H esb k) (cs_at H esa k)) by (intro k; apply Forall2_nth_heq, F).
      destruct (r_inner r) as [ | |c|c|c|c|l rr|l rr|l h|h rr|l rr|l rr|w|e|fam id|n bits] eqn:Ri; cbn in C1;
        try (apply Ok_inj in C1; rewrite <- C1 in C2; cbn in C2; apply Ok_inj in C2; rewrite <- C2;
             cbn; hcong).
      - apply Ok_inj in C1. rewrite <- C1 in C2. cbn in C2.
        destruct (cv_prune H W D W' D' cv (length sb)) as [[| |]| | |]; cbn in C2; try discriminate.
        + apply Ok_inj in C2. rewrite <- C2. cbn. hcong.
        + destruct (cmr_at sb l) as [hl|] eqn:Cl; try discriminate.
          apply Ok_inj in C2. rewrite <- C2. cbn. apply heq_case; [|auto].
          apply hidden_heq. rewrite (cmr_at_ext sa sb M) in Cl. symmetry. eapply cmr_at_rel; eauto.
        + destruct (cmr_at sb rr) as [hr|] eqn:Cr; try discriminate.
          apply Ok_inj in C2. rewrite <- C2. cbn. apply heq_case; [auto|].
          apply hidden_heq. rewrite (cmr_at_ext sa sb M) in Cr. symmetry. eapply cmr_at_rel; eauto.
      - match type of C1 with omap _ ?t = _ => destruct t as [r'| | |] end; cbn in C1; try discriminate.
        apply Ok_inj in C1. rewrite <- C1 in C2. cbn in C2. apply Ok_inj in C2. rewrite <- C2.
        cbn. hcong.
      - match type of C1 with omap _ ?t = _ => destruct t as [w'| | |] end; cbn in C1; try discriminate.
        apply Ok_inj in C1. rewrite <- C1 in C2. cbn in C2. apply Ok_inj in C2. rewrite <- C2.
        cbn. hcong.
    Qed.

    (* convert_cmr, part 3: the converted table is, node by node, the source structure up to
       hiding (whatever the converter prunes, attaches or drops) *)
    Theorem convert_heq src dst :
      consistent src -> convert H cv src = Ok dst ->
      Forall2 heq (erase_table H dst) (erase_table H src).
    Proof.
      intros C E.
      assert (R : (consistent src -> Forall2 heq (erase_table H dst) (erase_table H src)) /\
                  map entry_cmr dst = map entry_cmr src); [|tauto].
      apply (tfoldM_inv (convert_entry H cv)
               (fun sa sb => (consistent sa -> Forall2 heq (erase_table H sb) (erase_table H sa)) /\
                             map entry_cmr sb = map entry_cmr sa))
        with (sa := []) (sb := []) (l := src) (r := dst); [|split; [constructor|reflexivity]|exact E].
      intros sa sb a b [IC IM] Fa. split.
      - intros Ca. apply consistent_snoc in Ca. destruct Ca as [Ca Oka].
        unfold Cmr.erase_table. rewrite !tfold_snoc. apply Forall2_snoc; [apply IC, Ca|].
        eapply erase_entry_heq; eauto. apply consistent_cmr_spec, Ca.
      - rewrite !map_app. cbn [map]. f_equal; [exact IM|]. f_equal. eapply convert_entry_cmr; eauto.
    Qed.
  End ConvertSpec.

End Hash.
