(* Hand-written specifications of Core jets (arithmetic / logic / comparison families) as
   functions on numbers, used as the concrete [jet_sem] of the Bit Machine model (C05) and
   compared with the C jets by the harness on random and edge inputs.
     src/jet/init/core.rs            names, table order (Core::ALL index = jet id), types
     simplicity-sys/depend/simplicity/jets.c etc.   the C implementations (not modelled)
   Every specified jet has a source and target type without padding (products of words and
   bits), so a value is its bit string.  A specification splits the input bit string into
   big-endian fields of given widths, computes over N, and lays out the output fields.
   [jet_spec] checks the length of the produced string, which makes [jet_spec_typed] hold by
   construction: a wrong table entry shows up as a correspondence failure, never as an
   ill-typed value in the proofs. *)
From Coq Require Import String.
From RS Require Import Lib.Tac Lib.Outcome Lib.Bits Ty.Ty Core.Prog Core.Term Core.Typing Core.Sem.
Import ListNotations.
Local Open Scope N_scope.

(* split a bit string into big-endian numbers of the given widths *)
Fixpoint fields (ws : list nat) (bits : list bool) : list N :=
  match ws with
  | [] => []
  | w :: r => val_be (firstn w bits) :: fields r (skipn w bits)
  end.

(* lay out (width, value) fields; values are reduced modulo 2^width by bits_be *)
Fixpoint layout (fs : list (nat * N)) : list bool :=
  match fs with
  | [] => []
  | (w, v) :: r => bits_be w v ++ layout r
  end.

Record jspec := mkJ {
  j_id : N;                               (* index in Core::ALL *)
  j_name : string;                        (* Display name *)
  j_src : ty;
  j_tgt : ty;
  j_in : list nat;                        (* widths of the input fields *)
  j_fn : list N -> option (list (nat * N))    (* None: the jet fails *)
}.

Definition W (n : nat) : ty := word_ty n.      (* 2^(2^n): W 3 = 2^8 *)
Definition pw (w : nat) : N := 2 ^ N.of_nat w.
Definition bool_n (b : bool) : N := if b then 1 else 0.

(* log2 of the word sizes that occur *)
Definition lg (w : nat) : nat :=
  match w with
  | 1 => 0 | 2 => 1 | 4 => 2 | 8 => 3 | 16 => 4 | 32 => 5 | 64 => 6 | 128 => 7 | 256 => 8
  | 512 => 9
  | _ => 0
  end%nat.
Definition WW (w : nat) : ty := W (lg w).      (* the word type of w bits, w a power of two *)

(* ------------------------------------------------------------------ families *)
(* each family: id, name, width -> jspec *)

Definition j_add (id : N) (nm : string) (w : nat) : jspec :=
  mkJ id nm (WW (2 * w)) (Prod Bit (WW w)) [w; w]
      (fun a => match a with [x; y] => Some [(1%nat, (x + y) / pw w); (w, x + y)] | _ => None end).

Definition j_full_add (id : N) (nm : string) (w : nat) : jspec :=
  mkJ id nm (Prod Bit (WW (2 * w))) (Prod Bit (WW w)) [1%nat; w; w]
      (fun a => match a with [c; x; y] => Some [(1%nat, (x + y + c) / pw w); (w, x + y + c)] | _ => None end).

Definition j_subtract (id : N) (nm : string) (w : nat) : jspec :=
  mkJ id nm (WW (2 * w)) (Prod Bit (WW w)) [w; w]
      (fun a => match a with
                | [x; y] => Some [(1%nat, bool_n (x <? y)); (w, pw w + x - y)]
                | _ => None end).

Definition j_verify (id : N) (nm : string) : jspec :=
  mkJ id nm Bit One [1%nat]
      (fun a => match a with [1] => Some [] | _ => None end).

(* ---- helpers for the families below *)
Definition jfn := list N -> option (list (nat * N)).
Definition f0 (r : list (nat * N)) : jfn := fun a => match a with [] => Some r | _ => None end.
Definition f1 (g : N -> list (nat * N)) : jfn := fun a => match a with [x] => Some (g x) | _ => None end.
Definition f2 (g : N -> N -> list (nat * N)) : jfn :=
  fun a => match a with [x; y] => Some (g x y) | _ => None end.
Definition f3 (g : N -> N -> N -> list (nat * N)) : jfn :=
  fun a => match a with [x; y; z] => Some (g x y z) | _ => None end.
Definition f4 (g : N -> N -> N -> N -> list (nat * N)) : jfn :=
  fun a => match a with [x; y; z; t] => Some (g x y z t) | _ => None end.

Definition dbl (w : nat) : nat := (2 * w)%nat.
Definition CW (w : nat) : ty := Prod Bit (WW w).              (* carry/borrow bit and a word *)
Definition T3 (w : nat) : ty := Prod (WW w) (WW (dbl w)).       (* three words: x, (y, z) *)
Definition ones (w : nat) : N := pw w - 1.
Definition bit1 (b : bool) : list (nat * N) := [(1%nat, bool_n b)].

(* ---- arithmetic: the first output field is the carry (addition) or borrow (subtraction) *)
Definition j_full_subtract (id : N) (nm : string) (w : nat) : jspec :=
  mkJ id nm (Prod Bit (WW (dbl w))) (CW w) [1%nat; w; w]
      (f3 (fun c x y => [(1%nat, bool_n (x <? y + c)); (w, pw w + x - y - c)])).

Definition j_negate (id : N) (nm : string) (w : nat) : jspec :=
  mkJ id nm (WW w) (CW w) [w]
      (f1 (fun x => [(1%nat, bool_n (negb (x =? 0))); (w, pw w - x)])).

Definition j_increment (id : N) (nm : string) (w : nat) : jspec :=
  mkJ id nm (WW w) (CW w) [w]
      (f1 (fun x => [(1%nat, (x + 1) / pw w); (w, x + 1)])).

Definition j_full_increment (id : N) (nm : string) (w : nat) : jspec :=
  mkJ id nm (CW w) (CW w) [1%nat; w]
      (f2 (fun c x => [(1%nat, (x + c) / pw w); (w, x + c)])).

Definition j_decrement (id : N) (nm : string) (w : nat) : jspec :=
  mkJ id nm (WW w) (CW w) [w]
      (f1 (fun x => [(1%nat, bool_n (x =? 0)); (w, pw w + x - 1)])).

Definition j_full_decrement (id : N) (nm : string) (w : nat) : jspec :=
  mkJ id nm (CW w) (CW w) [1%nat; w]
      (f2 (fun c x => [(1%nat, bool_n (x <? c)); (w, pw w + x - c)])).

Definition j_multiply (id : N) (nm : string) (w : nat) : jspec :=
  mkJ id nm (WW (dbl w)) (WW (dbl w)) [w; w]
      (f2 (fun x y => [(dbl w, x * y)])).

(* x * y + z + t never overflows 2w bits *)
Definition j_full_multiply (id : N) (nm : string) (w : nat) : jspec :=
  mkJ id nm (WW (dbl (dbl w))) (WW (dbl w)) [w; w; w; w]
      (f4 (fun x y z t => [(dbl w, x * y + z + t)])).

(* ---- predicates on one word, constants *)
Definition j_pred (p : nat -> N -> bool) (id : N) (nm : string) (w : nat) : jspec :=
  mkJ id nm (WW w) Bit [w] (f1 (fun x => bit1 (p w x))).
Definition j_is_zero := j_pred (fun _ x => x =? 0).
Definition j_is_one := j_pred (fun _ x => x =? 1).
Definition j_some := j_pred (fun _ x => negb (x =? 0)).
Definition j_all := j_pred (fun w x => x =? ones w).

Definition j_const (c : nat -> N) (id : N) (nm : string) (w : nat) : jspec :=
  mkJ id nm One (WW w) [] (f0 [(w, c w)]).
Definition j_low := j_const (fun _ => 0).
Definition j_high := j_const ones.
Definition j_one := j_const (fun _ => 1).

(* ---- bitwise logic *)
Definition j_complement (id : N) (nm : string) (w : nat) : jspec :=
  mkJ id nm (WW w) (WW w) [w] (f1 (fun x => [(w, ones w - x)])).

Definition j_bin (op : N -> N -> N) (id : N) (nm : string) (w : nat) : jspec :=
  mkJ id nm (WW (dbl w)) (WW w) [w; w] (f2 (fun x y => [(w, op x y)])).
Definition j_and := j_bin N.land.
Definition j_or := j_bin N.lor.
Definition j_xor := j_bin N.lxor.

Definition j_tern (op : N -> N -> N -> N) (id : N) (nm : string) (w : nat) : jspec :=
  mkJ id nm (T3 w) (WW w) [w; w; w] (f3 (fun x y z => [(w, op x y z)])).
Definition j_xor_xor := j_tern (fun x y z => N.lxor (N.lxor x y) z).
Definition j_maj := j_tern (fun x y z => N.lor (N.lor (N.land x y) (N.land y z)) (N.land z x)).
(* ch: the first operand selects, bit by bit, between the second (1) and the third (0) *)
Definition j_ch := j_tern (fun x y z => N.lor (N.land x y) (N.ldiff z x)).

(* ---- comparisons (unsigned) *)
Definition j_cmp (p : N -> N -> bool) (id : N) (nm : string) (w : nat) : jspec :=
  mkJ id nm (WW (dbl w)) Bit [w; w] (f2 (fun x y => bit1 (p x y))).
Definition j_eq := j_cmp N.eqb.
Definition j_le := j_cmp N.leb.
Definition j_lt := j_cmp N.ltb.
Definition j_min := j_bin N.min.
Definition j_max := j_bin N.max.
Definition j_median := j_tern (fun x y z => N.max (N.min x y) (N.min (N.max x y) z)).

(* ---- shifts and rotations: the amount is an l-bit number in front of the word;
   amounts >= w shift everything out; the _with variants fill with the leading bit b *)
Definition shl_fill (w : nat) (b amt x : N) : N :=
  let a := N.min amt (N.of_nat w) in x * 2 ^ a + b * (2 ^ a - 1).
Definition shr_fill (w : nat) (b amt x : N) : N :=
  let a := N.min amt (N.of_nat w) in x / 2 ^ a + b * ((2 ^ a - 1) * 2 ^ (N.of_nat w - a)).
(* rotation to the left by amt mod w *)
Definition rotl (w : nat) (amt x : N) : N :=
  let v := x * 2 ^ (amt mod N.of_nat w) in v / pw w + v mod pw w.

Definition j_shift (sh : nat -> N -> N -> N -> N) (id : N) (nm : string) (l w : nat) : jspec :=
  mkJ id nm (Prod (WW l) (WW w)) (WW w) [l; w] (f2 (fun a x => [(w, sh w 0 a x)])).
Definition j_shift_with (sh : nat -> N -> N -> N -> N) (id : N) (nm : string) (l w : nat) : jspec :=
  mkJ id nm (Prod Bit (Prod (WW l) (WW w))) (WW w) [1%nat; l; w] (f3 (fun b a x => [(w, sh w b a x)])).
Definition j_left_shift := j_shift shl_fill.
Definition j_right_shift := j_shift shr_fill.
Definition j_left_shift_with := j_shift_with shl_fill.
Definition j_right_shift_with := j_shift_with shr_fill.
Definition j_left_rotate := j_shift (fun w _ a x => rotl w a x).
Definition j_right_rotate := j_shift (fun w _ a x => rotl w (N.of_nat w - a mod N.of_nat w) x).

(* ---- full shifts by a fixed k: (word, k bits shifted in) -> (k bits shifted out, word)
   for the left shift, (k bits shifted in, word) -> (word, k bits shifted out) for the right *)
Definition j_full_left_shift (id : N) (nm : string) (w k : nat) : jspec :=
  mkJ id nm (Prod (WW w) (WW k)) (Prod (WW k) (WW w)) [w; k]
      (f2 (fun x y => [(k, x / pw (w - k)); (w, x * pw k + y)])).
Definition j_full_right_shift (id : N) (nm : string) (w k : nat) : jspec :=
  mkJ id nm (Prod (WW k) (WW w)) (Prod (WW w) (WW k)) [k; w]
      (f2 (fun y x => [(w, y * pw (w - k) + x / pw k); (k, x)])).

(* ---- parts of words, padding, extension (n <= m) *)
Definition j_resize (f : nat -> nat -> N -> N) (id : N) (nm : string) (n m : nat) : jspec :=
  mkJ id nm (WW n) (WW m) [n] (f1 (fun x => [(m, f n m x)])).
Definition j_leftmost := j_resize (fun n m x => x / pw (n - m)).
Definition j_rightmost := j_resize (fun _ _ x => x).
Definition j_left_pad_low := j_resize (fun _ _ x => x).
Definition j_left_pad_high := j_resize (fun n m x => pw m - pw n + x).
(* left_extend repeats the most significant bit (sign extension) *)
Definition j_left_extend := j_resize (fun n m x => if x <? pw (n - 1) then x else pw m - pw n + x).
Definition j_right_pad_low := j_resize (fun n m x => x * pw (m - n)).
Definition j_right_pad_high := j_resize (fun n m x => x * pw (m - n) + ones (m - n)).
(* right_extend repeats the least significant bit *)
Definition j_right_extend :=
  j_resize (fun n m x => x * pw (m - n) + (if N.even x then 0 else ones (m - n))).

(* ---- division: division by zero gives quotient 0 and remainder x *)
Definition j_div_mod (id : N) (nm : string) (w : nat) : jspec :=
  mkJ id nm (WW (dbl w)) (WW (dbl w)) [w; w]
      (f2 (fun x y => if y =? 0 then [(w, 0); (w, x)] else [(w, x / y); (w, x mod y)])).
Definition j_divide := j_bin (fun x y => if y =? 0 then 0 else x / y).
Definition j_modulo := j_bin (fun x y => if y =? 0 then x else x mod y).
(* divides x y: x divides y (0 divides only 0) *)
Definition j_divides := j_cmp (fun x y => if x =? 0 then y =? 0 else y mod x =? 0).
(* 128 by 64 bit division, defined when the divisor has its top bit set and the quotient
   fits in 64 bits; all output bits are set otherwise *)
Definition j_div_mod_128_64 (id : N) (nm : string) : jspec :=
  mkJ id nm (Prod (WW 128) (WW 64)) (WW 128) [128%nat; 64%nat]
      (f2 (fun a b => if (pw 63 <=? b) && (a / pw 64 <? b)
                      then [(64%nat, a / b); (64%nat, a mod b)]
                      else [(128%nat, ones 128)])).

(* ------------------------------------------------------------------ the table *)
(* generated from the implementation's jet list (id = index in Core::ALL); the elliptic
   curve, hash, signature and lock-time parsing jets are not specified *)
Definition jet_table : list jspec :=
  [ j_add 0 "add_16" 16; j_add 1 "add_32" 32; j_add 2 "add_64" 64; j_add 3 "add_8" 8;
    j_all 4 "all_16" 16; j_all 5 "all_32" 32; j_all 6 "all_64" 64; j_all 7 "all_8" 8;
    j_and 8 "and_1" 1; j_and 9 "and_16" 16; j_and 10 "and_32" 32; j_and 11 "and_64" 64;
    j_and 12 "and_8" 8; j_ch 14 "ch_1" 1; j_ch 15 "ch_16" 16; j_ch 16 "ch_32" 32;
    j_ch 17 "ch_64" 64; j_ch 18 "ch_8" 8; j_complement 20 "complement_1" 1;
    j_complement 21 "complement_16" 16; j_complement 22 "complement_32" 32;
    j_complement 23 "complement_64" 64; j_complement 24 "complement_8" 8;
    j_decrement 26 "decrement_16" 16; j_decrement 27 "decrement_32" 32;
    j_decrement 28 "decrement_64" 64; j_decrement 29 "decrement_8" 8;
    j_div_mod_128_64 30 "div_mod_128_64"; j_div_mod 31 "div_mod_16" 16;
    j_div_mod 32 "div_mod_32" 32; j_div_mod 33 "div_mod_64" 64; j_div_mod 34 "div_mod_8" 8;
    j_divide 35 "divide_16" 16; j_divide 36 "divide_32" 32; j_divide 37 "divide_64" 64;
    j_divide 38 "divide_8" 8; j_divides 39 "divides_16" 16; j_divides 40 "divides_32" 32;
    j_divides 41 "divides_64" 64; j_divides 42 "divides_8" 8; j_eq 43 "eq_1" 1; j_eq 44 "eq_16" 16;
    j_eq 45 "eq_256" 256; j_eq 46 "eq_32" 32; j_eq 47 "eq_64" 64; j_eq 48 "eq_8" 8;
    j_full_add 59 "full_add_16" 16; j_full_add 60 "full_add_32" 32; j_full_add 61 "full_add_64" 64;
    j_full_add 62 "full_add_8" 8; j_full_decrement 63 "full_decrement_16" 16;
    j_full_decrement 64 "full_decrement_32" 32; j_full_decrement 65 "full_decrement_64" 64;
    j_full_decrement 66 "full_decrement_8" 8; j_full_increment 67 "full_increment_16" 16;
    j_full_increment 68 "full_increment_32" 32; j_full_increment 69 "full_increment_64" 64;
    j_full_increment 70 "full_increment_8" 8; j_full_left_shift 71 "full_left_shift_16_1" 16 1;
    j_full_left_shift 72 "full_left_shift_16_2" 16 2;
    j_full_left_shift 73 "full_left_shift_16_4" 16 4;
    j_full_left_shift 74 "full_left_shift_16_8" 16 8;
    j_full_left_shift 75 "full_left_shift_32_1" 32 1;
    j_full_left_shift 76 "full_left_shift_32_16" 32 16;
    j_full_left_shift 77 "full_left_shift_32_2" 32 2;
    j_full_left_shift 78 "full_left_shift_32_4" 32 4;
    j_full_left_shift 79 "full_left_shift_32_8" 32 8;
    j_full_left_shift 80 "full_left_shift_64_1" 64 1;
    j_full_left_shift 81 "full_left_shift_64_16" 64 16;
    j_full_left_shift 82 "full_left_shift_64_2" 64 2;
    j_full_left_shift 83 "full_left_shift_64_32" 64 32;
    j_full_left_shift 84 "full_left_shift_64_4" 64 4;
    j_full_left_shift 85 "full_left_shift_64_8" 64 8;
    j_full_left_shift 86 "full_left_shift_8_1" 8 1; j_full_left_shift 87 "full_left_shift_8_2" 8 2;
    j_full_left_shift 88 "full_left_shift_8_4" 8 4; j_full_multiply 89 "full_multiply_16" 16;
    j_full_multiply 90 "full_multiply_32" 32; j_full_multiply 91 "full_multiply_64" 64;
    j_full_multiply 92 "full_multiply_8" 8; j_full_right_shift 93 "full_right_shift_16_1" 16 1;
    j_full_right_shift 94 "full_right_shift_16_2" 16 2;
    j_full_right_shift 95 "full_right_shift_16_4" 16 4;
    j_full_right_shift 96 "full_right_shift_16_8" 16 8;
    j_full_right_shift 97 "full_right_shift_32_1" 32 1;
    j_full_right_shift 98 "full_right_shift_32_16" 32 16;
    j_full_right_shift 99 "full_right_shift_32_2" 32 2;
    j_full_right_shift 100 "full_right_shift_32_4" 32 4;
    j_full_right_shift 101 "full_right_shift_32_8" 32 8;
    j_full_right_shift 102 "full_right_shift_64_1" 64 1;
    j_full_right_shift 103 "full_right_shift_64_16" 64 16;
    j_full_right_shift 104 "full_right_shift_64_2" 64 2;
    j_full_right_shift 105 "full_right_shift_64_32" 64 32;
    j_full_right_shift 106 "full_right_shift_64_4" 64 4;
    j_full_right_shift 107 "full_right_shift_64_8" 64 8;
    j_full_right_shift 108 "full_right_shift_8_1" 8 1;
    j_full_right_shift 109 "full_right_shift_8_2" 8 2;
    j_full_right_shift 110 "full_right_shift_8_4" 8 4; j_full_subtract 111 "full_subtract_16" 16;
    j_full_subtract 112 "full_subtract_32" 32; j_full_subtract 113 "full_subtract_64" 64;
    j_full_subtract 114 "full_subtract_8" 8; j_high 133 "high_1" 1; j_high 134 "high_16" 16;
    j_high 135 "high_32" 32; j_high 136 "high_64" 64; j_high 137 "high_8" 8;
    j_increment 138 "increment_16" 16; j_increment 139 "increment_32" 32;
    j_increment 140 "increment_64" 64; j_increment 141 "increment_8" 8;
    j_is_one 142 "is_one_16" 16; j_is_one 143 "is_one_32" 32; j_is_one 144 "is_one_64" 64;
    j_is_one 145 "is_one_8" 8; j_is_zero 146 "is_zero_16" 16; j_is_zero 147 "is_zero_32" 32;
    j_is_zero 148 "is_zero_64" 64; j_is_zero 149 "is_zero_8" 8; j_le 150 "le_16" 16;
    j_le 151 "le_32" 32; j_le 152 "le_64" 64; j_le 153 "le_8" 8;
    j_left_extend 154 "left_extend_16_32" 16 32; j_left_extend 155 "left_extend_16_64" 16 64;
    j_left_extend 156 "left_extend_1_16" 1 16; j_left_extend 157 "left_extend_1_32" 1 32;
    j_left_extend 158 "left_extend_1_64" 1 64; j_left_extend 159 "left_extend_1_8" 1 8;
    j_left_extend 160 "left_extend_32_64" 32 64; j_left_extend 161 "left_extend_8_16" 8 16;
    j_left_extend 162 "left_extend_8_32" 8 32; j_left_extend 163 "left_extend_8_64" 8 64;
    j_left_pad_high 164 "left_pad_high_16_32" 16 32;
    j_left_pad_high 165 "left_pad_high_16_64" 16 64; j_left_pad_high 166 "left_pad_high_1_16" 1 16;
    j_left_pad_high 167 "left_pad_high_1_32" 1 32; j_left_pad_high 168 "left_pad_high_1_64" 1 64;
    j_left_pad_high 169 "left_pad_high_1_8" 1 8; j_left_pad_high 170 "left_pad_high_32_64" 32 64;
    j_left_pad_high 171 "left_pad_high_8_16" 8 16; j_left_pad_high 172 "left_pad_high_8_32" 8 32;
    j_left_pad_high 173 "left_pad_high_8_64" 8 64; j_left_pad_low 174 "left_pad_low_16_32" 16 32;
    j_left_pad_low 175 "left_pad_low_16_64" 16 64; j_left_pad_low 176 "left_pad_low_1_16" 1 16;
    j_left_pad_low 177 "left_pad_low_1_32" 1 32; j_left_pad_low 178 "left_pad_low_1_64" 1 64;
    j_left_pad_low 179 "left_pad_low_1_8" 1 8; j_left_pad_low 180 "left_pad_low_32_64" 32 64;
    j_left_pad_low 181 "left_pad_low_8_16" 8 16; j_left_pad_low 182 "left_pad_low_8_32" 8 32;
    j_left_pad_low 183 "left_pad_low_8_64" 8 64; j_left_rotate 184 "left_rotate_16" 4 16;
    j_left_rotate 185 "left_rotate_32" 8 32; j_left_rotate 186 "left_rotate_64" 8 64;
    j_left_rotate 187 "left_rotate_8" 4 8; j_left_shift 188 "left_shift_16" 4 16;
    j_left_shift 189 "left_shift_32" 8 32; j_left_shift 190 "left_shift_64" 8 64;
    j_left_shift 191 "left_shift_8" 4 8; j_left_shift_with 192 "left_shift_with_16" 4 16;
    j_left_shift_with 193 "left_shift_with_32" 8 32;
    j_left_shift_with 194 "left_shift_with_64" 8 64; j_left_shift_with 195 "left_shift_with_8" 4 8;
    j_leftmost 196 "leftmost_16_1" 16 1; j_leftmost 197 "leftmost_16_2" 16 2;
    j_leftmost 198 "leftmost_16_4" 16 4; j_leftmost 199 "leftmost_16_8" 16 8;
    j_leftmost 200 "leftmost_32_1" 32 1; j_leftmost 201 "leftmost_32_16" 32 16;
    j_leftmost 202 "leftmost_32_2" 32 2; j_leftmost 203 "leftmost_32_4" 32 4;
    j_leftmost 204 "leftmost_32_8" 32 8; j_leftmost 205 "leftmost_64_1" 64 1;
    j_leftmost 206 "leftmost_64_16" 64 16; j_leftmost 207 "leftmost_64_2" 64 2;
    j_leftmost 208 "leftmost_64_32" 64 32; j_leftmost 209 "leftmost_64_4" 64 4;
    j_leftmost 210 "leftmost_64_8" 64 8; j_leftmost 211 "leftmost_8_1" 8 1;
    j_leftmost 212 "leftmost_8_2" 8 2; j_leftmost 213 "leftmost_8_4" 8 4; j_low 216 "low_1" 1;
    j_low 217 "low_16" 16; j_low 218 "low_32" 32; j_low 219 "low_64" 64; j_low 220 "low_8" 8;
    j_lt 221 "lt_16" 16; j_lt 222 "lt_32" 32; j_lt 223 "lt_64" 64; j_lt 224 "lt_8" 8;
    j_maj 225 "maj_1" 1; j_maj 226 "maj_16" 16; j_maj 227 "maj_32" 32; j_maj 228 "maj_64" 64;
    j_maj 229 "maj_8" 8; j_max 230 "max_16" 16; j_max 231 "max_32" 32; j_max 232 "max_64" 64;
    j_max 233 "max_8" 8; j_median 234 "median_16" 16; j_median 235 "median_32" 32;
    j_median 236 "median_64" 64; j_median 237 "median_8" 8; j_min 238 "min_16" 16;
    j_min 239 "min_32" 32; j_min 240 "min_64" 64; j_min 241 "min_8" 8; j_modulo 242 "modulo_16" 16;
    j_modulo 243 "modulo_32" 32; j_modulo 244 "modulo_64" 64; j_modulo 245 "modulo_8" 8;
    j_multiply 246 "multiply_16" 16; j_multiply 247 "multiply_32" 32;
    j_multiply 248 "multiply_64" 64; j_multiply 249 "multiply_8" 8; j_negate 250 "negate_16" 16;
    j_negate 251 "negate_32" 32; j_negate 252 "negate_64" 64; j_negate 253 "negate_8" 8;
    j_one 254 "one_16" 16; j_one 255 "one_32" 32; j_one 256 "one_64" 64; j_one 257 "one_8" 8;
    j_or 258 "or_1" 1; j_or 259 "or_16" 16; j_or 260 "or_32" 32; j_or 261 "or_64" 64;
    j_or 262 "or_8" 8; j_right_extend 266 "right_extend_16_32" 16 32;
    j_right_extend 267 "right_extend_16_64" 16 64; j_right_extend 268 "right_extend_32_64" 32 64;
    j_right_extend 269 "right_extend_8_16" 8 16; j_right_extend 270 "right_extend_8_32" 8 32;
    j_right_extend 271 "right_extend_8_64" 8 64; j_right_pad_high 272 "right_pad_high_16_32" 16 32;
    j_right_pad_high 273 "right_pad_high_16_64" 16 64;
    j_right_pad_high 274 "right_pad_high_1_16" 1 16;
    j_right_pad_high 275 "right_pad_high_1_32" 1 32;
    j_right_pad_high 276 "right_pad_high_1_64" 1 64; j_right_pad_high 277 "right_pad_high_1_8" 1 8;
    j_right_pad_high 278 "right_pad_high_32_64" 32 64;
    j_right_pad_high 279 "right_pad_high_8_16" 8 16;
    j_right_pad_high 280 "right_pad_high_8_32" 8 32;
    j_right_pad_high 281 "right_pad_high_8_64" 8 64;
    j_right_pad_low 282 "right_pad_low_16_32" 16 32;
    j_right_pad_low 283 "right_pad_low_16_64" 16 64; j_right_pad_low 284 "right_pad_low_1_16" 1 16;
    j_right_pad_low 285 "right_pad_low_1_32" 1 32; j_right_pad_low 286 "right_pad_low_1_64" 1 64;
    j_right_pad_low 287 "right_pad_low_1_8" 1 8; j_right_pad_low 288 "right_pad_low_32_64" 32 64;
    j_right_pad_low 289 "right_pad_low_8_16" 8 16; j_right_pad_low 290 "right_pad_low_8_32" 8 32;
    j_right_pad_low 291 "right_pad_low_8_64" 8 64; j_right_rotate 292 "right_rotate_16" 4 16;
    j_right_rotate 293 "right_rotate_32" 8 32; j_right_rotate 294 "right_rotate_64" 8 64;
    j_right_rotate 295 "right_rotate_8" 4 8; j_right_shift 296 "right_shift_16" 4 16;
    j_right_shift 297 "right_shift_32" 8 32; j_right_shift 298 "right_shift_64" 8 64;
    j_right_shift 299 "right_shift_8" 4 8; j_right_shift_with 300 "right_shift_with_16" 4 16;
    j_right_shift_with 301 "right_shift_with_32" 8 32;
    j_right_shift_with 302 "right_shift_with_64" 8 64;
    j_right_shift_with 303 "right_shift_with_8" 4 8; j_rightmost 304 "rightmost_16_1" 16 1;
    j_rightmost 305 "rightmost_16_2" 16 2; j_rightmost 306 "rightmost_16_4" 16 4;
    j_rightmost 307 "rightmost_16_8" 16 8; j_rightmost 308 "rightmost_32_1" 32 1;
    j_rightmost 309 "rightmost_32_16" 32 16; j_rightmost 310 "rightmost_32_2" 32 2;
    j_rightmost 311 "rightmost_32_4" 32 4; j_rightmost 312 "rightmost_32_8" 32 8;
    j_rightmost 313 "rightmost_64_1" 64 1; j_rightmost 314 "rightmost_64_16" 64 16;
    j_rightmost 315 "rightmost_64_2" 64 2; j_rightmost 316 "rightmost_64_32" 64 32;
    j_rightmost 317 "rightmost_64_4" 64 4; j_rightmost 318 "rightmost_64_8" 64 8;
    j_rightmost 319 "rightmost_8_1" 8 1; j_rightmost 320 "rightmost_8_2" 8 2;
    j_rightmost 321 "rightmost_8_4" 8 4; j_some 346 "some_1" 1; j_some 347 "some_16" 16;
    j_some 348 "some_32" 32; j_some 349 "some_64" 64; j_some 350 "some_8" 8;
    j_subtract 351 "subtract_16" 16; j_subtract 352 "subtract_32" 32;
    j_subtract 353 "subtract_64" 64; j_subtract 354 "subtract_8" 8; j_verify 357 "verify";
    j_xor 358 "xor_1" 1; j_xor 359 "xor_16" 16; j_xor 360 "xor_32" 32; j_xor 361 "xor_64" 64;
    j_xor 362 "xor_8" 8; j_xor_xor 363 "xor_xor_1" 1; j_xor_xor 364 "xor_xor_16" 16;
    j_xor_xor 365 "xor_xor_32" 32; j_xor_xor 366 "xor_xor_64" 64; j_xor_xor 367 "xor_xor_8" 8 ].

Fixpoint find_jet (tab : list jspec) (j : N) : option jspec :=
  match tab with
  | [] => None
  | s :: r => if j_id s =? j then Some s else find_jet r j
  end.

(* types without padding: the only ones a specification may use *)
Fixpoint no_padding (t : ty) : bool :=
  match t with
  | One => true
  | Sum a b => no_padding a && no_padding b && (width a =? width b)
  | Prod a b => no_padding a && no_padding b
  end.

Definition jet_spec_ty (j : N) : option arrow :=
  match find_jet jet_table j with
  | Some s => Some (j_src s, j_tgt s)
  | None => None
  end.

Definition jet_spec (j : N) (a : sval) : option sval :=
  match find_jet jet_table j with
  | None => None
  | Some s =>
      match j_fn s (fields (j_in s) (padded_enc (j_src s) a)) with
      | None => None
      | Some out =>
          let bits := layout out in
          if Nat.eqb (length bits) (N.to_nat (width (j_tgt s)))
          then Some (of_padded (j_tgt s) bits) else None
      end
  end.

Theorem jet_spec_typed : jets_typed jet_spec_ty jet_spec.
Proof.
  intros j A B a b Hty Ha Hs. unfold jet_spec_ty, jet_spec in *.
  destruct (find_jet jet_table j) as [s|]; [|discriminate].
  injection Hty as <- <-.
  destruct (j_fn s _) as [out|]; [|discriminate].
  destruct (Nat.eqb (length (layout out)) (N.to_nat (width (j_tgt s)))) eqn:E; [|discriminate].
  injection Hs as <-. apply Nat.eqb_eq in E.
  eapply padded_of_has_ty. apply of_padded_total. exact E.
Qed.

(* sanity of the table itself (checked by computation): ids are distinct, field widths add up
   to the source width, types have no padding *)
Definition table_ok (tab : list jspec) : bool :=
  forallb (fun s => no_padding (j_src s) && no_padding (j_tgt s)
                    && (N.of_nat (fold_right Nat.add 0%nat (j_in s)) =? width (j_src s))) tab
  && (fix distinct (l : list N) : bool :=
        match l with
        | [] => true
        | x :: r => negb (existsb (N.eqb x) r) && distinct r
        end) (map j_id tab).

Lemma jet_table_ok : table_ok jet_table = true.
Proof. vm_compute. reflexivity. Qed.

(* names as byte lists, for the check against the implementation's jet list *)
Definition string_bytes (s : string) : list N := map (fun c => N.of_nat (Ascii.nat_of_ascii c)) (list_ascii_of_string s).
Definition jet_table_names : list (list N) := map (fun s => j_id s :: string_bytes (j_name s)) jet_table.
