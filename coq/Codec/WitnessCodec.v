(* C01 - the witness stream.
     src/node/mod.rs       encode_with_witness: `sharing_iter.into_witnesses()` = the witness values of the
                           witness nodes yielded by post_order_iter::<MaxSharing>, in order
     src/bit_encoding/encode.rs   encode_witness / encode_value: the compact bits of every value, concatenated
     src/node/redeem.rs    RedeemNode::decode: DecodeFinalizer::convert_witness reads
                           Value::from_compact_bits(bits, target type) in conversion order; then witness.close()
     src/value.rs          from_compact_bits = Ty.of_compact (C10 proves the byte-level refinement)
   Values and types are those of Ty/Ty.v. *)
From RS Require Import Lib.Tac Lib.Outcome Lib.Bits Lib.ListExtra Ty.Ty Codec.NodeCodec Codec.Linearise.
Import ListNotations.
Local Open Scope N_scope.

(* encode_witness *)
Definition enc_witnesses (vs : list sval) : list bool := concat (map compact_enc vs).

(* the reads of DecodeFinalizer::convert_witness, one per witness node, in conversion order *)
Fixpoint read_witnesses (tys : list ty) (bits : list bool) : option (list sval * list bool) :=
  match tys with
  | [] => Some ([], bits)
  | t :: r =>
      match of_compact t bits with
      | None => None                      (* EndOfStream *)
      | Some (v, rest) =>
          match read_witnesses r rest with
          | Some (vs, rest') => Some (v :: vs, rest')
          | None => None
          end
      end
  end.

Fixpoint all_typed (vs : list sval) (tys : list ty) : bool :=
  match vs, tys with
  | [], [] => true
  | v :: vs', t :: ts' => has_ty v t && all_typed vs' ts'
  | _, _ => false
  end.

(* every witness value comes back bit for bit, attached to the same position, and the stream is consumed *)
Theorem witness_rt : forall vs tys rest, all_typed vs tys = true ->
  read_witnesses tys (enc_witnesses vs ++ rest) = Some (vs, rest).
Proof.
  induction vs as [|v vs IH]; intros tys rest H; destruct tys as [|t tys]; cbn in H; try discriminate.
  - reflexivity.
  - apply andb_true_iff in H. destruct H as [Hv Hvs].
    unfold enc_witnesses. cbn [map concat read_witnesses]. rewrite <- app_assoc.
    rewrite (of_compact_enc t v _ Hv). fold (enc_witnesses vs). rewrite (IH tys rest Hvs). reflexivity.
Qed.

(* whatever the reader accepts is the concatenation of the compact encodings of the values it returns *)
Theorem witness_canon : forall tys bits vs rest, read_witnesses tys bits = Some (vs, rest) ->
  bits = enc_witnesses vs ++ rest /\ all_typed vs tys = true.
Proof.
  induction tys as [|t tys IH]; intros bits vs rest H; cbn [read_witnesses] in H.
  - injection H as <- <-. auto.
  - destruct (of_compact t bits) as [[v r1]|] eqn:E; [|discriminate].
    destruct (read_witnesses tys r1) as [[vs' r2]|] eqn:E2; [|discriminate]. injection H as <- <-.
    destruct (of_compact_inv _ _ _ _ E) as [Hv ->]. destruct (IH _ _ _ E2) as [-> Hvs].
    split; [unfold enc_witnesses; cbn [map concat]; rewrite <- app_assoc; reflexivity|].
    cbn [all_typed]. rewrite Hv, Hvs. reflexivity.
Qed.

(* two assignments of typed values with the same stream are equal: a witness stream determines the values *)
Corollary witness_unique vs ws tys : all_typed vs tys = true -> all_typed ws tys = true ->
  enc_witnesses vs = enc_witnesses ws -> vs = ws.
Proof.
  intros Hv Hw E. pose proof (witness_rt vs tys [] Hv) as A. pose proof (witness_rt ws tys [] Hw) as B.
  rewrite E in A. rewrite A in B. injection B; auto.
Qed.

(* ------------------------------------------------------------------ which values, in which order *)
Section Order.
Variable jet : Type.
Notation dnode := (dnode jet).

Definition is_hidden (d : dnode) : bool := match d with DHidden _ => true | _ => false end.
Definition is_witness (d : dnode) : bool := match d with DWitness => true | _ => false end.

(* the redeem / construct DAG has no hidden nodes: an assertion has one child there *)
Definition redeem_view (ns : list dnode) : list dnode :=
  map (fun d => match d with
                | DCase i j => if is_hidden (node_at ns j) then DTake i
                               else if is_hidden (node_at ns i) then DTake j else d
                | _ => d
                end) ns.

(* positions of the witness nodes in the order in which their values are written (sharing ids [key]) or
   read back (key_ptr on the decoded table) *)
Definition witness_order (ns : list dnode) (key : N -> option N) : list N :=
  filter (fun n => is_witness (node_at ns n)) (order_of (redeem_view ns) key).

(* encode_with_witness: [wbits n] = compact bits of the value attached to the witness node at position n *)
Definition witness_stream (ns : list dnode) (key : N -> option N) (wbits : N -> list bool) : list bool :=
  concat (map wbits (witness_order ns key)).
End Order.

Arguments is_hidden {jet} d.
Arguments is_witness {jet} d.
Arguments redeem_view {jet} ns.
Arguments witness_order {jet} ns key.
Arguments witness_stream {jet} ns key wbits.

Example witness_rt_ex :
  read_witnesses [Bit; Prod Bit One; One] (enc_witnesses [SR SU; SP (SL SU) SU; SU] ++ [true])
  = Some ([SR SU; SP (SL SU) SU; SU], [true]).
Proof. reflexivity. Qed.
