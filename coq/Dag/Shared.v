(* C18 - DagLike::is_shared_as: the zipped comparison of the pointer-sharing iteration with the
   requested sharing.  `zip` stops at the shorter sequence, so in general the check accepts
   when one node sequence is a prefix of the other; for keys that never give a node the id of
   its own descendant both sequences end with the root, and the check accepts exactly when
   the two iterations yield the same nodes in the same order. *)
From RS Require Import Lib.Tac Lib.Outcome Dag.DagModel Dag.PostOrderSpec Dag.VisitFacts Dag.Acyclic.
Import ListNotations.
Local Open Scope N_scope.

Lemma zip_same_prefix : forall a b,
  zip_same a b = true <->
  ((exists t, map it_node a = map it_node b ++ t) \/ (exists t, map it_node b = map it_node a ++ t)).
Proof.
  induction a as [|x a IH]; intros b.
  - cbn. split; [intros _; right; eexists; reflexivity|reflexivity].
  - destruct b as [|y b].
    + cbn. split; [intros _; left; eexists; reflexivity|reflexivity].
    + cbn [zip_same map]. destruct (Nat.eqb (it_node x) (it_node y)) eqn:E.
      * apply Nat.eqb_eq in E. rewrite IH. rewrite E. split.
        -- intros [(t & H)|(t & H)]; [left|right]; exists t; cbn; rewrite H; reflexivity.
        -- intros [(t & H)|(t & H)]; [left|right]; exists t; cbn in H; injection H as H; exact H.
      * apply Nat.eqb_neq in E. split; [discriminate|].
        intros [(t & H)|(t & H)]; cbn in H; injection H as H1 H2; congruence.
Qed.

Lemma prefix_last (la lb t : list nat) r :
  la ++ [r] = lb ++ [r] ++ t -> (forall x, In x la -> x <> r) -> t = [].
Proof.
  intros H Hne. destruct t as [|y t0] using rev_ind; [reflexivity|]. exfalso.
  clear IHt0. rewrite !app_assoc in H. apply app_inj_tail in H. destruct H as [H _].
  apply (Hne r); [|reflexivity]. rewrite H. apply in_or_app. left. apply in_or_app. right. left. reflexivity.
Qed.

Section Shared.
Variable children : nat -> dagnode.
Variable key : nat -> option N.
Hypothesis Hwf : wfc children.

(* the model of is_shared_as with sufficient fuel compares the two specified sequences *)
Theorem is_shared_as_refines : forall root,
  is_shared_as children key (po_fuel children root) root =
  Ok (zip_same (po_spec children key_ptr root) (po_spec children key root)).
Proof.
  intros root. unfold is_shared_as.
  rewrite (po_refines children key_ptr Hwf root), (po_refines children key Hwf root). reflexivity.
Qed.

(* in general: accepted iff one node sequence is a prefix of the other *)
Theorem is_shared_as_prefix : forall root,
  is_shared_as children key (po_fuel children root) root = Ok true <->
  ((exists t, map it_node (po_spec children key_ptr root) = map it_node (po_spec children key root) ++ t) \/
   (exists t, map it_node (po_spec children key root) = map it_node (po_spec children key_ptr root) ++ t)).
Proof.
  intros root. rewrite is_shared_as_refines, <- zip_same_prefix.
  split; [intros [= H]; exact H|intros ->; reflexivity].
Qed.

(* THEOREM: for acyclic keys the check accepts exactly when the requested sharing yields the
   same nodes in the same order as the DAG's own pointer structure *)
Theorem is_shared_as_iff : key_acyclic children key -> forall root,
  is_shared_as children key (po_fuel children root) root = Ok true <->
  map it_node (po_spec children key root) = map it_node (po_spec children key_ptr root).
Proof.
  intros Hac root. rewrite is_shared_as_prefix.
  destruct (po_root_last_no_orphans children key Hwf Hac root) as (ob & ib & Hb & Hbn & Hbl & _).
  destruct (po_root_last_no_orphans children key_ptr Hwf (key_ptr_acyclic children Hwf) root)
    as (oa & ia & Ha & Han & Hal & _).
  rewrite Ha, Hb, !map_app. cbn [map]. rewrite Han, Hbn.
  assert (Hna : forall x, In x (map it_node oa) -> x <> root).
  { intros x Hx. apply in_map_iff in Hx. destruct Hx as (y & <- & Hy). specialize (Hal _ Hy). lia. }
  assert (Hnb : forall x, In x (map it_node ob) -> x <> root).
  { intros x Hx. apply in_map_iff in Hx. destruct Hx as (y & <- & Hy). specialize (Hbl _ Hy). lia. }
  split.
  - intros [(t & H)|(t & H)].
    + rewrite <- app_assoc in H. pose proof (prefix_last _ _ _ _ H Hna) as ->.
      rewrite app_nil_r in H. symmetry. exact H.
    + rewrite <- app_assoc in H. pose proof (prefix_last _ _ _ _ H Hnb) as ->.
      rewrite app_nil_r in H. exact H.
  - intros H. left. exists []. rewrite app_nil_r. symmetry. exact H.
Qed.

End Shared.
