(* C04, phase 2 - executable entry points for the slab model (Infer/Slab.v): the same cases and the
   same canonical output as Run.run_infer / Run2.run_incs, computed by the model of the Rust data
   structures (union-bound heap with ranks and path halving, eager completion, the occurs check with
   its two sets, the finalisation order of the harness), plus the size `fsz` of the complete types
   embedded in a type error (harness: error_final_size).

     run_rinfer fmode program order jets p  =  canonical result ++ [99; fsz]
     run_both   ...                         =  run_rinfer if its canonical part equals run_infer's,
                                               otherwise 777 :: both results (a disagreement of the two
                                               MODELS, reported by the driver as a broken correspondence)
     run_rincs / run_both_incs              =  the same for kind `incs` *)
From RS Require Import Lib.Tac Lib.Outcome Lib.Sweep Ty.Ty Core.Prog
  Infer.Constraints Infer.Unify Infer.Infer Infer.Order Infer.Run Infer.Run2 Infer.UnionFind Infer.Slab.
Import ListNotations.
Local Open Scope outcome_scope.

(* ---- finalisation orders of the harness (positions in the CONSTRUCTED table) *)

(* children of a ConstructNode as a Dag: hidden children of case (assertl / assertr) are not nodes *)
Definition dag_children (p : prog) (i : nat) : list nat :=
  filter (fun c => match nth c p NIden with NHidden _ => false | _ => true end) (children (nth i p NIden)).

(* left-to-right DFS post-order from `root` with sharing by node (InternalSharing on one Arc per index) *)
Fixpoint dfs_post (fuel : nat) (p : prog) (todo : list (nat * bool)) (seen out : list nat) : list nat :=
  match fuel with
  | O => rev out
  | S f =>
      match todo with
      | [] => rev out
      | (i, true) :: rest => dfs_post f p rest seen (i :: out)
      | (i, false) :: rest =>
          if mem i seen then dfs_post f p rest seen out
          else dfs_post f p (map (fun c => (c, false)) (dag_children p i) ++ (i, true) :: rest) (i :: seen) out
      end
  end.

Definition ty_depth_bound (jets : jet_table) : nat :=
  fold_right (fun '(_, _, s, t) acc => Nat.max acc (Nat.max (length (nums_of_ty (gty_ty s))) (length (nums_of_ty (gty_ty t))))) 0%nat jets.

Fixpoint ty_nsize (t : ty) : N :=
  match t with
  | One => 1
  | Sum a b | Prod a b => (1 + ty_nsize a + ty_nsize b)%N
  end.

Definition sat64 (x : N) : N := N.min x 18446744073709551615%N.

Section Run.
  Variable fuel : nat.
  Variable jt : jet_table.

  Definition lift_fin {A} (o : outcome (berr * ctx) A) : rres A :=
    match o with
    | Ok a => Ok a
    | Err _ => Panic 21
    | Panic k => Panic k
    | OutOfFuel => OutOfFuel
    end.

  Definition fin_ty (c : ctx) (e : nat) : rres (ctx * ty) :=
    '(c1, r) <- lift_fin (finalize c e) ;;
    match r with
    | Some t => Ok (c1, t)
    | None => Err (ROccurs, c1)
    end.

  Definition fin_arrow (src_first : bool) (c : ctx) (a : option varrow) : rres ctx :=
    match a with
    | None => Ok c
    | Some (s, t) =>
        let '(x, y) := if src_first then (s, t) else (t, s) in
        '(c1, _) <- fin_ty c x ;;
        '(c2, _) <- fin_ty c1 y ;; Ok c2
    end.

  Fixpoint fin_list (src_first : bool) (c : ctx) (ar : list (option varrow)) (l : list nat) : rres ctx :=
    match l with
    | [] => Ok c
    | i :: rest => c1 <- fin_arrow src_first c (nth i ar None) ;; fin_list src_first c1 ar rest
    end.

  Fixpoint read_arrows (c : ctx) (ar : list (option varrow)) (l : list nat) : rres (list (option tarrow)) :=
    match l with
    | [] => Ok []
    | i :: rest =>
        match nth i ar None with
        | None => r <- read_arrows c ar rest ;; Ok (None :: r)
        | Some (s, t) =>
            '(c1, ts) <- fin_ty c s ;;
            '(c2, tgt) <- fin_ty c1 t ;;
            r <- read_arrows c2 ar rest ;; Ok (Some (ts, tgt) :: r)
        end
    end.

  (* p: the table in construction order; canon: positions of the canonical nodes 0..n-1; root: position
     of the last canonical node.  fmode as in harness/src/infer.rs *)
  Definition r_infer (fmode : nat) (program : bool) (p : prog) (canon : list nat) (root : nat)
    : rres (list (option tarrow)) :=
    '(c, ar) <- r_nodes fuel jt empty_ctx [] p ;;
    c <- (if program then
            match nth root ar None with
            | Some a => r_set_program fuel c a
            | None => Err (RShape, c)
            end
          else Ok c) ;;
    let n := length p in
    c <- match fmode with
         | 0%nat =>
             match nth root ar None with
             | Some _ => fin_list true c ar (dfs_post (4 * n + 4) p [(root, false)] [] [])
             | None => Ok c
             end
         | 1%nat => fin_list true c ar (rev (seq 0 n))
         | 2%nat => fin_list false c ar (rev (seq 0 n))
         | _ => fin_list false c ar canon
         end ;;
    read_arrows c ar canon.

  Definition r_incs (program : bool) (p : prog) (canon : list nat) (root : nat) : rres (list (option (inc * inc))) :=
    '(c, ar) <- r_nodes fuel jt empty_ctx [] p ;;
    c <- (if program then
            match nth root ar None with
            | Some a => r_set_program fuel c a
            | None => Err (RShape, c)
            end
          else Ok c) ;;
    (fix go (c : ctx) (l : list nat) : rres (list (option (inc * inc))) :=
       match l with
       | [] => Ok []
       | i :: rest =>
           match nth i ar None with
           | None => r <- go c rest ;; Ok (None :: r)
           | Some (s, t) =>
               '(c1, a) <- lift_fin (to_incomplete c s) ;;
               '(c2, b) <- lift_fin (to_incomplete c1 t) ;;
               r <- go c2 rest ;; Ok (Some (a, b) :: r)
           end
       end) c canon.
End Run.

(* size of the complete types embedded in Error::Bind { existing_bound, new_bound } *)
Definition bound_finals_size (c : ctx) (b : nat) : N :=
  match occurs_check c b with
  | Ok (c1, false) =>
      match finals_of (4 * length (c_slab c1) + 4) c1 [b] [] [] with
      | Ok (_, l) => fold_right (fun t acc => sat64 (acc + sat64 (ty_nsize t))) 0%N l
      | _ => 0%N
      end
  | _ => 0%N
  end.

Definition err_fsz (e : rerr) (c : ctx) : N :=
  match e with
  | RBind _ ex nb => sat64 (bound_finals_size c ex + bound_finals_size c nb)
  | _ => 0%N
  end.

Local Open Scope N_scope.

Definition show_rresult (r : rres (list (option tarrow))) : list N :=
  match r with
  | Ok tau => 0 :: flat_map show_arrow tau ++ [99; 0]
  | Err (RShape, _) => [1; 11; 0; 99; 0]
  | Err (RBind st ex nb, c) => [1; 20; st; 99; err_fsz (RBind st ex nb) c]
  | Err (ROccurs, _) => [1; 22; 2; 99; 0]
  | Panic k => [9; k]
  | OutOfFuel => [8]
  end.

Definition model_fuel (jets : jet_table) (p : prog) : nat :=
  (40 + ty_depth_bound jets + 40 * length p)%nat.

Definition run_rinfer (fmode : nat) (program : bool) (order : list nat) (jets : list (N * N * list N * list N)) (p : prog) : list N :=
  let n := length p in
  let order := match order with [] => seq 0 n | _ => order end in
  if negb (valid_order n order) then [1; 11; 0; 99; 0] else
  let pos := pos_of order in
  let jt := jets_of jets in
  let p' := permute p order in
  match gen jt p' with
  | None => [1; 11; 0; 99; 0]
  | Some _ =>
      if (program && match nth (n - 1) p NIden with NHidden _ => true | _ => false end)%bool then [1; 11; 0; 99; 0] else
      show_rresult (r_infer (model_fuel jt p) jt fmode program p' (map pos (seq 0 n)) (pos (n - 1)%nat))
  end.

Fixpoint strip99 (l : list N) : list N :=
  match l with
  | [] => []
  | 99 :: _ :: [] => []
  | x :: r => x :: strip99 r
  end.

Definition run_both (fmode : nat) (program : bool) (order : list nat) (jets : list (N * N * list N * list N)) (p : prog) : list N :=
  let a := run_infer program order jets p in
  let b := run_rinfer fmode program order jets p in
  if list_beq N.eqb a (strip99 b) then b else 777 :: a ++ 778 :: b.

(* ---- incs *)
Fixpoint inc_fty (i : inc) : option fty :=
  match i with
  | IcFree => Some FFree
  | IcCycle => None
  | IcFinal t => Some ((fix emb (t : ty) : fty := match t with One => FOne | Sum a b => FSum (emb a) (emb b) | Prod a b => FProd (emb a) (emb b) end) t)
  | IcSum a b => match inc_fty a, inc_fty b with Some x, Some y => Some (FSum x y) | _, _ => None end
  | IcProd a b => match inc_fty a, inc_fty b with Some x, Some y => Some (FProd x y) | _, _ => None end
  end.

Definition show_inc_r (i : inc) : list N :=
  match inc_fty i with
  | None => [8]
  | Some t => snd (fty_nums t)
  end.

Definition run_rincs (program : bool) (order : list nat) (jets : list (N * N * list N * list N)) (p : prog) : list N :=
  let n := length p in
  let order := match order with [] => seq 0 n | _ => order end in
  if negb (valid_order n order) then [1; 11; 0] else
  let pos := pos_of order in
  let jt := jets_of jets in
  let p' := permute p order in
  match gen jt p' with
  | None => [1; 11; 0]
  | Some _ =>
      if (program && match nth (n - 1) p NIden with NHidden _ => true | _ => false end)%bool then [1; 11; 0] else
      match r_incs (model_fuel jt p) jt program p' (map pos (seq 0 n)) (pos (n - 1)%nat) with
      | Ok l => 0 :: flat_map (fun o => match o with None => [5] | Some (a, b) => 4 :: show_inc_r a ++ show_inc_r b end) l
      | Err (RShape, _) => [1; 11; 0]
      | Err (RBind st _ _, _) => [1; 20; st]
      | Err (ROccurs, _) => [1; 22; 2]
      | Panic k => [9; k]
      | OutOfFuel => [8]
      end
  end.

Definition run_both_incs (program : bool) (order : list nat) (jets : list (N * N * list N * list N)) (p : prog) : list N :=
  let a := run_incs program order jets p in
  let b := run_rincs program order jets p in
  if list_beq N.eqb a b then b else 777 :: a ++ 778 :: b.
