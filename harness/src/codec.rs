//! C01 / C02: bit encoding of programs and witnesses.
//!
//! command `c01`, kinds
//!   rt <c|r> <c|e> <pdl> [wspec]   build the PDL program at commitment (c) / redemption (r) time with the
//!                             Core (c) / Elements (e) jet family, serialise, decode, compare, re-serialise.
//!                             With a wspec (codec_wit.rs) the construction-time witnesses are built from
//!                             explicit constructors (not by the library's witness decoder) and the result
//!                             ends with the witness observations of the original and the decoded program:
//!                             <n> (<len> <observation>)*n  <m> (<len> <observation>)*m
//!   rr <c|e> <pdl> <wspec>    redemption time: build (explicit witnesses), serialise, decode, then for every node of
//!                             the DECODED program (post order, pointer identity):
//!                               0 n  (1 <cmr 32> <ihr 32> <amr 32> 4 <source> <target> | 5 <cmr 32>)*n
//!                             then libsimplicity on the same bytes: 2 (not applicable) | 1 <cmr 32> <ihr 32> <amr 32>
//!                             | 10 + e (the C pipeline stopped)
//!   jetcodes <c|e>            for every jet of the family, in ALL order:  <len> <bit>*len
//!   cmr <pdl>                 commitment root of an expression
//! command `c02`, kinds
//!   dec <c|e> <prog hex|-> <witness hex|->     three guarded decoder calls on the same bytes
//!
//! Numeric forms (shared with tools/props/codec_common.py and coq/Codec/Run.v)
//!   error triple  <code> <a> <b>:
//!     9 panic | 10 TrailingBytes(first) | 11 IllegalPadding(masked, n_bits) | 12 BothChildrenHidden
//!     13 EndOfStream | 14 HiddenNode | 15 InvalidJet | 16 Natural::BadIndex(got, max) | 17 Natural::EndOfStream
//!     18 Natural::Overflow | 19 NotInCanonicalOrder | 20 SharingNotMaximal | 21 Type | 23 DisconnectRedeemTime
//!   dnode (the shape written to the bit stream, absolute child indices):
//!     0 iden | 1 unit | 2 injl i | 3 injr i | 4 take i | 5 drop i | 6 comp i j | 7 case i j | 8 pair i j
//!     9 disconnect1 i | 10 disconnect i j | 11 witness | 12 fail <64 bytes> | 13 hidden <32 bytes>
//!     14 jet <index in ALL> | 15 word n <2^n bits packed into ceil(2^n / 8) bytes, msb first>
use crate::codec_wit;
use crate::prog;
use crate::util::*;

use simplicity::dag::{Dag, DagLike, SharingTracker};
use simplicity::jet::{Core, Elements, Jet};
use simplicity::node::{self, CommitNode, ConstructNode, Disconnectable, Inner, Node, RedeemNode};
use simplicity::types::{self, Final};
use simplicity::{decode, BitIter, BitWriter, Cmr, DecodeError};

use std::collections::HashMap;
use std::sync::Arc;
use std::time::Instant;

// ------------------------------------------------------------------------------------------------
// the encoder's view of a DAG: hidden children of assertions are nodes of their own
// (a private copy of bit_encoding::encode::EncodeNode, which is not exported)

enum EN<'n, N: node::Marker> {
    Node(&'n Node<N>),
    Hidden(Cmr),
}

impl<'n, N: node::Marker> Clone for EN<'n, N> {
    fn clone(&self) -> Self {
        match self {
            EN::Node(n) => EN::Node(n),
            EN::Hidden(c) => EN::Hidden(*c),
        }
    }
}

impl<'n, N: node::Marker> DagLike for EN<'n, N> {
    type Node = Self;
    fn data(&self) -> &Self {
        self
    }
    fn as_dag_node(&self) -> Dag<Self> {
        let node = match self {
            EN::Node(node) => *node,
            EN::Hidden(..) => return Dag::Nullary,
        };
        match node.inner() {
            Inner::Unit | Inner::Iden | Inner::Fail(..) | Inner::Jet(..) | Inner::Word(..) | Inner::Witness(..) => {
                Dag::Nullary
            }
            Inner::InjL(sub) | Inner::InjR(sub) | Inner::Take(sub) | Inner::Drop(sub) => Dag::Unary(EN::Node(sub)),
            Inner::Comp(l, r) | Inner::Case(l, r) | Inner::Pair(l, r) => Dag::Binary(EN::Node(l), EN::Node(r)),
            Inner::Disconnect(l, r) => match r.disconnect_dag_ref(l) {
                Dag::Nullary => Dag::Nullary,
                Dag::Unary(a) => Dag::Unary(EN::Node(a)),
                Dag::Binary(a, b) => Dag::Binary(EN::Node(a), EN::Node(b)),
            },
            Inner::AssertL(l, rcmr) => Dag::Binary(EN::Node(l), EN::Hidden(*rcmr)),
            Inner::AssertR(lcmr, r) => Dag::Binary(EN::Hidden(*lcmr), EN::Node(r)),
        }
    }
}

#[derive(PartialEq, Eq, Hash)]
enum Key<I> {
    Ptr(usize),
    Id(I),
    Hidden([u8; 32]),
}

/// by_id = false: nodes are identified by their address (the sharing the DAG really has);
/// by_id = true: by their sharing id where they have one (what the encoder does); hidden nodes by CMR.
struct Tracker<N: node::Marker> {
    by_id: bool,
    map: HashMap<Key<N::SharingId>, usize>,
}

impl<N: node::Marker> Tracker<N> {
    fn key(&self, d: &EN<N>) -> Option<Key<N::SharingId>> {
        match d {
            EN::Hidden(c) => Some(Key::Hidden(c.to_byte_array())),
            EN::Node(n) => {
                if self.by_id {
                    n.sharing_id().map(Key::Id)
                } else {
                    Some(Key::Ptr(*n as *const Node<N> as usize))
                }
            }
        }
    }
}

impl<'n, N: node::Marker> SharingTracker<EN<'n, N>> for Tracker<N> {
    fn record(&mut self, d: &EN<'n, N>, index: usize) -> Option<usize> {
        let k = self.key(d)?;
        if let Some(i) = self.map.get(&k) {
            return Some(*i);
        }
        self.map.insert(k, index);
        None
    }
    fn seen_before(&self, d: &EN<'n, N>) -> Option<usize> {
        let k = self.key(d)?;
        self.map.get(&k).copied()
    }
}

// ------------------------------------------------------------------------------------------------
// per-node observations

struct Obs {
    shape: Vec<u128>,
    cmr: [u8; 32],
    src: Vec<u128>,
    tgt: Vec<u128>,
    ihr: Option<[u8; 32]>,
    amr: Option<[u8; 32]>,
    wit: Option<Vec<u128>>,
    wobs: Option<Vec<u128>>,
}

trait Observe: node::Marker {
    fn arrow_of(n: &Node<Self>) -> (Arc<Final>, Arc<Final>);
    fn ihr_of(n: &Node<Self>) -> Option<[u8; 32]>;
    fn amr_of(n: &Node<Self>) -> Option<[u8; 32]>;
    fn wit_of(w: &Self::Witness) -> Option<Vec<u128>>;
    fn wobs_of(w: &Self::Witness) -> Option<Vec<u128>>;
}

impl Observe for node::Commit {
    fn arrow_of(n: &CommitNode) -> (Arc<Final>, Arc<Final>) {
        (Arc::clone(&n.arrow().source), Arc::clone(&n.arrow().target))
    }
    fn ihr_of(n: &CommitNode) -> Option<[u8; 32]> {
        n.ihr().map(|x| x.to_byte_array())
    }
    fn amr_of(n: &CommitNode) -> Option<[u8; 32]> {
        n.amr().map(|x| x.to_byte_array())
    }
    fn wit_of(_: &node::NoWitness) -> Option<Vec<u128>> {
        None
    }
    fn wobs_of(_: &node::NoWitness) -> Option<Vec<u128>> {
        None
    }
}

impl Observe for node::Redeem {
    fn arrow_of(n: &RedeemNode) -> (Arc<Final>, Arc<Final>) {
        (Arc::clone(&n.arrow().source), Arc::clone(&n.arrow().target))
    }
    fn ihr_of(n: &RedeemNode) -> Option<[u8; 32]> {
        Some(n.ihr().to_byte_array())
    }
    fn amr_of(n: &RedeemNode) -> Option<[u8; 32]> {
        Some(n.amr().to_byte_array())
    }
    fn wit_of(w: &simplicity::Value) -> Option<Vec<u128>> {
        let mut v = vec![];
        prog::ty_nums(w.ty(), &mut v);
        v.push(99);
        v.extend(prog::compact_bits(w));
        Some(v)
    }
    fn wobs_of(w: &simplicity::Value) -> Option<Vec<u128>> {
        Some(codec_wit::wit_obs(w))
    }
}

fn jet_index(j: &dyn Jet) -> u128 {
    if let Some(c) = j.as_any().downcast_ref::<Core>() {
        return Core::ALL.iter().position(|x| x == c).unwrap() as u128;
    }
    if let Some(e) = j.as_any().downcast_ref::<Elements>() {
        return Elements::ALL.iter().position(|x| x == e).unwrap() as u128;
    }
    u128::MAX
}

/// the dnode of one yielded item (payload included)
fn shape_of<N: node::Marker>(d: &EN<N>, l: Option<usize>, r: Option<usize>) -> Vec<u128> {
    let li = l.map(|x| x as u128).unwrap_or(0);
    let ri = r.map(|x| x as u128).unwrap_or(0);
    let node = match d {
        EN::Hidden(c) => {
            let mut v = vec![13];
            v.extend(c.to_byte_array().iter().map(|b| *b as u128));
            return v;
        }
        EN::Node(n) => *n,
    };
    match node.inner() {
        Inner::Iden => vec![0],
        Inner::Unit => vec![1],
        Inner::InjL(_) => vec![2, li],
        Inner::InjR(_) => vec![3, li],
        Inner::Take(_) => vec![4, li],
        Inner::Drop(_) => vec![5, li],
        Inner::Comp(..) => vec![6, li, ri],
        Inner::Case(..) | Inner::AssertL(..) | Inner::AssertR(..) => vec![7, li, ri],
        Inner::Pair(..) => vec![8, li, ri],
        Inner::Disconnect(..) => {
            if r.is_some() {
                vec![10, li, ri]
            } else {
                vec![9, li]
            }
        }
        Inner::Witness(_) => vec![11],
        Inner::Fail(e) => {
            let mut v = vec![12];
            v.extend(e.as_ref().iter().map(|b| *b as u128));
            v
        }
        Inner::Jet(j) => vec![14, jet_index(j.as_ref())],
        Inner::Word(w) => {
            let mut v = vec![15, w.n() as u128];
            let bits: Vec<bool> = w.iter().collect();
            v.extend(prog::pack_bits(&bits).iter().map(|b| *b as u128));
            v
        }
    }
}

/// post-order walk of the encoder's view; `by_id` selects the sharing
fn walk<N: Observe>(root: &Node<N>, by_id: bool) -> Vec<Obs> {
    let tracker: Tracker<N> = Tracker { by_id, map: HashMap::new() };
    let mut out = vec![];
    for item in EN::Node(root).post_order_iter_with_tracker(tracker) {
        let shape = shape_of(&item.node, item.left_index, item.right_index);
        match &item.node {
            EN::Hidden(c) => out.push(Obs {
                shape,
                cmr: c.to_byte_array(),
                src: vec![],
                tgt: vec![],
                ihr: None,
                amr: None,
                wit: None,
                wobs: None,
            }),
            EN::Node(n) => {
                let (s, t) = N::arrow_of(n);
                let mut src = vec![];
                let mut tgt = vec![];
                prog::ty_nums(&s, &mut src);
                prog::ty_nums(&t, &mut tgt);
                let (wit, wobs) = match n.inner() {
                    Inner::Witness(w) => (N::wit_of(w), N::wobs_of(w)),
                    _ => (None, None),
                };
                out.push(Obs { shape, cmr: n.cmr().to_byte_array(), src, tgt, ihr: N::ihr_of(n), amr: N::amr_of(n), wit, wobs });
            }
        }
    }
    out
}

// ------------------------------------------------------------------------------------------------
// errors

fn close_triple(e: &simplicity::BitIterCloseError) -> Vec<u128> {
    match e {
        simplicity::BitIterCloseError::TrailingBytes { first_byte } => vec![10, *first_byte as u128, 0],
        simplicity::BitIterCloseError::IllegalPadding { masked_padding, n_bits } => {
            vec![11, *masked_padding as u128, *n_bits as u128]
        }
    }
}

fn dec_triple(e: &decode::Error) -> Vec<u128> {
    match e {
        decode::Error::BitIter(c) => close_triple(c),
        decode::Error::BothChildrenHidden => vec![12, 0, 0],
        decode::Error::EndOfStream => vec![13, 0, 0],
        decode::Error::HiddenNode => vec![14, 0, 0],
        decode::Error::InvalidJet => vec![15, 0, 0],
        // DecodeNaturalError is not nameable from outside the crate: classify its Debug form
        decode::Error::Natural(ne) => {
            let dbg = format!("{:?}", ne);
            if dbg.starts_with("EndOfStream") {
                vec![17, 0, 0]
            } else if dbg.starts_with("Overflow") {
                vec![18, 0, 0]
            } else if dbg.starts_with("BadIndex") {
                let nums: Vec<u128> = dbg
                    .split(|c: char| !c.is_ascii_digit())
                    .filter(|s| !s.is_empty())
                    .map(|s| s.parse().unwrap())
                    .collect();
                vec![16, nums[0], nums[1]]
            } else {
                vec![29, 0, 0]
            }
        }
        decode::Error::NotInCanonicalOrder => vec![19, 0, 0],
        decode::Error::SharingNotMaximal => vec![20, 0, 0],
        decode::Error::Type(_) => vec![21, 0, 0],
        #[allow(unreachable_patterns)]
        _ => vec![29, 0, 0],
    }
}

fn derr_triple(e: &DecodeError) -> Vec<u128> {
    match e {
        DecodeError::Decode(d) => dec_triple(d),
        DecodeError::DisconnectRedeemTime => vec![23, 0, 0],
        DecodeError::Type(_) => vec![21, 0, 0],
        #[allow(unreachable_patterns)]
        _ => vec![29, 0, 0],
    }
}

fn push_bytes(out: &mut Vec<u128>, b: &[u8]) {
    out.push(b.len() as u128);
    out.extend(b.iter().map(|x| *x as u128));
}

// ------------------------------------------------------------------------------------------------
// C01

fn commit_of(specs: &[prog::NodeSpec]) -> Result<Arc<CommitNode>, prog::RedeemError> {
    types::Context::with_context(|ctx| {
        let nodes = prog::build(&ctx, specs, &|_| None).map_err(prog::RedeemError::Build)?;
        let root = match nodes.last().unwrap().as_ref() {
            Some(r) => r,
            None => return Err(prog::RedeemError::Build(prog::BuildError::Shape(specs.len() - 1, "hidden root"))),
        };
        root.finalize_types().map_err(|e| prog::RedeemError::Infer(prog::err_class(&e)))
    })
}

/// compare the encoder's view of the original with the decoded DAG, position by position
fn compare<N: Observe>(orig: &Node<N>, dec: &Node<N>, out: &mut Vec<u128>) {
    let a = walk(orig, true);
    let b = walk(dec, false);
    let mut m = [0u128; 6]; // cmr arrow ihr amr witness shape
    for (x, y) in a.iter().zip(b.iter()) {
        m[0] += (x.cmr != y.cmr) as u128;
        m[1] += (x.src != y.src || x.tgt != y.tgt) as u128;
        m[2] += (x.ihr != y.ihr) as u128;
        m[3] += (x.amr != y.amr) as u128;
        m[4] += (x.wit != y.wit) as u128;
        m[5] += (x.shape != y.shape) as u128;
    }
    out.push(a.len() as u128);
    out.push(b.len() as u128);
    out.extend(m.iter());
    // roots (the last position of either walk)
    let (ra, rb) = (a.last().unwrap(), b.last().unwrap());
    out.push((ra.cmr != rb.cmr) as u128 + 2 * (ra.ihr != rb.ihr) as u128 + 4 * (ra.amr != rb.amr) as u128);
    // does the original DAG hold two distinct nodes with the same identity hash whose children have
    // different identity hashes?  (walk by address; child positions refer to the same walk)
    let p = walk(orig, false);
    let mut first: HashMap<[u8; 32], Vec<Option<[u8; 32]>>> = HashMap::new();
    let mut coll = 0u128;
    for o in &p {
        if let Some(ihr) = o.ihr {
            let kids: Vec<Option<[u8; 32]>> = match o.shape[0] {
                2..=5 | 9 => vec![child_id(&p, o.shape[1])],
                6..=8 | 10 => vec![child_id(&p, o.shape[1]), child_id(&p, o.shape[2])],
                _ => vec![],
            };
            match first.get(&ihr) {
                Some(k) if *k != kids => coll = 1,
                Some(_) => {}
                None => {
                    first.insert(ihr, kids);
                }
            }
        }
    }
    out.push(coll);
}

/// identity of a child position: IHR of a node, CMR of a hidden node
fn child_id(p: &[Obs], i: u128) -> Option<[u8; 32]> {
    let o = &p[i as usize];
    if o.shape[0] == 13 {
        Some(o.cmr)
    } else {
        o.ihr
    }
}

fn dnodes_of<N: Observe>(root: &Node<N>) -> Vec<u128> {
    let mut v = vec![];
    for o in walk(root, false) {
        v.extend(o.shape);
    }
    v
}

/// witness observations of the witness nodes of a walk, in order: <n> (<len> <observation>)*n
fn push_wobs<N: Observe>(root: &Node<N>, by_id: bool, out: &mut Vec<u128>) {
    let obs: Vec<Vec<u128>> = walk(root, by_id).into_iter().filter_map(|o| o.wobs).collect();
    out.push(obs.len() as u128);
    for o in obs {
        out.push(o.len() as u128);
        out.extend(o);
    }
}

fn c01_rt<J: Jet>(time: &str, pdl: &str, wspec: Option<&str>) -> Vec<u128> {
    let specs = prog::parse_prog(pdl);
    let mut out = vec![];
    if time == "c" {
        let orig = match commit_of(&specs) {
            Ok(p) => p,
            Err(e) => return vec![1, prog::err_code(&e)],
        };
        let bytes = orig.to_vec_without_witness();
        out.push(0);
        push_bytes(&mut out, &bytes);
        push_bytes(&mut out, &[]);
        match CommitNode::decode::<_, J>(BitIter::from(&bytes[..])) {
            Err(e) => out.extend(derr_triple(&e)),
            Ok(dec) => {
                out.push(0);
                compare(&orig, &dec, &mut out);
                let re = dec.to_vec_without_witness();
                out.push((re == bytes) as u128);
                out.push(1);
                let dn = dnodes_of(&dec);
                out.push(dn.len() as u128);
                out.extend(dn);
            }
        }
    } else {
        let built = match wspec {
            Some(w) => codec_wit::redeem_explicit(&specs, &codec_wit::parse_wspec(w)),
            None => prog::redeem(&specs, true),
        };
        let orig = match built {
            Ok(p) => p,
            Err(e) => return vec![1, prog::err_code(&e)],
        };
        let (pb, wb) = orig.to_vec_with_witness();
        out.push(0);
        push_bytes(&mut out, &pb);
        push_bytes(&mut out, &wb);
        match RedeemNode::decode::<_, _, J>(BitIter::from(&pb[..]), BitIter::from(&wb[..])) {
            Err(e) => out.extend(derr_triple(&e)),
            Ok(dec) => {
                out.push(0);
                compare(&orig, &dec, &mut out);
                let (rp, rw) = dec.to_vec_with_witness();
                out.push((rp == pb) as u128);
                out.push((rw == wb) as u128);
                let dn = dnodes_of(&dec);
                out.push(dn.len() as u128);
                out.extend(dn);
                // third party: libsimplicity decodes the same bytes (Elements family only) and computes the
                // same roots as the decoded program: 2 = not applicable, 1 = agrees, 0 = roots differ,
                // 10 + e = the C pipeline stopped (e = -SimplicityErr)
                out.push(c_roots::<J>(&pb, &wb, &dec));
                if wspec.is_some() {
                    push_wobs(&orig, true, &mut out);
                    push_wobs(&dec, false, &mut out);
                }
            }
        }
    }
    out
}

fn c01_rr<J: Jet>(pdl: &str, wspec: &str) -> Vec<u128> {
    let specs = prog::parse_prog(pdl);
    let orig = match codec_wit::redeem_explicit(&specs, &codec_wit::parse_wspec(wspec)) {
        Ok(p) => p,
        Err(e) => return vec![1, prog::err_code(&e)],
    };
    let (pb, wb) = orig.to_vec_with_witness();
    let dec = match RedeemNode::decode::<_, _, J>(BitIter::from(&pb[..]), BitIter::from(&wb[..])) {
        Ok(d) => d,
        Err(e) => {
            let mut v = vec![1];
            v.extend(derr_triple(&e));
            return v;
        }
    };
    let obs = walk(&dec, false);
    let mut out = vec![0, obs.len() as u128];
    for o in &obs {
        if o.shape[0] == 13 {
            out.push(5);
            out.extend(o.cmr.iter().map(|b| *b as u128));
        } else {
            out.push(1);
            out.extend(o.cmr.iter().map(|b| *b as u128));
            out.extend(o.ihr.unwrap().iter().map(|b| *b as u128));
            out.extend(o.amr.unwrap().iter().map(|b| *b as u128));
            out.push(4);
            out.extend(o.src.iter());
            out.extend(o.tgt.iter());
        }
    }
    // third party: the root values libsimplicity computes for the same bytes
    use simplicity::ffi::tests::{parse_root, run_program, TestUpTo};
    if std::any::TypeId::of::<J>() != std::any::TypeId::of::<Elements>() {
        out.push(2);
    } else {
        match run_program(&pb, &wb, TestUpTo::ComputeIhr, None, None) {
            Err(e) => out.push(10 + (-(e as i32)) as u128),
            Ok(o) => {
                out.push(1);
                out.extend(parse_root(&o.cmr.s).iter().map(|b| *b as u128));
                out.extend(parse_root(&o.ihr.s).iter().map(|b| *b as u128));
                out.extend(parse_root(&o.amr.s).iter().map(|b| *b as u128));
            }
        }
    }
    out
}

fn c_roots<J: Jet>(pb: &[u8], wb: &[u8], dec: &RedeemNode) -> u128 {
    use simplicity::ffi::tests::{parse_root, run_program, TestUpTo};
    if std::any::TypeId::of::<J>() != std::any::TypeId::of::<Elements>() {
        return 2;
    }
    match run_program(pb, wb, TestUpTo::ComputeIhr, None, None) {
        Err(e) => 10 + (-(e as i32)) as u128,
        Ok(o) => {
            let same = parse_root(&o.cmr.s) == dec.cmr().to_byte_array()
                && parse_root(&o.amr.s) == dec.amr().to_byte_array()
                && parse_root(&o.ihr.s) == dec.ihr().to_byte_array();
            same as u128
        }
    }
}

fn jetcodes<J: Jet>(all: &[J]) -> Vec<u128> {
    let mut out = vec![];
    for j in all {
        let mut sink = Vec::<u8>::new();
        let n = {
            let mut w: BitWriter<&mut dyn std::io::Write> = BitWriter::new(&mut sink);
            let n = j.encode(&mut w).expect("vec");
            w.flush_all().expect("vec");
            n
        };
        out.push(n as u128);
        for i in 0..n {
            out.push(((sink[i / 8] >> (7 - i % 8)) & 1) as u128);
        }
    }
    out
}

pub fn run_c01(t: &[&str]) -> String {
    let r = guarded(|| match t[0] {
        "rt" => {
            let wspec = t.get(4).copied();
            if t[2] == "c" {
                c01_rt::<Core>(t[1], t[3], wspec)
            } else {
                c01_rt::<Elements>(t[1], t[3], wspec)
            }
        }
        "rr" => {
            if t[1] == "c" {
                c01_rr::<Core>(t[2], t[3])
            } else {
                c01_rr::<Elements>(t[2], t[3])
            }
        }
        // cmr <pdl>: 0 <32 bytes> = commitment root of the expression (no type finalisation), or 1 <code>
        "cmr" => {
            let specs = prog::parse_prog(t[1]);
            types::Context::with_context(|ctx| match prog::build(&ctx, &specs, &|_| None) {
                Err(_) => vec![1, 11],
                Ok(nodes) => match nodes.last().unwrap() {
                    None => vec![1, 11],
                    Some(n) => {
                        let mut v = vec![0u128];
                        v.extend(n.cmr().to_byte_array().iter().map(|b| *b as u128));
                        v
                    }
                },
            })
        }
        "jetcodes" => {
            if t[1] == "c" {
                jetcodes(&Core::ALL)
            } else {
                jetcodes(&Elements::ALL)
            }
        }
        _ => panic!("kind"),
    });
    match r {
        Some(v) => join(&v),
        None => "9".to_string(),
    }
}

// ------------------------------------------------------------------------------------------------
// C02

const SLOW_MS: u128 = 10_000;

fn c02_dec<J: Jet>(pb: &[u8], wb: &[u8]) -> Vec<u128> {
    let mut out = vec![];
    let mut slow = 0u128;
    let alloc_base = crate::alloc_count::reset();
    // A: expression decoder (syntax, canonical order, hidden rules, construction-time typing, close)
    let t0 = Instant::now();
    let a = guarded(|| {
        types::Context::with_context(|ctx| match ConstructNode::decode::<_, J>(&ctx, BitIter::from(pb)) {
            Err(e) => dec_triple(&e),
            Ok(n) => {
                let dn = dnodes_of_construct(&n);
                let mut v = vec![0, dn.len() as u128];
                v.extend(dn);
                v
            }
        })
    });
    slow |= (t0.elapsed().as_millis() > SLOW_MS) as u128;
    out.extend(a.unwrap_or(vec![9, 0, 0]));
    // B: commitment-time decoder
    let t0 = Instant::now();
    let b = guarded(|| match CommitNode::decode::<_, J>(BitIter::from(pb)) {
        Err(e) => derr_triple(&e),
        Ok(n) => {
            let mut v = vec![0];
            push_bytes(&mut v, &n.to_vec_without_witness());
            v
        }
    });
    slow |= 2 * (t0.elapsed().as_millis() > SLOW_MS) as u128;
    out.extend(b.unwrap_or(vec![9, 0, 0]));
    // C: redemption-time decoder
    let t0 = Instant::now();
    let c = guarded(|| match RedeemNode::decode::<_, _, J>(BitIter::from(pb), BitIter::from(wb)) {
        Err(e) => derr_triple(&e),
        Ok(n) => {
            let (rp, rw) = n.to_vec_with_witness();
            let mut v = vec![0];
            push_bytes(&mut v, &rp);
            push_bytes(&mut v, &rw);
            v
        }
    });
    slow |= 4 * (t0.elapsed().as_millis() > SLOW_MS) as u128;
    out.extend(c.unwrap_or(vec![9, 0, 0]));
    out.insert(0, slow);
    // peak of additional live heap bytes during the three decoder calls (incl. re-encoding)
    out.push(crate::alloc_count::peak_since(alloc_base) as u128);
    out
}

/// dnode list of a decoded expression (construction-time node: no cached roots to observe)
fn dnodes_of_construct(root: &ConstructNode) -> Vec<u128> {
    let tracker: Tracker<node::Construct> = Tracker { by_id: false, map: HashMap::new() };
    let mut v = vec![];
    for item in EN::Node(root).post_order_iter_with_tracker(tracker) {
        v.extend(shape_of(&item.node, item.left_index, item.right_index));
    }
    v
}

/// The F-C02 family `case (take injl^n iden) (take injl^n (take iden))` assembled bit by bit with the
/// library's writer (same bytes as tools/props/codec_common.py bomb_dnodes + enc_prog; compared there).
fn deep_unify_bytes(n: usize) -> Vec<u8> {
    let mut sink = Vec::<u8>::new();
    {
        let mut w: BitWriter<&mut dyn std::io::Write> = BitWriter::new(&mut sink);
        let mut nat = |w: &mut BitWriter<&mut dyn std::io::Write>, k: usize| {
            simplicity::encode_natural(k, w).expect("vec");
        };
        nat(&mut w, 2 * n + 6);
        w.write_bits_be(0b01000, 5).unwrap(); // iden
        for _ in 0..n {
            w.write_bits_be(0b00100, 5).unwrap(); // injl 1
            nat(&mut w, 1);
        }
        w.write_bits_be(0b00110, 5).unwrap(); // take 1
        nat(&mut w, 1);
        w.write_bits_be(0b01000, 5).unwrap(); // iden
        w.write_bits_be(0b00110, 5).unwrap(); // take 1
        nat(&mut w, 1);
        for _ in 0..n {
            w.write_bits_be(0b00100, 5).unwrap();
            nat(&mut w, 1);
        }
        w.write_bits_be(0b00110, 5).unwrap(); // take 1
        nat(&mut w, 1);
        w.write_bits_be(0b00001, 5).unwrap(); // case (n + 4) 1
        nat(&mut w, n + 4);
        nat(&mut w, 1);
        w.flush_all().unwrap();
    }
    sink
}

pub fn run_c02(t: &[&str]) -> String {
    let v = match t[0] {
        "deepunify" => c02_dec::<Core>(&deep_unify_bytes(t[1].parse().unwrap()), &[]),
        "deepunifyhex" => {
            let mut v = vec![];
            push_bytes(&mut v, &deep_unify_bytes(t[1].parse().unwrap()));
            v
        }
        "dec" => {
            let pb = unhex(t[2]);
            let wb = unhex(t[3]);
            if t[1] == "c" {
                c02_dec::<Core>(&pb, &wb)
            } else {
                c02_dec::<Elements>(&pb, &wb)
            }
        }
        _ => vec![9],
    };
    join(&v)
}
