(* The routes of the public API that attach witness data and finalise (C12), as compositions of the
   model functions of Finalize.v and PruneProg.v, with the theorems about them.
     (a) ConstructNode::witness(ctx, Some(v)) ... finalize_unpruned            route_construct
         ... finalize_pruned(env) = finalize_unpruned + RedeemNode::prune      prune_witnesses
     (b) Forest::to_witness_node(ctx, map) + the same finalisers               route_named
     (c) RedeemNode::decode(program bits, witness bits)                        route_decode
   The value-list finaliser SimpleFinalizer is documented as unchecked and is not modelled. *)
From RS Require Import Lib.Tac Lib.Outcome Lib.Bits Ty.Ty Core.Prog Redeem.Finalize Redeem.PruneProg Redeem.PruneFix.
Import ListNotations.
Local Open Scope N_scope.

Definition route_construct (fixed : bool) (tp : typed_prog) : outcome ferr rprog :=
  finalize fixed tp src_construct.

Definition route_named (fixed : bool) (names : nat -> N) (m : wmap) (tp : typed_prog) : outcome ferr rprog :=
  finalize fixed tp (src_named names m).

Definition route_decode (targets : list ty) (stream : list bool) : outcome ferr (list cval) :=
  decode_stream targets stream.

(* ------------------------------------------------------------------ typedness *)

Theorem route_typed_construct tp p : route_construct true tp = Ok p -> all_wit_ok tp p.
Proof. apply finalize_typed. Qed.

Theorem route_typed_named names m tp p : route_named true names m tp = Ok p -> all_wit_ok tp p.
Proof. apply finalize_typed. Qed.

Theorem route_typed_decode targets stream cs :
  route_decode targets stream = Ok cs -> Forall2 (fun c t => wit_ok c t = true) cs targets.
Proof. apply decode_stream_typed. Qed.

(* ------------------------------------------------------------------ no panic *)

Definition no_panic {E A} (x : outcome E A) : Prop :=
  match x with Panic _ | OutOfFuel => False | _ => True end.

Theorem route_no_panic_construct fixed tp : no_panic (route_construct fixed tp).
Proof. apply finalize_total, src_construct_total. Qed.

Theorem route_no_panic_named fixed names m tp : no_panic (route_named fixed names m tp).
Proof. apply finalize_total, src_named_total. Qed.

Theorem route_no_panic_decode targets stream : no_panic (route_decode targets stream).
Proof. apply decode_stream_total. Qed.

(* ------------------------------------------------------------------ identity on typed witnesses *)

(* a witness that already has the target type of its node is returned unchanged *)
Theorem route_identity_on_typed tp p i ws ar c :
  route_construct true tp = Ok p ->
  nth_error tp i = Some (NWitness ws, Some ar) ->
  cval_of_spec ws (snd ar) = Ok (Some c) -> wit_ok c (snd ar) = true ->
  nth_error p i = Some (RWitness (CV (snd ar) (cv_val c))).
Proof.
  intros H Hi Hs Hok. unfold route_construct, finalize in H.
  destruct (finalize_from_nth _ _ _ _ _ _ H) as [_ Hn].
  destruct (Hn _ _ Hi) as (w & n & A & B & C). cbn in A. rewrite Hs in A. injection A as <-.
  cbn [finalize_node] in B. rewrite (convert_witness_identity _ _ Hok) in B. cbn in B.
  injection B as <-. exact C.
Qed.

Theorem route_named_identity_on_typed names m tp p i ws ar c :
  route_named true names m tp = Ok p ->
  nth_error tp i = Some (NWitness ws, Some ar) ->
  wmap_get m (names i) = Some c -> wit_ok c (snd ar) = true ->
  nth_error p i = Some (RWitness (CV (snd ar) (cv_val c))).
Proof.
  intros H Hi Hs Hok. unfold route_named, finalize in H.
  destruct (finalize_from_nth _ _ _ _ _ _ H) as [_ Hn].
  destruct (Hn _ _ Hi) as (w & n & A & B & C). unfold src_named in A. cbn in A. rewrite Hs in A. injection A as <-.
  cbn [finalize_node] in B. rewrite (convert_witness_identity _ _ Hok) in B. cbn in B.
  injection B as <-. exact C.
Qed.

(* a missing witness becomes the zero value of the target type *)
Theorem route_missing_is_zero tp p i ar :
  route_construct true tp = Ok p ->
  nth_error tp i = Some (NWitness WNone, Some ar) ->
  nth_error p i = Some (RWitness (value_zero (snd ar))).
Proof.
  intros H Hi. unfold route_construct, finalize in H.
  destruct (finalize_from_nth _ _ _ _ _ _ H) as [_ Hn].
  destruct (Hn _ _ Hi) as (w & n & A & B & C). cbn in A. injection A as <-.
  cbn in B. injection B as <-. exact C.
Qed.

(* ------------------------------------------------------------------ the witness pass of pruning *)

(* prune_with_tracker, Finalizer::convert_witness: the witness of every retained witness node is
   shrunk to the re-inferred target type; failure is the `expect` at redeem.rs:389 *)
Definition prune_witness (c : cval) (t' : ty) : outcome ferr cval :=
  match value_prune c t' with
  | Some c' => Ok c'
  | None => Panic 389
  end.

Fixpoint prune_witnesses_from (retarget : nat -> option ty) (i : nat) (rest : rprog) : outcome ferr rprog :=
  match rest with
  | [] => Ok []
  | n :: tl =>
      obind (match n, retarget i with
             | RWitness c, Some t' => omap RWitness (prune_witness c t')
             | _, _ => Ok n          (* other nodes; witness nodes that were dropped are not converted *)
             end) (fun n' =>
      obind (prune_witnesses_from retarget (S i) tl) (fun p => Ok (n' :: p)))
  end.

Definition prune_witnesses (retarget : nat -> option ty) (p : rprog) : outcome ferr rprog :=
  prune_witnesses_from retarget 0 p.

Lemma prune_witness_typed c t t' : wit_ok c t = true -> ty_le t' t = true ->
  exists c', prune_witness c t' = Ok c' /\ wit_ok c' t' = true.
Proof.
  unfold wit_ok. intros H Hle. apply andb_true_iff in H. destruct H as [_ H].
  destruct (sprune_typed _ _ _ H Hle) as (v' & Hs & Ht).
  exists (CV t' v'). unfold prune_witness, value_prune. rewrite Hs. cbn. split; [reflexivity|].
  unfold wit_ok, is_of_type. cbn. rewrite (proj2 (ty_eqb_eq t' t') eq_refl), Ht. reflexivity.
Qed.

(* if every witness is typed and the re-inferred targets are below the original ones, the witness
   pass of pruning does not panic and returns typed witnesses *)
Theorem prune_witnesses_typed tp retarget : forall p,
  all_wit_ok tp p ->
  (forall i t t', target_of tp i = Some t -> retarget i = Some t' -> ty_le t' t = true) ->
  exists p', prune_witnesses retarget p = Ok p' /\ length p' = length p /\
    forall i c', nth_error p' i = Some (RWitness c') ->
      match retarget i with
      | Some t' => wit_ok c' t' = true
      | None => nth_error p i = Some (RWitness c')
      end.
Proof.
  unfold prune_witnesses, all_wit_ok.
  assert (G : forall rest k,
    (forall i c, nth_error rest i = Some (RWitness c) -> exists t, target_of tp (k + i)%nat = Some t /\ wit_ok c t = true) ->
    (forall i t t', target_of tp i = Some t -> retarget i = Some t' -> ty_le t' t = true) ->
    exists p', prune_witnesses_from retarget k rest = Ok p' /\ length p' = length rest /\
      forall i c', nth_error p' i = Some (RWitness c') ->
        match retarget (k + i)%nat with
        | Some t' => wit_ok c' t' = true
        | None => nth_error rest i = Some (RWitness c')
        end).
  { induction rest as [|n tl IH]; intros k Hok Hle.
    - exists []. cbn. repeat split; auto. intros i c' H. destruct i; discriminate.
    - destruct (IH (S k)) as (p' & Hp & Hl & Hw).
      { intros i c Hi. specialize (Hok (S i) c Hi). rewrite Nat.add_succ_r in Hok. exact Hok. }
      { exact Hle. }
      cbn [prune_witnesses_from].
      assert (N : exists n', (match n, retarget k with
                   | RWitness c, Some t' => omap RWitness (prune_witness c t')
                   | _, _ => Ok n end) = Ok n' /\
                   forall c', n' = RWitness c' ->
                     match retarget k with Some t' => wit_ok c' t' = true | None => n = RWitness c' end).
      { destruct n; try (eexists; split; [reflexivity|intros c' E; discriminate]).
        destruct (retarget k) as [t'|] eqn:Er.
        - destruct (Hok 0%nat c eq_refl) as (t & Ht & Hc). rewrite Nat.add_0_r in Ht.
          destruct (prune_witness_typed _ _ _ Hc (Hle _ _ _ Ht Er)) as (c1 & Hp1 & Hc1).
          exists (RWitness c1). rewrite Hp1. cbn. split; [reflexivity|]. intros c' E. injection E as <-. exact Hc1.
        - exists (RWitness c). split; [reflexivity|]. intros c' E. exact E. }
      destruct N as (n' & Hn' & Hn'w). rewrite Hn'. cbn [obind]. rewrite Hp. cbn [obind].
      exists (n' :: p'). repeat split; [cbn; congruence|].
      intros i c' Hi. destruct i as [|i].
      + cbn in Hi. injection Hi as Hi. rewrite Nat.add_0_r. specialize (Hn'w _ Hi).
        destruct (retarget k); [exact Hn'w|]. cbn. rewrite Hn'w. reflexivity.
      + cbn in Hi. specialize (Hw _ _ Hi). rewrite Nat.add_succ_r. exact Hw. }
  intros p Hok Hle. destruct (G p 0%nat) as (p' & A & B & C); auto.
  exists p'. repeat split; auto.
Qed.

(* ------------------------------------------------------------------ the code before the fix *)

(* the witness of finding F-C12: a 16-bit word attached where 2^8 is inferred
     main := comp (comp (pair (const 0b0) unit) (case (comp unit wit) (comp unit (const 0x07)))) unit *)
Definition u16_bits : list bool :=
  [false;false;false;true; false;false;true;false; false;false;true;true; false;true;false;false].

Definition old_witness_prog : typed_prog :=
  [ (NWord 0 [false], Some (One, Sum One One));
    (NUnit, Some (One, One));
    (NPair 0 1, Some (One, Prod (Sum One One) One));
    (NUnit, Some (Prod One One, One));
    (NWitness (WTyped (word_ty 4) u16_bits), Some (One, word_ty 3));
    (NComp 3 4, Some (Prod One One, word_ty 3));
    (NUnit, Some (Prod One One, One));
    (NWord 3 [false;false;false;false;false;true;true;true], Some (One, word_ty 3));
    (NComp 6 7, Some (Prod One One, word_ty 3));
    (NCase 5 8, Some (Prod (Sum One One) One, word_ty 3));
    (NComp 2 9, Some (One, word_ty 3));
    (NUnit, Some (word_ty 3, One));
    (NComp 10 11, Some (One, One)) ].

(* before the fix the route returned a program with an ill-typed witness *)
Theorem route_typed_old_refuted :
  exists tp p, route_construct false tp = Ok p /\ ~ all_wit_ok tp p.
Proof.
  exists old_witness_prog.
  destruct (route_construct false old_witness_prog) as [p| | |] eqn:E; try (vm_compute in E; discriminate).
  exists p. split; [reflexivity|]. intros H.
  assert (W : exists c, nth_error p 4 = Some (RWitness c) /\ cv_ty c = word_ty 4).
  { vm_compute in E. injection E as <-. eexists. split; reflexivity. }
  destruct W as (c & Hc & Hty). destruct (H _ _ Hc) as (t & Ht & Hok).
  vm_compute in Ht. injection Ht as <-. unfold wit_ok, is_of_type in Hok. rewrite Hty in Hok.
  vm_compute in Hok. discriminate.
Qed.

(* the same input is refused by the code as it is now *)
Example route_old_witness_now : route_construct true old_witness_prog = Err FType.
Proof. vm_compute. reflexivity. Qed.

(* an ill-typed witness is written with the wrong width, and the witness pass of pruning panics on it *)
Example old_witness_width :
  forall v, of_compact (word_ty 4) u16_bits = Some (v, []) ->
  length (padded_enc (word_ty 4) v) = 16%nat /\ N.to_nat (width (word_ty 3)) = 8%nat /\
  prune_witness (CV (word_ty 4) v) (word_ty 3) = Panic 389.
Proof.
  intros v H. vm_compute in H. injection H as <-. vm_compute. auto.
Qed.

(* ------------------------------------------------------------------ twins: the identity-class tracker *)

(* Two distinct case nodes with the same identity class (same IHR): node 2 runs left, node 5 runs
   right.  The tracker, keyed by the class, reports both sides for both nodes, so neither is pruned:
   node 1 (right branch of node 2) stays in the program without having been executed. *)
Definition twin_prog : rprog :=
  [ RUnit; RUnit; RCase 0 1;            (* A1 B1 c1 *)
    RUnit; RUnit; RCase 3 4;            (* A2 B2 c2 *)
    RWitness (CV (Prod (Sum One One) One) (SP (SL SU) SU));
    RWitness (CV (Prod (Sum One One) One) (SP (SR SU) SU));
    RComp 6 2; RComp 7 5; RPair 8 9 ].
Definition twin_ident (i : nat) : nat :=
  match i with 3 => 0 | 4 => 1 | 5 => 2 | _ => i end%nat.

Definition sym_hashes : hashes :=
  Hashes [] [] [] (fun x => x) (fun x => x) (fun x => x) (fun x => x) (fun x => x) (fun x => x)
         (fun x y => x ++ y) (fun x y => x ++ y) (fun x y => x ++ y) (fun _ _ => []) (fun _ _ => []).
Definition sym_run (p : rprog) := run sym_hashes (fun _ _ _ => None) (fun _ => SU) p.
Definition sym_prune (ident : nat -> nat) (p : rprog) (E : list event) := prune_struct sym_hashes ident p E.

Theorem prune_all_executed_twins_refuted :
  exists p ident o E, sym_run p = Ok (o, E) /\
    reach (sym_prune ident p E) (length p - 1) 1 /\ ~ executed E 1 /\
    nth_error (sym_prune ident p E) 2 = Some (RCase 0 1) /\ ~ In (2%nat, Some true) E.
Proof.
  exists twin_prog, twin_ident.
  destruct (sym_run twin_prog) as [[o E]| | |] eqn:R; try (vm_compute in R; discriminate).
  exists o, E. split; [reflexivity|]. vm_compute in R. injection R as <- <-.
  repeat split.
  - eapply reach_step with (k := 2%nat) (n := RCase 0 1); [|vm_compute; reflexivity|right; left; reflexivity].
    eapply reach_step with (k := 8%nat) (n := RComp 6 2); [|vm_compute; reflexivity|right; left; reflexivity].
    eapply reach_step with (k := 10%nat) (n := RPair 8 9); [|vm_compute; reflexivity|left; reflexivity].
    apply reach_refl.
  - intros [s H]. cbn in H. repeat (destruct H as [H|H]; [discriminate|]). exact H.
  - intros H. cbn in H. repeat (destruct H as [H|H]; [discriminate|]). exact H.
Qed.

(* One pass is not a fixed point for this program: once the twins are told apart (after re-typing they
   have different IHRs; here: the identity as classes) another pass prunes both of them, and then
   nothing changes any more.  This is what RedeemNode::prune does since commit 5d14513. *)
Theorem prune_one_pass_refuted_twins :
  exists p ident o E, sym_run p = Ok (o, E) /\
    sym_prune (fun i => i) (sym_prune ident p E) E <> sym_prune ident p E /\
    let q := prune_rounds sym_hashes [ident; fun i => i] p E in
    sym_prune (fun i => i) q E = q /\
    nth_error q 2 = Some (RAssertL 0 []) /\ nth_error q 5 = Some (RAssertR [] 4).
Proof.
  exists twin_prog, twin_ident.
  destruct (sym_run twin_prog) as [[o E]| | |] eqn:R; try (vm_compute in R; discriminate).
  exists o, E. split; [reflexivity|]. vm_compute in R. injection R as <- <-.
  split; [intros H; vm_compute in H; discriminate|].
  vm_compute. auto.
Qed.
