(* Executable entry points of the three-way parts of the C03 / C06 checks (phase 2).
     run_ref   the reference verdict, roots and costs of a (program bytes, witness bytes) pair
     (run_sem, the big-step verdict of a Core-jet program, is in Cdiff/EvalRef.v) *)
From RS Require Import Lib.Tac Lib.Outcome Ty.Ty Core.Prog Cdiff.CostRef Cdiff.Reference.
Import ListNotations.
Local Open Scope N_scope.

Definition b2N (b : bool) : N := if b then 1 else 0.

(* 0 <has fail> <cmr 32> <amr 32> <ihr 32> <rust cost | 4294967296 + code when the Rust-shaped formula
     panics> <C cost> <ideal cost clipped at 2^32-1> <cost by Core/Bounds.v> <number of table entries>
   1 <class>
   8 <code>           internal error of the reference (never) *)
Definition run_ref (pb wb : list N) : list N :=
  match reference pb wb with
  | VAccept a =>
      [0; b2N (a_has_fail a)] ++ a_cmr a ++ a_amr a ++ a_ihr a ++
      [match k_rust (a_costs a) with Ok c => c | Panic c => two32 + c | _ => two32 end;
       k_c (a_costs a); N.min (k_ideal (a_costs a)) u32_max; k_core (a_costs a);
       N.of_nat (length (a_nodes a))]
  | VReject c => [1; c]
  | VInternal c => [8; c]
  end.
