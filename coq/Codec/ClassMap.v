(* C01 - the sharing quotient map of a post-order iteration, on C18's specification.
   For sharing ids that are present on every reachable node and congruent (nodes with the same id have the
   same arity and pairwise children that are the same node or carry the same id - what an identity hash that
   commits to the children's identity hashes guarantees, and what fails for the twins of finding F-C01):
     class_idx x          = the index of the item yielded for the class of x
     class_idx_item       the i-th item's node is mapped to i            (onto)
     class_idx_reach      every reachable node is mapped to an item of its class
     item_children        an item's child indices are the images of its node's children
     class_children       nodes of the same class have pairwise equal images of their children
   Uses C18: po_spec_inv (tracker invariant), po_children, po_covers_reachable, po_only_reachable. *)
From RS Require Import Lib.Tac Lib.Outcome Dag.DagModel Dag.PostOrderSpec Dag.PostOrderProps Dag.VisitFacts Dag.Coverage.
Import ListNotations.
Local Open Scope N_scope.

Section ClassMap.
Variable children : nat -> dagnode.
Variable key : nat -> option N.
Variable root : nat.
Hypothesis Hwf : wfc children.
Hypothesis Hcong : key_congruent children key.
Hypothesis Htot : forall x, reach children root x -> key x <> None.

Definition cm_all := po_spec children key root.
Definition cm_trk := r_trk (visit children key (S root) root 0 []).

Definition class_idx (x : nat) : nat :=
  match key x with
  | Some k => match tm_get cm_trk k with Some j => N.to_nat j | None => 0%nat end
  | None => 0%nat
  end.

Lemma cm_inv : inv children key cm_trk cm_all.
Proof. exact (proj1 (po_spec_inv children key Hwf root)). Qed.

Lemma class_idx_key x y : key x = key y -> class_idx x = class_idx y.
Proof. unfold class_idx. intros ->. reflexivity. Qed.

Lemma item_reach it : In it cm_all -> reach children root (it_node it).
Proof. apply (po_only_reachable children key Hwf root). Qed.

Lemma class_idx_item i it : nth_error cm_all i = Some it -> class_idx (it_node it) = i.
Proof.
  intros E. pose proof (item_reach it (nth_error_In _ _ E)) as Hr. pose proof (Htot _ Hr) as Hk.
  unfold class_idx. destruct (key (it_node it)) as [k|] eqn:Ek; [|congruence].
  destruct (inv_complete _ _ _ _ cm_inv it k (nth_error_In _ _ E) Ek) as (j & Hj). rewrite Hj.
  destruct (inv_sound _ _ _ _ cm_inv k j Hj) as (it' & Hi' & Hk').
  unfold item_at in Hi'. exact (inv_once _ _ _ _ cm_inv _ _ _ _ k Hi' E Hk' Ek).
Qed.

Lemma class_idx_reach x : reach children root x ->
  exists it, nth_error cm_all (class_idx x) = Some it /\ key (it_node it) = key x.
Proof.
  intros Hr. pose proof (Htot _ Hr) as Hk.
  destruct (po_covers_reachable children key Hwf Hcong root x Hr) as (it0 & Hin0 & Hc0).
  unfold same_class in Hc0. unfold class_idx. destruct (key x) as [k|] eqn:Ek; [|congruence].
  destruct (inv_complete _ _ _ _ cm_inv it0 k Hin0 Hc0) as (j & Hj). rewrite Hj.
  destruct (inv_sound _ _ _ _ cm_inv k j Hj) as (it & Hi & Hkk). exists it. split; [exact Hi|exact Hkk].
Qed.

(* a child index reported by an item is the image of the child *)
Lemma child_ok_idx idx oc oi : child_ok key cm_all idx oc oi ->
  (match oc with Some c => reach children root c | None => True end) ->
  oi = option_map (fun c => N.of_nat (class_idx c)) oc.
Proof.
  unfold child_ok. destruct oc as [c|], oi as [j|]; try contradiction; [|reflexivity].
  intros (_ & it' & Hi' & Hc) Hr. cbn [option_map]. f_equal.
  unfold item_at in Hi'. pose proof (class_idx_item _ _ Hi') as E.
  pose proof (Htot _ Hr) as Hk. unfold same_class in Hc. destruct (key c) as [k|] eqn:Ek; [|congruence].
  rewrite (class_idx_key c (it_node it')) by congruence. rewrite E. lia.
Qed.

Lemma item_children i it : nth_error cm_all i = Some it ->
  it_left it = option_map (fun c => N.of_nat (class_idx c)) (left_child_of (children (it_node it))) /\
  it_right it = option_map (fun c => N.of_nat (class_idx c)) (right_child_of (children (it_node it))).
Proof.
  intros E. pose proof (item_reach it (nth_error_In _ _ E)) as Hr.
  destruct (po_children children key Hwf root it (nth_error_In _ _ E)) as [Hl Hrr].
  split; eapply child_ok_idx; try eassumption.
  - destruct (left_child_of (children (it_node it))) as [c|] eqn:Ec; [|exact I].
    eapply reach_trans; [exact Hr|]. eapply reach_step; [left; exact Ec|apply reach_refl].
  - destruct (right_child_of (children (it_node it))) as [c|] eqn:Ec; [|exact I].
    eapply reach_trans; [exact Hr|]. eapply reach_step; [right; exact Ec|apply reach_refl].
Qed.

Lemma item_child_lt i it : nth_error cm_all i = Some it ->
  (forall j, it_left it = Some j -> j < N.of_nat i) /\ (forall j, it_right it = Some j -> j < N.of_nat i).
Proof.
  intros E. destruct (po_children children key Hwf root it (nth_error_In _ _ E)) as [Hl Hr].
  rewrite (po_indices children key Hwf root i it E) in Hl, Hr. unfold child_ok in Hl, Hr.
  split; intros j Ej; [rewrite Ej in Hl; destruct (left_child_of _)|rewrite Ej in Hr; destruct (right_child_of _)];
    try contradiction; tauto.
Qed.

Lemma ceq_idx x y : ceq key x y -> class_idx x = class_idx y.
Proof. intros [->|(k & Hx & Hy)]; [reflexivity|]. apply class_idx_key. congruence. Qed.

Lemma class_children x y : key x = key y -> key x <> None ->
  option_map class_idx (left_child_of (children x)) = option_map class_idx (left_child_of (children y)) /\
  option_map class_idx (right_child_of (children x)) = option_map class_idx (right_child_of (children y)).
Proof.
  intros E Hk. destruct (key x) as [k|] eqn:Ek; [|congruence].
  pose proof (Hcong x y k Ek (eq_sym E)) as S. unfold shape_cong in S.
  destruct (children x) as [|a|a b], (children y) as [|c|c d]; try contradiction; cbn [left_child_of right_child_of option_map].
  - auto.
  - rewrite (ceq_idx _ _ S). auto.
  - destruct S as [S1 S2]. rewrite (ceq_idx _ _ S1), (ceq_idx _ _ S2). auto.
Qed.

End ClassMap.
