#!/usr/bin/env python3
"""Helper of xlate_jets.py: line-oriented parser of the machine-generated jet family files
/repo/src/jet/init/{core,elements,bitcoin}.rs.  Every line of the file must be consumed by the
pattern expected at that point; anything else raises TranslateError (fail closed)."""
import re


class TranslateError(Exception):
    pass


class Lines:
    def __init__(self, path):
        self.path = path
        self.ls = open(path).read().split("\n")
        self.i = 0

    def peek(self):
        if self.i >= len(self.ls):
            raise TranslateError("%s: unexpected end of file" % self.path)
        return self.ls[self.i]

    def at_end(self):
        return self.i >= len(self.ls) or all(l.strip() == "" for l in self.ls[self.i:])

    def fail(self, what):
        raise TranslateError("%s:%d: expected %s, found %r" % (self.path, self.i + 1, what, self.peek()[:160]))

    def expect(self, pattern, what=None):
        m = re.fullmatch(pattern, self.peek())
        if not m:
            self.fail(what or "line matching /%s/" % pattern)
        self.i += 1
        return m

    def accept(self, pattern):
        if self.i < len(self.ls):
            m = re.fullmatch(pattern, self.ls[self.i])
            if m:
                self.i += 1
                return m
        return None

    def skip_blank(self):
        while self.i < len(self.ls) and self.ls[self.i].strip() == "":
            self.i += 1


IDENT = r"[A-Za-z][A-Za-z0-9_]*"


def _num(s):
    return int(s.replace("_", ""), 0)


def parse_family(path, fam, expected_count):
    """fam: 'Core' | 'Elements' | 'Bitcoin'.  Returns a dict:
       variants [names in enum order], all [names in ALL order], all_len (declared array length),
       cmr {variant: [32 bytes]} | None, src/tgt {variant: str}, code {variant: (n, len)},
       tree (nested: None invalid | ('J', variant) | ('N', t0, t1)), cost {variant: int} | None,
       display {variant: str}, fromstr [(str, variant)] in source order, cptr {variant: str} | None,
       env_type (the C environment parameter type of c_jet_ptr)."""
    L = Lines(path)
    out = {"family": fam, "path": path}
    L.expect(r"/\* This file has been automatically generated\. \*/")
    L.skip_blank()
    while L.accept(r"use [A-Za-z0-9_:{}, ]+;"):
        pass
    L.skip_blank()
    L.expect(r"/// The %s jet family\." % fam)
    L.expect(r"#\[derive\(Copy, Clone, PartialEq, Eq, PartialOrd, Ord, Debug, Hash\)\]")
    L.expect(r"pub enum %s \{" % fam)
    variants = []
    while True:
        m = L.accept(r"    (%s)," % IDENT)
        if not m:
            break
        variants.append(m.group(1))
    L.expect(r"\}")
    if len(set(variants)) != len(variants):
        raise TranslateError("%s: duplicate enum variant" % path)
    if len(variants) != expected_count:
        raise TranslateError("%s: %d enum variants, expected %d" % (path, len(variants), expected_count))
    out["variants"] = variants
    vset = set(variants)
    L.skip_blank()
    L.expect(r"impl %s \{" % fam)
    L.expect(r"    /// Array of all %s jets\." % fam)
    m = L.expect(r"    pub const ALL: \[Self; (\d+)\] = \[")
    out["all_len"] = int(m.group(1))
    allv = []
    while True:
        m = L.accept(r"        Self::(%s)," % IDENT)
        if not m:
            break
        allv.append(m.group(1))
    L.expect(r"    \];")
    L.expect(r"\}")
    out["all"] = allv
    if out["all_len"] != expected_count or len(allv) != expected_count:
        raise TranslateError("%s: ALL has %d entries (declared %d), expected %d" % (path, len(allv), out["all_len"], expected_count))
    for v in allv:
        if v not in vset:
            raise TranslateError("%s: ALL mentions unknown variant %s" % (path, v))
    L.skip_blank()
    L.expect(r"impl Jet for %s \{" % fam)
    L.skip_blank()

    def arms(pattern, what, close):
        """pattern has the variant as group 1; returns dict in source order; exactly one arm per variant."""
        d = {}
        while True:
            m = L.accept(pattern)
            if not m:
                break
            v = m.group(1)
            if v not in vset:
                raise TranslateError("%s:%d: %s arm for unknown variant %s" % (path, L.i, what, v))
            if v in d:
                raise TranslateError("%s:%d: second %s arm for %s" % (path, L.i, what, v))
            d[v] = m.groups()[1:]
        L.expect(close, "end of the %s match (%s)" % (what, close))
        missing = [v for v in variants if v not in d]
        if missing:
            raise TranslateError("%s: %s match has no arm for %s" % (path, what, missing[:5]))
        return d

    # ---- cmr
    L.expect(r"    fn cmr\(&self\) -> Cmr \{")
    if L.accept(r"        unimplemented!\(\"[^\"]*\"\)"):
        out["cmr"] = None
        L.expect(r"    \}")
    else:
        L.expect(r"        let bytes = match self \{")
        cmr = {}
        while True:
            m = L.accept(r"            %s::(%s) => \[" % (fam, IDENT))
            if not m:
                break
            v = m.group(1)
            if v not in vset or v in cmr:
                raise TranslateError("%s:%d: bad cmr arm %s" % (path, L.i, v))
            bs = []
            while True:
                m2 = L.accept(r"                ((?:0x[0-9a-f]{2}, )*0x[0-9a-f]{2}),")
                if not m2:
                    break
                bs += [int(x, 16) for x in m2.group(1).split(", ")]
            L.expect(r"            \],")
            if len(bs) != 32:
                raise TranslateError("%s:%d: cmr of %s has %d bytes" % (path, L.i, v, len(bs)))
            cmr[v] = bs
        L.expect(r"        \};")
        missing = [v for v in variants if v not in cmr]
        if missing:
            raise TranslateError("%s: cmr match has no arm for %s" % (path, missing[:5]))
        L.skip_blank()
        L.expect(r"        Cmr::from_byte_array\(bytes\)")
        L.expect(r"    \}")
        out["cmr"] = cmr
    L.skip_blank()

    # ---- source_ty / target_ty
    for key, fn in (("src", "source_ty"), ("tgt", "target_ty")):
        L.expect(r"    fn %s\(&self\) -> TypeName \{" % fn)
        L.expect(r"        let name: &'static \[u8\] = match self \{")
        d = arms(r"            %s::(%s) => b\"([^\"\\]*)\"," % (fam, IDENT), fn, r"        \};")
        L.skip_blank()
        L.expect(r"        TypeName\(name\)")
        L.expect(r"    \}")
        L.skip_blank()
        out[key] = {v: g[0] for v, g in d.items()}

    # ---- encode
    L.expect(r"    fn encode\(&self, w: &mut BitWriter<&mut dyn Write>\) -> std::io::Result<usize> \{")
    L.expect(r"        let \(n, len\) = match self \{")
    d = arms(r"            %s::(%s) => \(([0-9_]+), ([0-9_]+)\)," % (fam, IDENT), "encode", r"        \};")
    out["code"] = {v: (_num(g[0]), _num(g[1])) for v, g in d.items()}
    L.skip_blank()
    L.expect(r"        w\.write_bits_be\(n, len\)")
    L.expect(r"    \}")
    L.skip_blank()

    # ---- decode tree
    L.expect(r"    fn decode<I: Iterator<Item = u8>>\(bits: &mut BitIter<I>\) -> Result<Self, decode::Error> where Self: Sized \{")
    L.expect(r"        decode_bits!\(bits, \{")

    def node(depth):
        """parses `0 => X,` `1 => X` and returns ('N', t0, t1); the opening brace was consumed"""
        ts = []
        for b in (0, 1):
            ind = " " * (12 + 4 * depth)
            comma = "," if b == 0 else ""
            m = L.accept(r"%s%d => \{(?:%s::(%s))?\}%s" % (ind, b, fam, IDENT, comma))
            if m:
                if m.group(1) is None:
                    ts.append(None)
                else:
                    if m.group(1) not in vset:
                        raise TranslateError("%s:%d: decode tree mentions unknown variant %s" % (path, L.i, m.group(1)))
                    ts.append(("J", m.group(1)))
                continue
            L.expect(r"%s%d => \{" % (ind, b), "branch %d of a decode_bits! node" % b)
            t = node(depth + 1)
            L.expect(r"%s\}%s" % (ind, comma))
            ts.append(t)
        return ("N", ts[0], ts[1])

    out["tree"] = node(0)
    L.expect(r"        \}\)")
    L.expect(r"    \}")
    L.skip_blank()

    # ---- cost
    L.expect(r"    fn cost\(&self\) -> Cost \{")
    if L.accept(r"        unimplemented!\(\"[^\"]*\"\)"):
        out["cost"] = None
    else:
        L.expect(r"        match self \{")
        d = arms(r"            %s::(%s) => Cost::from_milliweight\(([0-9_]+)\)," % (fam, IDENT), "cost", r"        \}")
        out["cost"] = {v: _num(g[0]) for v, g in d.items()}
    L.expect(r"    \}")
    L.skip_blank()
    L.expect(r"    fn parse\(s: &str\) -> Result<Self, crate::Error> where Self: Sized \{")
    L.expect(r"        str::FromStr::from_str\(s\)")
    L.expect(r"    \}")
    L.expect(r"\}")
    L.skip_blank()

    # ---- Display
    L.expect(r"impl fmt::Display for %s \{" % fam)
    L.expect(r"    fn fmt\(&self, f: &mut fmt::Formatter\) -> fmt::Result \{")
    L.expect(r"        match self \{")
    d = arms(r"            %s::(%s) => f\.write_str\(\"([a-z0-9_]*)\"\)," % (fam, IDENT), "Display", r"        \}")
    out["display"] = {v: g[0] for v, g in d.items()}
    L.expect(r"    \}")
    L.expect(r"\}")
    L.skip_blank()

    # ---- FromStr (string keys; the first matching arm wins in Rust, so keep source order and duplicates)
    L.expect(r"impl str::FromStr for %s \{" % fam)
    L.expect(r"    type Err = crate::Error;")
    L.skip_blank()
    L.expect(r"    fn from_str\(s: &str\) -> Result<Self, Self::Err> \{")
    L.expect(r"        match s \{")
    fs = []
    while True:
        m = L.accept(r"            \"([a-z0-9_]*)\" => Ok\(%s::(%s)\)," % (fam, IDENT))
        if not m:
            break
        if m.group(2) not in vset:
            raise TranslateError("%s:%d: FromStr arm for unknown variant %s" % (path, L.i, m.group(2)))
        fs.append((m.group(1), m.group(2)))
    L.expect(r"            x => Err\(crate::Error::InvalidJetName\(x\.to_owned\(\)\)\),")
    L.expect(r"        \}")
    L.expect(r"    \}")
    L.expect(r"\}")
    out["fromstr"] = fs
    L.skip_blank()

    # ---- c_jet_ptr
    m = L.expect(r"pub\(crate\) fn c_jet_ptr\(jet: &%s\) -> fn\(&mut CFrameItem, CFrameItem, &(\(\)|%s)\) -> bool \{" % (fam, IDENT))
    out["env_type"] = m.group(1)
    if L.accept(r"        unimplemented!\(\"[^\"]*\"\)"):
        out["cptr"] = None
    else:
        L.expect(r"    match jet \{")
        d = arms(r"        %s::(%s) => simplicity_sys::c_jets::jets_wrapper::([a-z0-9_]+)," % (fam, IDENT), "c_jet_ptr", r"    \}")
        out["cptr"] = {v: g[0] for v, g in d.items()}
    L.expect(r"\}")
    if not L.at_end():
        L.fail("end of file")
    return out


def check_decode_macro(path):
    """The three rules of decode_bits! must have exactly the shape the model in Jets/JetTable.v mirrors."""
    txt = open(path).read()
    m = re.search(r"macro_rules! decode_bits \{(.*?)\n\}\n", txt, re.S)
    if not m:
        raise TranslateError("%s: macro decode_bits! not found" % path)
    body = re.sub(r"\s+", " ", m.group(1)).strip()
    want = ("($bits:ident, {}) => { Err($crate::decode::Error::InvalidJet.into()) }; "
            "($bits:ident, {$jet:path}) => { Ok($jet) }; "
            "($bits:ident, { 0 => $false_branch:tt, 1 => $true_branch:tt }) => { match $bits.next() { "
            "None => Err($crate::decode::Error::EndOfStream.into()), "
            "Some(false) => decode_bits!($bits, $false_branch), "
            "Some(true) => decode_bits!($bits, $true_branch), } };")
    if body != want:
        raise TranslateError("%s: decode_bits! no longer has the modelled shape:\n%s" % (path, body))


def check_type_name(path):
    """The base-type table of TypeName::{to_final, tmr, to_bit_width} (three copies of one loop).
    Returns {char: (log2 of width | None for unit, width)} after checking that the three loops agree."""
    txt = open(path).read()
    fin = re.findall(r"b'(.)' => stack\.push\(Final::(unit\(\)|two_two_n_fixed::<(\d+)>\(\))\),", txt)
    tmr = re.findall(r"b'(.)' => stack\.push\(Tmr::(unit\(\)|TWO_TWO_N\[(\d+)\])\),", txt)
    wid = re.findall(r"b'(.)' => stack\.push\((\d+)\),", txt)
    if not fin or len(fin) != len(tmr) or len(fin) != len(wid):
        raise TranslateError("%s: base-type arms of to_final/tmr/to_bit_width not recognised" % path)
    table = {}
    for (c1, u1, n1), (c2, u2, n2), (c3, w) in zip(fin, tmr, wid):
        if c1 != c2 or c1 != c3:
            raise TranslateError("%s: base-type arms are in different orders" % path)
        lg1 = None if u1 == "unit()" else int(n1)
        lg2 = None if u2 == "unit()" else int(n2)
        if lg1 != lg2:
            raise TranslateError("%s: to_final and tmr disagree on %r" % (path, c1))
        table[c1] = (lg1, int(w))
    # operators: sum and product, each popping left then right
    for fn, s, p in (("Final", r"Final::sum\(left, right\)", r"Final::product\(left, right\)"),
                     ("Tmr", r"Tmr::sum\(left, right\)", r"Tmr::product\(left, right\)"),
                     ("width", r"1 \+ cmp::max\(left, right\)", r"left \+ right")):
        if not re.search(r"b'\+' => stack\.push\(%s\)," % s, txt) or not re.search(r"b'\*' => stack\.push\(%s\)," % p, txt):
            raise TranslateError("%s: operator arms of the %s loop changed" % (path, fn))
    if len(re.findall(r"for c in self\.0\.iter\(\)\.rev\(\) \{", txt)) != 3:
        raise TranslateError("%s: expected three reversed loops" % path)
    if len(re.findall(r"let left = stack\.pop\(\)\.expect\(\"Illegal type name syntax!\"\);\s*let right = stack\.pop\(\)\.expect\(\"Illegal type name syntax!\"\);", txt)) != 3:
        raise TranslateError("%s: pop order changed" % path)
    if len(re.findall(r"if stack\.len\(\) == 1 \{\s*stack\.pop\(\)\.unwrap\(\)\s*\} else \{\s*panic!\(\"Illegal type name syntax!\"\)\s*\}", txt)) != 3:
        raise TranslateError("%s: final stack test changed" % path)
    return table
