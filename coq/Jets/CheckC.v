(* C14: the Rust Elements table against the C tables of libsimplicity, Core against Elements, and the
   binding chain jet -> jets_wrapper -> extern fn -> WRAP_ -> C jet.  Finite checks by vm_compute over the
   complete generated tables. *)
From RS Require Import Lib.Tac Lib.Outcome Lib.Bits Lib.Sweep Ty.Ty Jets.TypeName Jets.JetTable Jets.JetLemmas
  Generated.Jets_core Generated.Jets_elements Generated.CJets_elements Generated.Ffi.
From Coq Require Import String.
Import ListNotations.
Local Open Scope N_scope.

Lemma c_rows_length : List.length (ct_rows c_tables) = 471%nat.
Proof. vm_compute. reflexivity. Qed.

Lemma c_idx_b : c_idx_ok c_tables = true.
Proof. vm_compute. reflexivity. Qed.

Lemma c_table : List.length (ct_rows c_tables) = 471%nat /\ map cj_idx (ct_rows c_tables) = upto 471.
Proof.
  split; [exact c_rows_length|]. pose proof c_idx_b as H. unfold c_idx_ok in H.
  apply list_beq_N in H. rewrite c_rows_length in H. exact H.
Qed.

Lemma elements_c_b : forallb (rust_c_ok c_tables) (f_rows elements_family) = true.
Proof. vm_compute. reflexivity. Qed.

Lemma elements_c : forall j, In j (f_rows elements_family) -> rust_c_agree c_tables j.
Proof.
  intros j Hj. pose proof elements_c_b as H. rewrite forallb_forall in H. apply rust_c_lift, H, Hj.
Qed.

Lemma core_elements_b : forallb (core_elements_ok elements_family) (f_rows core_family) = true.
Proof. vm_compute. reflexivity. Qed.

Lemma core_elements : forall j, In j (f_rows core_family) -> core_elements_agree elements_family j.
Proof.
  intros j Hj. pose proof core_elements_b as H. rewrite forallb_forall in H. apply core_elements_lift, H, Hj.
Qed.

Lemma elements_chain_b :
  forallb (fun j => chain_ok ffi_tables j && c_fn_ok c_tables j) (f_rows elements_family) = true.
Proof. vm_compute. reflexivity. Qed.

Lemma elements_bindings : forall j, In j (f_rows elements_family) ->
  chain ffi_tables j /\ c_fn_agree c_tables j.
Proof.
  intros j Hj. pose proof elements_chain_b as H. rewrite forallb_forall in H. specialize (H j Hj).
  apply andb_true_iff in H. destruct H. split; [apply chain_lift|apply c_fn_lift]; assumption.
Qed.

Lemma core_chain_b : forallb (chain_ok ffi_tables) (f_rows core_family) = true.
Proof. vm_compute. reflexivity. Qed.

Lemma core_bindings : forall j, In j (f_rows core_family) -> chain ffi_tables j.
Proof.
  intros j Hj. pose proof core_chain_b as H. rewrite forallb_forall in H. apply chain_lift, H, Hj.
Qed.
