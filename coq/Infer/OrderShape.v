(* C04, phase 3 - the class "shape error" (not a construction) is independent of the construction order:
     tmpl_shape          whether Constraints.node_tmpl produces constraints only depends on the node and on which of
                         its children have an arrow / are hidden
     gen_permuted        if the reference generates constraints for a table it does for every renumbering of it
     class_order_shape   ErrClass.class_order_statement for the class 1 (EShape), for every table and valid order *)
From RS Require Import Lib.Tac Lib.Outcome Ty.Ty Core.Prog Infer.Constraints Infer.Unify Infer.Infer
  Infer.Principal Infer.Gen Infer.Theorems Infer.Order Infer.Run Infer.Rational Infer.ErrClass Infer.SlabRun Infer.SlabConstruct Infer.OrderRun.
Import ListNotations.

Definition arr_none {A} (ar : list (option A)) (c : nat) : bool := match arr_of ar c with None => true | Some _ => false end.
Definition is_none {A} (o : option A) : bool := match o with None => true | Some _ => false end.

Lemma tmpl_shape jt n n' ar ar' f nd :
  (forall c, In c (children nd) -> arr_none ar' (f c) = arr_none ar c /\ hidden_at ar' (f c) = hidden_at ar c) ->
  is_none (node_tmpl jt n' ar' (rename_node f nd)) = is_none (node_tmpl jt n ar nd).
Proof.
  intros H.
  assert (K : forall c, In c (children nd) ->
            hidden_at ar' (f c) = hidden_at ar c /\
            ((arr_of ar' (f c) = None /\ arr_of ar c = None) \/
             (exists x y x' y', arr_of ar' (f c) = Some (x', y') /\ arr_of ar c = Some (x, y)))).
  { intros c Hc. destruct (H c Hc) as [H1 H2]. split; [exact H2|]. unfold arr_none in H1.
    destruct (arr_of ar' (f c)) as [[x' y']|], (arr_of ar c) as [[x y]|]; try discriminate; [right; eauto 8|left; auto]. }
  clear H.
  destruct nd; cbn [rename_node node_tmpl children] in *; try reflexivity.
  - destruct (K c (or_introl eq_refl)) as (_ & [[E1 E2]|(x & y & x' & y' & E1 & E2)]); rewrite ?E1, ?E2; reflexivity.
  - destruct (K c (or_introl eq_refl)) as (_ & [[E1 E2]|(x & y & x' & y' & E1 & E2)]); rewrite ?E1, ?E2; reflexivity.
  - destruct (K c (or_introl eq_refl)) as (_ & [[E1 E2]|(x & y & x' & y' & E1 & E2)]); rewrite ?E1, ?E2; reflexivity.
  - destruct (K c (or_introl eq_refl)) as (_ & [[E1 E2]|(x & y & x' & y' & E1 & E2)]); rewrite ?E1, ?E2; reflexivity.
  - destruct (K l (or_introl eq_refl)) as (_ & [[E1 E2]|(x & y & x' & y' & E1 & E2)]); rewrite ?E1, ?E2;
      destruct (K r (or_intror (or_introl eq_refl))) as (_ & [[E3 E4]|(x2 & y2 & x2' & y2' & E3 & E4)]); rewrite ?E3, ?E4; reflexivity.
  - destruct (K l (or_introl eq_refl)) as (Eh1 & [[E1 E2]|(x & y & x' & y' & E1 & E2)]); rewrite ?Eh1, ?E1, ?E2;
      destruct (K r (or_intror (or_introl eq_refl))) as (Eh2 & [[E3 E4]|(x2 & y2 & x2' & y2' & E3 & E4)]); rewrite ?Eh2, ?E3, ?E4;
      destruct (hidden_at ar l); destruct (hidden_at ar r); reflexivity.
  - destruct (K l (or_introl eq_refl)) as (_ & [[E1 E2]|(x & y & x' & y' & E1 & E2)]); rewrite ?E1, ?E2;
      destruct (K r (or_intror (or_introl eq_refl))) as (_ & [[E3 E4]|(x2 & y2 & x2' & y2' & E3 & E4)]); rewrite ?E3, ?E4; reflexivity.
  - destruct r as [r|]; cbn [option_map children] in *.
    + destruct (K l (or_introl eq_refl)) as (_ & [[E1 E2]|(x & y & x' & y' & E1 & E2)]); rewrite ?E1, ?E2; [reflexivity|].
      destruct (K r (or_intror (or_introl eq_refl))) as (_ & [[E3 E4]|(x2 & y2 & x2' & y2' & E3 & E4)]); rewrite ?E3, ?E4; [reflexivity|].
      cbn [length Nat.add]. destruct (walloc 8 (2 + n')), (walloc 8 (2 + n)). reflexivity.
    + destruct (K l (or_introl eq_refl)) as (_ & [[E1 E2]|(x & y & x' & y' & E1 & E2)]); rewrite ?E1, ?E2; [reflexivity|].
      cbn [length Nat.add]. destruct (walloc 8 (2 + (2 + n'))), (walloc 8 (2 + (2 + n))). reflexivity.
  - destruct (jet_lookup jt family name_id) as [[gs gt]|]; [|reflexivity].
    destruct (galloc gs n') as [l1' r1']. destruct (galloc gt (length l1' + n')). destruct (galloc gs n) as [l1 r1]. destruct (galloc gt (length l1 + n)). reflexivity.
  - destruct (Nat.leb n0 31 && Nat.eqb (length bits) (2 ^ n0))%bool; [|reflexivity].
    destruct (walloc n0 (1 + n')), (walloc n0 (1 + n)). reflexivity.
Qed.

Lemma gen_nodes_app jt : forall l1 l2 g, gen_nodes jt (l1 ++ l2) g =
  match gen_nodes jt l1 g with Some g1 => gen_nodes jt l2 g1 | None => None end.
Proof.
  induction l1 as [|nd r IH]; intros l2 g; cbn [app gen_nodes]; [reflexivity|].
  destruct (node_tmpl jt (length (g_store g)) (g_arr g) nd) as [[[nb ne] a]|]; [apply IH|reflexivity].
Qed.

Lemma gen_prefix jt p g0 g i : gen_nodes jt p g0 = Some g -> exists Gi, gen_nodes jt (firstn i p) g0 = Some Gi.
Proof.
  intros H. rewrite <- (firstn_skipn i p) in H. rewrite gen_nodes_app in H.
  destruct (gen_nodes jt (firstn i p) g0) as [Gi|]; [eauto|discriminate].
Qed.

Lemma gen_step jt p g0 g i Gi : gen_nodes jt p g0 = Some g -> (i < length p)%nat -> gen_nodes jt (firstn i p) g0 = Some Gi ->
  is_none (node_tmpl jt (length (g_store Gi)) (g_arr Gi) (nth i p NIden)) = false.
Proof.
  intros H Hi Hp. destruct (gen_prefix jt p g0 g (S i) H) as (G2 & H2).
  rewrite (firstn_S_nth NIden p i Hi), gen_nodes_app, Hp in H2. cbn [gen_nodes] in H2.
  destruct (node_tmpl jt (length (g_store Gi)) (g_arr Gi) (nth i p NIden)); [reflexivity|discriminate].
Qed.

Lemma hidden_at_arr_none {A} (ar : list (option A)) c : (c < length ar)%nat -> hidden_at ar c = arr_none ar c.
Proof.
  intros H. unfold hidden_at, arr_none, arr_of. destruct (nth_error ar c) as [[a|]|] eqn:E; try reflexivity.
  apply nth_error_None in E. lia.
Qed.

Lemma nth_firstn_lt {A} (d : A) : forall (l : list A) i c, (c < i)%nat -> nth c (firstn i l) d = nth c l d.
Proof.
  induction l as [|x l IH]; intros [|i] [|c] H; cbn; try reflexivity; try lia. apply IH. lia.
Qed.

Lemma prefix_arrows jt p i Gi : gen_nodes jt (firstn i p) empty_g = Some Gi -> (i <= length p)%nat ->
  length (g_arr Gi) = i /\ forall c, (c < i)%nat -> arr_none (g_arr Gi) c = is_hidden (nth c p NIden).
Proof.
  intros H Hi. destruct (gen_nodes_inv jt _ _ _ ginv_empty H) as (_ & s2 & e2 & a2 & _ & _ & Ea & La).
  cbn [empty_g g_arr app] in Ea. rewrite firstn_length_le in La by exact Hi. split; [rewrite Ea; exact La|].
  intros c Hc. pose proof (gen_arr_hidden jt _ _ _ ginv_empty H c ltac:(rewrite firstn_length_le by exact Hi; exact Hc)) as HH.
  cbn [empty_g g_arr length Nat.add] in HH. rewrite (nth_firstn_lt NIden p i c Hc) in HH.
  unfold arr_none. destruct (arr_of (g_arr Gi) c) as [a|]; destruct (is_hidden (nth c p NIden)); try reflexivity.
  - destruct HH as [_ HH]. discriminate (HH eq_refl).
  - destruct HH as [HH _]. discriminate (HH eq_refl).
Qed.

Lemma children_rename f nd : children (rename_node f nd) = map f (children nd).
Proof. destruct nd; try reflexivity. destruct r; reflexivity. Qed.

Theorem gen_permuted jt p p' pi pinv g : perm_of (length p) pi pinv -> permuted pi p p' -> topo p -> topo p' ->
  gen jt p = Some g -> exists g', gen jt p' = Some g'.
Proof.
  intros P [Lp Hp] T T' G. set (n := length p) in *.
  assert (Hk : forall k, (k <= n)%nat -> exists G', gen_nodes jt (firstn k p') empty_g = Some G').
  { induction k as [|k IH]; intros Hk; [exists empty_g; reflexivity|].
    destruct (IH ltac:(lia)) as (G' & HG').
    assert (Lk : (k < n)%nat) by lia.
    set (i := pinv k). pose proof (pinv_lt _ _ _ P k Lk) as Li. fold i in Li.
    assert (Ek : nth k p' NIden = rename_node pi (nth i p NIden)).
    { rewrite <- (pi_pinv _ _ _ P k Lk). fold i. apply Hp. exact Li. }
    destruct (gen_prefix jt p empty_g g i G) as (Gi & HGi).
    pose proof (gen_step jt p empty_g g i Gi G Li HGi) as St.
    destruct (prefix_arrows jt p i Gi HGi ltac:(fold n; lia)) as [Lai Ai].
    destruct (prefix_arrows jt p' k G' HG' ltac:(rewrite Lp; fold n; lia)) as [Lak Ak].
    rewrite (firstn_S_nth NIden p' k ltac:(rewrite Lp; exact Lk)), gen_nodes_app, HG'. cbn [gen_nodes].
    assert (Sh : is_none (node_tmpl jt (length (g_store G')) (g_arr G') (nth k p' NIden)) = false).
    { rewrite Ek, <- St. apply tmpl_shape. intros c Hc.
      pose proof (T i c Li Hc) as Lc.
      assert (Lpc : (pi c < k)%nat).
      { apply (T' k (pi c)); [rewrite Lp; exact Lk|]. rewrite Ek, children_rename. apply in_map. exact Hc. }
      rewrite (hidden_at_arr_none (g_arr G') (pi c)) by lia. rewrite (hidden_at_arr_none (g_arr Gi) c) by lia.
      rewrite (Ak (pi c) Lpc), (Ai c Lc), (Hp c ltac:(lia)), is_hidden_rename. auto. }
    destruct (node_tmpl jt (length (g_store G')) (g_arr G') (nth k p' NIden)) as [[[nb ne] a]|]; [eauto|discriminate]. }
  destruct (Hk n ltac:(lia)) as (g' & Hg'). rewrite firstn_all2 in Hg' by (rewrite Lp; fold n; lia). exists g'. exact Hg'.
Qed.

Lemma infer_shape_iff jt root p : infer jt root p = Err EShape <->
  (gen jt p = None \/ exists g, gen jt p = Some g /\ root_tmpl g root = None).
Proof.
  split.
  - intros H. destruct (gen jt p) as [g|] eqn:G; [|left; reflexivity]. right. exists g. split; [reflexivity|].
    destruct (root_tmpl g root) as [[rb re]|] eqn:R; [|reflexivity].
    destruct (infer_err_kinds jt root p g rb re _ G R H) as [E|[E|E]]; discriminate.
  - intros [G|(g & G & R)]; unfold infer; rewrite G; [reflexivity|rewrite R; reflexivity].
Qed.

(* one direction; the other one by the inverse renumbering *)
Lemma shape_transfer (jt : jet_table) (root : option nat) (p p' : prog) (pi pinv : nat -> nat) :
  perm_of (length p) pi pinv -> permuted pi p p' -> topo p -> topo p' ->
  (forall r, root = Some r -> (r < length p)%nat) ->
  infer jt (option_map pi root) p' = Err EShape -> infer jt root p = Err EShape.
Proof.
  intros P Pm T T' Hr H. pose proof Pm as [Lp Hp].
  apply infer_shape_iff. apply infer_shape_iff in H.
  destruct (gen jt p) as [g|] eqn:G; [|left; reflexivity]. right. exists g. split; [reflexivity|].
  destruct (gen_permuted jt p p' pi pinv g P Pm T T' G) as (g' & G').
  destruct H as [H|(g2 & G2 & R2)]; [congruence|]. rewrite G' in G2. injection G2 as <-.
  destruct root as [r|]; [|discriminate R2]. cbn [option_map root_tmpl] in *. specialize (Hr r eq_refl).
  pose proof (gen_arr_hidden jt p empty_g g ginv_empty G r Hr) as H1. cbn [empty_g g_arr length Nat.add] in H1.
  pose proof (gen_arr_hidden jt p' empty_g g' ginv_empty G' (pi r) ltac:(rewrite Lp; apply (pi_lt _ _ _ P); exact Hr)) as H2.
  cbn [empty_g g_arr length Nat.add] in H2. rewrite (Hp r Hr), is_hidden_rename in H2.
  destruct (arr_of (g_arr g') (pi r)) as [[rs rt]|] eqn:A2; [discriminate|].
  destruct (arr_of (g_arr g) r) as [[rs rt]|] eqn:A1; [|reflexivity].
  destruct H1 as [_ H1]. discriminate (H1 (proj1 H2 eq_refl)).
Qed.

Theorem class_order_shape : forall (jt : jet_table) (program : bool) (p : prog) (order : list nat),
  valid_order (length p) order = true -> wf_from 0 p = true -> wf_from 0 (permute p order) = true ->
  (class_of (infer jt (root_of program p (pos_of order)) (permute p order)) = 1%N <->
   class_of (infer jt (root_of program p (fun i => i)) p) = 1%N).
Proof.
  intros jt program p order V W W'.
  assert (C1 : forall r, class_of r = 1%N <-> r = Err EShape).
  { intros r. destruct r as [tau|e| |]; cbn [class_of]; try (split; intros; discriminate).
    destruct e; cbn; split; intros E; try discriminate; try reflexivity. destruct stage as [|q]; try discriminate; destruct q; discriminate. }
  rewrite !C1.
  destruct (Nat.eq_dec (length p) 0) as [N0|N0].
  - assert (Ep : p = []) by (destruct p; [reflexivity|cbn in N0; lia]).
    destruct (valid_order_facts _ _ V) as [L _]. rewrite N0 in L.
    assert (Eo : order = []) by (destruct order; [reflexivity|cbn in L; lia]).
    subst p order. destruct program; vm_compute; tauto.
  - pose proof (valid_order_perm _ _ V) as P. pose proof (permute_permuted p order V) as Pm.
    pose proof (wf_prog_topo _ W) as T. pose proof (wf_prog_topo _ W') as T'.
    assert (Er : option_map (pos_of order) (root_of program p (fun i => i)) = root_of program p (pos_of order))
      by (unfold root_of; destruct program; reflexivity).
    assert (Hr : forall r, root_of program p (fun i => i) = Some r -> (r < length p)%nat).
    { intros r E. unfold root_of in E. destruct program; [|discriminate]. injection E as <-. lia. }
    split; intros H.
    + apply (shape_transfer jt _ p (permute p order) (pos_of order) (fun k => nth k order 0%nat) P Pm T T' Hr). rewrite Er. exact H.
    + pose proof (permuted_inv _ _ _ _ P Pm T) as Pm'. pose proof (perm_of_inv _ _ _ P) as P'.
      destruct Pm as [Lp Hp].
      apply (shape_transfer jt (root_of program p (pos_of order)) (permute p order) p (fun k => nth k order 0%nat) (pos_of order)
               ltac:(rewrite Lp; exact P') Pm' T' T).
      * intros r E. rewrite Lp. rewrite <- Er in E. destruct (root_of program p (fun i => i)) as [r0|]; [|discriminate].
        injection E as <-. apply (pi_lt _ _ _ P). apply Hr. reflexivity.
      * rewrite <- Er. destruct (root_of program p (fun i => i)) as [r0|] eqn:E0; cbn [option_map]; [|exact H].
        rewrite (pinv_pi _ _ _ P r0 (Hr r0 eq_refl)). exact H.
Qed.

(* accepted / shape error / type error (Bind at either stage or OccursCheck): this three-way class is the same for
   every valid construction order of every table *)
Definition coarse_class (c : N) : N := match c with 0%N => 0%N | 1%N => 1%N | _ => 2%N end.

Theorem class_order_coarse : forall (jt : jet_table) (program : bool) (p : prog) (order : list nat),
  valid_order (length p) order = true -> wf_from 0 p = true -> wf_from 0 (permute p order) = true ->
  coarse_class (class_of (infer jt (root_of program p (pos_of order)) (permute p order))) =
  coarse_class (class_of (infer jt (root_of program p (fun i => i)) p)).
Proof.
  intros jt program p order V W W'.
  pose proof (class_order_zero jt program p order V W W') as Z.
  pose proof (class_order_shape jt program p order V W W') as S1.
  destruct (class_of (infer jt (root_of program p (pos_of order)) (permute p order))) as [|[q|q|]];
    destruct (class_of (infer jt (root_of program p (fun i => i)) p)) as [|[q'|q'|]]; cbn [coarse_class]; try reflexivity;
    try (destruct Z as [Z1 Z2]; first [discriminate (Z1 eq_refl)|discriminate (Z2 eq_refl)]);
    try (destruct S1 as [S2 S3]; first [discriminate (S2 eq_refl)|discriminate (S3 eq_refl)]).
Qed.
