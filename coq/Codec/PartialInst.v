(* C02 - the re-encoding theorem for sharing ids that are absent on some nodes, in the form announced in
   Props/C02.v (C02_reencode_partial_ids_statement). *)
From RS Require Import Lib.Tac Lib.Outcome Lib.Bits Lib.ListExtra Lib.Sweep Bits.Natural Bits.BitIter
  Codec.NodeCodec Codec.Linearise Codec.Decode Codec.Structure Codec.Partial.
Import ListNotations.
Local Open Scope N_scope.

Lemma filter_le1_unique {A} (f : A -> bool) (l : list A) x y :
  (length (filter f l) <= 1)%nat -> In x (filter f l) -> In y (filter f l) -> x = y.
Proof.
  intros L Hx Hy. destruct (filter f l) as [|a [|b r]]; cbn [length] in L; try lia.
  - destruct Hx.
  - destruct Hx as [<-|[]], Hy as [<-|[]]. reflexivity.
Qed.

Lemma existsb_eqb_In c l : existsb (N.eqb c) l = true <-> In c l.
Proof.
  rewrite existsb_exists. split.
  - intros (x & Hx & E). apply N.eqb_eq in E. subst. exact Hx.
  - intros H. exists c. split; [exact H|apply N.eqb_refl].
Qed.

Theorem reencode_partial_ids :
  forall (jet : Type) (jet_okb : jet -> bool) (ns : list (dnode jet)) (key : N -> option N),
  wf_nodes jet jet_okb 0 ns ->
  (forall p q k, p < N.of_nat (length ns) -> q < N.of_nat (length ns) -> key p = Some k -> key q = Some k -> p = q) ->
  (forall p, p < N.of_nat (length ns) -> key p = None ->
     (length (filter (fun q => existsb (N.eqb p) (dchildren (node_at ns q))) (upto (length ns))) <= 1)%nat /\
     forall q, In p (dchildren (node_at ns q)) -> dchildren (node_at ns q) = [p] \/ exists c, c <> p /\ (dchildren (node_at ns q) = [p; c] \/ dchildren (node_at ns q) = [c; p])) ->
  dec_struct ns = Ok tt -> linearise ns key = ns.
Proof.
  intros jet jet_okb ns key Hwf Hinj Hnone Hdec.
  assert (Hne : ns <> []) by (intros ->; discriminate Hdec).
  set (bound := N.of_nat (length ns)).
  pose proof (tch_wf jet jet_okb ns Hwf) as Hchwf.
  assert (Har : forall n, (length (tch jet ns n) <= 2)%nat).
  { intros n. unfold tch. destruct (node_at ns n); cbn; lia. }
  assert (Hpar_lt : forall c q, In c (tch jet ns q) -> q < bound).
  { intros c q Hc. unfold tch, node_at in Hc. destruct (N.lt_ge_cases q bound) as [H|H]; [exact H|].
    rewrite nth_overflow in Hc by (unfold bound in H; lia). destruct Hc. }
  assert (Hup : forall c q1 q2, c < bound -> key c = None -> In c (tch jet ns q1) -> In c (tch jet ns q2) -> q1 = q2).
  { intros c q1 q2 Hc Hk H1 H2. destruct (Hnone c Hc Hk) as [L _].
    apply (filter_le1_unique (fun q => existsb (N.eqb c) (dchildren (node_at ns q))) (upto (length ns)) q1 q2).
    - exact L.
    - apply filter_In. split; [apply in_upto, (Hpar_lt c q1 H1)|apply existsb_eqb_In; exact H1].
    - apply filter_In. split; [apply in_upto, (Hpar_lt c q2 H2)|apply existsb_eqb_In; exact H2]. }
  assert (Hslot : forall n a b, tch jet ns n = [a; b] -> (key a = None \/ key b = None) -> a <> b).
  { intros n a b E Hk Eab. subst b.
    assert (Ha : In a (tch jet ns n)) by (rewrite E; left; reflexivity).
    pose proof (Hpar_lt a n Ha) as Ln. pose proof (Hchwf n a Ha) as La.
    assert (Hka : key a = None) by tauto.
    destruct (Hnone a ltac:(unfold bound in *; lia) Hka) as [_ S].
    unfold tch in E, Ha. destruct (S n Ha) as [E1|(c & Hc & [E1|E1])]; rewrite E in E1; congruence. }
  unfold linearise.
  change (fun n : N => dchildren (node_at ns n)) with (tch jet ns).
  rewrite (traverse_partial (tch jet ns) key bound Hchwf Har Hinj Hup Hslot).
  - apply (reencode_id jet jet_okb ns key_ptr (fun p => p) Hwf (fun p _ => eq_refl) (fun p q _ _ E => E) Hdec).
  - unfold bound. destruct ns; [congruence|cbn [length]; lia].
Qed.

(* non-vacuity: a commitment-time shape - a witness node (no id) below a pair, referenced once *)
Example reencode_partial_ex :
  let ns : list (dnode N) := [DWitness; DUnit; DPair 0 1; DUnit; DComp 2 3] in
  let key := key_list [None; Some 0; None; Some 1; None] in
  dec_struct ns = Ok tt /\ linearise ns key = ns.
Proof. vm_compute. auto. Qed.
