(* C15 - The Elements environment shown to jets is the supplied transaction.
   Level "other": the theorems below are about the model Env/TxSpec.v (an abstract transaction
   and the specified result of 63 introspection jets).  The tie to /repo is the correspondence
   check of tools/props/c15.py (specification vs one-jet programs on ElementsEnv, and jets vs an
   oracle reading the elements structures); SHA-256, the C code and pointer lifetimes are not
   modelled.  Only pinned statements, `exact lemma` and `Print Assumptions`. *)
From RS Require Import Lib.Tac Lib.Bits Ty.Ty Env.TxSpec.
Import ListNotations.
Local Open Scope N_scope.

(* 1. for every transaction, every jet and every input word (indices in and out of range alike):
   the specified result, when the jet does not fail, is a value of the jet's target type *)
Theorem C15_spec_typed : forall j t arg v, jet_spec j t arg = Some v -> has_ty v (jet_target j) = true.
Proof. exact spec_typed. Qed.
Print Assumptions C15_spec_typed.

(* 2. words are encoded big-endian, most significant bit first *)
Theorem C15_word_encoding : forall n v, compact_enc (wordN n v) = bits_be (Nat.pow 2 n) v.
Proof. exact wordN_compact. Qed.
Print Assumptions C15_word_encoding.

(* 3. indexed jets: the documented absent value for every out-of-range index, the selected field otherwise *)
Theorem C15_input_out_of_range : forall f t i, N.of_nat (length (tx_inputs t)) <= i ->
  jet_spec (J_input f) t i = Some (SL SU) /\ forall g, jet_spec (J_input_ix g) t i = Some (SL SU).
Proof. exact input_out_of_range. Qed.
Print Assumptions C15_input_out_of_range.

Theorem C15_input_in_range : forall f t i, i < N.of_nat (length (tx_inputs t)) ->
  exists inp, nthN (tx_inputs t) i = Some inp /\ jet_spec (J_input f) t i = Some (SR (in_field_val f inp)).
Proof. exact input_in_range. Qed.
Print Assumptions C15_input_in_range.

Theorem C15_output_out_of_range : forall f t i, N.of_nat (length (tx_outputs t)) <= i ->
  jet_spec (J_output f) t i = Some (SL SU).
Proof. exact output_out_of_range. Qed.
Print Assumptions C15_output_out_of_range.

Theorem C15_output_in_range : forall f t i, i < N.of_nat (length (tx_outputs t)) ->
  exists o, nthN (tx_outputs t) i = Some o /\ jet_spec (J_output f) t i = Some (SR (out_field_val f o)).
Proof. exact output_in_range. Qed.
Print Assumptions C15_output_in_range.

(* 4. current_X is input_X at the current index; it fails exactly when that index selects no input *)
Theorem C15_current_agrees_with_indexed : forall f t,
  match jet_spec (J_current f) t 0 with
  | Some v => jet_spec (J_input f) t (tx_ix t) = Some (SR v)
  | None => jet_spec (J_input f) t (tx_ix t) = Some (SL SU) /\ N.of_nat (length (tx_inputs t)) <= tx_ix t
  end.
Proof. exact current_agrees_with_indexed. Qed.
Print Assumptions C15_current_agrees_with_indexed.

(* 5. the annex is the last witness element when it starts with 0x50, without that byte *)
Theorem C15_annex_spec : forall i,
  annex_of i = match in_wit_last i with
               | Some (80, h) => Some h
               | _ => None
               end.
Proof. exact annex_spec. Qed.
Print Assumptions C15_annex_spec.

(* 6. the views of an issuance are mutually consistent *)
Theorem C15_issuance_views : forall i,
  match iss_kind_of i with
  | NoIss => in_field_ix_val G_issuance i = SL SU /\ in_field_val F_issuance_asset_amount i = SL SU /\
             in_field_val F_new_issuance_contract i = SL SU /\ in_field_val F_reissuance_entropy i = SL SU /\
             iss_asset_proof i = empty_hash /\ iss_token_proof i = empty_hash
  | NewIss => in_field_ix_val G_issuance i = SR (SL SU) /\
              in_field_val F_new_issuance_contract i = SR (wordN 8 (in_entropy i)) /\
              in_field_val F_reissuance_entropy i = SL SU /\ in_field_val F_reissuance_blinding i = SL SU
  | ReIss => in_field_ix_val G_issuance i = SR (SR SU) /\
             in_field_val F_new_issuance_contract i = SL SU /\
             in_field_val F_reissuance_entropy i = SR (wordN 8 (in_entropy i)) /\
             in_field_val F_reissuance_blinding i = SR (wordN 8 (in_blinding_nonce i)) /\
             in_field_val F_issuance_token_amount i = SR (SR (wordN 6 0)) /\ iss_token_proof i = empty_hash
  end.
Proof. exact issuance_views. Qed.
Print Assumptions C15_issuance_views.

(* 7. an input whose is_pegin flag is clear is reported as not a pegin (code after /repo commit 06fd3e7) *)
Theorem C15_pegin_follows_flag : forall t i inp, nthN (tx_inputs t) i = Some inp -> in_is_pegin inp = false ->
  jet_spec (J_input F_pegin) t i = Some (SR (SL SU)).
Proof. exact pegin_follows_flag. Qed.
Print Assumptions C15_pegin_follows_flag.

(* 8. the marshalling as it was before that commit (pegin witness alone decides) violated it: fixed finding *)
Theorem C15_pegin_follows_flag_before_fix_refuted :
  ~ (forall inp, in_is_pegin inp = false -> pegin_of_before_fix inp = None).
Proof. exact pegin_follows_flag_before_fix_refuted. Qed.
Print Assumptions C15_pegin_follows_flag_before_fix_refuted.

(* ================================================================== hash-composition jets (phase 2)
   Model: Env/TxHashes.v - the 28 SHA-256 composition jets as functions of the abstract
   transaction, computed with the executable SHA-256 of Merkle/Sha256.v (Uint63 primitives).
   Scripts, scriptSigs, annexes and proofs enter as their hashes (data), as in the C structures. *)
From RS Require Import Env.TxHashes.

(* 9. every hash jet returns a value of its target type (2^256, or option 2^256 for the indexed
   ones), for every transaction and every input word *)
Theorem C15_hjet_typed : forall j t arg, has_ty (hjet_spec j t arg) (hjet_target j) = true.
Proof. exact hjet_typed. Qed.
Print Assumptions C15_hjet_typed.

(* 10. sig_all_hash is a function of the committed view: version, lock time, current index, genesis
   hash, script root, leaf version, internal key, control-block path, and per input / output the
   byte strings of in_view / out_view *)
Theorem C15_sig_all_hash_view : forall t, sig_all_hash t = sig_all_of_view (view_of t).
Proof. exact sig_all_hash_view. Qed.
Print Assumptions C15_sig_all_hash_view.

Theorem C15_sig_all_hash_depends_on_view : forall t t', view_of t = view_of t' -> sig_all_hash t = sig_all_hash t'.
Proof. exact sig_all_hash_depends_on_view. Qed.
Print Assumptions C15_sig_all_hash_depends_on_view.

(* 11. the view of an input / output is a function of these readings of it *)
Theorem C15_in_view_ext : forall i j,
  pegin_of i = pegin_of j -> in_txid i = in_txid j -> in_vout i = in_vout j -> in_sequence i = in_sequence j ->
  annex_of i = annex_of j -> in_u_asset i = in_u_asset j -> in_u_value i = in_u_value j ->
  in_u_script_hash i = in_u_script_hash j -> iss_kind_of i = iss_kind_of j -> iss_asset i = iss_asset j ->
  iss_token i = iss_token j -> in_amount i = in_amount j -> token_amount i = token_amount j ->
  iss_asset_proof i = iss_asset_proof j -> iss_token_proof i = iss_token_proof j ->
  in_blinding_nonce i = in_blinding_nonce j -> in_entropy i = in_entropy j ->
  in_view i = in_view j.
Proof. exact in_view_ext. Qed.
Print Assumptions C15_in_view_ext.

Theorem C15_out_view_ext : forall o p,
  out_asset o = out_asset p -> out_value o = out_value p -> out_nonce o = out_nonce p ->
  out_script_hash o = out_script_hash p -> out_range_proof o = out_range_proof p -> out_surj_proof o = out_surj_proof p ->
  out_view o = out_view p.
Proof. exact out_view_ext. Qed.
Print Assumptions C15_out_view_ext.

(* 12. fields outside the view do not change the digest: the transaction id; the scriptSigs; the pegin
   witness of an input whose is_pegin flag is clear; the issuance range proofs that the rules of
   issuance_asset_proof / issuance_token_proof replace by the empty hash; of an output the
   empty-script flag, the parsed null data and the proofs of explicit fields *)
Theorem C15_sig_all_indep_txid : forall t x, sig_all_hash (set_txid t x) = sig_all_hash t.
Proof. exact sig_all_indep_txid. Qed.
Print Assumptions C15_sig_all_indep_txid.

Theorem C15_sig_all_indep_script_sig : forall t (f : tx_input -> N),
  sig_all_hash (set_inputs t (map (fun i => set_script_sig (f i) i) (tx_inputs t))) = sig_all_hash t.
Proof. exact sig_all_indep_script_sig. Qed.
Print Assumptions C15_sig_all_indep_script_sig.

Theorem C15_sig_all_indep_unflagged_pegin : forall t (f : tx_input -> option N),
  sig_all_hash (set_inputs t (map (fun i => set_pegin_data (f i) i) (tx_inputs t))) = sig_all_hash t.
Proof. exact sig_all_indep_unflagged_pegin. Qed.
Print Assumptions C15_sig_all_indep_unflagged_pegin.

Theorem C15_sig_all_indep_unused_proofs : forall t (fa fk : tx_input -> N),
  sig_all_hash (set_inputs t (map (fun i => set_rp (fa i) (fk i) i) (tx_inputs t))) = sig_all_hash t.
Proof. exact sig_all_indep_unused_proofs. Qed.
Print Assumptions C15_sig_all_indep_unused_proofs.

Theorem C15_sig_all_indep_output_extra : forall t fe fnd fs fr,
  sig_all_hash (set_outputs t (map (fun o => set_out_extra (fe o) (fnd o) (fs o) (fr o) o) (tx_outputs t))) = sig_all_hash t.
Proof. exact sig_all_indep_output_extra. Qed.
Print Assumptions C15_sig_all_indep_output_extra.
