(* Entry points of the correspondence checks of C05 / C07 with the extended jet dispatcher
   [jet_spec2] (Jets/JetSpecAll.v): the same functions as Core/Run.v with the jet semantics and
   the jet typing as parameters, instantiated with [jet_spec2] / [jet_spec2_ty]. *)
From RS Require Import Lib.Tac Lib.Outcome Lib.Bits Ty.Ty Core.Prog Core.Term Core.Typing Core.Sem
  Core.Bounds Core.Limits Core.Machine Core.Run Jets.JetSpec Jets.JetSpecSha Jets.JetSpecAll.
Import ListNotations.
Local Open Scope N_scope.

Section Gen.
  Variable jty : N -> option arrow.
  Variable jsem : N -> sval -> option sval.

  Definition run_exec_gen (prof : N) (p : typed_prog) (cm : cmr_table) (jc : list (N * N))
      (inp : option (ty * list N)) : list N :=
    match root_term p cm with
    | None => [7]
    | Some t =>
        let pr := prof_of prof in
        let jcost := lookup_cost jc in
        let b := bounds jcost t in
        let head := head_of b (bw (src t)) (bw (tgt t)) in
        match for_program pr jcost t with
        | Err e => 2 :: head ++ show_limit e
        | Panic _ => [9]
        | OutOfFuel => [8]
        | Ok st0 =>
            let inp' := match inp with None => None | Some (ty, bits) => Some (ty, N_to_bits bits) end in
            0 :: head ++ [msize (mem st0); machine_cap jcost t; b2n (wt jty t)] ++
            match machine_exec pr jcost jsem t (mem st0) inp' with
            | Ok (st, bits) =>
                let v := of_padded (tgt t) bits in
                let c := compact_enc v in
                [0; hwc st; hwf st; N.of_nat (length c)] ++ show_bits c ++
                [N.of_nat (length bits)] ++ show_bits bits
            | Err (e, st) => [1; hwc st; hwf st] ++ show_error e
            | Panic _ => [9]
            | OutOfFuel => [8]
            end
        end
    end.

  Definition run_eval_gen (p : typed_prog) (cm : cmr_table) (a : sval) : list N :=
    match root_term p cm with
    | None => [7]
    | Some t =>
        match eval jsem t a with
        | ROk b => 0 :: show_bits (compact_enc b)
        | RErr (Pruned c) => 1 :: 1 :: c
        | RErr (FailNode e) => 1 :: 2 :: e
        | RErr JetFailed => [1; 3]
        | RStuck => [6]
        end
    end.
End Gen.

Definition run_exec2 := run_exec_gen jet_spec2_ty jet_spec2.
Definition run_eval2 := run_eval_gen jet_spec2.
Definition run_jet_names2 : list (list N) := jet_table_names2.

