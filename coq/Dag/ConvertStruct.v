(* C18 - structure of the result of Node::convert for the converters that keep everything
   (witness, disconnected child, cached data) and only decide, per Case node, what to hide:
   the converted vector is a closed-form table over the iterator items.  With "hide nothing"
   it is the quotient DAG: one node per yielded class, each child pointer replaced by the
   position of the child's class. *)
From RS Require Import Lib.Tac Lib.Outcome Dag.DagModel Dag.PostOrderSpec Dag.PostOrderProps
  Dag.VisitFacts Dag.Convert Dag.ConvertProps.
Import ListNotations.
Local Open Scope N_scope.

Definition idx_of (o : option N) : nat := match o with Some i => N.to_nat i | None => O end.

(* the source combinator with its child pointers replaced by the item's child indices; the
   disconnected child (Option<Arc<..>>) by the converted right child *)
Definition reidx {W} (i : inner nat (option nat) W) (li ri : option N) : inner nat (option nat) W :=
  match i with
  | IIden => IIden | IUnit => IUnit
  | IInjL _ => IInjL (idx_of li) | IInjR _ => IInjR (idx_of li)
  | ITake _ => ITake (idx_of li) | IDrop _ => IDrop (idx_of li)
  | IComp _ _ => IComp (idx_of li) (idx_of ri)
  | ICase _ _ => ICase (idx_of li) (idx_of ri)
  | IAssertL _ h => IAssertL (idx_of li) h
  | IAssertR h _ => IAssertR h (idx_of li)
  | IPair _ _ => IPair (idx_of li) (idx_of ri)
  | IDisconnect _ _ => IDisconnect (idx_of li) (option_map N.to_nat ri)
  | IWitness w => IWitness w
  | IFail e => IFail e | IJet j => IJet j | IWord w => IWord w
  end.

Section Struct.
Context {W D Er : Type}.
Notation SN := (@snode (option nat) W D).
Notation TN := (@tnode (option nat) W (option D)).
Variable t : list SN.
Variable dec : po_item -> hide.       (* the decision of prune_case, per item *)

Definition dis_id : option nat -> option nat := fun x => x.

(* keeps witnesses and cached data, re-attaches the converted disconnected child, hides by `dec` *)
Definition prune_cv : @converter (option nat) W (option nat) W (option D) unit Er :=
  {| cv_visit := fun s _ => s;
     cv_witness := fun s _ w => (s, ROk w);
     cv_disconnect := fun s _ _ mc _ => (s, ROk mc);
     cv_prune := fun s it _ _ _ => (s, ROk (dec it));
     cv_data := fun s it _ _ => (s, ROk (option_map sn_data (nth_error t (it_node it)))) |}.

Definition hide_inner (conv : list TN) (h : hide) (i : inner nat (option nat) W)
  : inner nat (option nat) W :=
  match i with
  | ICase l r => apply_hide conv h l r
  | x => x
  end.

Definition spec_node (conv : list TN) (it : po_item) (sn : SN) : TN :=
  mk_tnode (hide_inner conv (dec it) (reidx (sn_inner sn) (it_left it) (it_right it)))
           (sn_cmr sn) (Some (sn_data sn)).

Fixpoint spec_tbl (items : list po_item) (conv : list TN) : list TN :=
  match items with
  | [] => conv
  | it :: rest =>
      match nth_error t (it_node it) with
      | Some sn => spec_tbl rest (conv ++ [spec_node conv it sn])
      | None => conv
      end
  end.

Lemma conv_item_prune it sn conv :
  nth_error t (it_node it) = Some sn ->
  slot_ok (left_child_of (as_dag dis_id (sn_inner sn))) (it_left it) (length conv) ->
  slot_ok (right_child_of (as_dag dis_id (sn_inner sn))) (it_right it) (length conv) ->
  conv_item prune_cv t it tt conv = Ok (tt, spec_node conv it sn).
Proof.
  intros Hn Hl Hr. unfold conv_item, spec_node. rewrite Hn.
  destruct (sn_inner sn) as [| |c|c|c|c|l r|l r|c h|h c|l r|c x|w|e|j|w] eqn:Ei;
    cbn [as_dag left_child_of right_child_of] in Hl, Hr;
    try (unfold dis_id in Hl, Hr; destruct x as [rr|]; cbn [left_child_of right_child_of] in Hl, Hr);
    destruct (it_left it) as [li|]; try (exfalso; exact Hl);
    destruct (it_right it) as [ri|]; try (exfalso; exact Hr);
    unfold slot_ok in Hl, Hr;
    repeat match goal with
    | H : (N.to_nat ?j < length conv)%nat |- _ =>
        let x := fresh "x" in let E := fresh "E" in
        destruct (nth_error_lt conv (N.to_nat j) H) as (x & E); clear H
    end;
    repeat (first
      [ progress cbn [idx_inner unwrap_idx omap obind wit_inner disc_inner clone_inner prune_inner lift_hook
                      prune_cv cv_visit cv_witness cv_disconnect cv_prune cv_data reidx hide_inner idx_of
                      option_map]
      | progress unfold clone_idx, maybe_converted
      | match goal with
        | H : nth_error conv _ = Some _ |- _ => rewrite H
        end ]);
    rewrite ?Hn; reflexivity.
Qed.
End Struct.

Section WholeStruct.
Context {W D Er : Type}.
Variable key : nat -> option N.
Variable t : list (@snode (option nat) W D).
Hypothesis Hwf : swf dis_id t.
Variable root : nat.
Hypothesis Hroot : (root < length t)%nat.
Variable dec : po_item -> hide.
Notation ch := (src_children dis_id t).
Notation items := (po_spec ch key root).

Lemma spec_tbl_length : forall rest conv,
  (forall it, In it rest -> exists sn, nth_error t (it_node it) = Some sn) ->
  length (spec_tbl t dec rest conv) = (length conv + length rest)%nat.
Proof.
  induction rest as [|it rest IH]; intros conv H; cbn [spec_tbl length]; [lia|].
  destruct (H it (or_introl eq_refl)) as (sn & ->).
  rewrite IH by (intros; apply H; right; assumption). rewrite app_length. cbn. lia.
Qed.

Lemma conv_items_prune : forall rest pre conv,
  items = pre ++ rest -> length conv = length pre -> (rest <> [] \/ conv <> []) ->
  conv_items (@prune_cv W D Er t dec) t rest tt conv = Ok (tt, spec_tbl t dec rest conv).
Proof.
  induction rest as [|it rest IH]; intros pre conv Hsplit Hlen Hne; cbn [conv_items spec_tbl].
  - unfold conv_finish. destruct conv; [|reflexivity]. destruct Hne as [H|H]; contradiction H; reflexivity.
  - assert (Hi : nth_error items (length pre) = Some it).
    { rewrite Hsplit, nth_error_app2 by lia. rewrite Nat.sub_diag. reflexivity. }
    destruct (item_node_in dis_id key t Hwf root Hroot it (nth_error_In _ _ Hi)) as (sn & Hn).
    destruct (item_slots dis_id key t Hwf root Hroot _ _ _ Hi Hn) as [Hl Hr]. rewrite <- Hlen in Hl, Hr.
    rewrite (conv_item_prune t dec it sn conv Hn Hl Hr). cbn [obind]. rewrite Hn.
    apply (IH (pre ++ [it])).
    + rewrite <- app_assoc. exact Hsplit.
    + rewrite !app_length, Hlen. reflexivity.
    + right. destruct conv; discriminate.
Qed.

(* THEOREM convert_structure (pruning converter): the converted vector is the closed-form table
   `spec_tbl`: item by item the source combinator over the item's child indices, a Case
   turned into AssertL / AssertR as decided, carrying the CMR of the hidden converted child *)
Theorem convert_structure_prune fuel : (po_fuel ch root <= fuel)%nat ->
  convert dis_id (@prune_cv W D Er t dec) key t fuel root tt = Ok (tt, spec_tbl t dec items []).
Proof.
  intros Hf. rewrite (convert_items dis_id _ key t Hwf root Hroot fuel tt Hf).
  apply (conv_items_prune items [] []); [reflexivity|reflexivity|].
  left. apply (items_nonempty dis_id key t Hwf root).
Qed.
End WholeStruct.

Section Quotient.
Context {W D Er : Type}.
Variable key : nat -> option N.
Variable t : list (@snode (option nat) W D).
Hypothesis Hwf : swf dis_id t.
Variable root : nat.
Hypothesis Hroot : (root < length t)%nat.
Notation ch := (src_children dis_id t).
Notation items := (po_spec ch key root).

(* the quotient DAG: one node per item, the item's node over the item's child indices *)
Definition quot_node (it : po_item) (sn : @snode (option nat) W D) : @tnode (option nat) W (option D) :=
  mk_tnode (reidx (sn_inner sn) (it_left it) (it_right it)) (sn_cmr sn) (Some (sn_data sn)).
Definition quot_tbl (its : list po_item) : list (@tnode (option nat) W (option D)) :=
  flat_map (fun it => match nth_error t (it_node it) with Some sn => [quot_node it sn] | None => [] end) its.

Lemma hide_neither (conv : list (@tnode (option nat) W (option D))) i : hide_inner conv HideNeither i = i.
Proof. destruct i; reflexivity. Qed.

Lemma spec_tbl_neither : forall rest conv,
  (forall it, In it rest -> exists sn, nth_error t (it_node it) = Some sn) ->
  spec_tbl t (fun _ => HideNeither) rest conv = conv ++ quot_tbl rest.
Proof.
  induction rest as [|it rest IH]; intros conv H; cbn [spec_tbl quot_tbl flat_map].
  - rewrite app_nil_r. reflexivity.
  - destruct (H it (or_introl eq_refl)) as (sn & ->).
    rewrite IH by (intros; apply H; right; assumption).
    unfold spec_node, quot_node. rewrite hide_neither. rewrite <- app_assoc. reflexivity.
Qed.

(* THEOREM convert_structure (identity converter): the result is the quotient DAG *)
Theorem convert_structure_identity fuel : (po_fuel ch root <= fuel)%nat ->
  convert dis_id (@prune_cv W D Er t (fun _ => HideNeither)) key t fuel root tt = Ok (tt, quot_tbl items).
Proof.
  intros Hf. rewrite (convert_structure_prune key t Hwf root Hroot (fun _ => HideNeither) fuel Hf).
  rewrite spec_tbl_neither; [reflexivity|].
  intros it Hin. apply (item_node_in dis_id key t Hwf root Hroot it Hin).
Qed.
End Quotient.
