(* C03 - one program, one encoding: the program bytes the reference accepts are determined by the
   table it decodes (the output of the bit writer on the encoder's bits of that table), hence two
   accepted byte strings that decode to the same table are equal.  From Codec's reencode_bytes
   (Codec/Main.v) instantiated with the real Elements jet code, and Bits/BitIter.v bi_close_iff
   (close succeeds exactly when no byte remains and all unread bits are zero). *)
From Coq Require Import Uint63 String.
From RS Require Import Lib.Tac Lib.Outcome Lib.Bits Lib.ListExtra Lib.Sweep Ty.Ty Core.Prog
  Bits.Natural Bits.BitIter Bits.BitWriter
  Jets.JetTable Jets.JetLemmas Jets.CheckElements Generated.Jets_elements
  Codec.NodeCodec Codec.ProgCodec Codec.Linearise Codec.Decode Codec.Structure Codec.Main Codec.RealJets
  Cdiff.Reference Cdiff.ReferenceProofs.
Import ListNotations.
Local Open Scope N_scope.

(* ------------------------------------------------------------------ bits of a reader positioned after [pos] bits *)
Lemma skipn_bits_be k : forall n x, (k <= n)%nat -> skipn k (bits_be n x) = bits_be (n - k) x.
Proof.
  induction k as [|k IH]; intros n x H; [rewrite Nat.sub_0_r; reflexivity|].
  destruct n as [|n]; [lia|]. cbn [bits_be skipn]. rewrite IH by lia. reflexivity.
Qed.

Lemma bits_of_bytes_len bs : length (bits_of_bytes bs) = (8 * length bs)%nat.
Proof.
  induction bs as [|b bs IH]; [reflexivity|].
  cbn [bits_of_bytes flat_map]. fold (bits_of_bytes bs). rewrite app_length, IH.
  unfold bits_of_byte. rewrite bits_be_length. cbn [length]. lia.
Qed.

Lemma skipn_bits_of_bytes q : forall bs, skipn (8 * q) (bits_of_bytes bs) = bits_of_bytes (skipn q bs).
Proof.
  induction q as [|q IH]; intros bs; [reflexivity|].
  destruct bs as [|b bs]; [reflexivity|].
  replace (8 * S q)%nat with (8 + 8 * q)%nat by lia.
  cbn [bits_of_bytes flat_map]. fold (bits_of_bytes bs).
  rewrite <- (skipn_add 8 (8 * q)).
  assert (E8 : skipn 8 (bits_of_byte b ++ bits_of_bytes bs) = bits_of_bytes bs).
  { rewrite skipn_app. unfold bits_of_byte. rewrite bits_be_length.
    rewrite skipn_all2 by (rewrite bits_be_length; lia). reflexivity. }
  rewrite E8. apply IH.
Qed.

Lemma remaining_reader_after bytes pos : (N.to_nat pos <= 8 * length bytes)%nat ->
  bi_remaining (reader_after bytes pos) = skipn (N.to_nat pos) (bits_of_bytes bytes).
Proof.
  intros Hpos. unfold bi_remaining, reader_after. cbn [bi_read_bits bi_cached bi_rest].
  set (q := N.to_nat (pos / 8)). set (s := N.to_nat (pos mod 8)).
  assert (Hqs : N.to_nat pos = (8 * q + s)%nat) by (subst q s; pose proof (N.div_mod pos 8); lia).
  assert (Hs : (s < 8)%nat) by (subst s; pose proof (N.mod_lt pos 8); lia).
  destruct (N.eqb_spec (pos mod 8) 0) as [E0|E0].
  - assert (s = 0%nat) by (subst s; lia).
    replace (N.to_nat (8 - 8)) with 0%nat by lia. cbn [bits_be app].
    replace (N.to_nat ((pos + 7) / 8)) with q by (subst q; lia).
    rewrite Hqs, H, Nat.add_0_r. symmetry. apply skipn_bits_of_bytes.
  - assert (Hs0 : (0 < s)%nat) by (subst s; lia).
    replace (N.to_nat ((pos + 7) / 8)) with (S q) by (subst q; lia).
    replace ((pos + 7) / 8 =? 0) with false by (symmetry; apply N.eqb_neq; lia).
    replace (N.to_nat ((pos + 7) / 8 - 1)) with q by (subst q; lia).
    replace (N.to_nat (8 - pos mod 8)) with (8 - s)%nat by (subst s; lia).
    assert (Hq : (q < length bytes)%nat) by lia.
    rewrite Hqs. rewrite <- (skipn_add (8 * q) s). rewrite skipn_bits_of_bytes.
    destruct (skipn q bytes) as [|b back] eqn:Esk.
    { apply (f_equal (@length N)) in Esk. rewrite skipn_length in Esk. cbn in Esk. lia. }
    assert (Hb : nth q bytes 0 = b).
    { rewrite <- (firstn_skipn q bytes) at 1. rewrite app_nth2 by (rewrite firstn_length; lia).
      rewrite firstn_length, Nat.min_l by lia. rewrite Nat.sub_diag, Esk. reflexivity. }
    rewrite Hb.
    assert (Hback : skipn (S q) bytes = back).
    { replace (S q) with (q + 1)%nat by lia. rewrite <- (skipn_add q 1), Esk. reflexivity. }
    rewrite Hback. cbn [bits_of_bytes flat_map]. fold (bits_of_bytes back).
    rewrite skipn_app. unfold bits_of_byte. rewrite bits_be_length, skipn_bits_be by lia.
    replace (s - 8)%nat with 0%nat by lia. reflexivity.
Qed.

Lemma reader_after_inv bytes pos : bytes_ok bytes -> bi_inv (reader_after bytes pos).
Proof.
  intros Hb. unfold bi_inv, reader_after. cbn [bi_read_bits bi_cached bi_rest]. repeat split.
  - destruct (N.eqb_spec (pos mod 8) 0); lia.
  - destruct (N.eqb_spec (pos mod 8) 0); [lia|]. pose proof (N.mod_lt pos 8). lia.
  - destruct ((pos + 7) / 8 =? 0); [lia|].
    destruct (Nat.lt_ge_cases (N.to_nat ((pos + 7) / 8 - 1)) (length bytes)) as [Hl|Hl].
    + unfold bytes_ok in Hb. rewrite Forall_forall in Hb. apply Hb. apply nth_In. exact Hl.
    + rewrite nth_overflow by exact Hl. lia.
  - unfold bytes_ok in *. rewrite Forall_forall in *. intros x Hx. apply Hb.
    rewrite <- (firstn_skipn (N.to_nat ((pos + 7) / 8)) bytes). apply in_or_app. right. exact Hx.
Qed.

(* a clean close: the unread bits are fewer than 8 and all zero *)
Theorem close_after_ok bytes pos : bytes_ok bytes -> (N.to_nat pos <= 8 * length bytes)%nat ->
  close_after bytes pos = Ok tt ->
  (length (skipn (N.to_nat pos) (bits_of_bytes bytes)) < 8)%nat /\
  Forall (fun b => b = false) (skipn (N.to_nat pos) (bits_of_bytes bytes)).
Proof.
  intros Hb Hpos Hc. unfold close_after in Hc.
  destruct (bi_close_iff _ (reader_after_inv bytes pos Hb)) as [Hiff _].
  destruct (proj1 Hiff Hc) as [Hrest Hall].
  rewrite remaining_reader_after in Hall by exact Hpos. split; [|exact Hall].
  unfold reader_after in Hrest. cbn [bi_rest] in Hrest.
  apply (f_equal (@length N)) in Hrest. rewrite skipn_length in Hrest. cbn [length] in Hrest.
  rewrite skipn_length, bits_of_bytes_len.
  assert (N.of_nat (length bytes) <= (pos + 7) / 8) by lia. lia.
Qed.

(* ------------------------------------------------------------------ Codec's reencode_bytes for the Elements code *)
Lemma reencode_bytes_elements : forall bytes ns r,
  bytes_ok bytes ->
  dec_prog N elements_dec (bits_of_bytes bytes) = Ok (ns, r) ->
  dec_struct ns = Ok tt ->
  (length r < 8)%nat -> Forall (fun b => b = false) r ->
  bw_out (bw_flush_all (bw_write_bits bw_new (enc_prog N elements_enc (linearise ns key_ptr)))) = bytes.
Proof.
  intros bytes ns r Hb Hd Hs Hr8 Hr0.
  apply (reencode_bytes N elements_okb elements_enc elements_dec) with (r := r) (kf := fun p => p); auto.
  - intros j r0. apply (fam_dec_enc elements_family elements_rt' elements_decode_complete elements_idx').
  - intros l j r0. apply (fam_enc_dec elements_family elements_rt' elements_decode_complete).
  - apply fam_dec_total.
Qed.

(* what the reference accepts is the writer's output for the table it decoded *)
Theorem ref_accept_reencodes pb wb a : bytes_ok pb -> reference pb wb = VAccept a ->
  bw_out (bw_flush_all (bw_write_bits bw_new (enc_prog N elements_enc (linearise (a_nodes a) key_ptr)))) = pb.
Proof.
  intros Hb H.
  destruct (reference_accept_inv _ _ _ H) as [rest vs wrest ct rt Ed Es Ec _ _ _ _ _ _ _ _ _ _ _ _ _ _].
  destruct (syntax_canon_elements _ _ _ Ed) as [Hbits _].
  assert (Hpos : N.to_nat (consumed (bits_of_bytes pb) rest) = length (enc_prog N elements_enc (a_nodes a))).
  { unfold consumed. rewrite Hbits, app_length. lia. }
  assert (Hskip : skipn (N.to_nat (consumed (bits_of_bytes pb) rest)) (bits_of_bytes pb) = rest).
  { rewrite Hpos. rewrite Hbits at 1. rewrite skipn_app, Nat.sub_diag, skipn_all. reflexivity. }
  assert (Hle : (N.to_nat (consumed (bits_of_bytes pb) rest) <= 8 * length pb)%nat).
  { rewrite Hpos, <- bits_of_bytes_len, Hbits, app_length. lia. }
  destruct (close_after_ok pb _ Hb Hle Ec) as [H8 H0]. rewrite Hskip in H8, H0.
  exact (reencode_bytes_elements pb (a_nodes a) rest Hb Ed Es H8 H0).
Qed.

(* one program, one encoding *)
Corollary ref_accept_unique_encoding pb wb a pb' wb' a' :
  bytes_ok pb -> bytes_ok pb' ->
  reference pb wb = VAccept a -> reference pb' wb' = VAccept a' ->
  a_nodes a = a_nodes a' -> pb = pb'.
Proof.
  intros Hb Hb' H H' E.
  rewrite <- (ref_accept_reencodes pb wb a Hb H), <- (ref_accept_reencodes pb' wb' a' Hb' H'), E. reflexivity.
Qed.
